import XModel.TableSel
import XModel.TableThms
/-!
# NAME SPANS for C08: `t.rows['a':'b']`, `t.rows['a':'b':'col']`

Specification of the branch of `getRowIndices` (`Table._get_row_indices`) taken by a slice one of whose ends is a
string.  Reading guide:

* `getRowIndices_spanM` — that branch, named (`spanM`, `spanEndM` transcribe the model's local code; equal by `rfl`);
* `spanResolve` — what the ends resolve to: through the index column a string end is a single-row look-up
  (`nameLookup`, equal to `getRowIndex` by `getRowIndex_name_scan`, a `scanLookup` of the index column; equal to the
  tuple look-up of `getRowIndex_scan` by `nameLookup_eq_tuple`); through another column it is the first row whose cell
  equals the end (`rowWhereCol`, `rowWhereCol_ok` / `rowWhereCol_error`); the first failing look-up is the error;
* `getRowIndices_span`, `indicesOf_span` — the selection is `slice(ia, ib+1)`, i.e. the block `spanBlock`;
  `spanBlock_spec` (any positions), `mem_spanBlock_nonneg` / `nameSpan_indices` / `nameSpan_by_name` /
  `nameSpan_by_col` (the documented reading, positions not negative); `nameSpan_error` (error clause);
* `rowsOf_span`, `rowsOf_span_col`, `rowsOf_span_indexCol`, `nameSpan_rows_indexCol(_opt)` — the selected table.

Where the model (= the code: the ends are handed to a Python slice) departs from "all `i` with `ia ≤ i ≤ ib`":
a resolved position that is NEGATIVE (only possible through an offset `name<<k`, or an integer end next to a string
end) counts from the end of the table, and a stop resolved to `-1` gives the stop `0`, an empty selection; a stop
before the start is empty, not an error; positions past the end (`name>>k`) are clamped; an integer end next to a
string end is taken as a position (index column) or looked up by value (other column); a value missing from a
non-index column is an `IndexError` (a missing name is a `KeyError`); an integer third component is a `KeyError`.
-/
namespace TableM
open Cache

/-! ### Python's `range(n)[a:b]` (no step) is a contiguous block -/

/-- Python's normalisation of one end of a slice with positive step on `n` rows: a negative value counts from the
    end, then the value is clamped into `[0, n]` -/
def clampEnd (n : Nat) (x : Int) : Nat := if x < 0 then (x + (n : Int)).toNat else min x.toNat n

theorem clampEnd_le (n : Nat) (x : Int) : clampEnd n x ≤ n := by
  unfold clampEnd; split <;> omega

/-- an end of a slice: the default when absent, the clamped value otherwise -/
def sliceEnd (n dflt : Nat) : Option Int → Nat
  | none => dflt
  | some x => clampEnd n x

/-- the positions `lo, lo+1, …, hi-1` of a table of `n` rows, as `np.arange(n)[lo:hi]` lists them -/
def block (n lo hi : Nat) : List Int := (((List.range n).drop lo).take (hi - lo)).map (fun (k : Nat) => (k : Int))

theorem getElem?_block (n lo hi : Nat) (hhi : hi ≤ n) (k : Nat) :
    (block n lo hi)[k]? = if k < hi - lo then some ((lo : Int) + (k : Int)) else none := by
  unfold block
  rw [List.getElem?_map, List.getElem?_take]
  split
  · next h =>
    rw [List.getElem?_drop, List.getElem?_range (by omega)]
    simp
  · rfl

theorem rangeMap_block (n lo hi : Nat) (hhi : hi ≤ n) :
    (List.range (if (hi : Int) > (lo : Int) then (((hi : Int) - (lo : Int) + 1 - 1) / 1).toNat else 0)).map
      (fun (k : Nat) => (lo : Int) + (k : Int) * 1) = block n lo hi := by
  apply List.ext_getElem?
  intro k
  rw [getElem?_block n _ _ hhi, List.getElem?_map]
  by_cases hk : k < hi - lo
  · have hc : k < (if (hi : Int) > (lo : Int) then (((hi : Int) - (lo : Int) + 1 - 1) / 1).toNat else 0) := by
      rw [if_pos (by omega)]; simp; omega
    rw [List.getElem?_range hc, if_pos hk]
    simp
  · have hc : ¬ k < (if (hi : Int) > (lo : Int) then (((hi : Int) - (lo : Int) + 1 - 1) / 1).toNat else 0) := by
      split
      · simp; omega
      · omega
    rw [if_neg hk, List.getElem?_eq_none (by simpa using Nat.le_of_not_lt hc)]
    rfl

theorem clampEnd_cast (n : Nat) (x : Int) :
    (if x < 0 then (if x + (n : Int) < 0 then 0 else if x + (n : Int) > n then (n : Int) else x + n)
      else (if x < 0 then 0 else if x > (n : Int) then (n : Int) else x)) = ((clampEnd n x : Nat) : Int) := by
  unfold clampEnd; split <;> (try split) <;> (try split) <;> omega

theorem pySlice_noStep (n : Nat) (a b : Option Int) :
    pySlice n a b none = .ok (block n (sliceEnd n 0 a) (sliceEnd n n b)) := by
  have h0 := rangeMap_block n
  cases a <;> cases b <;>
    simp only [pySlice, Option.getD_none, show ((1 : Int) = 0) = False from by simp, if_false,
      show ((1 : Int) > 0) = True from by simp, if_true, sliceEnd, clampEnd_cast]
  · exact congrArg Except.ok (h0 0 n (Nat.le_refl _))
  · exact congrArg Except.ok (h0 0 _ (clampEnd_le _ _))
  · exact congrArg Except.ok (h0 _ n (Nat.le_refl _))
  · exact congrArg Except.ok (h0 _ _ (clampEnd_le _ _))

/-- the block is strictly ascending (each position once) and holds exactly the positions `lo ≤ i < hi` -/
theorem block_spec (n lo hi : Nat) (hhi : hi ≤ n) :
    (block n lo hi).Pairwise (· < ·) ∧ ∀ j : Int, j ∈ block n lo hi ↔ (lo : Int) ≤ j ∧ j < (hi : Int) := by
  constructor
  · unfold block
    rw [List.pairwise_map]
    refine List.Pairwise.sublist ((List.take_sublist _ _).trans (List.drop_sublist _ _)) ?_
    exact List.Pairwise.imp (fun h => by omega) List.pairwise_lt_range
  · intro j
    rw [List.mem_iff_getElem?]
    constructor
    · rintro ⟨k, hk⟩
      rw [getElem?_block n lo hi hhi] at hk
      split at hk
      · cases hk; omega
      · cases hk
    · rintro ⟨h1, h2⟩
      refine ⟨(j - lo).toNat, ?_⟩
      rw [getElem?_block n lo hi hhi, if_pos (by omega)]
      congr 1; omega

/-! ### the name-span branch of `getRowIndices`, named -/

def isStrB : Bound → Bool
  | .str _ => true
  | _ => false

/-- the condition under which the third slice component means "look the bounds up through the index" -/
def viaIndexB (t : Tbl) : Bound → Bool
  | .none => true
  | .str s => s = t.index
  | .int _ => false

/-- transcript of the local function `endOf` of `getRowIndices` -/
def spanEndM (viaIndex : Bool) (t : Tbl) (x : Bound) (colc : Option (List Cell)) : Tbl × Except TErr (Option Int) :=
  match x with
  | .none => (t, .ok none)
  | .str s =>
    if viaIndex then (match getRowIndex t (.name s) with
      | (t1, .ok i) => (t1, .ok (some i)) | (t1, .error e) => (t1, .error e))
    else (match colc with
      | some cc => (match rowWhereCol cc (.str s) with | .ok i => (t, .ok (some i)) | .error e => (t, .error e))
      | none => (t, .error .keyError))
  | .int i =>
    if viaIndex then (t, .ok (some i))
    else (match colc with
      | some cc => (match rowWhereCol cc (.int i) with | .ok j => (t, .ok (some j)) | .error e => (t, .error e))
      | none => (t, .error .keyError))

/-- the column named by the third slice component, if any -/
def spanColM (t : Tbl) : Bound → Option (List Cell)
  | .str s => t.col s
  | _ => none

/-- transcript of the name-span branch of `getRowIndices` -/
def spanM (t : Tbl) (a b c : Bound) : Tbl × Except TErr Ix :=
  let colc := spanColM t c
  if !viaIndexB t c && colc.isNone then (t, .error .keyError) else
  match spanEndM (viaIndexB t c) t a colc with
  | (t1, .error e) => (t1, .error e)
  | (t1, .ok ia) =>
    match spanEndM (viaIndexB t c) t1 b colc with
    | (t2, .error e) => (t2, .error e)
    | (t2, .ok ib) => (t2, .ok (.slice ia (ib.map (· + 1)) none))

/-- when a bound is a string, `getRowIndices` on a slice is the name-span branch -/
theorem getRowIndices_spanM (t : Tbl) (m : String → Match) (a b c : Bound) (hs : (isStrB a || isStrB b) = true) :
    getRowIndices t m (.slice a b c) = spanM t a b c := by
  cases a <;> cases b <;> cases c <;> first | rfl | (simp [isStrB] at hs)

/-! ### single-row look-ups, as specifications -/

/-- a single-row look-up by selector string (`name`, `name::count`, `name<<k`, `name>>k`) as a scan of the index
    column: the `count`-th occurrence (0 when no count is written, negative from the last) plus the offset -/
def nameLookup (t : Tbl) (s : String) : Except TErr Int :=
  match splitNameCountOffset t s with
  | .error e => .error e
  | .ok (n, c, o) =>
    match scanLookup t.indexCol n (c.getD 0) o with
    | some i => .ok i
    | none => .error .keyError

/-- `_get_row_index('name::count<<k')` on a coherent table is that scan -/
theorem getRowIndex_name_scan (t : Tbl) (h : Coherent t) (s : String) :
    (getRowIndex t (.name s)).2 = nameLookup t s := by
  unfold nameLookup
  simp only [getRowIndex]
  cases hsp : splitNameCountOffset t s with
  | error e => rfl
  | ok r =>
    obtain ⟨n, c, o⟩ := r
    have hc : getRowCache t n c o = getRowCache t n (some (c.getD 0)) o := by
      cases c <;> rfl
    have hs := getRowCache_scan t h n (c.getD 0) o
    simp only [getRowCacheRaise, hc]
    generalize getRowCache t n (some (c.getD 0)) o = r at hs
    obtain ⟨t1, x⟩ := r
    simp only at hs
    subst hs
    cases scanLookup t.indexCol n (c.getD 0) o <;> rfl

theorem splitNameCountOffset_keeps {t t' : Tbl} (h : Keeps t t') (s : String) :
    splitNameCountOffset t' s = splitNameCountOffset t s := by
  unfold splitNameCountOffset
  rw [h.2.2.2.2.1, h.2.2.2.2.2.1, h.2.2.2.2.2.2]

theorem nameLookup_keeps {t t' : Tbl} (h : Keeps t t') (s : String) : nameLookup t' s = nameLookup t s := by
  unfold nameLookup
  rw [splitNameCountOffset_keeps h, h.indexCol]

theorem Keeps.nrows {t t' : Tbl} (h : Keeps t t') : t'.nrows = t.nrows := by
  unfold Tbl.nrows Tbl.col
  rw [h.2.2.2.1, h.2.1]

theorem Keeps.col {t t' : Tbl} (h : Keeps t t') (c : String) : t'.col c = t.col c := by
  unfold Tbl.col
  rw [h.2.1]

theorem find_enumFrom_some (v : Cell) : ∀ (c : List Cell) (s : Nat) (p : Nat × Cell),
    (enumFrom s c).find? (fun p => p.2 = v) = some p →
    ∃ k : Nat, p.1 = s + k ∧ c[k]? = some v ∧ ∀ j, j < k → c[j]? ≠ some v
  | [], s, p, h => by simp [enumFrom] at h
  | x :: c, s, p, h => by
    simp only [enumFrom, List.find?_cons] at h
    by_cases hx : x = v
    · simp only [hx, decide_true, Option.some.injEq] at h
      subst h
      exact ⟨0, rfl, by simp [hx], fun j hj => by omega⟩
    · simp only [hx, decide_false] at h
      obtain ⟨k, h1, h2, h3⟩ := find_enumFrom_some v c (s + 1) p h
      refine ⟨k + 1, by omega, by simpa using h2, ?_⟩
      intro j hj
      cases j with
      | zero => simpa using hx
      | succ j => simpa using h3 j (by omega)

theorem find_enumFrom_none (v : Cell) : ∀ (c : List Cell) (s : Nat),
    (enumFrom s c).find? (fun p => p.2 = v) = none → v ∉ c
  | [], _, _ => by simp
  | x :: c, s, h => by
    simp only [enumFrom, List.find?_cons] at h
    by_cases hx : x = v
    · simp [hx] at h
    · simp only [hx, decide_false] at h
      have := find_enumFrom_none v c (s + 1) h
      simp only [List.mem_cons, not_or]
      exact ⟨fun e => hx e.symm, this⟩

/-- `_get_row_where_col(col, v)` finds the FIRST row whose cell equals `v` -/
theorem rowWhereCol_ok (c : List Cell) (v : Cell) (i : Int) :
    rowWhereCol c v = .ok i ↔ ∃ k : Nat, i = (k : Int) ∧ c[k]? = some v ∧ ∀ j, j < k → c[j]? ≠ some v := by
  unfold rowWhereCol
  cases hf : (enumFrom 0 c).find? (fun p => p.2 = v) with
  | none =>
    have hn := find_enumFrom_none v c 0 hf
    simp only [reduceCtorEq, false_iff]
    rintro ⟨k, _, hk, _⟩
    exact hn (List.mem_of_getElem? hk)
  | some p =>
    obtain ⟨k, h1, h2, h3⟩ := find_enumFrom_some v c 0 p hf
    simp only [Except.ok.injEq]
    constructor
    · rintro rfl
      exact ⟨k, by omega, h2, h3⟩
    · rintro ⟨k', rfl, h2', h3'⟩
      have : k = k' := by
        rcases Nat.lt_trichotomy k k' with hlt | heq | hgt
        · exact absurd h2 (h3' k hlt)
        · exact heq
        · exact absurd h2' (h3 k' hgt)
      omega

/-- … and raises `IndexError` exactly when no cell equals `v` -/
theorem rowWhereCol_error (c : List Cell) (v : Cell) (e : TErr) :
    rowWhereCol c v = .error e ↔ e = .indexError ∧ v ∉ c := by
  unfold rowWhereCol
  cases hf : (enumFrom 0 c).find? (fun p => p.2 = v) with
  | none =>
    have hn := find_enumFrom_none v c 0 hf
    simp only [Except.error.injEq]
    exact ⟨fun h => ⟨h.symm, hn⟩, fun h => h.1.symm⟩
  | some p =>
    obtain ⟨k, _, h2, _⟩ := find_enumFrom_some v c 0 p hf
    simp only [reduceCtorEq, false_iff]
    rintro ⟨_, hn⟩
    exact hn (List.mem_of_getElem? h2)

/-! ### what a name span resolves to -/

/-- which column the bounds of a span are looked up in, from the third slice component: `none` = by name through
    the index column (no third component, or the index column's own name); `some cc` = by value in the column `cc`;
    an unknown column name, or an integer, is a `KeyError` -/
def spanCol (t : Tbl) : Bound → Except TErr (Option (List Cell))
  | .none => .ok none
  | .str s =>
    if s = t.index then .ok none else
    match t.col s with
    | some cc => .ok (some cc)
    | none => .error .keyError
  | .int _ => .error .keyError

/-- the position one bound of a span resolves to (`none`: the bound is absent).  Through the index: a string is a
    single-row look-up (`nameLookup`, i.e. `getRowIndex`), an integer is taken as the position itself.  Through
    another column: the first row whose cell equals the bound (`rowWhereCol`) -/
def spanEnd (t : Tbl) (colc : Option (List Cell)) : Bound → Except TErr (Option Int)
  | .none => .ok none
  | .str s =>
    match colc with
    | none => (match nameLookup t s with | .ok i => .ok (some i) | .error e => .error e)
    | some cc => (match rowWhereCol cc (.str s) with | .ok i => .ok (some i) | .error e => .error e)
  | .int i =>
    match colc with
    | none => .ok (some i)
    | some cc => (match rowWhereCol cc (.int i) with | .ok j => .ok (some j) | .error e => .error e)

/-- the two positions of a span, or the error of the first look-up that fails (column, then start, then stop) -/
def spanResolve (t : Tbl) (a b c : Bound) : Except TErr (Option Int × Option Int) :=
  match spanCol t c with
  | .error e => .error e
  | .ok colc =>
    match spanEnd t colc a with
    | .error e => .error e
    | .ok ia =>
      match spanEnd t colc b with
      | .error e => .error e
      | .ok ib => .ok (ia, ib)

theorem spanCol_error (t : Tbl) (c : Bound) (e : TErr) (hc : spanCol t c = .error e) :
    (!viaIndexB t c && (spanColM t c).isNone) = true ∧ e = .keyError := by
  cases c with
  | none => simp [spanCol] at hc
  | int i => simp only [spanCol] at hc; cases hc; simp [viaIndexB, spanColM]
  | str s =>
    simp only [spanCol] at hc
    split at hc
    · cases hc
    · next hne =>
      cases hcol : t.col s with
      | some cc => simp [hcol] at hc
      | none => simp only [hcol] at hc; cases hc; simp [viaIndexB, spanColM, hne, hcol]

theorem spanCol_none (t : Tbl) (c : Bound) (hc : spanCol t c = .ok none) : viaIndexB t c = true := by
  cases c with
  | none => rfl
  | int i => simp [spanCol] at hc
  | str s =>
    simp only [spanCol] at hc
    split at hc
    · next he => simp [viaIndexB, he]
    · cases hcol : t.col s <;> simp [hcol] at hc

theorem spanCol_some (t : Tbl) (c : Bound) (cc : List Cell) (hc : spanCol t c = .ok (some cc)) :
    viaIndexB t c = false ∧ spanColM t c = some cc := by
  cases c with
  | none => simp [spanCol] at hc
  | int i => simp [spanCol] at hc
  | str s =>
    simp only [spanCol] at hc
    split at hc
    · simp at hc
    · next hne =>
      cases hcol : t.col s with
      | none => simp [hcol] at hc
      | some cc' =>
        simp only [hcol, Except.ok.injEq, Option.some.injEq] at hc
        subst hc
        exact ⟨by simp [viaIndexB, hne], hcol⟩

theorem spanEndM_index (t : Tbl) (h : Coherent t) (x : Bound) (colc : Option (List Cell)) :
    Keeps t (spanEndM true t x colc).1 ∧ (spanEndM true t x colc).2 = spanEnd t none x := by
  cases x with
  | none => exact ⟨Keeps.refl h, rfl⟩
  | int i => exact ⟨Keeps.refl h, rfl⟩
  | str s =>
    have hk := getRowIndex_keeps t h (.name s)
    have hs := getRowIndex_name_scan t h s
    simp only [spanEndM, spanEnd, if_true]
    generalize getRowIndex t (.name s) = r at hk hs
    obtain ⟨t1, y⟩ := r
    simp only at hk hs
    subst hs
    cases nameLookup t s <;> exact ⟨hk, rfl⟩

theorem spanEndM_col (t : Tbl) (x : Bound) (cc : List Cell) :
    spanEndM false t x (some cc) = (t, spanEnd t (some cc) x) := by
  cases x with
  | none => rfl
  | int i => simp only [spanEndM, spanEnd, Bool.false_eq_true, if_false]; cases rowWhereCol cc (.int i) <;> rfl
  | str s => simp only [spanEndM, spanEnd, Bool.false_eq_true, if_false]; cases rowWhereCol cc (.str s) <;> rfl

theorem spanEnd_keeps {t t' : Tbl} (h : Keeps t t') (colc : Option (List Cell)) (x : Bound) :
    spanEnd t' colc x = spanEnd t colc x := by
  cases x <;> cases colc <;> simp only [spanEnd, nameLookup_keeps h]

/-- the Python slice a resolved span is turned into: `slice(ia, ib + 1)` -/
def spanIx (p : Option Int × Option Int) : Ix := .slice p.1 (p.2.map (· + 1)) none

/-- **name spans, `_get_row_indices`**: on a coherent table, a slice with a string bound resolves its bounds as
    `spanResolve` says and returns `slice(ia, ib + 1)`; a failing look-up is the error of the selection; only the
    name cache of the table may change -/
theorem getRowIndices_span (t : Tbl) (h : Coherent t) (m : String → Match) (a b c : Bound)
    (hs : (isStrB a || isStrB b) = true) :
    Keeps t (getRowIndices t m (.slice a b c)).1 ∧
    (getRowIndices t m (.slice a b c)).2 =
      (match spanResolve t a b c with
       | .error e => .error e
       | .ok p => .ok (spanIx p)) := by
  rw [getRowIndices_spanM t m a b c hs]
  unfold spanM spanResolve
  simp only
  cases hc : spanCol t c with
  | error e =>
    -- no usable column: `KeyError` before any look-up
    obtain ⟨hcond, he⟩ := spanCol_error t c e hc
    subst he
    rw [if_pos hcond]
    exact ⟨Keeps.refl h, rfl⟩
  | ok colc =>
    cases colc with
    | none =>
      -- through the index column
      have hv := spanCol_none t c hc
      rw [hv]
      simp only [Bool.not_true, Bool.false_and, Bool.false_eq_true, if_false]
      obtain ⟨hk1, he1⟩ := spanEndM_index t h a (spanColM t c)
      generalize spanEndM true t a (spanColM t c) = r1 at hk1 he1
      obtain ⟨t1, x1⟩ := r1
      simp only at hk1 he1
      subst he1
      cases hea : spanEnd t none a with
      | error e => exact ⟨hk1, rfl⟩
      | ok ia =>
        simp only
        obtain ⟨hk2, he2⟩ := spanEndM_index t1 hk1.1 b (spanColM t c)
        generalize spanEndM true t1 b (spanColM t c) = r2 at hk2 he2
        obtain ⟨t2, x2⟩ := r2
        simp only at hk2 he2
        subst he2
        rw [spanEnd_keeps hk1]
        cases heb : spanEnd t none b with
        | error e => exact ⟨hk1.trans hk2, rfl⟩
        | ok ib => exact ⟨hk1.trans hk2, rfl⟩
    | some cc =>
      -- through another column: the table is not touched
      obtain ⟨hv, hcc⟩ := spanCol_some t c cc hc
      rw [hv, hcc]
      simp only [Bool.not_false, Bool.true_and, Option.isNone_some, Bool.false_eq_true, if_false, spanEndM_col]
      cases hea : spanEnd t (some cc) a with
      | error e => exact ⟨Keeps.refl h, rfl⟩
      | ok ia =>
        simp only
        cases heb : spanEnd t (some cc) b with
        | error e => exact ⟨Keeps.refl h, rfl⟩
        | ok ib => exact ⟨Keeps.refl h, rfl⟩

/-! ### `rows.indices['a':'b']` -/

/-- the positions `rows.indices[...]` lists for a span resolved to `p = (ia, ib)` on `n` rows: `arange(n)[ia:ib+1]`,
    with Python's treatment of the ends (absent: `0` / `n`; negative: from the end; clamped into the table) -/
def spanBlock (n : Nat) (p : Option Int × Option Int) : List Int :=
  block n (sliceEnd n 0 p.1) (sliceEnd n n (p.2.map (· + 1)))

theorem sliceEnd_le (n : Nat) (x : Option Int) : sliceEnd n n x ≤ n := by
  cases x with
  | none => exact Nat.le_refl _
  | some x => exact clampEnd_le n x

/-- **name spans, `rows.indices[...]`** (both clauses): the bounds resolve as `spanResolve` says; when they do, the
    result is the contiguous block `spanBlock`; when one does not, the selection fails with that look-up's error -/
theorem indicesOf_span (t : Tbl) (h : Coherent t) (m : String → Match) (a b c : Bound)
    (hs : (isStrB a || isStrB b) = true) :
    Keeps t (indicesOf t m (.slice a b c)).1 ∧
    (indicesOf t m (.slice a b c)).2 =
      (match spanResolve t a b c with
       | .error e => .error e
       | .ok p => .ok (spanBlock t.nrows p)) := by
  obtain ⟨hk, he⟩ := getRowIndices_span t h m a b c hs
  simp only [indicesOf]
  generalize getRowIndices t m (.slice a b c) = r at hk he
  obtain ⟨t1, x⟩ := r
  simp only at hk he
  subst he
  cases spanResolve t a b c with
  | error e => exact ⟨hk, rfl⟩
  | ok p =>
    simp only [spanIx]
    rw [pySlice_noStep, hk.nrows]
    exact ⟨hk, rfl⟩

/-- what the block holds, for ANY resolved positions (negative ones, a stop before the start, positions past the
    end included): strictly ascending, each position once, exactly the `i` with `lo ≤ i < hi` for the normalised
    ends `lo = sliceEnd n 0 ia`, `hi = sliceEnd n n (ib + 1)` (both `≤ n`) -/
theorem spanBlock_spec (n : Nat) (p : Option Int × Option Int) :
    (spanBlock n p).Pairwise (· < ·) ∧
    ∀ j : Int, j ∈ spanBlock n p ↔
      (sliceEnd n 0 p.1 : Int) ≤ j ∧ j < (sliceEnd n n (p.2.map (· + 1)) : Int) :=
  block_spec n _ _ (sliceEnd_le n _)

/-- **the documented reading**, for resolved positions that are not negative: exactly the positions `i` of the
    table with `ia ≤ i ≤ ib`; an absent start means `0`, an absent stop means `n - 1` -/
theorem mem_spanBlock_nonneg (n : Nat) (ia ib : Option Int)
    (hia : ∀ x, ia = some x → 0 ≤ x) (hib : ∀ x, ib = some x → 0 ≤ x) (j : Int) :
    j ∈ spanBlock n (ia, ib) ↔ ia.getD 0 ≤ j ∧ j ≤ ib.getD ((n : Int) - 1) ∧ j < (n : Int) := by
  rw [(spanBlock_spec n (ia, ib)).2 j]
  cases ia with
  | none =>
    cases ib with
    | none => simp only [sliceEnd, Option.map_none, Option.getD_none]; omega
    | some y =>
      have := hib y rfl
      simp only [sliceEnd, Option.map_some, Option.getD_none, Option.getD_some, clampEnd]
      split <;> omega
  | some x =>
    have := hia x rfl
    cases ib with
    | none =>
      simp only [sliceEnd, Option.map_none, Option.getD_none, Option.getD_some, clampEnd]
      split <;> omega
    | some y =>
      have := hib y rfl
      simp only [sliceEnd, Option.map_some, Option.getD_some, clampEnd]
      split <;> split <;> omega

/-- a look-up through another column never yields a negative position -/
theorem rowWhereCol_nonneg (c : List Cell) (v : Cell) (i : Int) (h : rowWhereCol c v = .ok i) : 0 ≤ i := by
  obtain ⟨k, rfl, _⟩ := (rowWhereCol_ok c v i).mp h
  omega

theorem scanLookup_some (col : List String) (n : String) (c o i : Int) (h : scanLookup col n c o = some i) :
    ∃ k : Nat, i = (k : Int) + o := by
  unfold scanLookup at h
  simp only at h
  generalize (if c < 0 then c + ↑(occ col n) else c) = c' at h
  by_cases hc : c' < 0
  · simp [hc] at h
  · simp only [hc, if_false] at h
    cases hn : nthOcc col n c'.toNat with
    | none => simp [hn] at h
    | some k => simp only [hn, Option.some.injEq] at h; exact ⟨k, h.symm⟩

/-- a look-up by name yields a non-negative position unless an offset `<<k` moves it before the first row -/
theorem nameLookup_nonneg (t : Tbl) (s n : String) (c : Option Int) (o i : Int)
    (hsp : splitNameCountOffset t s = .ok (n, c, o)) (ho : 0 ≤ o) (h : nameLookup t s = .ok i) : 0 ≤ i := by
  unfold nameLookup at h
  simp only [hsp] at h
  cases hsc : scanLookup t.indexCol n (c.getD 0) o with
  | none => simp [hsc] at h
  | some j =>
    simp only [hsc, Except.ok.injEq] at h
    subst h
    obtain ⟨k, rfl⟩ := scanLookup_some _ _ _ _ _ hsc
    omega

/-- **name spans, headline form.**  On a coherent table, for a slice with a string bound whose bounds resolve
    (`spanResolve`: by `getRowIndex`/`nameLookup` through the index column, by `rowWhereCol` through another column)
    to non-negative positions `ia`, `ib`: `rows.indices[...]` succeeds with the positions `i` of the table such that
    `ia ≤ i ≤ ib` (absent start: `0`; absent stop: `nrows - 1`), in ascending order, each once -/
theorem nameSpan_indices (t : Tbl) (h : Coherent t) (m : String → Match) (a b c : Bound)
    (hs : (isStrB a || isStrB b) = true) (ia ib : Option Int)
    (hres : spanResolve t a b c = .ok (ia, ib))
    (hia : ∀ x, ia = some x → 0 ≤ x) (hib : ∀ x, ib = some x → 0 ≤ x) :
    ∃ l, (indicesOf t m (.slice a b c)).2 = .ok l ∧ l.Pairwise (· < ·) ∧
      ∀ j : Int, j ∈ l ↔ ia.getD 0 ≤ j ∧ j ≤ ib.getD ((t.nrows : Int) - 1) ∧ j < (t.nrows : Int) := by
  refine ⟨spanBlock t.nrows (ia, ib), ?_, (spanBlock_spec _ _).1, mem_spanBlock_nonneg _ ia ib hia hib⟩
  rw [(indicesOf_span t h m a b c hs).2, hres]

/-- **error clause**: if a bound (or the column) does not resolve, `rows.indices[...]`, `rows.mask[...]` and
    `rows[...]` all fail with that look-up's error — no rows are produced -/
theorem nameSpan_error (t : Tbl) (h : Coherent t) (m : String → Match) (a b c : Bound)
    (hs : (isStrB a || isStrB b) = true) (e : TErr) (hres : spanResolve t a b c = .error e) :
    (getRowIndices t m (.slice a b c)).2 = .error e ∧
    (indicesOf t m (.slice a b c)).2 = .error e ∧
    (maskOf t m (.slice a b c)).2 = .error e ∧
    (rowsOf t m (.slice a b c)).2 = .error e := by
  have h1 := (getRowIndices_span t h m a b c hs).2
  have h2 := (indicesOf_span t h m a b c hs).2
  rw [hres] at h1 h2
  refine ⟨h1, h2, ?_, ?_⟩
  · unfold maskOf
    generalize indicesOf t m (.slice a b c) = r at h2
    obtain ⟨t1, x⟩ := r
    simp only at h2
    subst h2
    rfl
  · unfold rowsOf
    generalize indicesOf t m (.slice a b c) = r at h2
    obtain ⟨t1, x⟩ := r
    simp only at h2
    subst h2
    rfl

/-- which error: the start is resolved before the stop, a missing name is a `KeyError`, a value missing from another
    column is an `IndexError` (this is `_get_row_where_col`), an unknown column is a `KeyError` -/
theorem spanEnd_error (t : Tbl) (colc : Option (List Cell)) (x : Bound) (e : TErr) (h : spanEnd t colc x = .error e) :
    (∃ s, x = .str s ∧ colc = none ∧ nameLookup t s = .error e) ∨
    (∃ cc v, colc = some cc ∧ (x = .str v ∧ (Cell.str v) ∉ cc ∨ ∃ i, x = .int i ∧ (Cell.int i) ∉ cc) ∧ e = .indexError) := by
  cases x with
  | none => simp [spanEnd] at h
  | str s =>
    cases colc with
    | none =>
      simp only [spanEnd] at h
      cases hn : nameLookup t s with
      | ok i => simp [hn] at h
      | error e' => simp only [hn, Except.error.injEq] at h; subst h; exact Or.inl ⟨s, rfl, rfl, hn⟩
    | some cc =>
      simp only [spanEnd] at h
      cases hn : rowWhereCol cc (.str s) with
      | ok i => simp [hn] at h
      | error e' =>
        simp only [hn, Except.error.injEq] at h; subst h
        obtain ⟨he, hm⟩ := (rowWhereCol_error cc _ _).mp hn
        exact Or.inr ⟨cc, s, rfl, Or.inl ⟨rfl, hm⟩, he⟩
  | int i =>
    cases colc with
    | none => simp [spanEnd] at h
    | some cc =>
      simp only [spanEnd] at h
      cases hn : rowWhereCol cc (.int i) with
      | ok i => simp [hn] at h
      | error e' =>
        simp only [hn, Except.error.injEq] at h; subst h
        obtain ⟨he, hm⟩ := (rowWhereCol_error cc _ _).mp hn
        exact Or.inr ⟨cc, "", rfl, Or.inr ⟨i, rfl, hm⟩, he⟩

/-! ### `rows['a':'b']`: the selected table -/

/-- the block as positions -/
def natBlock (n lo hi : Nat) : List Nat := ((List.range n).drop lo).take (hi - lo)

theorem block_eq_natBlock (n lo hi : Nat) : block n lo hi = (natBlock n lo hi).map (fun (k : Nat) => (k : Int)) := rfl

theorem natBlock_lt (n lo hi : Nat) : ∀ k ∈ natBlock n lo hi, k < n := by
  intro k hk
  have := (List.take_sublist _ _).mem hk
  have := (List.drop_sublist _ _).mem this
  exact List.mem_range.mp this

theorem normAll_cast (n : Nat) : ∀ ps : List Nat, (∀ k ∈ ps, k < n) →
    normAll n (ps.map (fun (k : Nat) => (k : Int))) = .ok ps
  | [], _ => rfl
  | k :: ps, h => by
    have hk : k < n := h k (List.mem_cons_self ..)
    have ih := normAll_cast n ps (fun j hj => h j (List.mem_cons_of_mem _ hj))
    unfold normAll at ih ⊢
    have hp : normPos n (k : Int) = some k := by
      unfold normPos
      rw [if_pos (by omega), if_pos (by simpa using hk)]
      simp
    simp only [List.map_cons, List.mapM_cons, hp, ih]
    rfl

/-- a column of the selected rows -/
theorem selectRows_col (t : Tbl) (ps : List Nat) (c : String) :
    (selectRows t ps).col c = (t.col c).map (fun v => ps.filterMap (fun k => v[k]?)) := by
  unfold selectRows Tbl.col
  exact lookupA_mapVal t.data (fun v => ps.filterMap (fun k => v[k]?)) c

theorem filterMap_getElem?_map {α β : Type} (f : α → β) (v : List α) : ∀ ps : List Nat,
    ps.filterMap (fun k => (v.map f)[k]?) = (ps.filterMap (fun k => v[k]?)).map f
  | [] => rfl
  | k :: ps => by
    simp only [List.filterMap_cons, List.getElem?_map]
    cases v[k]? with
    | none => simpa using filterMap_getElem?_map f v ps
    | some x => simpa using filterMap_getElem?_map f v ps

/-- the index column of the selected rows -/
theorem selectRows_indexCol (t : Tbl) (ps : List Nat) :
    (selectRows t ps).indexCol = ps.filterMap (fun k => t.indexCol[k]?) := by
  have hc := selectRows_col t ps t.index
  unfold Tbl.indexCol
  have hi : (selectRows t ps).index = t.index := rfl
  rw [hi, hc]
  cases t.col t.index with
  | none => simp
  | some v => simp only [Option.map_some]; exact (filterMap_getElem?_map cellStr v ps).symm

/-- rows `lo … hi-1` of a full-length column are its `drop lo` / `take (hi - lo)` -/
theorem filterMap_natBlock {α : Type} (v : List α) (lo hi : Nat) :
    (natBlock v.length lo hi).filterMap (fun k => v[k]?) = (v.drop lo).take (hi - lo) := by
  apply List.ext_getElem?
  intro k
  rw [getElem?_filterMap_inrange v _ (natBlock_lt v.length lo hi) k]
  unfold natBlock
  rw [List.getElem?_take, List.getElem?_take]
  split
  · rw [List.getElem?_drop, List.getElem?_drop]
    by_cases hk : lo + k < v.length
    · rw [List.getElem?_range hk]; rfl
    · rw [List.getElem?_eq_none (by simpa using Nat.le_of_not_lt hk),
        List.getElem?_eq_none (Nat.le_of_not_lt hk)]
      rfl
  · rfl

/-- **name spans, `rows[...]`**: the selected table is the rows `lo … hi-1` of the source (with its name cache
    possibly built), `lo`/`hi` the normalised ends of the resolved span -/
theorem rowsOf_span (t : Tbl) (h : Coherent t) (m : String → Match) (a b c : Bound)
    (hs : (isStrB a || isStrB b) = true) (p : Option Int × Option Int) (hres : spanResolve t a b c = .ok p) :
    ∃ t1, Keeps t t1 ∧ rowsOf t m (.slice a b c) =
      (t1, .ok (selectRows t1 (natBlock t.nrows (sliceEnd t.nrows 0 p.1) (sliceEnd t.nrows t.nrows (p.2.map (· + 1)))))) := by
  obtain ⟨hk, he⟩ := indicesOf_span t h m a b c hs
  rw [hres] at he
  unfold rowsOf
  generalize indicesOf t m (.slice a b c) = r at hk he
  obtain ⟨t1, x⟩ := r
  simp only at hk he
  subst he
  refine ⟨t1, hk, ?_⟩
  simp only [spanBlock, block_eq_natBlock]
  rw [hk.nrows, normAll_cast _ _ (natBlock_lt _ _ _)]

/-- **corollary, every full-length column** of the selected table is the contiguous sub-list of the source column -/
theorem rowsOf_span_col (t : Tbl) (h : Coherent t) (m : String → Match) (a b c : Bound)
    (hs : (isStrB a || isStrB b) = true) (p : Option Int × Option Int) (hres : spanResolve t a b c = .ok p)
    (cn : String) (v : List Cell) (hv : t.col cn = some v) (hlen : v.length = t.nrows) :
    ∃ r, (rowsOf t m (.slice a b c)).2 = .ok r ∧
      r.col cn = some ((v.drop (sliceEnd t.nrows 0 p.1)).take
        (sliceEnd t.nrows t.nrows (p.2.map (· + 1)) - sliceEnd t.nrows 0 p.1)) := by
  obtain ⟨t1, hk, he⟩ := rowsOf_span t h m a b c hs p hres
  refine ⟨_, by rw [he], ?_⟩
  rw [selectRows_col, hk.col, hv, ← hlen]
  simp only [Option.map_some, filterMap_natBlock]

/-- **corollary, the index column** (of a table whose index column has the table's length — any `Rect` table) -/
theorem rowsOf_span_indexCol (t : Tbl) (h : Coherent t) (m : String → Match) (a b c : Bound)
    (hs : (isStrB a || isStrB b) = true) (p : Option Int × Option Int) (hres : spanResolve t a b c = .ok p)
    (hlen : t.indexCol.length = t.nrows) :
    ∃ r, (rowsOf t m (.slice a b c)).2 = .ok r ∧
      r.indexCol = (t.indexCol.drop (sliceEnd t.nrows 0 p.1)).take
        (sliceEnd t.nrows t.nrows (p.2.map (· + 1)) - sliceEnd t.nrows 0 p.1) := by
  obtain ⟨t1, hk, he⟩ := rowsOf_span t h m a b c hs p hres
  refine ⟨_, by rw [he], ?_⟩
  rw [selectRows_indexCol, hk.indexCol, ← hlen, filterMap_natBlock]

theorem drop_take_clamp {α : Type} (v : List α) (x y : Nat) :
    (v.drop (min x v.length)).take (min y v.length - min x v.length) = (v.drop x).take (y - x) := by
  apply List.ext_getElem?
  intro k
  rw [List.getElem?_take, List.getElem?_take, List.getElem?_drop, List.getElem?_drop]
  by_cases hx : x < v.length
  · have e : min x v.length = x := by omega
    rw [e]
    by_cases h1 : k < min y v.length - x
    · rw [if_pos h1, if_pos (by omega)]
    · rw [if_neg h1]
      by_cases h2 : k < y - x
      · rw [if_pos h2, List.getElem?_eq_none (by omega)]
      · rw [if_neg h2]
  · have e : min x v.length = v.length := by omega
    rw [e, List.getElem?_eq_none (by omega), List.getElem?_eq_none (by omega)]
    simp

theorem Rect.indexCol_length {t : Tbl} (h : Rect t) : t.indexCol.length = t.nrows := by
  obtain ⟨v, hv, hl⟩ := h.2 t.index h.1
  unfold Tbl.indexCol
  rw [hv]
  simpa using hl

/-- **the documented reading**: both bounds resolved to positions `ia`, `ib` (not negative): the selected table's
    index column is `List.drop ia` then `List.take (ib + 1 - ia)` of the source's -/
theorem nameSpan_rows_indexCol (t : Tbl) (h : Coherent t) (hr : Rect t) (m : String → Match) (a b c : Bound)
    (hs : (isStrB a || isStrB b) = true) (ia ib : Nat)
    (hres : spanResolve t a b c = .ok (some (ia : Int), some (ib : Int))) :
    ∃ r, (rowsOf t m (.slice a b c)).2 = .ok r ∧
      r.indexCol = (t.indexCol.drop ia).take (ib + 1 - ia) := by
  have hlen := hr.indexCol_length
  obtain ⟨r, h1, h2⟩ := rowsOf_span_indexCol t h m a b c hs _ hres hlen
  refine ⟨r, h1, ?_⟩
  rw [h2]
  simp only [sliceEnd, Option.map_some, clampEnd]
  rw [if_neg (by omega), if_neg (by omega)]
  have e1 : ((ia : Int)).toNat = ia := by omega
  have e2 : ((ib : Int) + 1).toNat = ib + 1 := by omega
  rw [e1, e2, ← hlen]
  exact drop_take_clamp t.indexCol ia (ib + 1)

/-- the same with either bound absent: an absent start is `drop 0`, an absent stop takes everything to the end -/
theorem nameSpan_rows_indexCol_opt (t : Tbl) (h : Coherent t) (hr : Rect t) (m : String → Match) (a b c : Bound)
    (hs : (isStrB a || isStrB b) = true) (ia ib : Option Nat)
    (hres : spanResolve t a b c = .ok (ia.map (fun (k : Nat) => (k : Int)), ib.map (fun (k : Nat) => (k : Int)))) :
    ∃ r, (rowsOf t m (.slice a b c)).2 = .ok r ∧
      r.indexCol = (match ib with
        | some y => (t.indexCol.drop (ia.getD 0)).take (y + 1 - ia.getD 0)
        | none => t.indexCol.drop (ia.getD 0)) := by
  have hlen := hr.indexCol_length
  obtain ⟨r, h1, h2⟩ := rowsOf_span_indexCol t h m a b c hs _ hres hlen
  refine ⟨r, h1, ?_⟩
  rw [h2, ← hlen]
  have hlo : sliceEnd t.indexCol.length 0 (ia.map (fun (k : Nat) => (k : Int))) = min (ia.getD 0) t.indexCol.length := by
    cases ia with
    | none => simp [sliceEnd]
    | some x =>
      simp only [sliceEnd, Option.map_some, clampEnd, Option.getD_some]
      rw [if_neg (by omega)]
      have : ((x : Int)).toNat = x := by omega
      rw [this]
  rw [hlo]
  cases ib with
  | none =>
    simp only [Option.map_none, sliceEnd]
    have := drop_take_clamp t.indexCol (ia.getD 0) t.indexCol.length
    rw [Nat.min_self] at this
    rw [this]
    exact List.take_of_length_le (by simp)
  | some y =>
    simp only [Option.map_some, sliceEnd, clampEnd]
    rw [if_neg (by omega)]
    have : ((y : Int) + 1).toNat = y + 1 := by omega
    rw [this]
    exact drop_take_clamp t.indexCol (ia.getD 0) (y + 1)

/-- the look-up of a bound `'name::count<<k'` is the look-up of the tuple `(name, count, offset)` of
    `getRowIndex_scan` (count 0 when none is written) -/
theorem nameLookup_eq_tuple (t : Tbl) (h : Coherent t) (s n : String) (c : Option Int) (o : Int)
    (hsp : splitNameCountOffset t s = .ok (n, c, o)) :
    nameLookup t s = (getRowIndex t (.tup n (c.getD 0) (some o))).2 := by
  rw [getRowIndex_scan t h n (c.getD 0) (some o)]
  unfold nameLookup
  simp only [hsp, Option.getD_some]
  cases scanLookup t.indexCol n (c.getD 0) o <;> rfl

/-! ### the two documented forms, stated directly on the look-up functions -/

/-- **`t.rows['sa':'sb']`** (also `t.rows['sa':'sb':index]`): with `ia`, `ib` the positions the single-row look-up
    `getRowIndex` gives for the two selector strings (not negative), the result is exactly the positions
    `ia ≤ i ≤ ib` of the table, ascending, each once -/
theorem nameSpan_by_name (t : Tbl) (h : Coherent t) (m : String → Match) (sa sb : String) (c : Bound)
    (hc : c = .none ∨ c = .str t.index) (ia ib : Int)
    (ha : (getRowIndex t (.name sa)).2 = .ok ia) (hb : (getRowIndex t (.name sb)).2 = .ok ib)
    (hia : 0 ≤ ia) (hib : 0 ≤ ib) :
    ∃ l, (indicesOf t m (.slice (.str sa) (.str sb) c)).2 = .ok l ∧ l.Pairwise (· < ·) ∧
      ∀ j : Int, j ∈ l ↔ ia ≤ j ∧ j ≤ ib ∧ j < (t.nrows : Int) := by
  rw [getRowIndex_name_scan t h] at ha hb
  have hcol : spanCol t c = .ok none := by
    rcases hc with rfl | rfl
    · rfl
    · simp [spanCol]
  have hres : spanResolve t (.str sa) (.str sb) c = .ok (some ia, some ib) := by
    simp only [spanResolve, hcol, spanEnd, ha, hb]
  exact nameSpan_indices t h m _ _ c rfl (some ia) (some ib) hres
    (fun x hx => by cases hx; exact hia) (fun x hx => by cases hx; exact hib)

/-- **`t.rows['va':'vb':'col']`**, `col` another column: with `ia`, `ib` the FIRST rows whose cell in that column
    equals the bound (`rowWhereCol`), the result is exactly the positions `ia ≤ i ≤ ib` of the table -/
theorem nameSpan_by_col (t : Tbl) (h : Coherent t) (m : String → Match) (va vb cn : String) (cc : List Cell)
    (hne : cn ≠ t.index) (hcc : t.col cn = some cc) (ia ib : Int)
    (ha : rowWhereCol cc (.str va) = .ok ia) (hb : rowWhereCol cc (.str vb) = .ok ib) :
    ∃ l, (indicesOf t m (.slice (.str va) (.str vb) (.str cn))).2 = .ok l ∧ l.Pairwise (· < ·) ∧
      ∀ j : Int, j ∈ l ↔ ia ≤ j ∧ j ≤ ib ∧ j < (t.nrows : Int) := by
  have hres : spanResolve t (.str va) (.str vb) (.str cn) = .ok (some ia, some ib) := by
    simp only [spanResolve, spanCol, hne, if_false, hcc, spanEnd, ha, hb]
  exact nameSpan_indices t h m _ _ _ rfl (some ia) (some ib) hres
    (fun x hx => by cases hx; exact rowWhereCol_nonneg _ _ _ ha)
    (fun x hx => by cases hx; exact rowWhereCol_nonneg _ _ _ hb)

/-! ### a concrete table: names `a, b, a, c`, a second column `k` -/

def spanExample : Tbl :=
  { index := "name", colNames := ["name", "k"],
    data := [("name", [.str "a", .str "b", .str "a", .str "c"]),
             ("k", [.str "p", .str "q", .str "q", .str "r"])],
    cache := none }

theorem spanExample_coherent : Coherent spanExample := Or.inl rfl

theorem spanExample_rect : Rect spanExample := by
  refine ⟨by decide, ?_⟩
  intro c hc
  have hc' : c = "name" ∨ c = "k" := by simpa [spanExample] using hc
  rcases hc' with rfl | rfl
  · exact ⟨_, rfl, rfl⟩
  · exact ⟨_, rfl, rfl⟩

/-- `'b':'a::1'` — from the row named `b` up to and including the SECOND `a`: positions 1, 2 -/
example : spanResolve spanExample (.str "b") (.str "a::1") .none = .ok (some 1, some 2) := by rfl
example : (indicesOf spanExample (fun _ _ => false) (.slice (.str "b") (.str "a::1") .none)).2 = .ok [1, 2] := by rfl
example : ((rowsOf spanExample (fun _ _ => false) (.slice (.str "b") (.str "a::1") .none)).2.toOption.map Tbl.indexCol)
    = some ["b", "a"] := by rfl
/-- a plain repeated name is its FIRST occurrence: `'a':'b'` is rows 0, 1; `'a::-1':` is rows 2, 3 -/
example : (indicesOf spanExample (fun _ _ => false) (.slice (.str "a") (.str "b") .none)).2 = .ok [0, 1] := by rfl
example : (indicesOf spanExample (fun _ _ => false) (.slice (.str "a::-1") .none .none)).2 = .ok [2, 3] := by rfl
/-- absent start; offsets: `:'b>>1'` is rows 0, 1, 2 -/
example : (indicesOf spanExample (fun _ _ => false) (.slice .none (.str "b>>1") .none)).2 = .ok [0, 1, 2] := by rfl
/-- through another column: `'q':'r':'k'` starts at the FIRST row with `k == 'q'`: rows 1, 2, 3 -/
example : (indicesOf spanExample (fun _ _ => false) (.slice (.str "q") (.str "r") (.str "k"))).2 = .ok [1, 2, 3] := by rfl
/-- errors: a missing name is a `KeyError`; a value missing from another column is an `IndexError`; an unknown
    column is a `KeyError` -/
example : (indicesOf spanExample (fun _ _ => false) (.slice (.str "b") (.str "zz") .none)).2 = .error .keyError := by rfl
example : (indicesOf spanExample (fun _ _ => false) (.slice (.str "q") (.str "zz") (.str "k"))).2 = .error .indexError := by rfl
example : (indicesOf spanExample (fun _ _ => false) (.slice (.str "q") (.str "r") (.str "nocol"))).2 = .error .keyError := by rfl
/-- corners where the model (Python's slice semantics) departs from "all `i` with `ia ≤ i ≤ ib`": a stop before the
    start is empty; a start moved before row 0 by `<<` counts from the END (`'a<<1':'c'` is `arange(4)[-1:4]`);
    a stop moved to `-1` gives `arange(4)[1:0]`, empty; a stop past the end is clamped -/
example : (indicesOf spanExample (fun _ _ => false) (.slice (.str "c") (.str "b") .none)).2 = .ok [] := by rfl
example : (indicesOf spanExample (fun _ _ => false) (.slice (.str "a<<1") (.str "c") .none)).2 = .ok [3] := by rfl
example : (indicesOf spanExample (fun _ _ => false) (.slice (.str "b") (.str "a<<1") .none)).2 = .ok [] := by rfl
example : (indicesOf spanExample (fun _ _ => false) (.slice (.str "b") (.str "c>>5") .none)).2 = .ok [1, 2, 3] := by rfl
/-- the theorems applied to the example -/
example : ∃ r, (rowsOf spanExample (fun _ _ => false) (.slice (.str "b") (.str "a::1") .none)).2 = .ok r ∧
    r.indexCol = ["b", "a"] :=
  nameSpan_rows_indexCol spanExample spanExample_coherent spanExample_rect _ (.str "b") (.str "a::1") .none rfl 1 2 rfl

end TableM
