/-!
# The numerics of one Jacobian step that C10's `max_step` clause rests on

`MeritFunctionForMatch._clip_to_max_steps` (repaired form) and the trial points of the bisection loop of
`JacobianSolver.step`, written once over an abstract record of arithmetic operations: the driver instantiates it with
IEEE doubles and replays the recorded calls bit for bit (suite `opt`, fields `clip_ok` / `trial_ok`); `XProofs/MaxStep.lean`
instantiates it with a linear ordered field and proves the bound.
-/
namespace OptNum

structure Ops (R : Type) where
  sub : R → R → R
  mul : R → R → R
  div : R → R → R
  abs : R → R
  lt : R → R → Bool
  zero : R

variable {R : Type}

/-- one iteration of the loop of `_clip_to_max_steps` for coordinate `i`: `if np.abs(out[ii]) > max_step:
    out *= max_step / np.abs(out[ii])` (the factor is computed before the in-place product) -/
def clipAt (o : Ops R) (maxs : Nat → Option R) (out : Nat → R) (i : Nat) : Nat → R :=
  match maxs i with
  | none => out
  | some m =>
    if o.lt m (o.abs (out i)) then
      let f := o.div m (o.abs (out i))
      fun j => o.mul (out j) f
    else out

def clip (o : Ops R) (maxs : Nat → Option R) (n : Nat) (x : Nat → R) : Nat → R :=
  (List.range n).foldl (clipAt o maxs) x

/-- `max_step` in solver units: `max_step / weight` when the knob has a weight -/
def maxsOf (o : Ops R) (maxStep w : Nat → Option R) (i : Nat) : Option R :=
  match maxStep i with
  | none => none
  | some m => match w i with
    | none => some m
    | some wi => some (o.div m wi)

/-- the sub-step of one bisection trial: `scaling * xstep`, zeroed where it would leave the limits -/
def trialStep (o : Ops R) (lo hi x xs : Nat → R) (scal : R) (i : Nat) : R :=
  let t := o.mul scal (xs i)
  if o.lt (o.sub (x i) t) (lo i) then o.zero
  else if o.lt (hi i) (o.sub (x i) t) then o.zero
  else t

/-- the trial point `self.x - this_xstep` -/
def trialPoint (o : Ops R) (lo hi x xs : Nat → R) (scal : R) (i : Nat) : R :=
  o.sub (x i) (trialStep o lo hi x xs scal i)

end OptNum
