/-! Executable transcription of `SVD.lstsq` (`xdeps/optimize/matrixutils.py`) on lists of doubles:
    truncate to the first `cutoff` singular values, invert the positive ones, zero those below
    `rcond * s[0]`, and form `Vhᵀ (diag(s_inv) (Uᵀ b))`. -/
namespace Lstsq

/-- `s_inv`: `1/s` where `s > 0`, then `0` where `s < rcond * s[0]` -/
def sinvOf (s : List Float) (rcond : Option Float) : List Float :=
  let s0 := s.headD 0.0
  s.map (fun x =>
    let inv := if x > 0.0 then 1.0 / x else 0.0
    match rcond with
    | some rc => if x < rc * s0 then 0.0 else inv
    | none => inv)

def dot (a b : List Float) : Float := (a.zip b).foldl (fun acc p => acc + p.1 * p.2) 0.0

def col (m : List (List Float)) (j : Nat) : List Float := m.map (fun row => row.getD j 0.0)

/-- `U`: m × k (rows), `Vh`: k × n (rows), `s`: k, `b`: m -/
def lstsq (U : List (List Float)) (s : List Float) (Vh : List (List Float)) (b : List Float)
    (rcond : Option Float) (cutoff : Nat) : List Float :=
  let k := min cutoff s.length
  let s' := s.take k
  let sinv := sinvOf s' rcond
  let utb := (List.range k).map (fun j => dot (col U j) b)            -- Uᵀ b
  let y := (sinv.zip utb).map (fun p => p.1 * p.2)                    -- diag(s_inv) (Uᵀ b)
  let vh := Vh.take k
  let n := (Vh.headD []).length
  (List.range n).map (fun i => dot (col vh i) y)                      -- Vhᵀ y

end Lstsq
