import XModel.Capstone
import XModel.IndexInv4
/-! Prototype: the two graph-soundness hypotheses of `setValue_consistent` follow from the index invariant. -/
namespace Link
open Store Push Index Capstone

/-- non-root prefixes of a path, the path itself included: what `MutableRef._get_dependencies` adds -/
def chain : Path → List Path
  | [] => []
  | s :: p => [s] :: (chain p).map (s :: ·)

theorem head_mem_chain (s : Step) (p : Path) : [s] ∈ chain (s :: p) := by simp [chain]

/-- two comparable non-root paths share their first step, which is in both chains -/
theorem comparable_chain_inter {p q : Path} (hp : p ≠ []) (hq : q ≠ []) (h : ¬ Incomparable p q) :
    ∃ x, x ∈ chain p ∧ x ∈ chain q := by
  cases p with
  | nil => exact absurd rfl hp
  | cons s p =>
    cases q with
    | nil => exact absurd rfl hq
    | cons t q =>
      simp only [Incomparable, not_or] at h
      have hst : s = t := Classical.byContradiction fun hne => h.1 hne
      subst hst
      exact ⟨[s], head_mem_chain s p, head_mem_chain s q⟩

/-- how the index-level task of an expression task is related to it (sets as duplicate-free lists) -/
structure Rep (t : ETask) (T : Task Path Path) : Prop where
  id : T.id = t.target
  deps : ∀ x, x ∈ T.deps ↔ ∃ r ∈ leafRefs t.expr, x ∈ chain r
  tars : ∀ x, x ∈ T.tars ↔ x ∈ chain t.target

/-- every expression task has its index-level counterpart registered under its target -/
def Linked (etasks : List ETask) (s : Mgr Path Path) : Prop :=
  ∀ t ∈ etasks, ∃ T, look s.tasks t.target = some T ∧ Rep t T

/-- adjacency of the ordering graph as the code reads it: the keys of `rtasks[u]` -/
def gOf (s : Mgr Path Path) (u : Path) : List Path := RC.keys (DD.get s.rtasks u)

theorem edge_of_inv (etasks : List ETask) (s : Mgr Path Path) (hinv : Inv s) (hl : Linked etasks s)
    (u t : ETask) (hu : u ∈ etasks) (ht : t ∈ etasks) (hune : u.target ≠ [])
    (hrne : ∀ r ∈ leafRefs t.expr, r ≠ [])
    (hex : ∃ r ∈ leafRefs t.expr, ¬ Incomparable u.target r) : t.target ∈ gOf s u.target := by
  obtain ⟨r, hr, hc⟩ := hex
  obtain ⟨x, hx1, hx2⟩ := comparable_chain_inter hune (hrne r hr) hc
  obtain ⟨U, hlu, repU⟩ := hl u hu
  obtain ⟨T, hlt, repT⟩ := hl t ht
  unfold gOf
  rw [RC.mem_keys_iff _ (hinv.wf2 u.target)]
  show DD.cnt2 s.rtasks u.target t.target ≥ 1
  rw [hinv.rt]
  simp only [sRt, hlu, hlt]
  apply List.length_pos_of_mem (a := x)
  exact List.mem_filter.mpr ⟨(repU.tars x).mpr hx1, by simpa using (repT.deps x).mpr ⟨r, hr, hx2⟩⟩

/-- the start set as the code computes it: every task in `deptasks[d]` for `d` in the chain of the assigned path -/
def startOf (s : Mgr Path Path) (p : Path) : List Path :=
  (chain p).flatMap (fun d => RC.keys (DD.get s.deptasks d))

theorem start_of_inv (etasks : List ETask) (s : Mgr Path Path) (hinv : Inv s) (hl : Linked etasks s)
    (p : Path) (hp : p ≠ []) (t : ETask) (ht : t ∈ etasks) (hrne : ∀ r ∈ leafRefs t.expr, r ≠ [])
    (hex : ∃ r ∈ leafRefs t.expr, ¬ Incomparable p r) : t.target ∈ startOf s p := by
  obtain ⟨r, hr, hc⟩ := hex
  obtain ⟨x, hx1, hx2⟩ := comparable_chain_inter hp (hrne r hr) hc
  obtain ⟨T, hlt, repT⟩ := hl t ht
  unfold startOf
  refine List.mem_flatMap.mpr ⟨x, hx1, ?_⟩
  rw [RC.mem_keys_iff _ (hinv.wf3 x)]
  show DD.cnt2 s.deptasks x t.target ≥ 1
  rw [hinv.dept]
  simp only [sDep, hlt]
  have : x ∈ T.deps := (repT.deps x).mpr ⟨r, hr, hx2⟩
  simp [this]

#print axioms edge_of_inv
#print axioms start_of_inv
end Link
