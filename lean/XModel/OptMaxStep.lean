import XModel.Opt
import XModel.OptFix
/-!
# What one iteration of `Optimize.step` appends to the log (for C10's `max_step` clause)

On normal return one iteration of the loop appends exactly one row; it is the container after
`set_knobs_from_x(solver.x)`, and `solver.x` is the last trial point of the solver step (or the start point when the
solver stopped right after its first evaluation).  Whatever the outcome, an iteration that raises appends nothing.
-/
namespace Opt

variable {R : Type}

/-- the solver's start point of an iteration -/
def iterX0 (c : Cfg R) (resync : Bool) (s : St R) : Nat → R := if resync then extractX c s else s.solverX

/-- the solver's point after the iteration -/
def iterX1 (c : Cfg R) (resync early : Bool) (last : Nat → R) (s : St R) : Nat → R :=
  if early then iterX0 c resync s else last

theorem solverStep_x (c : Cfg R) (jac trials : List (Nat → R)) (lastTrial : Nat → R) (pe : Bool)
    (s s' : St R) (h : solverStep c jac trials lastTrial pe s = (.ok (), s')) : s'.solverX = lastTrial := by
  simp only [solverStep, bind'] at h
  cases h1 : merit c true s.solverX s with
  | mk r1 s1 =>
    rw [h1] at h
    cases r1 with
    | error e => simp at h
    | ok u1 =>
      simp only at h
      cases h2 : meritAll c false jac s1 with
      | mk r2 s2 =>
        rw [h2] at h
        cases r2 with
        | error e => simp at h
        | ok u2 =>
          simp only at h
          cases h3 : meritAll c true trials s2 with
          | mk r3 s3 =>
            rw [h3] at h
            cases r3 with
            | error e => simp at h
            | ok u3 =>
              simp only at h
              cases h4 : merit c true lastTrial s3 with
              | mk r4 s4 =>
                rw [h4] at h
                cases r4 with
                | error e => simp at h
                | ok u4 =>
                  simp only at h
                  cases pe with
                  | true =>
                    simp only [if_true, bind', raise] at h
                    cases h5 : merit c true s.solverX s4 with
                    | mk r5 s5 => rw [h5] at h; cases r5 <;> simp at h
                  | false =>
                    simp only [Bool.false_eq_true, if_false] at h
                    cases h
                    rfl

/-- **the row one iteration appends** -/
theorem optIter_row (c : Cfg R) (resync early : Bool) (jac trials : List (Nat → R)) (last : Nat → R) (pe : Bool)
    (s s' : St R) (h : optIter c resync early jac trials last pe s = (.ok (), s')) :
    s'.solverX = iterX1 c resync early last s ∧ s'.vAct = s.vAct ∧ s'.tAct = s.tAct ∧
    s'.log = s.log ++ [⟨s'.knobs, s'.vAct, s'.tAct⟩] ∧
    (∀ i, i < c.n → s.vAct i = true → s'.knobs i = c.mulW i (iterX1 c resync early last s i)) := by
  simp only [optIter, bind'] at h
  generalize hs0 : (if resync = true then { s with solverX := extractX c s } else s) = s0 at h
  have e0 : s0.solverX = iterX0 c resync s ∧ s0.vAct = s.vAct ∧ s0.tAct = s.tAct ∧ s0.log = s.log := by
    subst hs0
    cases resync <;> simp [iterX0]
  obtain ⟨e0x, e0v, e0t, e0l⟩ := e0
  cases early with
  | true =>
    simp only [if_true, solverStepEarly] at h
    cases h1 : merit c true s0.solverX s0 with
    | mk r1 s1 =>
      rw [h1] at h
      cases r1 with
      | error e => simp at h
      | ok u =>
        obtain ⟨_, _, v1, t1, sx1, l1⟩ := merit_coh c true _ s0 s1 h1
        simp only at h
        simp only [setKnobsFromX] at h
        cases h
        refine ⟨?_, ?_, ?_, ?_, ?_⟩
        · simp only [iterX1, if_true]; rw [sx1, e0x]
        · exact v1.trans e0v
        · exact t1.trans e0t
        · simp only [l1, e0l]
        · intro i hi ha
          have ha1 : s1.vAct i = true := by rw [v1, e0v]; exact ha
          simp only [hi, ha1, and_self, if_true, iterX1]
          rw [sx1, e0x]
  | false =>
    simp only [Bool.false_eq_true, if_false] at h
    cases h1 : solverStep c jac trials last pe s0 with
    | mk r1 s1 =>
      rw [h1] at h
      cases r1 with
      | error e => simp at h
      | ok u =>
        obtain ⟨_, v1, t1, l1⟩ := solverStep_sync c jac trials last pe s0 s1 h1
        have sx1 := solverStep_x c jac trials last pe s0 s1 h1
        simp only at h
        simp only [setKnobsFromX] at h
        cases h
        refine ⟨?_, ?_, ?_, ?_, ?_⟩
        · simp only [iterX1, Bool.false_eq_true, if_false]; exact sx1
        · exact v1.trans e0v
        · exact t1.trans e0t
        · simp only [l1, e0l]
        · intro i hi ha
          have ha1 : s1.vAct i = true := by rw [v1, e0v]; exact ha
          simp only [hi, ha1, and_self, if_true, iterX1, Bool.false_eq_true, if_false]
          rw [sx1]

/-! ### an iteration that raises appends nothing -/

/-- the log is kept whatever the outcome -/
def LK {α : Type} (m : M R α) : Prop := ∀ s r s', m s = (r, s') → s'.log = s.log

theorem LK.bind {α β : Type} {m : M R α} {k : α → M R β} (hm : LK m) (hk : ∀ a, LK (k a)) : LK (bind' m k) := by
  intro s r s' h
  simp only [bind'] at h
  cases hms : m s with
  | mk r1 s1 =>
    rw [hms] at h
    have e1 := hm s r1 s1 hms
    cases r1 with
    | error e => simp only at h; cases h; exact e1
    | ok a => simp only at h; exact (hk a s1 r s' h).trans e1

theorem LK_merit (c : Cfg R) (check : Bool) (x : Nat → R) : LK (merit c check x) :=
  fun s r s' h => (merit_frame c check x s r s' h).2.2.1

theorem LK_meritAll (c : Cfg R) (check : Bool) : ∀ xs : List (Nat → R), LK (meritAll c check xs)
  | [] => fun s r s' h => by simp only [meritAll, pure'] at h; cases h; rfl
  | x :: xs => LK.bind (LK_merit c check x) (fun _ => LK_meritAll c check xs)

theorem LK_solverStep (c : Cfg R) (jac trials : List (Nat → R)) (last : Nat → R) (pe : Bool) :
    LK (solverStep c jac trials last pe) := by
  intro s r s' h
  simp only [solverStep] at h
  refine LK.bind (LK_merit c true s.solverX) (fun _ =>
    LK.bind (LK_meritAll c false jac) (fun _ =>
    LK.bind (LK_meritAll c true trials) (fun _ =>
    LK.bind (LK_merit c true last) (fun _ => ?_)))) s r s' h
  cases pe with
  | true =>
    simp only [if_true]
    exact LK.bind (LK_merit c true s.solverX) (fun _ => fun s2 r2 s2' h2 => by simp only [raise] at h2; cases h2; rfl)
  | false =>
    simp only [Bool.false_eq_true, if_false]
    intro s2 r2 s2' h2; cases h2; rfl

/-- an iteration that raises leaves the log as it was -/
theorem optIter_error_log (c : Cfg R) (resync early : Bool) (jac trials : List (Nat → R)) (last : Nat → R) (pe : Bool)
    (s s' : St R) (e : Err) (h : optIter c resync early jac trials last pe s = (.error e, s')) : s'.log = s.log := by
  simp only [optIter, bind'] at h
  generalize hs0 : (if resync = true then { s with solverX := extractX c s } else s) = s0 at h
  have e0l : s0.log = s.log := by subst hs0; cases resync <;> simp
  have key : LK (if early = true then solverStepEarly c else solverStep c jac trials last pe) := by
    cases early with
    | true => simp only [if_true]; intro s1 r1 s1' h1; exact LK_merit c true s1.solverX s1 r1 s1' h1
    | false => simp only [Bool.false_eq_true, if_false]; exact LK_solverStep c jac trials last pe
  cases h1 : (if early = true then solverStepEarly c else solverStep c jac trials last pe) s0 with
  | mk r1 s1 =>
    rw [h1] at h
    have l1 := key s0 r1 s1 h1
    cases r1 with
    | error e1 => simp only at h; cases h; exact l1.trans e0l
    | ok u =>
      simp only [setKnobsFromX] at h
      cases h


/-! ### the start row and the reload row -/

theorem merit_knobs (c : Cfg R) (check : Bool) (x : Nat → R) (s s' : St R) (h : merit c check x s = (.ok (), s')) :
    (∀ i, i < c.n → s.vAct i = true → s'.knobs i = c.mulW i (x i)) ∧
    (∀ i, (c.n ≤ i ∨ s.vAct i = false) → s'.knobs i = s.knobs i) := by
  simp only [merit, bind'] at h
  cases hw : writeKnobs c check x c.n s with
  | mk r s1 =>
    rw [hw] at h
    cases r with
    | error e => simp at h
    | ok u =>
      obtain ⟨_, _, _, _, h5, h6⟩ := writeKnobs_spec c check x c.n s s1 hw
      simp only at h
      cases hf : c.f s1.knobs with
      | none => simp [hf] at h
      | some res => simp only [hf] at h; cases h; exact ⟨h5, h6⟩

/-- `add_point_to_log` on normal return: the row is the container read before the evaluation -/
theorem addPoint_row (c : Cfg R) (s s' : St R) (h : addPoint c s = (.ok (), s')) :
    s'.log = s.log ++ [⟨s.knobs, s.vAct, s.tAct⟩] ∧ s'.vAct = s.vAct ∧ s'.solverX = s.solverX ∧
    (∀ i, i < c.n → s.vAct i = true → s'.knobs i = c.mulW i (c.divW i (s.knobs i))) ∧
    (∀ i, (c.n ≤ i ∨ s.vAct i = false) → s'.knobs i = s.knobs i) := by
  simp only [addPoint] at h
  cases hm : merit c true (extractX c s) s with
  | mk r s1 =>
    rw [hm] at h
    cases r with
    | error e => simp at h
    | ok u =>
      obtain ⟨_, _, v1, _, x1, l1⟩ := merit_coh c true _ s s1 hm
      obtain ⟨k1, k2⟩ := merit_knobs c true _ s s1 hm
      simp only at h
      cases h
      exact ⟨by simp [l1], v1, x1, k1, k2⟩

/-- whatever its outcome, `add_point_to_log` appends that row or nothing -/
theorem addPoint_log_cases (c : Cfg R) (s s' : St R) (r : Except Err Unit) (h : addPoint c s = (r, s')) :
    s'.log = s.log ∨ s'.log = s.log ++ [⟨s.knobs, s.vAct, s.tAct⟩] := by
  simp only [addPoint] at h
  cases hm : merit c true (extractX c s) s with
  | mk r1 s1 =>
    rw [hm] at h
    have l1 := LK_merit c true _ s r1 s1 hm
    cases r1 with
    | error e => simp only at h; cases h; exact Or.inl l1
    | ok u => simp only at h; cases h; exact Or.inr (by simp [l1])

/-- whatever its outcome, `reload` appends at most one row -/
theorem reload_log_cases (c : Cfg R) (i : Nat) (s s' : St R) (r : Except Err Unit) (h : reload c i s = (r, s')) :
    s'.log = s.log ∨ ∃ row, s'.log = s.log ++ [row] := by
  simp only [reload] at h
  cases hl : s.log[i]? with
  | none => simp only [hl] at h; cases h; exact Or.inl rfl
  | some row =>
    simp only [hl] at h
    rcases addPoint_log_cases c _ s' r h with h1 | h1
    · exact Or.inl h1
    · exact Or.inr ⟨_, h1⟩

end Opt
