import XModel.ManagerC20Fn
import XModel.ManagerFnHist
/-!
# C18 with function tasks: a failed update is recoverable

`ManagerC18` proves failure atomicity and recovery for states whose tasks are all expression tasks (`Scope`).  Here the
same is done for states that also hold function tasks (`ScopeF` of `ManagerFn`: a function task is a body of
`target := expression` lines run in order, every line is an *item*):

* `writeAndRun_frameF`   — a run of expression / function tasks, completed or failed at any point, changes the
                            container tree only at locations comparable with the assigned path or with an item target
                            of a triggered task;
* `writeAndRun_outsideF` — hence every item of a task outside the triggered list that held before still holds;
* `ScopeF_congr`         — `ScopeF` only looks at the task table, the indices and the fault flag, which a run leaves
                            alone (`writeAndRun_graph`); a run can change `store`, `trace`, `faultIn`, `prev` only;
* `writeAndRun_consistentF'` — C01 with function tasks needs the items of the *untriggered* tasks only to hold
                            beforehand (the triggered ones are recomputed), which is the situation after a failed run;
* `writeAndRun_recoverF`, `setValue_recoverF`, `setValue_recoverF_decided` — the recovery theorems.
-/
namespace Manager
open Store Push Index

/-! ### what a run of expression and function tasks can touch, faults included -/

/-- a function body — completed or not — leaves every location incomparable with all its targets as it was -/
theorem runBody_frame : ∀ (body : List (Path × Expr)) (s : MState) (q : Path), canonPath q →
    (∀ b ∈ body, canonPath b.1 ∧ Incomparable b.1 q) → get (runBody s body).1.store q = get s.store q
  | [], _, _, _, _ => rfl
  | (p, e) :: rest, s, q, hq, h => by
    obtain ⟨hc, hi⟩ := h (p, e) (List.mem_cons_self ..)
    simp only [runBody]
    cases hev : evalE s e with
    | error x => rfl
    | ok v =>
      simp only
      have h1 := writeRef_frame s p q v hi hc hq
      generalize writeRef s p v = r at h1 ⊢
      obtain ⟨s1, x⟩ := r
      cases x with
      | some x => exact h1
      | none =>
        simp only at h1 ⊢
        rw [runBody_frame rest s1 q hq (fun b hb => h b (List.mem_cons_of_mem _ hb)), h1]

/-- one expression or function task: only its item targets can change -/
theorem runTaskF_frame (s : MState) (t : MTask)
    (hk : (∃ e, t.kind = .expr e) ∨ ∃ body, t.kind = .func body) (q : Path) (hq : canonPath q)
    (h : ∀ it ∈ itemsOf t, canonPath it.target ∧ Incomparable it.target q) :
    get (runTask s t).1.store q = get s.store q := by
  rcases hk with ⟨e, hk⟩ | ⟨body, hk⟩
  · obtain ⟨hc, hi⟩ := h ⟨t.id, e⟩ (by simp [itemsOf, hk])
    exact runTask_frame s t e hk q hi hc hq
  · have hb := runBody_frame body { s with trace := s.trace ++ [(false, t.id)] } q hq
      (fun b hb => h ⟨b.1, b.2⟩ (by
        simp only [itemsOf, hk]
        exact List.mem_map.mpr ⟨b, hb, rfl⟩))
    simp only [runTask, hk]
    generalize runBody { s with trace := s.trace ++ [(false, t.id)] } body = r at hb ⊢
    obtain ⟨s1, x⟩ := r
    exact hb

/-- a run of expression and function tasks — completed or not, with or without injected faults — leaves every
    location that is prefix-incomparable with all their item targets as it was -/
theorem runTasksF_frame : ∀ (l : List MTask) (s : MState) (q : Path), canonPath q →
    (∀ t ∈ l, ((∃ e, t.kind = .expr e) ∨ ∃ body, t.kind = .func body) ∧
      ∀ it ∈ itemsOf t, canonPath it.target ∧ Incomparable it.target q) →
    get (runTasks s l).1.store q = get s.store q
  | [], _, _, _, _ => rfl
  | t :: l, s, q, hq, h => by
    obtain ⟨hk, hit⟩ := h t (List.mem_cons_self ..)
    have h1 := runTaskF_frame s t hk q hq hit
    simp only [runTasks]
    generalize runTask s t = r at h1
    obtain ⟨s1, x⟩ := r
    cases x with
    | some x => exact h1
    | none =>
      simp only at h1 ⊢
      rw [runTasksF_frame l s1 q hq (fun u hu => h u (List.mem_cons_of_mem _ hu)), h1]

/-- **the frame of `write + run_tasks` with function tasks.**  Whatever happens — completion, a fault at any container
    write, an evaluation error, a stale id — the container tree changes only at locations comparable with the
    assigned path `p` or with an item target of a triggered task (a task whose id the scheduler returned). -/
theorem writeAndRun_frameF (sched : Sched) (s : MState) (p : Path) (v : Val) (hp : canonPath p)
    (q : Path) (hq : canonPath q) (hpq : Incomparable p q)
    (htr : ∀ t ∈ s.defs, t.id ∈ sched (findTaskids s.idx (chainR p)) →
      ((∃ e, t.kind = .expr e) ∨ ∃ body, t.kind = .func body) ∧
      ∀ it ∈ itemsOf t, canonPath it.target ∧ Incomparable it.target q) :
    get (writeAndRun sched s p v).1.store q = get s.store q := by
  unfold writeAndRun
  have hw : get (writeRef s p v).1.store q = get s.store q := writeRef_frame s p q v hpq hp hq
  have hgw := writeRef_graph s p v
  generalize writeRef s p v = r at hw hgw
  obtain ⟨sw, x⟩ := r
  cases x with
  | some x => exact hw
  | none =>
    simp only at hw hgw ⊢
    obtain ⟨hiw, hdw, _⟩ := hgw
    rw [hiw, hdw]
    generalize hm : List.mapM (lookTask s.defs) (sched (findTaskids s.idx (chainR p))) = res
    cases res with
    | error e => exact hw
    | ok l =>
      simp only
      obtain ⟨hlmap, hlsub⟩ := mapM_lookDef s.defs _ (lookTask_ok s.defs) _ l hm
      have hlπ : ∀ t ∈ l, t.id ∈ sched (findTaskids s.idx (chainR p)) := fun t ht => by
        rw [← hlmap]; exact List.mem_map_of_mem ht
      rw [runTasksF_frame l sw q hq (fun t ht => htr t (hlsub t ht) (hlπ t ht)), hw]

/-! ### the state after a failed `write + run_tasks` -/

/-- After `write + run_tasks` in scope — whatever happens: completion, a fault at any write, an evaluation error —
    every item of a task outside the triggered list that held before still holds. -/
theorem writeAndRun_outsideF (sched : Sched) (s : MState) (p : Path) (v : Val) (hi : MInv s)
    (sc : ScopeF { s with faultIn := none } p)
    (hmemπ : ∀ x, x ∈ sched (findTaskids s.idx (chainR p)) ↔ x ∈ findTaskids s.idx (chainR p)) :
    ∀ u ∈ s.defs, u.id ∉ sched (findTaskids s.idx (chainR p)) → ∀ it ∈ itemsOf u,
      (exprSys pySem).Q it s.store → (exprSys pySem).Q it (writeAndRun sched s p v).1.store := by
  intro u hu hnot it hit hQ
  obtain ⟨_, hmem⟩ := findTaskids_once_exact s hi (chainR p)
  have memπ : ∀ x, x ∈ sched (findTaskids s.idx (chainR p)) ↔
      ∃ s0 ∈ startOf s.idx (chainR p), Dfs3.Reach (gOf s.idx) s0 x := fun x => (hmemπ x).trans (hmem x)
  have hdecl : ∀ t ∈ s.defs, DeclOK t := sc.decl
  have hpaths : ∀ t ∈ s.defs, ∀ a ∈ itemsOf t, PathOK a.target ∧ ∀ r ∈ leafRefs a.expr, PathOK r := sc.paths
  obtain ⟨hpt, hpr⟩ := hpaths u hu it hit
  -- what any triggered task satisfies
  have htrig : ∀ (q : Path), (∀ t ∈ s.defs, t.id ∈ sched (findTaskids s.idx (chainR p)) →
      ∀ a ∈ itemsOf t, Incomparable a.target q) →
      ∀ t ∈ s.defs, t.id ∈ sched (findTaskids s.idx (chainR p)) →
      ((∃ e, t.kind = .expr e) ∨ ∃ body, t.kind = .func body) ∧
      ∀ a ∈ itemsOf t, canonPath a.target ∧ Incomparable a.target q :=
    fun q hq t ht htπ => ⟨declOK_kind (hdecl t ht), fun a ha => ⟨(hpaths t ht a ha).1.2, hq t ht htπ a ha⟩⟩
  refine Q_of_frame it s.store _ hQ ?_ ?_
  · -- the reads of the item: neither the user's write nor a triggered task can touch them
    intro r hr
    refine writeAndRun_frameF sched s p v sc.pathP.2 r (hpr r hr).2 ?_ (htrig r ?_)
    · refine Classical.byContradiction fun hc => hnot ?_
      have := start_of_readF s hi p u hu (hdecl u hu) it hit sc.pathP.1 r hr (hpr r hr).1 hc
      exact (memπ u.id).mpr ⟨u.id, this, Dfs3.Reach.refl _⟩
    · intro t ht htπ a ha
      refine Classical.byContradiction fun hc => hnot ?_
      have he := edge_of_readF s hi t u ht hu (hdecl t ht) (hdecl u hu) a ha it hit (hpaths t ht a ha).1.1 r hr
        (hpr r hr).1 hc
      obtain ⟨s0, hs0, hreach⟩ := (memπ t.id).mp htπ
      exact (memπ u.id).mpr ⟨s0, hs0, hreach.tail he⟩
  · -- the target of the item
    refine writeAndRun_frameF sched s p v sc.pathP.2 it.target hpt.2 (sc.h2p u hu it hit) (htrig it.target ?_)
    intro t ht htπ a ha
    have hne : u.id ≠ t.id := fun e => hnot (e ▸ htπ)
    exact sc.h2 u hu t ht hne it hit a ha

/-- `ScopeF` only looks at the definitions, the indices and the fault flag: the components a run can change
    (`store`, `trace`, `prev`, and `faultIn`, which the caller resets) do not matter -/
theorem ScopeF_congr {s s' : MState} {p : Path} (h : ScopeF s p) (hd : s'.defs = s.defs) (hi : s'.idx = s.idx)
    (hf : s'.faultIn = none) : ScopeF s' p :=
  { decl := by rw [hd]; exact h.decl
    pathP := h.pathP
    paths := by rw [hd]; exact h.paths
    acyclic := by rw [hi]; exact h.acyclic
    h2 := by rw [hd]; exact h.h2
    h2p := by rw [hd]; exact h.h2p
    h3 := by rw [hd]; exact h.h3
    body := by rw [hd]; exact h.body
    nofault := hf }

/-- `ScopeF` transfers along any run of `write + run_tasks` (completed or failed) once the fault is removed -/
theorem ScopeF_after_run (sched : Sched) (s : MState) (p : Path) (v : Val) (k : Option Nat) (sc : ScopeF s p) :
    ScopeF { (writeAndRun sched { s with faultIn := k } p v).1 with faultIn := none } p := by
  obtain ⟨hgi, hgd, _⟩ := writeAndRun_graph sched { s with faultIn := k } p v
  exact ScopeF_congr sc hgd hgi rfl

/-! ### C01 with function tasks, from a state in which only the untriggered tasks are known to hold -/

/-- `writeAndRun_consistentF` with the weaker premise that the recovery needs: only the items of the tasks that the
    assignment does *not* trigger have to hold beforehand — the triggered ones are recomputed in dependency order. -/
theorem writeAndRun_consistentF' (sched : Sched) (s : MState) (p : Path) (v : Val) (hi : MInv s) (sc : ScopeF s p)
    (hvs : ValidSched (gOf s.idx) (findTaskids s.idx (chainR p)) (sched (findTaskids s.idx (chainR p))))
    (hc : ∀ t ∈ s.defs, t.id ∉ sched (findTaskids s.idx (chainR p)) → ∀ it ∈ itemsOf t, (exprSys pySem).Q it s.store)
    (s' : MState) (hok : writeAndRun sched s p v = (s', none)) :
    ConsistentF s' ∧ s'.defs = s.defs ∧ s'.idx = s.idx ∧ s'.frozen = s.frozen := by
  unfold writeAndRun at hok
  cases hw : writeRef s p v with
  | mk s1 x =>
    cases x with
    | some x => simp [hw] at hok
    | none =>
      simp only [hw] at hok
      obtain ⟨hset, hnf1, hd1, hi1, hf1⟩ := writeRef_nofault s p v sc.nofault s1 hw
      rw [hi1, hd1] at hok
      generalize hm : List.mapM (lookTask s.defs) (sched (findTaskids s.idx (chainR p))) = res at hok
      cases res with
      | error e => simp at hok
      | ok l =>
        simp only at hok
        obtain ⟨hlmap, hlsub⟩ := mapM_lookDef s.defs _ (lookTask_ok s.defs) _ l hm
        obtain ⟨hrun, _⟩ := runTasks_items l s1 s' hnf1 (fun t ht => declOK_kind (sc.decl t (hlsub t ht))) hok
        have hg := runTasks_graph l s1
        rw [hok] at hg
        obtain ⟨hgi, hgd, hgf⟩ := hg
        obtain ⟨_, hmem, _⟩ := findTaskids_spec s hi (chainR p) sc.acyclic
        generalize hπ : sched (findTaskids s.idx (chainR p)) = π at hvs hlmap hc
        have memπ : ∀ x, x ∈ π ↔ ∃ s0 ∈ startOf s.idx (chainR p), Dfs3.Reach (gOf s.idx) s0 x :=
          fun x => (hvs.mem x).trans (hmem x)
        have hlπ : ∀ t ∈ l, t.id ∈ π := fun t ht => by rw [← hlmap]; exact List.mem_map_of_mem ht
        have hlnd : (l.map (·.id)).Nodup := by rw [hlmap]; exact hvs.nodup
        -- non-interference from the absence of an edge
        have niOf : ∀ U ∈ s.defs, ∀ T ∈ s.defs, U.id ≠ T.id → T.id ∉ gOf s.idx U.id →
            ∀ a ∈ itemsOf U, ∀ b ∈ itemsOf T, (exprSys pySem).NI a b := by
          intro U hU T hT hne hno a ha b hb
          refine ⟨(sc.paths U hU a ha).1.2, (sc.paths T hT b hb).1.2, sc.h2 T hT U hU (fun e => hne e.symm) b hb a ha, ?_⟩
          intro r hr
          refine ⟨((sc.paths T hT b hb).2 r hr).2, Classical.byContradiction fun hcmp => hno ?_⟩
          exact edge_of_readF s hi U T hU hT (sc.decl U hU) (sc.decl T hT) a ha b hb (sc.paths U hU a ha).1.1 r hr
            ((sc.paths T hT b hb).2 r hr).1 hcmp
        have key := runAll_Q (exprSys pySem) (l.flatMap itemsOf) s1.store s'.store
          (fun it => ∃ t ∈ s.defs, t.id ∉ π ∧ it ∈ itemsOf t) hrun
          (by
            intro it hit
            obtain ⟨t, ht, hitt⟩ := List.mem_flatMap.mp hit
            exact ⟨(sc.paths t (hlsub t ht) it hitt).1.2, fun r hr =>
              ⟨((sc.paths t (hlsub t ht) it hitt).2 r hr).2, sc.h3 t (hlsub t ht) it hitt r hr⟩⟩)
          (by
            -- items of untriggered tasks still hold after the user's write
            rintro it ⟨t, ht, hnot, hit⟩
            obtain ⟨hpt, hpr⟩ := sc.paths t ht it hit
            refine Capstone.Q_after_set pySem it s.store s1.store p v (hc t ht hnot it hit) hset sc.pathP.2 hpt.2
              (sc.h2p t ht it hit) ?_
            intro r hr
            refine ⟨(hpr r hr).2, Classical.byContradiction fun hcmp => hnot ?_⟩
            have := start_of_readF s hi p t ht (sc.decl t ht) it hit sc.pathP.1 r hr (hpr r hr).1 hcmp
            exact (memπ t.id).mpr ⟨t.id, this, Dfs3.Reach.refl _⟩)
          (by
            -- and no triggered item disturbs them
            rintro it ⟨t, ht, hnot, hit⟩ u hu
            obtain ⟨U, hU, huU⟩ := List.mem_flatMap.mp hu
            have hne : U.id ≠ t.id := fun e => hnot (e ▸ hlπ U hU)
            refine niOf U (hlsub U hU) t ht hne ?_ u huU it hit
            intro hedge
            obtain ⟨s0, hs0, hreach⟩ := (memπ U.id).mp (hlπ U hU)
            exact hnot ((memπ t.id).mpr ⟨s0, hs0, hreach.tail hedge⟩))
          (by
            -- the flattened list is in dependency order
            rw [List.pairwise_flatMap]
            constructor
            · intro t ht
              refine (sc.body t (hlsub t ht)).imp_of_mem ?_
              intro a b ha hb hab
              exact ⟨(sc.paths t (hlsub t ht) b hb).1.2, (sc.paths t (hlsub t ht) a ha).1.2, hab.1,
                fun r hr => ⟨((sc.paths t (hlsub t ht) a ha).2 r hr).2, hab.2 r hr⟩⟩
            · apply Capstone.pairwise_of_before (·.id) _ l hlnd
              intro A hA B hB hne hnot
              rw [hlmap]
              -- some item of B disturbs some item of A: B is a predecessor of A
              have hedge : A.id ∈ gOf s.idx B.id := by
                refine Classical.byContradiction fun hno => hnot ?_
                intro a ha b hb
                exact niOf B (hlsub B hB) A (hlsub A hA) (fun e => hne e.symm) hno b hb a ha
              exact hvs.order B.id A.id (hlπ B hB) (hlπ A hA) hedge hne)
        refine ⟨?_, by rw [hgd, hd1], by rw [hgi, hi1], by rw [hgf, hf1]⟩
        intro t ht it hit
        rw [hgd, hd1] at ht
        by_cases hin : t.id ∈ π
        · have : t.id ∈ l.map (·.id) := by rw [hlmap]; exact hin
          obtain ⟨t', ht', hte⟩ := List.mem_map.mp this
          have : t' = t := eq_of_id_eq s.defs hi.ids t' (hlsub t' ht') t ht hte
          subst this
          exact key.2 it (List.mem_flatMap.mpr ⟨t', ht', hit⟩)
        · exact key.1 it ⟨t, ht, hin, hit⟩

/-! ### recovery -/

/-- **C18 with function tasks, recovery of `write + run_tasks`.**  Whatever the first attempt did (under the schedule
    `sched1`: fault at the k-th container write, an evaluation error, or completion), a completed second attempt
    without fault, under any legal schedule `sched2`, leaves every item of every task holding: every
    expression-defined location equals its expression and every line `target := expr` of every function body holds. -/
theorem writeAndRun_recoverF (sched1 sched2 : Sched) (s : MState) (p : Path) (v : Val) (k : Option Nat) (hi : MInv s)
    (sc : ScopeF s p)
    (hvs1 : ValidSched (gOf s.idx) (findTaskids s.idx (chainR p)) (sched1 (findTaskids s.idx (chainR p))))
    (hvs2 : ValidSched (gOf s.idx) (findTaskids s.idx (chainR p)) (sched2 (findTaskids s.idx (chainR p))))
    (hbefore : ConsistentF s)
    (s' : MState)
    (hok : writeAndRun sched2 { (writeAndRun sched1 { s with faultIn := k } p v).1 with faultIn := none } p v = (s', none)) :
    ConsistentF s' ∧ s'.defs = s.defs ∧ s'.idx = s.idx ∧ s'.frozen = s.frozen := by
  -- the state after the first attempt
  have hi1 : MInv { s with faultIn := k } := MInv_of_sameGraph (s := s) ⟨rfl, rfl, rfl⟩ hi
  have hout := writeAndRun_outsideF sched1 { s with faultIn := k } p v hi1 (ScopeF_congr sc rfl rfl rfl) hvs1.mem
  have hg := writeAndRun_graph sched1 { s with faultIn := k } p v
  generalize (writeAndRun sched1 { s with faultIn := k } p v).1 = sf at hout hg hok
  obtain ⟨hgi, hgd, hgf⟩ := hg
  have hgi' : sf.idx = s.idx := hgi
  have hgd' : sf.defs = s.defs := hgd
  have hgf' : sf.frozen = s.frozen := hgf
  have hi2 : MInv { sf with faultIn := none } := MInv_of_sameGraph (s := s) ⟨hgi', hgd', hgf'⟩ hi
  have sc2 : ScopeF { sf with faultIn := none } p := ScopeF_congr sc hgd' hgi' rfl
  have hvs2' : ValidSched (gOf sf.idx) (findTaskids sf.idx (chainR p)) (sched2 (findTaskids sf.idx (chainR p))) := by
    rw [hgi']; exact hvs2
  have hcc : ∀ t ∈ sf.defs, t.id ∉ sched2 (findTaskids sf.idx (chainR p)) → ∀ it ∈ itemsOf t,
      (exprSys pySem).Q it sf.store := by
    intro t ht hnot it hit
    have ht' : t ∈ s.defs := by rw [← hgd']; exact ht
    have hnot2 : t.id ∉ sched2 (findTaskids s.idx (chainR p)) := by rw [← hgi']; exact hnot
    have hnot1 : t.id ∉ sched1 (findTaskids s.idx (chainR p)) :=
      fun h => hnot2 ((hvs2.mem t.id).mpr ((hvs1.mem t.id).mp h))
    exact hout t ht' hnot1 it hit (hbefore t ht' it hit)
  obtain ⟨h1, h2, h3, h4⟩ := writeAndRun_consistentF' sched2 { sf with faultIn := none } p v hi2 sc2 hvs2' hcc s' hok
  exact ⟨h1, h2.trans hgd', h3.trans hgi', h4.trans hgf'⟩

/-- the same, stated for a first attempt that is known to have FAILED with the exception `x` in the state `s1` -/
theorem writeAndRun_recoverF_failed (sched1 sched2 : Sched) (s : MState) (p : Path) (v : Val) (k : Option Nat)
    (hi : MInv s) (sc : ScopeF s p)
    (hvs1 : ValidSched (gOf s.idx) (findTaskids s.idx (chainR p)) (sched1 (findTaskids s.idx (chainR p))))
    (hvs2 : ValidSched (gOf s.idx) (findTaskids s.idx (chainR p)) (sched2 (findTaskids s.idx (chainR p))))
    (hbefore : ConsistentF s)
    (s1 : MState) (x : Err) (hfail : writeAndRun sched1 { s with faultIn := k } p v = (s1, some x))
    (s' : MState) (hok : writeAndRun sched2 { s1 with faultIn := none } p v = (s', none)) :
    ConsistentF s' ∧ s'.defs = s.defs ∧ s'.idx = s.idx ∧ s'.frozen = s.frozen := by
  refine writeAndRun_recoverF sched1 sched2 s p v k hi sc hvs1 hvs2 hbefore s' ?_
  rw [hfail]
  exact hok

/-- `set_value(ref, value)` on a plain location is `write + run_tasks`, whatever the fault flag -/
theorem setValue_plain_unfold (sched : Sched) (s : MState) (p : Path) (v : Val) (hnodef : lookDef s.defs p = none) :
    setValue sched s p v = writeAndRun sched s p v := by
  unfold setValue; simp only [hnodef]

/-- **C18 with function tasks, recovery of `set_value(ref, value)` on a plain location**: after a first attempt that
    may have failed at any point (fault at the k-th container write; `k = none`: no fault), repeating the
    assignment — any legal schedule; when it completes — leaves every item of every task holding again. -/
theorem setValue_recoverF (sched1 sched2 : Sched) (s : MState) (p : Path) (v : Val) (k : Option Nat) (hi : MInv s)
    (hnodef : lookDef s.defs p = none) (sc : ScopeF s p)
    (hvs1 : ValidSched (gOf s.idx) (findTaskids s.idx (chainR p)) (sched1 (findTaskids s.idx (chainR p))))
    (hvs2 : ValidSched (gOf s.idx) (findTaskids s.idx (chainR p)) (sched2 (findTaskids s.idx (chainR p))))
    (hc : ConsistentF s)
    (s' : MState)
    (hok : setValue sched2 { (setValue sched1 { s with faultIn := k } p v).1 with faultIn := none } p v = (s', none)) :
    ConsistentF s' := by
  rw [setValue_plain_unfold sched1 { s with faultIn := k } p v hnodef] at hok
  have hd : (writeAndRun sched1 { s with faultIn := k } p v).1.defs = s.defs :=
    (writeAndRun_graph sched1 { s with faultIn := k } p v).2.1
  rw [setValue_plain_unfold sched2 _ p v (by show lookDef (writeAndRun sched1 { s with faultIn := k } p v).1.defs p = none
                                             rw [hd]; exact hnodef)] at hok
  exact (writeAndRun_recoverF sched1 sched2 s p v k hi sc hvs1 hvs2 hc s' hok).1

/-- the `set_value` form for a first attempt known to have failed -/
theorem setValue_recoverF_failed (sched1 sched2 : Sched) (s : MState) (p : Path) (v : Val) (k : Option Nat)
    (hi : MInv s) (hnodef : lookDef s.defs p = none) (sc : ScopeF s p)
    (hvs1 : ValidSched (gOf s.idx) (findTaskids s.idx (chainR p)) (sched1 (findTaskids s.idx (chainR p))))
    (hvs2 : ValidSched (gOf s.idx) (findTaskids s.idx (chainR p)) (sched2 (findTaskids s.idx (chainR p))))
    (hc : ConsistentF s)
    (s1 : MState) (x : Err) (hfail : setValue sched1 { s with faultIn := k } p v = (s1, some x))
    (s' : MState) (hok : setValue sched2 { s1 with faultIn := none } p v = (s', none)) :
    ConsistentF s' := by
  refine setValue_recoverF sched1 sched2 s p v k hi hnodef sc hvs1 hvs2 hc s' ?_
  rw [hfail]; exact hok

/-! ### decided -/

-- equality of scalar values, decided (`Val` has no `DecidableEq`; containers are answered `false`: the test is
-- sound, and complete on the scalars that expressions compute):
-- `scalarEqB` / `scalarEqB_sound` (int, None, NaN) come from XModel/ManagerFnHist.lean

/-- `ConsistentF`, decided: every item's expression evaluates to the (scalar) value stored at its target -/
def consistentFB (s : MState) : Bool :=
  s.defs.all (fun t => (itemsOf t).all (fun it =>
    match eval pySem s.store it.expr, get s.store it.target with
    | .ok a, .ok b => scalarEqB a b
    | _, _ => false))

theorem consistentFB_sound (s : MState) (h : consistentFB s = true) : ConsistentF s := by
  unfold consistentFB at h
  simp only [List.all_eq_true] at h
  intro t ht it hit
  have := h t ht it hit
  show ∃ w, eval pySem s.store it.expr = .ok w ∧ get s.store it.target = .ok w
  cases he : eval pySem s.store it.expr with
  | error e => simp [he] at this
  | ok a =>
    cases hg : get s.store it.target with
    | error e => simp [he, hg] at this
    | ok b =>
      simp only [he, hg] at this
      exact ⟨a, rfl, by rw [scalarEqB_sound a b this]⟩

/-- **recovery with function tasks, all hypotheses decided by the driver's Boolean tests** (`scopeFB`,
    `validSchedule`, and the consistency test of the state before the failed call). -/
theorem setValue_recoverF_decided (sched1 sched2 : Sched) (s : MState) (p : Path) (v : Val) (k : Option Nat)
    (hi : MInv s) (hnodef : lookDef s.defs p = none) (hsc : scopeFB s p = true)
    (hv1 : validSchedule s.idx (chainR p) (sched1 (findTaskids s.idx (chainR p))) = true)
    (hv2 : validSchedule s.idx (chainR p) (sched2 (findTaskids s.idx (chainR p))) = true)
    (hc : consistentFB s = true)
    (s' : MState)
    (hok : setValue sched2 { (setValue sched1 { s with faultIn := k } p v).1 with faultIn := none } p v = (s', none)) :
    ConsistentF s' :=
  setValue_recoverF sched1 sched2 s p v k hi hnodef (scopeFB_sound s hi p hsc)
    (validSchedule_sound s.idx (chainR p) _ hv1 (scopeFB_acyclic s p hsc))
    (validSchedule_sound s.idx (chainR p) _ hv2 (scopeFB_acyclic s p hsc))
    (consistentFB_sound s hc) s' hok

theorem writeAndRun_recoverF_decided (sched1 sched2 : Sched) (s : MState) (p : Path) (v : Val) (k : Option Nat)
    (hi : MInv s) (hsc : scopeFB s p = true)
    (hv1 : validSchedule s.idx (chainR p) (sched1 (findTaskids s.idx (chainR p))) = true)
    (hv2 : validSchedule s.idx (chainR p) (sched2 (findTaskids s.idx (chainR p))) = true)
    (hc : consistentFB s = true)
    (s' : MState)
    (hok : writeAndRun sched2 { (writeAndRun sched1 { s with faultIn := k } p v).1 with faultIn := none } p v = (s', none)) :
    ConsistentF s' ∧ s'.defs = s.defs ∧ s'.idx = s.idx ∧ s'.frozen = s.frozen :=
  writeAndRun_recoverF sched1 sched2 s p v k hi (scopeFB_sound s hi p hsc)
    (validSchedule_sound s.idx (chainR p) _ hv1 (scopeFB_acyclic s p hsc))
    (validSchedule_sound s.idx (chainR p) _ hv2 (scopeFB_acyclic s p hsc))
    (consistentFB_sound s hc) s' hok

/-! ### non-vacuity: the definition `c = a + b` and the function task `#F : e := c * 2 ; f := a + 1`.
    The state `sF` is consistent with `a = 5` (`c = 7`, `e = 14`, `f = 6`).  `set_value(a, 9)` triggers `c`, then `#F`.
    With a fault at the second container write the call fails at `c`; with a fault at the fourth write it fails in
    the MIDDLE of the function body (`e` already new, `f` still old).  Repeating the call without the fault repairs
    everything: `c = 11`, `e = 22`, `f = 10`. -/
namespace C18FnExample
def da : Path := [.item (.str "d"), .item (.str "a")]
def db : Path := [.item (.str "d"), .item (.str "b")]
def dc : Path := [.item (.str "d"), .item (.str "c")]
def de : Path := [.item (.str "d"), .item (.str "e")]
def df : Path := [.item (.str "d"), .item (.str "f")]
def sF0 : MState :=
  { MState.init with store := .dict [(.str "d", .dict [(.str "a", .int 1), (.str "b", .int 2), (.str "c", .none),
      (.str "e", .none), (.str "f", .none)])] }
def fTask : MTask :=
  ⟨[.item (.str "#F")], .func [(de, .bin "Mul" (.ref dc) (.lit (.int 2))), (df, .bin "Add" (.ref da) (.lit (.int 1)))],
   [dc, da], [de, df]⟩
def sF1 : MState := (register (setExpr id sF0 dc (.bin "Add" (.ref da) (.ref db))).1 fTask).1
def sF : MState := (setValue id sF1 da (.int 5)).1

theorem sF0_inv : MInv sF0 := MInv_of_sameGraph (s := MState.init) ⟨rfl, rfl, rfl⟩ MInv.init
theorem sF1_inv : MInv sF1 :=
  register_MInv _ fTask (setExpr_MInv id sF0 dc _ sF0_inv) (by decide) (by decide) (by decide) (by decide)
theorem sF_inv : MInv sF := setValue_MInv id sF1 da _ sF1_inv

/-- the hypotheses of the decided theorem hold: plain location, scope, a legal schedule, consistent state -/
theorem sF_hyps : lookDef sF.defs da = none ∧ scopeFB sF da = true ∧
    validSchedule sF.idx (chainR da) (id (findTaskids sF.idx (chainR da))) = true ∧ consistentFB sF = true := by decide

/-- the schedule: the definition of `c`, then the function task that reads `c` -/
example : findTaskids sF.idx (chainR da) = [dc, [.item (.str "#F")]] := by decide

/-- the theorem applied to the example: whichever write of the first attempt fails (or none), a completed second
    attempt leaves `c = a + b`, `e = c * 2`, `f = a + 1` all holding -/
example (v : Val) (k : Option Nat) (s' : MState)
    (hok : setValue id { (setValue id { sF with faultIn := k } da v).1 with faultIn := none } da v = (s', none)) :
    ConsistentF s' :=
  setValue_recoverF_decided id id sF da v k sF_inv sF_hyps.1 sF_hyps.2.1 sF_hyps.2.2.1 sF_hyps.2.2.1 sF_hyps.2.2.2 s' hok

/-- before: `a = 5`, `c = 7`, `e = 14`, `f = 6` -/
example : get sF.store da = .ok (.int 5) ∧ get sF.store dc = .ok (.int 7) ∧ get sF.store de = .ok (.int 14) ∧
    get sF.store df = .ok (.int 6) := ⟨rfl, rfl, rfl, rfl⟩

/-- fault at the second write (`faultIn := some 1`): `a` is written, the write of `c` raises -/
def failed1 : MState := (setValue id { sF with faultIn := some 1 } da (.int 9)).1
example : (setValue id { sF with faultIn := some 1 } da (.int 9)).2 = some .fault := rfl
example : get failed1.store da = .ok (.int 9) ∧ get failed1.store dc = .ok (.int 7) ∧
    get failed1.store de = .ok (.int 14) ∧ get failed1.store df = .ok (.int 6) := ⟨rfl, rfl, rfl, rfl⟩
example : (setValue id { failed1 with faultIn := none } da (.int 9)).2 = none ∧
    get (setValue id { failed1 with faultIn := none } da (.int 9)).1.store dc = .ok (.int 11) ∧
    get (setValue id { failed1 with faultIn := none } da (.int 9)).1.store de = .ok (.int 22) ∧
    get (setValue id { failed1 with faultIn := none } da (.int 9)).1.store df = .ok (.int 10) := ⟨rfl, rfl, rfl, rfl⟩

/-- fault at the fourth write (`faultIn := some 3`): `a`, `c` and the first line of `#F` are written, the second line
    raises — the function body is left half done (`e = 22` new, `f = 6` stale) -/
def failed3 : MState := (setValue id { sF with faultIn := some 3 } da (.int 9)).1
example : (setValue id { sF with faultIn := some 3 } da (.int 9)).2 = some .fault := rfl
example : get failed3.store dc = .ok (.int 11) ∧ get failed3.store de = .ok (.int 22) ∧
    get failed3.store df = .ok (.int 6) ∧ consistentFB failed3 = false := ⟨rfl, rfl, rfl, by decide⟩
example : (setValue id { failed3 with faultIn := none } da (.int 9)).2 = none ∧
    get (setValue id { failed3 with faultIn := none } da (.int 9)).1.store dc = .ok (.int 11) ∧
    get (setValue id { failed3 with faultIn := none } da (.int 9)).1.store de = .ok (.int 22) ∧
    get (setValue id { failed3 with faultIn := none } da (.int 9)).1.store df = .ok (.int 10) ∧
    consistentFB (setValue id { failed3 with faultIn := none } da (.int 9)).1 = true :=
  ⟨rfl, rfl, rfl, rfl, by decide⟩

/-- and the recovered state is the one a fault-free call would have produced -/
example : (setValue id { failed3 with faultIn := none } da (.int 9)).1.store = (setValue id sF da (.int 9)).1.store ∧
    (setValue id { failed1 with faultIn := none } da (.int 9)).1.store = (setValue id sF da (.int 9)).1.store :=
  ⟨rfl, rfl⟩
end C18FnExample

#print axioms writeAndRun_frameF
#print axioms writeAndRun_outsideF
#print axioms ScopeF_after_run
#print axioms writeAndRun_consistentF'
#print axioms writeAndRun_recoverF
#print axioms writeAndRun_recoverF_failed
#print axioms setValue_recoverF
#print axioms setValue_recoverF_failed
#print axioms setValue_recoverF_decided
#print axioms writeAndRun_recoverF_decided
#print axioms C18FnExample.sF_hyps

end Manager
