import XModel.Acyclic
import XModel.StoreComm
/-!
# The result of an assignment does not depend on the order of independent tasks (C20)

Two legal schedules of the same triggered set differ only in the relative order of tasks with no edge
between them in either direction; such tasks write prefix-incomparable existing locations and do not read
each other's targets, so running them in either order gives the same container tree (`Store.set_comm`).
Any legal schedule can be turned into any other by moving such tasks past each other.
-/
namespace OrderIndep
open Store Push

/-- inserting an element in the middle of a list keeps the relative order of the others -/
theorem before_insert_mid {α : Type} (xs ys : List α) (a b c : α) (h : Dfs3.Before (xs ++ ys) b c) :
    Dfs3.Before (xs ++ a :: ys) b c := by
  obtain ⟨us, vs, e, hc⟩ := h
  rcases List.append_eq_append_iff.mp e with ⟨a', rfl, rfl⟩ | ⟨c', rfl, hc'⟩
  · exact ⟨xs ++ a :: a', vs, by simp, hc⟩
  · cases c' with
    | nil =>
      simp only [List.nil_append] at hc'
      subst hc'
      exact ⟨us ++ [a], vs, by simp, hc⟩
    | cons b' c'' =>
      simp only [List.cons_append, List.cons.injEq] at hc'
      obtain ⟨rfl, rfl⟩ := hc'
      refine ⟨us, c'' ++ a :: ys, by simp, ?_⟩
      simp only [List.mem_append, List.mem_cons] at hc ⊢
      rcases hc with h1 | h1
      · exact Or.inl h1
      · exact Or.inr (Or.inr h1)

/-! ### abstract: runs of a list of tasks, and reordering -/
section abstract
variable {S T : Type}
variable (run? : T → S → Option S) (Ind : T → T → Prop) (P : S → Prop) (U : T → Prop)

def runL : List T → S → Option S
  | [], σ => some σ
  | t :: l, σ => match run? t σ with | some σ' => runL l σ' | none => none

variable (p_run : ∀ t σ σ', U t → P σ → run? t σ = some σ' → P σ')
variable (swap : ∀ a b σ σa σab, Ind a b → P σ → run? a σ = some σa → run? b σa = some σab →
  ∃ σb, run? b σ = some σb ∧ run? a σb = some σab)

include p_run swap in
/-- a task that is independent of everything in `xs` can be moved behind `xs` -/
theorem unbubble : ∀ (xs : List T) (a : T) (ys : List T) (σ σf : S), (∀ x ∈ xs, Ind a x) → (∀ x ∈ xs, U x) → P σ →
    runL run? (a :: (xs ++ ys)) σ = some σf → runL run? (xs ++ a :: ys) σ = some σf
  | [], a, ys, σ, σf, _, _, _, h => by simpa using h
  | x :: xs, a, ys, σ, σf, hind, hU, hP, h => by
    simp only [runL, List.cons_append] at h ⊢
    cases ha : run? a σ with
    | none => simp [ha] at h
    | some σa =>
      simp only [ha] at h
      cases hx : run? x σa with
      | none => simp [hx] at h
      | some σax =>
        simp only [hx] at h
        obtain ⟨σx, hx', ha'⟩ := swap a x σ σa σax (hind x (List.mem_cons_self ..)) hP ha hx
        simp only [hx']
        have hPx : P σx := p_run x σ σx (hU x (List.mem_cons_self ..)) hP hx'
        apply unbubble xs a ys σx σf (fun y hy => hind y (List.mem_cons_of_mem _ hy))
          (fun y hy => hU y (List.mem_cons_of_mem _ hy)) hPx
        simp only [runL, ha']
        exact h

include p_run swap in
/-- **two orders of the same tasks in which every pair ordered differently is independent give the same run** -/
theorem perm_run : ∀ (π π' : List T) (σ σf : S), π.Nodup → π'.Nodup → (∀ x, x ∈ π ↔ x ∈ π') → (∀ x ∈ π, U x) → P σ →
    (∀ a b, a ≠ b → Dfs3.Before π a b → Dfs3.Before π' b a → Ind a b) →
    runL run? π σ = some σf → runL run? π' σ = some σf
  | [], π', σ, σf, _, _, hmem, _, _, _, h => by
    have : π' = [] := by
      cases π' with
      | nil => rfl
      | cons x _ => exact absurd ((hmem x).mpr (List.mem_cons_self ..)) (by simp)
    subst this; exact h
  | a :: rest, π', σ, σf, hnd, hnd', hmem, hU, hP, hcompat, h => by
    have ha' : a ∈ π' := (hmem a).mp (List.mem_cons_self ..)
    obtain ⟨xs, ys, rfl⟩ := List.append_of_mem ha'
    have hn : a ∉ rest ∧ rest.Nodup := by simpa using hnd
    have hn' : (xs ++ ys).Nodup ∧ a ∉ xs ∧ a ∉ ys := by
      have := hnd'
      simp only [List.nodup_append, List.nodup_cons, List.mem_cons] at this
      obtain ⟨h1, ⟨h2, h3⟩, h4⟩ := this
      refine ⟨List.nodup_append.mpr ⟨h1, h3, fun x hx y hy => h4 x hx y (Or.inr hy)⟩, ?_, h2⟩
      intro hax; exact h4 a hax a (Or.inl rfl) rfl
    simp only [runL] at h
    cases hra : run? a σ with
    | none => simp [hra] at h
    | some σa =>
      simp only [hra] at h
      have hPa : P σa := p_run a σ σa (hU a (List.mem_cons_self ..)) hP hra
      -- the remaining tasks, in the order of π'
      have hmem' : ∀ x, x ∈ rest ↔ x ∈ xs ++ ys := by
        intro x
        constructor
        · intro hx
          have := (hmem x).mp (List.mem_cons_of_mem _ hx)
          simp only [List.mem_append, List.mem_cons] at this ⊢
          rcases this with h1 | rfl | h1
          · exact Or.inl h1
          · exact absurd hx hn.1
          · exact Or.inr h1
        · intro hx
          have hx' : x ∈ xs ++ a :: ys := by
            simp only [List.mem_append, List.mem_cons] at hx ⊢
            rcases hx with h1 | h1
            · exact Or.inl h1
            · exact Or.inr (Or.inr h1)
          have := (hmem x).mpr hx'
          rcases List.mem_cons.mp this with rfl | h1
          · simp only [List.mem_append] at hx
            rcases hx with h1 | h1
            · exact absurd h1 hn'.2.1
            · exact absurd h1 hn'.2.2
          · exact h1
      have before_mid : ∀ b c, Dfs3.Before (xs ++ ys) b c → Dfs3.Before (xs ++ a :: ys) b c :=
        fun b c hb => before_insert_mid xs ys a b c hb
      have ih := perm_run rest (xs ++ ys) σa σf hn.2 hn'.1 hmem'
        (fun x hx => hU x (List.mem_cons_of_mem _ hx)) hPa
        (by
          intro b c hne hb hb'
          exact hcompat b c hne (Dfs3.Before.append_left [a] hb) (before_mid c b hb'))
        h
      -- put `a` back where π' has it
      apply unbubble run? Ind P U p_run swap xs a ys σ σf
      · intro x hx
        have hxa : a ≠ x := fun e => hn'.2.1 (e ▸ hx)
        have hxr : x ∈ rest := (hmem' x).mpr (List.mem_append.mpr (Or.inl hx))
        refine hcompat a x hxa (Dfs3.Before.head hxr) ?_
        obtain ⟨us, vs, e⟩ := List.append_of_mem hx
        exact ⟨us, vs ++ a :: ys, by simp [e], by simp⟩
      · intro x hx
        exact hU x (List.mem_cons_of_mem _ ((hmem' x).mpr (List.mem_append.mpr (Or.inl hx))))
      · exact hP
      · simp only [runL, hra]; exact ih

end abstract

/-! ### expression tasks on the container tree -/

/-- every task's target can be read (it was written when the task was defined) -/
def TargetsExist (tasks : List ETask) (σ : Val) : Prop := ∀ t ∈ tasks, ∃ w, get σ t.target = .ok w

/-- tasks that do not touch each other in either direction -/
def IndE (sem : Sem) (tasks : List ETask) (a b : ETask) : Prop :=
  a ∈ tasks ∧ b ∈ tasks ∧ (exprSys sem).NI a b ∧ (exprSys sem).NI b a

/-- hygiene of one task relative to the others: canonical target, other targets equal or incomparable -/
def UE (tasks : List ETask) (t : ETask) : Prop :=
  canonPath t.target ∧ ∀ u ∈ tasks, canonPath u.target ∧ (u.target = t.target ∨ Incomparable t.target u.target)

theorem run_eq {sem : Sem} {t : ETask} {σ σ' : Val} (h : (exprSys sem).run? t σ = some σ') :
    ∃ v, eval sem σ t.expr = .ok v ∧ set σ t.target v = .ok σ' := by
  simp only [exprSys] at h
  cases he : eval sem σ t.expr with
  | error e => simp [he] at h
  | ok v =>
    simp only [he] at h
    cases hs : set σ t.target v with
    | error e => simp [hs] at h
    | ok σ1 =>
      simp only [hs, Option.some.injEq] at h
      subst h
      exact ⟨v, rfl, hs⟩

theorem run_of {sem : Sem} {t : ETask} {σ σ' : Val} {v : Val} (he : eval sem σ t.expr = .ok v)
    (hs : set σ t.target v = .ok σ') : (exprSys sem).run? t σ = some σ' := by
  simp only [exprSys, he, hs]

theorem p_runE (sem : Sem) (tasks : List ETask) (t : ETask) (σ σ' : Val) (hU : UE tasks t)
    (hP : TargetsExist tasks σ) (h : (exprSys sem).run? t σ = some σ') : TargetsExist tasks σ' := by
  obtain ⟨v, _, hs⟩ := run_eq h
  intro u hu
  obtain ⟨hcu, hor⟩ := hU.2 u hu
  rcases hor with e | hinc
  · exact ⟨v, by rw [e]; exact get_set_same hs⟩
  · obtain ⟨w, hw⟩ := hP u hu
    exact ⟨w, by rw [get_set_incomparable hs hinc hU.1 hcu]; exact hw⟩

theorem swapE (sem : Sem) (tasks : List ETask) (a b : ETask) (σ σa σab : Val) (hind : IndE sem tasks a b)
    (hP : TargetsExist tasks σ) (ha : (exprSys sem).run? a σ = some σa) (hb : (exprSys sem).run? b σa = some σab) :
    ∃ σb, (exprSys sem).run? b σ = some σb ∧ (exprSys sem).run? a σb = some σab := by
  obtain ⟨ham, hbm, ⟨hca, hcb, hinc, hrb⟩, ⟨_, _, _, hra⟩⟩ := hind
  obtain ⟨va, hea, hsa⟩ := run_eq ha
  obtain ⟨vb, heb, hsb⟩ := run_eq hb
  obtain ⟨pa, hpa⟩ := hP a ham
  obtain ⟨pb, hpb⟩ := hP b hbm
  -- b evaluates to the same value before a's write
  have heb' : eval sem σ b.expr = .ok vb := by
    rw [← heb]
    exact (eval_frame sem _ _ _ (fun r hr => get_set_incomparable hsa (hrb r hr).2 hca (hrb r hr).1)).symm
  obtain ⟨σb, hsb', hsa'⟩ := set_comm a.target b.target σ σa σab va vb pa pb hinc hca hcb hpa hpb hsa hsb
  refine ⟨σb, run_of heb' hsb', ?_⟩
  have hea' : eval sem σb a.expr = .ok va := by
    rw [← hea]
    exact eval_frame sem _ _ _ (fun r hr => get_set_incomparable hsb' (hra r hr).2 hcb (hra r hr).1)
  exact run_of hea' hsa'

theorem runL_eq_runAll (sem : Sem) : ∀ (l : List ETask) (σ : Val),
    runL (exprSys sem).run? l σ = runAll? (exprSys sem) l σ
  | [], _ => rfl
  | t :: l, σ => by
    simp only [runL, runAll?]
    cases (exprSys sem).run? t σ with
    | none => rfl
    | some σ' => exact runL_eq_runAll sem l σ'

/-- **order independence for expression tasks**: two duplicate-free orders of the same tasks, in which every pair
    of tasks ordered differently is independent, reach the same container tree (and the second completes
    whenever the first does) -/
theorem perm_runE (sem : Sem) (tasks : List ETask) (π π' : List ETask) (σ σf : Val)
    (hnd : π.Nodup) (hnd' : π'.Nodup) (hmem : ∀ x, x ∈ π ↔ x ∈ π') (hU : ∀ x ∈ π, UE tasks x)
    (hP : TargetsExist tasks σ)
    (hcompat : ∀ a b, a ≠ b → Dfs3.Before π a b → Dfs3.Before π' b a → IndE sem tasks a b)
    (h : runAll? (exprSys sem) π σ = some σf) : runAll? (exprSys sem) π' σ = some σf := by
  rw [← runL_eq_runAll] at h ⊢
  exact perm_run (exprSys sem).run? (IndE sem tasks) (TargetsExist tasks) (UE tasks)
    (fun t σ σ' hU hP h => p_runE sem tasks t σ σ' hU hP h)
    (fun a b σ σa σab hi hP ha hb => swapE sem tasks a b σ σa σab hi hP ha hb)
    π π' σ σf hnd hnd' hmem hU hP hcompat h

end OrderIndep
