import XModel.TableRect2
/-!
# C14, third layer: COLUMN EXPRESSIONS `t['a+2*b']`, `t.cols['a', 'a+b']`

`Table.__getitem__(text)` returns `self._data[text]` when `text` is a key of the dict and otherwise
`eval(text, gblmath, self._data)`: the text is a Python expression evaluated with the columns (numpy arrays) as
variables.  `t.cols[...]` (`_ColView.__getitem__`, then `_select_cols`) puts the index column first when it is not
requested, stores `self[c]` under the TEXT `c` for every requested `c`, lists the texts as the column names and
builds the result WITHOUT verification (`verify=False`).

## What is modelled, and what is not
* `CExpr`: a column name, an integer literal, `+`, `-`, `*`, unary minus.  This is the fragment the Lean table model
  can compute exactly: cells are `int | str | flt token`, and floats are opaque tokens.  Function calls (`sin(a)`),
  comparisons (`a>0`), `/`, `**`, float arithmetic, the names of `gblmath` (`pi`, `sqrt`, …) are NOT modelled and stay with
  the oracle.  The PARSER is not modelled either: the caller hands over the pair (text, expression).
* Integers are unbounded (`Int`): the wrap-around of `int64` arrays is not modelled.
* Values are numpy-like: a literal is a SCALAR (`CVal.scalar`), a column an ARRAY (`CVal.arr`); scalar ∘ array
  broadcasts the scalar, array ∘ array combines element-wise.
* The model is STRICTER than Python, never laxer (every theorem below is conditional on success, so a case the model
  refuses is a case the theorems do not speak about):
  - a binary operator or unary minus on an array holding a non-integer cell is `TErr.typeError` (Python: `TypeError` for
    `'x' + 1`, but `'x' * 2` and `'x' + 'y'` on object arrays succeed; floats succeed);
  - arrays of different lengths are `TErr.typeError` (numpy broadcasts a length-1 array and raises `ValueError`, not
    `TypeError`, for other mismatches — the model has no broadcasting of arrays);
  - an unknown name is `TErr.keyError`.  `TErr` has no `NameError`: in `Table.__getitem__` and `_select_cols` the
    `NameError` of `eval` propagates as it is, whereas `eval_col` / `_View.eval` (row selectors) convert it into
    `KeyError`; `keyError` is the closest the model has, and the one `selectCols` already uses for a missing name.
* An expression WITHOUT ANY COLUMN (`t['2']`, `t['2*3']`): numpy / Python gives a scalar.  `evalVal` says so
  (`.scalar 6`), and `evalCol` / `getExpr` / `colsExpr` REFUSE it with `TErr.valueError`.  That is a refusal of the model,
  not a claim about Python: the real `t['2']` returns the Python integer `2` and the real `t.cols['2']` builds, unverified, a
  table that LISTS `'2'` with a scalar behind it — a table that is not rectangular in the sense of C14.  The theorems below
  do not cover that call.
* Unlisted entries of the dict (scalar-like entries, made by `setCol` with a new name and another length): `t['z']`
  returns them as they are, so their length need not be the table's.  Hence the hypothesis "every name the expression
  mentions is listed" of `evalCol_length`, and `itemOK` for `colsExpr_rect`; counter-examples in the last section.
  In Python a scalar entry is a true scalar and `t['a+z']` broadcasts it (`z = 7` gives `a+7`); the model's nearest
  analogue, a length-1 unlisted entry, is refused under an operator (`typeError`).  `t.cols['z']` LISTS the entry in Python
  and in the model alike — a table that is not rectangular.
  As with `selectCols`, the result of `colsExpr` DROPS the unlisted entries (Python carries them over).
* Checked against the implementation by the driver (`colexpr` lines of suite `table`: `getExpr` vs `t[text]`, cell by cell) and by hand: on the table of the last section Python gives
  `t['a+2*b'] = [21 42 63]`, `t['-a-b*b'] = [-101 -402 -903]`, `t.cols['a','a+b']` lists `name, a, a+b` with `[11 22 33]`,
  `t['a+c']` / `t.cols['a','c']` raise `NameError`, `t['a+name']` raises `TypeError`, `t['name*2']` is `['xx' 'yy' 'zz']`,
  `t['2*3']` is `6`, `t.cols['2']` lists `'2'` with the integer `2` behind it.
* `t.cols['a + b']` given as ONE string is split at white space by the real code (three requests `a`, `+`, `b`); the model
  takes the list of requests, i.e. the forms `t.cols['a', 'a+b']` / `t.cols[['a', 'a+b']]` / `t.cols['a a+b']`.
* "The source is untouched" holds by construction (immutable values, see the header of `TableRect2.lean`) and is not stated.
-/
namespace TableM
open Cache

/-! ## 1. expressions and their evaluation -/

/-- the modelled fragment of the Python expressions over columns -/
inductive CExpr where
  | col (name : String)
  | lit (k : Int)
  | add (a b : CExpr)
  | sub (a b : CExpr)
  | mul (a b : CExpr)
  | neg (a : CExpr)
deriving Repr

/-- the names an expression mentions -/
def CExpr.names : CExpr → List String
  | .col n => [n]
  | .lit _ => []
  | .add a b => a.names ++ b.names
  | .sub a b => a.names ++ b.names
  | .mul a b => a.names ++ b.names
  | .neg a => a.names

/-- what evaluating an expression gives: a Python / numpy scalar or an array -/
inductive CVal where
  | scalar (k : Int)
  | arr (v : List Cell)
deriving DecidableEq, Repr

/-- the integers of a column, `none` as soon as one cell is not an integer -/
def intCells : List Cell → Option (List Int)
  | [] => some []
  | .int i :: r => (intCells r).map (i :: ·)
  | .str _ :: _ => none
  | .flt _ :: _ => none

/-- a binary operator on two values: scalar ∘ scalar, scalar broadcast against an array, arrays element-wise;
    `typeError` on a non-integer cell or on arrays of different lengths -/
def binVal (f : Int → Int → Int) : CVal → CVal → Except TErr CVal
  | .scalar a, .scalar b => .ok (.scalar (f a b))
  | .scalar a, .arr w =>
    match intCells w with
    | some ws => .ok (.arr (ws.map (fun y => Cell.int (f a y))))
    | none => .error .typeError
  | .arr v, .scalar b =>
    match intCells v with
    | some vs => .ok (.arr (vs.map (fun x => Cell.int (f x b))))
    | none => .error .typeError
  | .arr v, .arr w =>
    match intCells v, intCells w with
    | some vs, some ws =>
      if vs.length = ws.length then .ok (.arr (List.zipWith (fun x y => Cell.int (f x y)) vs ws))
      else .error .typeError
    | _, _ => .error .typeError

/-- unary minus -/
def negVal : CVal → Except TErr CVal
  | .scalar a => .ok (.scalar (-a))
  | .arr v =>
    match intCells v with
    | some vs => .ok (.arr (vs.map (fun x => Cell.int (-x))))
    | none => .error .typeError

/-- `eval(text, gblmath, t._data)` on the modelled fragment: left operand first, the first error wins.  A name is looked
    up in the WHOLE dict (`t.col`), listed or not. -/
def evalVal (t : Tbl) : CExpr → Except TErr CVal
  | .col n => match t.col n with | some v => .ok (.arr v) | none => .error .keyError
  | .lit k => .ok (.scalar k)
  | .add a b => (evalVal t a).bind fun x => (evalVal t b).bind fun y => binVal (· + ·) x y
  | .sub a b => (evalVal t a).bind fun x => (evalVal t b).bind fun y => binVal (· - ·) x y
  | .mul a b => (evalVal t a).bind fun x => (evalVal t b).bind fun y => binVal (· * ·) x y
  | .neg a => (evalVal t a).bind negVal

/-- the value as a column: an array is the column; a scalar (an expression without any column) is REFUSED with
    `valueError` (a refusal of the model, see the header) -/
def CVal.toCol : CVal → Except TErr (List Cell)
  | .arr v => .ok v
  | .scalar _ => .error .valueError

/-- an expression evaluated to a column -/
def evalCol (t : Tbl) (e : CExpr) : Except TErr (List Cell) := (evalVal t e).bind CVal.toCol

/-! ## 2. the API forms -/

/-- `t[text]` when `text` is not a key of the dict and parses as `e` -/
def getExpr (t : Tbl) (e : CExpr) : Except TErr (List Cell) := evalCol t e

/-- `t[text]` in general (`try: return self._data[text]  except KeyError: return eval(text, …)`): the entry of the dict
    when there is one — whatever `text` looks like —, otherwise the evaluated expression; `none` stands for a text
    that is a plain name (its evaluation can only fail) -/
def itemCol (t : Tbl) (it : String × Option CExpr) : Except TErr (List Cell) :=
  match t.col it.1 with
  | some v => .ok v
  | none =>
    match it.2 with
    | some e => evalCol t e
    | none => .error .keyError

/-- the loop `for cc in cols: data[cc] = self[cc]`, in order, the first error wins -/
def itemCols (t : Tbl) : List (String × Option CExpr) → Except TErr (List (String × List Cell))
  | [] => .ok []
  | it :: rest =>
    match itemCol t it with
    | .error e => .error e
    | .ok v =>
      match itemCols t rest with
      | .error e => .error e
      | .ok r => .ok ((it.1, v) :: r)

/-- `if self._index not in col_list: col_list.insert(0, self._index)` -/
def withIndex (t : Tbl) (items : List (String × Option CExpr)) : List (String × Option CExpr) :=
  if t.index ∈ items.map (·.1) then items else (t.index, none) :: items

/-- `t.cols[items]`: every item is a text together with the expression it parses to (`none` for a plain name).  The index
    column comes first when its name is not among the texts (the rule of `selectCols`); every item becomes a column
    NAMED BY ITS TEXT; the result starts without a cache and keeps the index and the separators. -/
def colsExpr (t : Tbl) (items : List (String × Option CExpr)) : Except TErr Tbl :=
  match itemCols t (withIndex t items) with
  | .error e => .error e
  | .ok cols => .ok { t with colNames := (withIndex t items).map (·.1), data := cols, cache := none }

/-- the side condition of `colsExpr_rect` on one item: a text that is a key of the dict is a LISTED column, and every
    name the expression mentions is listed (unlisted entries may have any length) -/
def itemOK (t : Tbl) (it : String × Option CExpr) : Bool :=
  ((t.col it.1).isNone || decide (it.1 ∈ t.colNames)) &&
    (match it.2 with
     | some e => e.names.all (fun n => decide (n ∈ t.colNames))
     | none => decide (it.1 ∈ t.colNames))

/-! ## 3. theorems -/

/-- a value fits a table of `n` rows: a scalar always, an array when it has `n` cells -/
def CVal.HasLen (n : Nat) : CVal → Prop
  | .scalar _ => True
  | .arr v => v.length = n

theorem intCells_eq : ∀ (v : List Cell) (vs : List Int), intCells v = some vs → v = vs.map Cell.int
  | [], vs, h => by
    simp only [intCells, Option.some.injEq] at h
    subst h; rfl
  | .int i :: r, vs, h => by
    simp only [intCells] at h
    cases hr : intCells r with
    | none => simp [hr] at h
    | some rs =>
      simp only [hr, Option.map_some, Option.some.injEq] at h
      subst h
      simp only [List.map_cons, ← intCells_eq r rs hr]
  | .str _ :: _, _, h => by simp [intCells] at h
  | .flt _ :: _, _, h => by simp [intCells] at h

theorem intCells_length (v : List Cell) (vs : List Int) (h : intCells v = some vs) : vs.length = v.length := by
  rw [intCells_eq v vs h, List.length_map]

theorem intCells_map_int (vs : List Int) : intCells (vs.map Cell.int) = some vs := by
  induction vs with
  | nil => rfl
  | cons i r ih => simp [intCells, ih]

theorem binVal_hasLen (f : Int → Int → Int) (n : Nat) (x y z : CVal) (hx : x.HasLen n) (hy : y.HasLen n)
    (h : binVal f x y = .ok z) : z.HasLen n := by
  cases x with
  | scalar a =>
    cases y with
    | scalar b => simp only [binVal, Except.ok.injEq] at h; subst h; trivial
    | arr w =>
      simp only [binVal] at h
      cases hw : intCells w with
      | none => simp [hw] at h
      | some ws =>
        simp only [hw, Except.ok.injEq] at h
        subst h
        show (ws.map _).length = n
        rw [List.length_map, intCells_length w ws hw]; exact hy
  | arr v =>
    cases y with
    | scalar b =>
      simp only [binVal] at h
      cases hv : intCells v with
      | none => simp [hv] at h
      | some vs =>
        simp only [hv, Except.ok.injEq] at h
        subst h
        show (vs.map _).length = n
        rw [List.length_map, intCells_length v vs hv]; exact hx
    | arr w =>
      simp only [binVal] at h
      cases hv : intCells v with
      | none => simp [hv] at h
      | some vs =>
        cases hw : intCells w with
        | none => simp [hv, hw] at h
        | some ws =>
          simp only [hv, hw] at h
          split at h
          · next hl =>
            simp only [Except.ok.injEq] at h
            subst h
            show (List.zipWith _ vs ws).length = n
            have h1 : vs.length = n := by rw [intCells_length v vs hv]; exact hx
            have h2 : ws.length = n := by rw [intCells_length w ws hw]; exact hy
            rw [List.length_zipWith, h1, h2, Nat.min_self]
          · cases h

theorem negVal_hasLen (n : Nat) (x z : CVal) (hx : x.HasLen n) (h : negVal x = .ok z) : z.HasLen n := by
  cases x with
  | scalar a => simp only [negVal, Except.ok.injEq] at h; subst h; trivial
  | arr v =>
    simp only [negVal] at h
    cases hv : intCells v with
    | none => simp [hv] at h
    | some vs =>
      simp only [hv, Except.ok.injEq] at h
      subst h
      show (vs.map _).length = n
      rw [List.length_map, intCells_length v vs hv]; exact hx

theorem bind2_ok {x y : Except TErr CVal} {g : CVal → CVal → Except TErr CVal} {z : CVal}
    (h : (x.bind fun a => y.bind fun b => g a b) = .ok z) : ∃ a b, x = .ok a ∧ y = .ok b ∧ g a b = .ok z := by
  cases x with
  | error e => cases h
  | ok a =>
    cases y with
    | error e => cases h
    | ok b => exact ⟨a, b, rfl, rfl, h⟩

/-- in a rectangular table, an expression over LISTED columns evaluates to a scalar or to an array of the table's length -/
theorem evalVal_hasLen (t : Tbl) (h : Rect t) : ∀ (e : CExpr) (z : CVal), (∀ n ∈ e.names, n ∈ t.colNames) →
    evalVal t e = .ok z → z.HasLen t.nrows
  | .col n, z, hn, hz => by
    simp only [evalVal] at hz
    cases hc : t.col n with
    | none => simp [hc] at hz
    | some v =>
      simp only [hc, Except.ok.injEq] at hz
      subst hz
      exact nrows_eq t h n (hn n (by simp [CExpr.names])) v hc
  | .lit k, z, _, hz => by simp only [evalVal, Except.ok.injEq] at hz; subst hz; trivial
  | .add a b, z, hn, hz => by
    obtain ⟨x, y, hx, hy, hg⟩ := bind2_ok hz
    exact binVal_hasLen _ _ x y z
      (evalVal_hasLen t h a x (fun n hm => hn n (by simp [CExpr.names, hm])) hx)
      (evalVal_hasLen t h b y (fun n hm => hn n (by simp [CExpr.names, hm])) hy) hg
  | .sub a b, z, hn, hz => by
    obtain ⟨x, y, hx, hy, hg⟩ := bind2_ok hz
    exact binVal_hasLen _ _ x y z
      (evalVal_hasLen t h a x (fun n hm => hn n (by simp [CExpr.names, hm])) hx)
      (evalVal_hasLen t h b y (fun n hm => hn n (by simp [CExpr.names, hm])) hy) hg
  | .mul a b, z, hn, hz => by
    obtain ⟨x, y, hx, hy, hg⟩ := bind2_ok hz
    exact binVal_hasLen _ _ x y z
      (evalVal_hasLen t h a x (fun n hm => hn n (by simp [CExpr.names, hm])) hx)
      (evalVal_hasLen t h b y (fun n hm => hn n (by simp [CExpr.names, hm])) hy) hg
  | .neg a, z, hn, hz => by
    simp only [evalVal] at hz
    cases hx : evalVal t a with
    | error e => rw [hx] at hz; cases hz
    | ok x =>
      rw [hx] at hz
      exact negVal_hasLen _ x z (evalVal_hasLen t h a x (fun n hm => hn n (by simpa [CExpr.names] using hm)) hx) hz

theorem evalCol_ok (t : Tbl) (e : CExpr) (v : List Cell) : evalCol t e = .ok v ↔ evalVal t e = .ok (.arr v) := by
  unfold evalCol
  cases evalVal t e with
  | error e => constructor <;> intro h <;> cases h
  | ok z =>
    cases z with
    | scalar k => constructor <;> intro h <;> cases h
    | arr w =>
      constructor
      · intro h; cases h; rfl
      · intro h; cases h; rfl

/-- **every successfully evaluated expression column has the table's length**: `t` rectangular, every name the
    expression mentions LISTED (an unlisted entry of the dict may have any length — counter-example below).  An expression
    without any column never evaluates successfully in the model (`evalCol_no_column`). -/
theorem evalCol_length (t : Tbl) (h : Rect t) (e : CExpr) (hn : ∀ n ∈ e.names, n ∈ t.colNames) (v : List Cell)
    (hv : evalCol t e = .ok v) : v.length = t.nrows :=
  evalVal_hasLen t h e (.arr v) hn ((evalCol_ok t e v).mp hv)

/-- an expression without any column evaluates to a scalar and is refused as a column -/
theorem evalVal_no_column (t : Tbl) : ∀ (e : CExpr), e.names = [] → ∃ k, evalVal t e = .ok (.scalar k)
  | .col n, hn => by simp [CExpr.names] at hn
  | .lit k, _ => ⟨k, rfl⟩
  | .add a b, hn => by
    simp only [CExpr.names, List.append_eq_nil_iff] at hn
    obtain ⟨x, hx⟩ := evalVal_no_column t a hn.1
    obtain ⟨y, hy⟩ := evalVal_no_column t b hn.2
    exact ⟨x + y, by simp only [evalVal, hx, hy]; rfl⟩
  | .sub a b, hn => by
    simp only [CExpr.names, List.append_eq_nil_iff] at hn
    obtain ⟨x, hx⟩ := evalVal_no_column t a hn.1
    obtain ⟨y, hy⟩ := evalVal_no_column t b hn.2
    exact ⟨x - y, by simp only [evalVal, hx, hy]; rfl⟩
  | .mul a b, hn => by
    simp only [CExpr.names, List.append_eq_nil_iff] at hn
    obtain ⟨x, hx⟩ := evalVal_no_column t a hn.1
    obtain ⟨y, hy⟩ := evalVal_no_column t b hn.2
    exact ⟨x * y, by simp only [evalVal, hx, hy]; rfl⟩
  | .neg a, hn => by
    obtain ⟨x, hx⟩ := evalVal_no_column t a hn
    exact ⟨-x, by simp only [evalVal, hx]; rfl⟩

/-- what the MODEL does with `t['2*3']`: `valueError` (Python returns the scalar `6`) -/
theorem evalCol_no_column (t : Tbl) (e : CExpr) (hn : e.names = []) : evalCol t e = .error .valueError := by
  obtain ⟨k, hk⟩ := evalVal_no_column t e hn
  unfold evalCol; rw [hk]; rfl

/-! ### values, row by row -/

/-- cell `k` of a value: a scalar is the same on every row -/
def CVal.cellAt (k : Nat) : CVal → Option Cell
  | .scalar i => some (.int i)
  | .arr v => v[k]?

/-- a binary operator on two cells: defined on two integers -/
def binCell (f : Int → Int → Int) : Option Cell → Option Cell → Option Cell
  | some (.int x), some (.int y) => some (.int (f x y))
  | _, _ => none

def negCell : Option Cell → Option Cell
  | some (.int x) => some (.int (-x))
  | _ => none

/-- the expression evaluated ON ROW `k` alone, cell by cell (ordinary integer arithmetic on the cells of that row) -/
def evalAt (t : Tbl) (k : Nat) : CExpr → Option Cell
  | .col n => t.cell n k
  | .lit i => some (.int i)
  | .add a b => binCell (· + ·) (evalAt t k a) (evalAt t k b)
  | .sub a b => binCell (· - ·) (evalAt t k a) (evalAt t k b)
  | .mul a b => binCell (· * ·) (evalAt t k a) (evalAt t k b)
  | .neg a => negCell (evalAt t k a)

theorem binVal_cellAt (f : Int → Int → Int) (n k : Nat) (hk : k < n) (x y z : CVal) (hx : x.HasLen n) (hy : y.HasLen n)
    (h : binVal f x y = .ok z) : z.cellAt k = binCell f (x.cellAt k) (y.cellAt k) := by
  cases x with
  | scalar a =>
    cases y with
    | scalar b => simp only [binVal, Except.ok.injEq] at h; subst h; rfl
    | arr w =>
      simp only [binVal] at h
      cases hw : intCells w with
      | none => simp [hw] at h
      | some ws =>
        simp only [hw, Except.ok.injEq] at h
        subst h
        have hl : k < ws.length := by rw [intCells_length w ws hw]; exact (show w.length = n from hy) ▸ hk
        rw [intCells_eq w ws hw]
        simp only [CVal.cellAt, List.getElem?_map, List.getElem?_eq_getElem hl, Option.map_some, binCell]
  | arr v =>
    cases y with
    | scalar b =>
      simp only [binVal] at h
      cases hv : intCells v with
      | none => simp [hv] at h
      | some vs =>
        simp only [hv, Except.ok.injEq] at h
        subst h
        have hl : k < vs.length := by rw [intCells_length v vs hv]; exact (show v.length = n from hx) ▸ hk
        rw [intCells_eq v vs hv]
        simp only [CVal.cellAt, List.getElem?_map, List.getElem?_eq_getElem hl, Option.map_some, binCell]
    | arr w =>
      simp only [binVal] at h
      cases hv : intCells v with
      | none => simp [hv] at h
      | some vs =>
        cases hw : intCells w with
        | none => simp [hv, hw] at h
        | some ws =>
          simp only [hv, hw] at h
          split at h
          · next hl =>
            simp only [Except.ok.injEq] at h
            subst h
            have h1 : k < vs.length := by rw [intCells_length v vs hv]; exact (show v.length = n from hx) ▸ hk
            have h2 : k < ws.length := by rw [intCells_length w ws hw]; exact (show w.length = n from hy) ▸ hk
            rw [intCells_eq v vs hv, intCells_eq w ws hw]
            simp only [CVal.cellAt, List.getElem?_map, List.getElem?_zipWith, List.getElem?_eq_getElem h1,
              List.getElem?_eq_getElem h2, Option.map_some, binCell]
          · cases h

theorem negVal_cellAt (n k : Nat) (hk : k < n) (x z : CVal) (hx : x.HasLen n) (h : negVal x = .ok z) :
    z.cellAt k = negCell (x.cellAt k) := by
  cases x with
  | scalar a => simp only [negVal, Except.ok.injEq] at h; subst h; rfl
  | arr v =>
    simp only [negVal] at h
    cases hv : intCells v with
    | none => simp [hv] at h
    | some vs =>
      simp only [hv, Except.ok.injEq] at h
      subst h
      have hl : k < vs.length := by rw [intCells_length v vs hv]; exact (show v.length = n from hx) ▸ hk
      rw [intCells_eq v vs hv]
      simp only [CVal.cellAt, List.getElem?_map, List.getElem?_eq_getElem hl, Option.map_some, negCell]

/-- the array semantics agrees with the row-by-row semantics on every row of the table -/
theorem evalVal_cellAt (t : Tbl) (h : Rect t) (k : Nat) (hk : k < t.nrows) : ∀ (e : CExpr) (z : CVal),
    (∀ n ∈ e.names, n ∈ t.colNames) → evalVal t e = .ok z → z.cellAt k = evalAt t k e
  | .col n, z, _, hz => by
    simp only [evalVal] at hz
    cases hc : t.col n with
    | none => simp [hc] at hz
    | some v =>
      simp only [hc, Except.ok.injEq] at hz
      subst hz
      exact (cell_of_col hc k).symm
  | .lit i, z, _, hz => by simp only [evalVal, Except.ok.injEq] at hz; subst hz; rfl
  | .add a b, z, hn, hz => by
    obtain ⟨x, y, hx, hy, hg⟩ := bind2_ok hz
    have ha : ∀ n ∈ a.names, n ∈ t.colNames := fun n hm => hn n (by simp [CExpr.names, hm])
    have hb : ∀ n ∈ b.names, n ∈ t.colNames := fun n hm => hn n (by simp [CExpr.names, hm])
    rw [binVal_cellAt _ _ k hk x y z (evalVal_hasLen t h a x ha hx) (evalVal_hasLen t h b y hb hy) hg,
      evalVal_cellAt t h k hk a x ha hx, evalVal_cellAt t h k hk b y hb hy]
    rfl
  | .sub a b, z, hn, hz => by
    obtain ⟨x, y, hx, hy, hg⟩ := bind2_ok hz
    have ha : ∀ n ∈ a.names, n ∈ t.colNames := fun n hm => hn n (by simp [CExpr.names, hm])
    have hb : ∀ n ∈ b.names, n ∈ t.colNames := fun n hm => hn n (by simp [CExpr.names, hm])
    rw [binVal_cellAt _ _ k hk x y z (evalVal_hasLen t h a x ha hx) (evalVal_hasLen t h b y hb hy) hg,
      evalVal_cellAt t h k hk a x ha hx, evalVal_cellAt t h k hk b y hb hy]
    rfl
  | .mul a b, z, hn, hz => by
    obtain ⟨x, y, hx, hy, hg⟩ := bind2_ok hz
    have ha : ∀ n ∈ a.names, n ∈ t.colNames := fun n hm => hn n (by simp [CExpr.names, hm])
    have hb : ∀ n ∈ b.names, n ∈ t.colNames := fun n hm => hn n (by simp [CExpr.names, hm])
    rw [binVal_cellAt _ _ k hk x y z (evalVal_hasLen t h a x ha hx) (evalVal_hasLen t h b y hb hy) hg,
      evalVal_cellAt t h k hk a x ha hx, evalVal_cellAt t h k hk b y hb hy]
    rfl
  | .neg a, z, hn, hz => by
    simp only [evalVal] at hz
    have ha : ∀ n ∈ a.names, n ∈ t.colNames := fun n hm => hn n (by simpa [CExpr.names] using hm)
    cases hx : evalVal t a with
    | error e => rw [hx] at hz; cases hz
    | ok x =>
      rw [hx] at hz
      rw [negVal_cellAt _ k hk x z (evalVal_hasLen t h a x ha hx) hz, evalVal_cellAt t h k hk a x ha hx]
      rfl

/-- **VALUES of an expression column**: cell `k` of `t['a+2*b']` is the expression evaluated on the cells of row `k`
    (`a[k] + 2*b[k]`), for every row of the table -/
theorem evalCol_cell (t : Tbl) (h : Rect t) (e : CExpr) (hn : ∀ n ∈ e.names, n ∈ t.colNames) (v : List Cell)
    (hv : evalCol t e = .ok v) (k : Nat) (hk : k < t.nrows) : v[k]? = evalAt t k e :=
  evalVal_cellAt t h k hk e (.arr v) hn ((evalCol_ok t e v).mp hv)

/-! ### `t.cols[…]` with expressions -/

/-- an item that passes `itemOK` gives a column of the table's length -/
theorem itemCol_length (t : Tbl) (h : Rect t) (it : String × Option CExpr) (hok : itemOK t it = true) (v : List Cell)
    (hv : itemCol t it = .ok v) : v.length = t.nrows := by
  obtain ⟨txt, oe⟩ := it
  unfold itemCol at hv
  unfold itemOK at hok
  simp only [Bool.and_eq_true, Bool.or_eq_true, decide_eq_true_eq] at hok
  cases hc : t.col txt with
  | some w =>
    simp only [hc, Except.ok.injEq] at hv
    subst hv
    have hl : txt ∈ t.colNames := by
      rcases hok.1 with h1 | h1
      · simp [hc] at h1
      · exact h1
    exact nrows_eq t h txt hl w hc
  | none =>
    simp only [hc] at hv
    cases oe with
    | none => cases hv
    | some e =>
      simp only at hv
      have hn : ∀ n ∈ e.names, n ∈ t.colNames := by
        have := hok.2
        simp only [List.all_eq_true, decide_eq_true_eq] at this
        exact this
      exact evalCol_length t h e hn v hv

/-- what the loop of `_select_cols` stores: the keys are the texts, in order, and the entry found under a text is the
    column of an item with that text (the FIRST such item) -/
theorem itemCols_spec (t : Tbl) : ∀ (items : List (String × Option CExpr)) (cols : List (String × List Cell)),
    itemCols t items = .ok cols →
    cols.map (·.1) = items.map (·.1) ∧
    ∀ c ∈ items.map (·.1), ∃ it ∈ items, it.1 = c ∧ ∃ v, itemCol t it = .ok v ∧ lookupA cols c = some v
  | [], cols, h => by
    simp only [itemCols, Except.ok.injEq] at h
    subst h
    exact ⟨rfl, fun c hc => by cases hc⟩
  | it :: rest, cols, h => by
    simp only [itemCols] at h
    cases hv : itemCol t it with
    | error e => simp [hv] at h
    | ok v =>
      cases hr : itemCols t rest with
      | error e => simp [hv, hr] at h
      | ok r =>
        simp only [hv, hr, Except.ok.injEq] at h
        subst h
        obtain ⟨ih1, ih2⟩ := itemCols_spec t rest r hr
        refine ⟨by simp only [List.map_cons, ih1], fun c hc => ?_⟩
        by_cases e : it.1 = c
        · exact ⟨it, List.mem_cons_self .., e, v, hv, by simp [lookupA, e]⟩
        · have hc' : c ∈ rest.map (·.1) := by
            rcases List.mem_cons.mp hc with e' | e'
            · exact absurd e'.symm e
            · exact e'
          obtain ⟨it', hm, he, v', hv', hl⟩ := ih2 c hc'
          exact ⟨it', List.mem_cons_of_mem _ hm, he, v', hv', by simp only [lookupA, e, if_false]; exact hl⟩

/-- **what `t.cols[items]` contains**: the index is the source's, the listed names are the texts (the index column first
    when it was not requested), and each listed column is what `t[text]` returns for an item with that text -/
theorem colsExpr_value (t : Tbl) (items : List (String × Option CExpr)) (r : Tbl) (hr : colsExpr t items = .ok r) :
    r.index = t.index ∧ r.colNames = (withIndex t items).map (·.1) ∧
    ∀ c ∈ r.colNames, ∃ it ∈ withIndex t items, it.1 = c ∧ ∃ v, itemCol t it = .ok v ∧ r.col c = some v := by
  unfold colsExpr at hr
  cases hc : itemCols t (withIndex t items) with
  | error e => simp [hc] at hr
  | ok cols =>
    simp only [hc, Except.ok.injEq] at hr
    subst hr
    exact ⟨rfl, rfl, (itemCols_spec t _ cols hc).2⟩

theorem withIndex_ok (t : Tbl) (h : Rect t) (items : List (String × Option CExpr))
    (hok : ∀ it ∈ items, itemOK t it = true) : ∀ it ∈ withIndex t items, itemOK t it = true := by
  intro it hit
  unfold withIndex at hit
  split at hit
  · exact hok it hit
  · rcases List.mem_cons.mp hit with rfl | hit
    · simp [itemOK, h.1]
    · exact hok it hit

theorem index_mem_withIndex (t : Tbl) (items : List (String × Option CExpr)) :
    t.index ∈ (withIndex t items).map (·.1) := by
  unfold withIndex
  split
  · next hi => exact hi
  · simp

/-- **`t.cols[…]` with expressions is rectangular**, has the source's length and the source's index: `t` rectangular,
    every item passes `itemOK` (a text found in the dict is a listed column, the names inside the expressions are listed) -/
theorem colsExpr_rect (t : Tbl) (h : Rect t) (items : List (String × Option CExpr))
    (hok : ∀ it ∈ items, itemOK t it = true) (r : Tbl) (hr : colsExpr t items = .ok r) :
    Rect r ∧ r.nrows = t.nrows ∧ r.index = t.index := by
  obtain ⟨hi, hn, hcols⟩ := colsExpr_value t items r hr
  have hrect := rect_of_cols r t.nrows (by rw [hi, hn]; exact index_mem_withIndex t items) (by
    intro c hc
    obtain ⟨it, hm, _, v, hv, hl⟩ := hcols c hc
    exact ⟨v, hl, itemCol_length t h it (withIndex_ok t h items hok it hm) v hv⟩)
  exact ⟨hrect.1, hrect.2, hi⟩

/-! ### plain names only: `colsExpr` IS `selectCols` -/

theorem itemCols_plain (t : Tbl) : ∀ (names : List String),
    (names.mapM (fun c => (t.col c).map (fun v => (c, v))) = none →
      itemCols t (names.map (fun n => (n, none))) = .error .keyError) ∧
    (∀ cols, names.mapM (fun c => (t.col c).map (fun v => (c, v))) = some cols →
      itemCols t (names.map (fun n => (n, none))) = .ok cols)
  | [] => by
    refine ⟨fun h => ?_, fun cols h => ?_⟩
    · simp at h
    · simp only [List.mapM_nil, Option.pure_def, Option.some.injEq] at h
      subst h; rfl
  | n :: rest => by
    obtain ⟨ih1, ih2⟩ := itemCols_plain t rest
    simp only [List.mapM_cons, Option.bind_eq_bind, List.map_cons, itemCols, itemCol]
    cases hn : t.col n with
    | none => exact ⟨fun _ => rfl, fun cols h => by simp at h⟩
    | some v =>
      simp only [Option.map_some, Option.bind_some]
      cases hr : rest.mapM (fun c => (t.col c).map (fun v => (c, v))) with
      | none => exact ⟨fun _ => by rw [ih1 hr], fun cols h => by simp at h⟩
      | some cols' =>
        refine ⟨fun h => by simp at h, fun cols h => ?_⟩
        simp only [Option.bind_some, Option.pure_def, Option.some.injEq] at h
        subst h
        rw [ih2 cols' hr]

/-- with plain names only, `colsExpr` is the `selectCols` the model already had (same table, same error) -/
theorem colsExpr_plain (t : Tbl) (names : List String) :
    colsExpr t (names.map (fun n => (n, none))) = selectCols t names := by
  have hmap : ∀ l : List String, (l.map (fun n => ((n, none) : String × Option CExpr))).map (·.1) = l := by
    intro l; simp [List.map_map, Function.comp_def]
  have hw : withIndex t (names.map (fun n => (n, none))) =
      (if t.index ∈ names then names else t.index :: names).map (fun n => (n, none)) := by
    unfold withIndex
    rw [hmap]
    split <;> rfl
  unfold colsExpr selectCols
  simp only [hw, hmap]
  obtain ⟨h1, h2⟩ := itemCols_plain t (if t.index ∈ names then names else t.index :: names)
  cases hm : (if t.index ∈ names then names else t.index :: names).mapM (fun c => (t.col c).map (fun v => (c, v))) with
  | none => rw [h1 hm]
  | some cols => rw [h2 cols hm]

/-! ## 4. chains mixing column expressions with the other derivations -/

/-- the steps of `Deriv2` (derivations with other tables, assignments) and `t.cols[…]` with expressions -/
inductive DerivE where
  | base (d : Deriv2)
  | colsExpr (items : List (String × Option CExpr))

/-- One step.  As in `applyDeriv2`, the guard (`itemOK` for every item) delimits the calls the theorem speaks about; a
    guarded-out step ends the chain with an error and is NOT a claim about what Python raises. -/
def applyDerivE (t : Tbl) : DerivE → Except TErr Tbl
  | .base d => applyDeriv2 t d
  | .colsExpr items => if items.all (itemOK t) then colsExpr t items else .error .keyError

def DerivE.Valid : DerivE → Prop
  | .base d => d.Valid
  | .colsExpr _ => True

theorem stepE_rect (t : Tbl) (h : Rect t) (d : DerivE) (hv : d.Valid) (r : Tbl) (hr : applyDerivE t d = .ok r) :
    Rect r := by
  cases d with
  | base d => exact step2_rect t h d hv r hr
  | colsExpr items =>
    simp only [applyDerivE] at hr
    split at hr
    · next hall => exact (colsExpr_rect t h items (fun it hit => List.all_eq_true.mp hall it hit) r hr).1
    · cases hr

/-- **every chain** of derivations, assignments and column-expression selections that starts from a rectangular table ends
    in a rectangular table -/
theorem chainE_rect : ∀ (ds : List DerivE) (t r : Tbl), Rect t → (∀ d ∈ ds, d.Valid) →
    ds.foldlM applyDerivE t = .ok r → Rect r
  | [], t, r, h, _, hr => by
    simp only [List.foldlM_nil, pure, Except.pure, Except.ok.injEq] at hr
    subst hr; exact h
  | d :: ds, t, r, h, hv, hr => by
    simp only [List.foldlM_cons, bind, Except.bind] at hr
    cases h1 : applyDerivE t d with
    | error e => simp [h1] at hr
    | ok t1 =>
      simp only [h1] at hr
      exact chainE_rect ds t1 r (stepE_rect t h d (hv d (List.mem_cons_self ..)) t1 h1)
        (fun d' hd' => hv d' (List.mem_cons_of_mem _ hd')) hr

/-- the same, from the constructor -/
theorem chainE_from_new (cols : List (String × List Cell)) (index : String) (t : Tbl) (hnew : newT cols index = .ok t)
    (ds : List DerivE) (r : Tbl) (hv : ∀ d ∈ ds, d.Valid) (hr : ds.foldlM applyDerivE t = .ok r) : Rect r :=
  chainE_rect ds t r (newT_rect cols index t hnew).1 hv hr

/-! ## 5. concrete instances -/

/-- three rows `x, y, z`, two integer columns `a`, `b` (the index column `name` is a string column) -/
def demoE : Tbl :=
  { index := "name", colNames := ["name", "a", "b"],
    data := [("name", [.str "x", .str "y", .str "z"]), ("a", [.int 1, .int 2, .int 3]),
             ("b", [.int 10, .int 20, .int 30])], cache := none }

theorem demoE_new : newT [("name", [.str "x", .str "y", .str "z"]), ("a", [.int 1, .int 2, .int 3]),
    ("b", [.int 10, .int 20, .int 30])] "name" = .ok demoE := by rfl

theorem demoE_rect : Rect demoE := (newT_rect _ _ demoE demoE_new).1

/-- `a+2*b` -/
def exprA2B : CExpr := .add (.col "a") (.mul (.lit 2) (.col "b"))
/-- `a+b` -/
def exprAB : CExpr := .add (.col "a") (.col "b")

-- `t['a+2*b']`
example : getExpr demoE exprA2B = .ok [.int 21, .int 42, .int 63] := by rfl
-- `t['-a-b*b']`: unary minus, `-`, `*`
example : getExpr demoE (.sub (.neg (.col "a")) (.mul (.col "b") (.col "b"))) = .ok [.int (-101), .int (-402), .int (-903)] := by
  rfl
-- `t['name']`: a column, whatever its cells
example : getExpr demoE (.col "name") = .ok [.str "x", .str "y", .str "z"] := by rfl
-- an expression naming a missing column: `t['a+c']` (Python: `NameError`; the model's closest is `keyError`)
example : getExpr demoE (.add (.col "a") (.col "c")) = .error .keyError := by rfl
-- an expression over a string column: `t['a+name']`
example : getExpr demoE (.add (.col "a") (.col "name")) = .error .typeError := by rfl
-- the model is STRICTER than Python here: `'x' * 2` is `'xx'` in Python, `typeError` in the model
example : getExpr demoE (.mul (.col "name") (.lit 2)) = .error .typeError := by rfl
-- the left operand is evaluated first: the missing name wins over the string column
example : getExpr demoE (.add (.col "c") (.neg (.col "name"))) = .error .keyError := by rfl
-- an expression without any column is a scalar for `evalVal` and REFUSED as a column (Python: `t['2*3']` is `6`)
example : evalVal demoE (.mul (.lit 2) (.lit 3)) = .ok (.scalar 6) := by rfl
example : getExpr demoE (.mul (.lit 2) (.lit 3)) = .error .valueError := by rfl

-- `t.cols['a', 'a+b']`
example : (colsExpr demoE [("a", none), ("a+b", some exprAB)]).toOption.map (fun r => (r.index, r.colNames, r.data)) =
    some ("name", ["name", "a", "a+b"],
      [("name", [.str "x", .str "y", .str "z"]), ("a", [.int 1, .int 2, .int 3]), ("a+b", [.int 11, .int 22, .int 33])]) := by
  rfl
-- `t.cols['a+b']`: the index column comes first; requested explicitly it stays where it was put
example : (colsExpr demoE [("a+b", some exprAB)]).toOption.map (·.colNames) = some ["name", "a+b"] := by rfl
example : (colsExpr demoE [("a+b", some exprAB), ("name", none)]).toOption.map (·.colNames) = some ["a+b", "name"] := by rfl
-- errors of `t.cols[…]`: a missing plain name, a missing name inside an expression, a string column, no column at all
example : (colsExpr demoE [("a", none), ("c", none)]).toOption.isNone ∧
    (colsExpr demoE [("a+c", some (.add (.col "a") (.col "c")))]).toOption.isNone ∧
    (colsExpr demoE [("a+name", some (.add (.col "a") (.col "name")))]).toOption.isNone ∧
    (colsExpr demoE [("2", some (.lit 2))]).toOption.isNone := ⟨rfl, rfl, rfl, rfl⟩
-- a text that IS a key of the dict is that entry, whatever it looks like (`self._data[text]` comes first)
example : itemCol (setCol demoE "a+b" [.int 7, .int 8, .int 9]).1 ("a+b", some exprAB) = .ok [.int 7, .int 8, .int 9] := by rfl

-- the theorems instantiated (their hypotheses hold)
example : ∃ v, getExpr demoE exprA2B = .ok v ∧ v.length = demoE.nrows ∧ v[1]? = some (.int 42) := by
  refine ⟨[.int 21, .int 42, .int 63], rfl, ?_, rfl⟩
  exact evalCol_length demoE demoE_rect exprA2B (by decide) _ rfl
example : evalAt demoE 1 exprA2B = some (.int 42) := by rfl
example : ∃ v, evalCol demoE exprA2B = .ok v ∧ v[2]? = evalAt demoE 2 exprA2B :=
  ⟨_, rfl, evalCol_cell demoE demoE_rect exprA2B (by decide) _ rfl 2 (by decide)⟩
example : ∃ r, colsExpr demoE [("a", none), ("a+b", some exprAB)] = .ok r ∧ Rect r ∧ r.nrows = 3 ∧ r.index = "name" := by
  cases hr : colsExpr demoE [("a", none), ("a+b", some exprAB)] with
  | error e => exact absurd hr (by intro h; cases h)
  | ok r =>
    obtain ⟨h1, h2, h3⟩ := colsExpr_rect demoE demoE_rect _ (by decide) r hr
    exact ⟨r, rfl, h1, h2, h3⟩

-- WHY the hypotheses ask for LISTED names: an unlisted entry of the dict (length 1 here) is returned by `t['z']` as it
-- is, `t['a+z']` is refused by the model (numpy would broadcast the length-1 array), and `t.cols['z']` LISTS it — the
-- result is not rectangular.  `itemOK` is false for these items.
example : getExpr (setCol demoE "z" [.int 7]).1 (.col "z") = .ok [.int 7] ∧ (setCol demoE "z" [.int 7]).1.nrows = 3 :=
  ⟨rfl, by decide⟩
example : getExpr (setCol demoE "z" [.int 7]).1 (.add (.col "a") (.col "z")) = .error .typeError := by rfl
example : (colsExpr (setCol demoE "z" [.int 7]).1 [("z", none)]).toOption.map rectB = some false := by decide
example : itemOK (setCol demoE "z" [.int 7]).1 ("z", none) = false ∧
    itemOK (setCol demoE "z" [.int 7]).1 ("a+z", some (.add (.col "a") (.col "z"))) = false := by decide

-- a chain from the constructor mixing expressions with assignments, `+` with another table, rows, repetition, copy
def demoChainE : List DerivE :=
  [.colsExpr [("a", none), ("b", none), ("a+2*b", some exprA2B)],
   .base (.setCell "a" (.name "y") (.int 5)),
   .colsExpr [("a+2*b", none), ("s", some (.sub (.col "a+2*b") (.col "a")))],
   .base (.rows [2, 0]), .base (.mul 2), .base .copy,
   .colsExpr [("-s", some (.neg (.col "s")))], .base .transpose]

theorem demoChainE_valid : ∀ d ∈ demoChainE, d.Valid := by
  intro d hd
  simp only [demoChainE, List.mem_cons, List.not_mem_nil, or_false] at hd
  rcases hd with rfl | rfl | rfl | rfl | rfl | rfl | rfl | rfl <;> exact trivial

example : (demoChainE.foldlM applyDerivE demoE).toOption.map (fun r => (r.colNames, r.col "columns", r.col "row0", r.col "row1")) =
    some (["columns", "row0", "row1", "row2", "row3"], some [.str "name", .str "-s"],
          some [.str "z", .str "-60"], some [.str "x", .str "-20"]) := by decide +kernel

example : ∃ r, demoChainE.foldlM applyDerivE demoE = .ok r ∧ Rect r := by
  have hs : (demoChainE.foldlM applyDerivE demoE).toOption.isSome = true := by decide +kernel
  cases h : demoChainE.foldlM applyDerivE demoE with
  | error e => rw [h] at hs; cases hs
  | ok r => exact ⟨r, rfl, chainE_from_new _ _ demoE demoE_new demoChainE r demoChainE_valid h⟩

end TableM
