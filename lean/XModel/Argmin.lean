/-! `np.argmin` on a list: index of the first minimum (core only, so the driver can run it) -/
namespace Argmin
def argminAux {K : Type} [LT K] [DecidableRel (fun (a b : K) => a < b)] : List K → Nat → K → Nat → Nat
  | [], _, _, best => best
  | x :: rest, i, cur, best => if x < cur then argminAux rest (i + 1) x i else argminAux rest (i + 1) cur best

def argmin {K : Type} [LT K] [DecidableRel (fun (a b : K) => a < b)] : List K → Nat
  | [] => 0
  | x :: rest => argminAux rest 1 x 0
end Argmin
