import XModel.TableSel
import XModel.TableThms
/-!
# The exact-label fast path of `_get_regexp_indices('name::count<<k')` (C08, known finding D24)

`getRegexpIndices` first tries `getRowCache t name (some c) offset` — the `c`-th occurrence of the LITERAL text `name`
in the index column — and returns that single row when it exists; only when this misses does it run the documented
regexp semantics (`docCount`: the `c`-th occurrence of EVERY matching name, ascending, shifted).

This file determines exactly where the two differ.

* `scanLookup_offset` — the offset is a plain shift: `scanLookup col n c o = (scanLookup col n c 0).map (· + o)`.
  There is NO range check on the shifted position, neither in the fast path nor in the regexp path: a shifted position
  that leaves the table (negative, or `≥ nrows`) is returned as it is by both (`fastEx_out_of_range`).  The two readings
  therefore do not differ there and no in-range hypothesis appears anywhere below.
* `getRegexpIndices_count_hit` / `getRegexpIndices_count_miss` — what the function returns in the two cases.
* `count_selector_fast_hit` — the complement theorem: fast path hits, the regexp matches `name` and no other row name
  ⇒ the result `[i]` IS the documented list.
* `count_selector_fast_deviates` — the converse: fast path hits and another matching row name has a `c`-th occurrence
  ⇒ the documented list contains a position different from `i` (two or more elements when `name` matches itself).
* `count_selector_self_nonmatch` — a SECOND way to deviate that is not in D24's recorded signature: the literal `name`
  is a row name but the regexp `name` does not match the text `name` (regexp metacharacters in a row name, e.g. a row
  called `a+`); then the fast path returns that row and the documented list does not contain it.
* `docCount_eq_singleton_iff`, `count_selector_documented_iff` — the exact characterisation: with a count, the function
  returns the documented list iff not `Deviates`.
* `deviates_signature`, `count_selector_outside_D24` — `Deviates` implies D24's signature or the self-non-match
  signature; outside both the function returns the documented list.
-/
namespace TableM
open Cache

/-! ### the scan: offsets and positions -/

/-- the offset is a plain shift of the un-shifted look-up; nothing is clipped or rejected -/
theorem scanLookup_offset (col : List String) (n : String) (c o : Int) :
    scanLookup col n c o = (scanLookup col n c 0).map (· + o) := by
  unfold scanLookup
  simp only
  generalize (if c < 0 then c + ↑(occ col n) else c) = c'
  by_cases hc : c' < 0
  · simp [hc]
  · simp only [hc, if_false]
    cases nthOcc col n c'.toNat <;> simp

theorem nthOcc_getElem? : ∀ (col : List String) (name : String) (c i : Nat),
    nthOcc col name c = some i → col[i]? = some name
  | [], _, _, _, h => by simp [nthOcc] at h
  | x :: xs, name, c, i, h => by
    simp only [nthOcc] at h
    by_cases hx : x = name
    · simp only [hx, if_true] at h
      by_cases hc : c = 0
      · simp only [hc, if_true, Option.some.injEq] at h
        subst h
        simp [hx]
      · simp only [hc, if_false] at h
        cases hr : nthOcc xs name (c - 1) with
        | none => rw [hr] at h; simp at h
        | some j =>
          rw [hr] at h
          simp only [Option.map_some, Option.some.injEq] at h
          subst h
          simpa using nthOcc_getElem? xs name (c - 1) j hr
    · simp only [hx, if_false] at h
      cases hr : nthOcc xs name c with
      | none => rw [hr] at h; simp at h
      | some j =>
        rw [hr] at h
        simp only [Option.map_some, Option.some.injEq] at h
        subst h
        simpa using nthOcc_getElem? xs name c j hr

/-- an un-shifted look-up that succeeds points at a row carrying that name -/
theorem scanLookup_zero_getElem? (col : List String) (n : String) (c i : Int)
    (h : scanLookup col n c 0 = some i) : ∃ k : Nat, i = (k : Int) ∧ col[k]? = some n := by
  unfold scanLookup at h
  simp only at h
  generalize (if c < 0 then c + ↑(occ col n) else c) = c' at h
  by_cases hc : c' < 0
  · simp [hc] at h
  · simp only [hc, if_false] at h
    cases hn : nthOcc col n c'.toNat with
    | none => simp [hn] at h
    | some k =>
      simp only [hn, Option.some.injEq, Int.add_zero] at h
      exact ⟨k, h.symm, nthOcc_getElem? col n _ k hn⟩

/-- different names have different `c`-th occurrences -/
theorem scanLookup_zero_inj (col : List String) (n n' : String) (c i : Int)
    (h : scanLookup col n c 0 = some i) (h' : scanLookup col n' c 0 = some i) : n = n' := by
  obtain ⟨k, hk, hg⟩ := scanLookup_zero_getElem? col n c i h
  obtain ⟨k', hk', hg'⟩ := scanLookup_zero_getElem? col n' c i h'
  have : k = k' := by omega
  subst this
  rw [hg] at hg'
  exact Option.some.inj hg'

/-- a shifted look-up that succeeds: the un-shifted one succeeds, and the name is a row name -/
theorem scanLookup_some_split (col : List String) (n : String) (c o i : Int)
    (h : scanLookup col n c o = some i) :
    ∃ i0, scanLookup col n c 0 = some i0 ∧ i = i0 + o ∧ n ∈ col := by
  rw [scanLookup_offset] at h
  cases h0 : scanLookup col n c 0 with
  | none => rw [h0] at h; simp at h
  | some i0 =>
    rw [h0] at h
    simp only [Option.map_some, Option.some.injEq] at h
    obtain ⟨k, _, hg⟩ := scanLookup_zero_getElem? col n c i0 h0
    exact ⟨i0, rfl, h.symm, List.mem_of_getElem? hg⟩

/-! ### the documented list -/

/-- the documented semantics of `'regex::count<<offset'`, as the regexp path computes it: the `c`-th occurrence of
    every matching row name, ascending, shifted by the offset -/
def docCount (col : List String) (m : Match) (c offset : Int) : List Int :=
  (sortInts ((firstOccNames col m).filterMap (fun nn => scanLookup col nn c 0))).map (· + offset)

/-- `docCount` is the list characterised in `C08_count_selector` -/
theorem docCount_spec (col : List String) (m : Match) (c offset : Int) :
    (docCount col m c offset).Pairwise (· ≤ ·) ∧
    ∀ j, j ∈ docCount col m c offset ↔ ∃ (nn : String) (i : Int), nn ∈ col ∧ m nn = true ∧
      scanLookup col nn c 0 = some i ∧ j = i + offset := by
  obtain ⟨hsorted, hmem⟩ := sortInts_spec ((firstOccNames col m).filterMap (fun nn => scanLookup col nn c 0))
  refine ⟨?_, ?_⟩
  · exact List.Pairwise.map _ (fun a b hab => by omega) hsorted
  · intro j
    simp only [docCount, List.mem_map, hmem, List.mem_filterMap, mem_firstOccNames]
    constructor
    · rintro ⟨i, ⟨nn, ⟨hnn, hm⟩, hsc⟩, rfl⟩
      exact ⟨nn, i, hnn, hm, hsc, rfl⟩
    · rintro ⟨nn, i, hnn, hm, hsc, rfl⟩
      exact ⟨i, ⟨nn, ⟨hnn, hm⟩, hsc⟩, rfl⟩

/-! ### what `getRegexpIndices` returns with a count -/

/-- the fast path hits: that single row, whatever the regexp matches -/
theorem getRegexpIndices_count_hit (t : Tbl) (h : Coherent t) (m : Match) (sel name : String) (c offset i : Int)
    (hsplit : splitNameCountOffset t sel = .ok (name, some c, offset))
    (hfast : scanLookup t.indexCol name c offset = some i) :
    (getRegexpIndices t m sel).2 = .ok [i] := by
  have hs := getRowCache_scan t h name c offset
  unfold getRegexpIndices
  simp only [hsplit]
  generalize getRowCache t name (some c) offset = r at hs
  obtain ⟨t1, x⟩ := r
  simp only at hs
  subst hs
  rw [hfast]

/-- the fast path misses: the documented list -/
theorem getRegexpIndices_count_miss (t : Tbl) (h : Coherent t) (m : Match) (sel name : String) (c offset : Int)
    (hsplit : splitNameCountOffset t sel = .ok (name, some c, offset))
    (hfast : scanLookup t.indexCol name c offset = none) :
    (getRegexpIndices t m sel).2 = .ok (docCount t.indexCol m c offset) := by
  have hs := getRowCache_scan t h name c offset
  have hk := getRowCache_keeps t h name (some c) offset
  unfold getRegexpIndices
  simp only [hsplit]
  generalize getRowCache t name (some c) offset = r at hs hk
  obtain ⟨t1, x⟩ := r
  simp only at hs hk
  subst hs
  rw [hfast]
  simp only
  obtain ⟨t', he, _⟩ := regexp_loop_spec c (firstOccNames t1.indexCol m) t1 [] hk.1
  rw [he]
  simp only [List.nil_append]
  rw [hk.indexCol]
  rfl

/-! ### when is the documented list a single row -/

theorem firstOcc_fold_nodup (l : List String) : ∀ acc : List String, acc.Nodup →
    (l.foldl (fun acc x => if x ∈ acc then acc else acc ++ [x]) acc).Nodup := by
  induction l with
  | nil => intro acc h; exact h
  | cons x l ih =>
    intro acc h
    simp only [List.foldl_cons]
    apply ih
    by_cases hx : x ∈ acc
    · simp only [hx, if_true]; exact h
    · simp only [hx, if_false]
      rw [List.nodup_append]
      refine ⟨h, by simp, ?_⟩
      intro a ha b hb
      simp only [List.mem_singleton] at hb
      subst hb
      intro hab
      subst hab
      exact hx ha

theorem firstOccNames_nodup (col : List String) (keep : String → Bool) : (firstOccNames col keep).Nodup :=
  firstOcc_fold_nodup _ [] List.nodup_nil

/-- a `filterMap` that keeps exactly one entry of a duplicate-free list -/
theorem filterMap_only {β : Type} (f : String → Option β) (name : String) (v : β) (hv : f name = some v) :
    ∀ l : List String, l.Nodup → name ∈ l → (∀ x ∈ l, x ≠ name → f x = none) → l.filterMap f = [v]
  | [], _, hmem, _ => by simp at hmem
  | x :: xs, hnd, hmem, hother => by
    rw [List.nodup_cons] at hnd
    by_cases hx : x = name
    · subst hx
      have hnone : ∀ y ∈ xs, f y = none := by
        intro y hy
        apply hother y (List.mem_cons_of_mem _ hy)
        intro hyx
        subst hyx
        exact hnd.1 hy
      have : xs.filterMap f = [] := by
        rw [List.filterMap_eq_nil_iff]
        exact hnone
      simp [hv, this]
    · have hmem' : name ∈ xs := by
        rcases List.mem_cons.mp hmem with h | h
        · exact absurd h.symm hx
        · exact h
      have ih := filterMap_only f name v hv xs hnd.2 hmem'
        (fun y hy => hother y (List.mem_cons_of_mem _ hy))
      have hfx : f x = none := hother x List.mem_cons_self hx
      simp [hfx, ih]

theorem sortInts_singleton (x : Int) : sortInts [x] = [x] := by
  simp [sortInts, insertSorted]

theorem two_le_length_of_mem_ne {α : Type} (l : List α) (a b : α) (ha : a ∈ l) (hb : b ∈ l) (hab : a ≠ b) :
    2 ≤ l.length := by
  match l, ha, hb with
  | [], ha, _ => simp at ha
  | [x], ha, hb =>
    simp only [List.mem_singleton] at ha hb
    exact absurd (ha.trans hb.symm) hab
  | _ :: _ :: _, _, _ => simp

/-- **the exact condition** under which the documented list is the fast path's single row `i` -/
theorem docCount_eq_singleton_iff (col : List String) (m : Match) (name : String) (c offset i : Int)
    (hfast : scanLookup col name c offset = some i) :
    docCount col m c offset = [i] ↔
      (m name = true ∧ ∀ nn ∈ col, m nn = true → nn ≠ name → scanLookup col nn c 0 = none) := by
  obtain ⟨i0, h0, hi, hmemname⟩ := scanLookup_some_split col name c offset i hfast
  have hspec := (docCount_spec col m c offset).2
  constructor
  · intro heq
    rw [heq] at hspec
    constructor
    · obtain ⟨nn, i1, _, hm, hsc, hj⟩ := (hspec i).mp (by simp)
      have : i1 = i0 := by omega
      subst this
      rw [scanLookup_zero_inj col name nn c i1 h0 hsc]
      exact hm
    · intro nn hnn hm hne
      cases hsc : scanLookup col nn c 0 with
      | none => rfl
      | some i1 =>
        exfalso
        have hin : i1 + offset ∈ [i] := (hspec (i1 + offset)).mpr ⟨nn, i1, hnn, hm, hsc, rfl⟩
        simp only [List.mem_singleton] at hin
        have : i1 = i0 := by omega
        subst this
        exact hne (scanLookup_zero_inj col nn name c i1 hsc h0)
  · rintro ⟨hself, hother⟩
    have hfm : (firstOccNames col m).filterMap (fun nn => scanLookup col nn c 0) = [i0] := by
      apply filterMap_only (fun nn => scanLookup col nn c 0) name i0 h0 _ (firstOccNames_nodup col m)
      · exact (mem_firstOccNames col m name).mpr ⟨hmemname, hself⟩
      · intro x hx hne
        obtain ⟨hxc, hxm⟩ := (mem_firstOccNames col m x).mp hx
        exact hother x hxc hxm hne
    unfold docCount
    rw [hfm, sortInts_singleton, hi]
    rfl

/-! ### the complement theorem: outside D24's signature the fast path is the documented answer -/

/-- **Fast path hits, and the regexp matches `name` and no other row name**: the result is `[i]`, and `[i]` is the
    documented list — both as the list the regexp path would compute (`docCount`) and in the form of
    `C08_count_selector` -/
theorem count_selector_fast_hit (t : Tbl) (h : Coherent t) (m : Match) (sel name : String) (c offset i : Int)
    (hsplit : splitNameCountOffset t sel = .ok (name, some c, offset))
    (hfast : scanLookup t.indexCol name c offset = some i)
    (honly : ∀ nn ∈ t.indexCol, m nn = true → nn = name)
    (hself : m name = true) :
    (getRegexpIndices t m sel).2 = .ok [i] ∧
    docCount t.indexCol m c offset = [i] ∧
    ([i] : List Int).Pairwise (· ≤ ·) ∧
    ∀ j, j ∈ [i] ↔ ∃ (nn : String) (i0 : Int), nn ∈ t.indexCol ∧ m nn = true ∧
      scanLookup t.indexCol nn c 0 = some i0 ∧ j = i0 + offset := by
  have hdoc : docCount t.indexCol m c offset = [i] :=
    (docCount_eq_singleton_iff t.indexCol m name c offset i hfast).mpr
      ⟨hself, fun nn hnn hm hne => absurd (honly nn hnn hm) hne⟩
  have hspec := docCount_spec t.indexCol m c offset
  rw [hdoc] at hspec
  exact ⟨getRegexpIndices_count_hit t h m sel name c offset i hsplit hfast, hdoc, hspec.1, hspec.2⟩

/-- any list meeting the characterisation of `C08_count_selector` consists of the fast path's row only -/
theorem count_selector_fast_hit_any (col : List String) (m : Match) (name : String) (c offset i : Int)
    (hfast : scanLookup col name c offset = some i)
    (honly : ∀ nn ∈ col, m nn = true → nn = name)
    (hself : m name = true) (l : List Int)
    (hl : ∀ j, j ∈ l ↔ ∃ (nn : String) (i0 : Int), nn ∈ col ∧ m nn = true ∧
      scanLookup col nn c 0 = some i0 ∧ j = i0 + offset) :
    i ∈ l ∧ ∀ j ∈ l, j = i := by
  have hdoc : docCount col m c offset = [i] :=
    (docCount_eq_singleton_iff col m name c offset i hfast).mpr
      ⟨hself, fun nn hnn hm hne => absurd (honly nn hnn hm) hne⟩
  have hspec := (docCount_spec col m c offset).2
  rw [hdoc] at hspec
  constructor
  · rw [hl, ← hspec]; simp
  · intro j hj
    rw [hl, ← hspec] at hj
    simpa using hj

/-! ### the converse: inside the signature the deviation really occurs -/

/-- **Fast path hits and ANOTHER matching row name has a `c`-th occurrence**: the documented list contains the position
    `i' + offset ≠ i`, so it is not `[i]`, while the function returns `[i]`; when `name` matches itself the documented
    list also contains `i` and has at least two elements.  No range condition: the regexp path does not check the
    shifted position either. -/
theorem count_selector_fast_deviates (t : Tbl) (h : Coherent t) (m : Match) (sel name : String) (c offset i : Int)
    (hsplit : splitNameCountOffset t sel = .ok (name, some c, offset))
    (hfast : scanLookup t.indexCol name c offset = some i)
    (nn : String) (i' : Int) (hnn : nn ∈ t.indexCol) (hne : nn ≠ name) (hm : m nn = true)
    (hocc : scanLookup t.indexCol nn c 0 = some i') :
    (getRegexpIndices t m sel).2 = .ok [i] ∧
    i' + offset ∈ docCount t.indexCol m c offset ∧ i' + offset ≠ i ∧
    docCount t.indexCol m c offset ≠ [i] ∧
    (m name = true → i ∈ docCount t.indexCol m c offset ∧ 2 ≤ (docCount t.indexCol m c offset).length) := by
  obtain ⟨i0, h0, hi, hmemname⟩ := scanLookup_some_split t.indexCol name c offset i hfast
  have hspec := (docCount_spec t.indexCol m c offset).2
  have hin : i' + offset ∈ docCount t.indexCol m c offset := (hspec _).mpr ⟨nn, i', hnn, hm, hocc, rfl⟩
  have hneq : i' + offset ≠ i := by
    intro heq
    have : i' = i0 := by omega
    subst this
    exact hne (scanLookup_zero_inj t.indexCol nn name c i' hocc h0)
  refine ⟨getRegexpIndices_count_hit t h m sel name c offset i hsplit hfast, hin, hneq, ?_, ?_⟩
  · intro heq
    rw [heq] at hin
    exact hneq (by simpa using hin)
  · intro hself
    have hin2 : i ∈ docCount t.indexCol m c offset := (hspec _).mpr ⟨name, i0, hmemname, hself, h0, hi⟩
    exact ⟨hin2, two_le_length_of_mem_ne _ _ _ hin hin2 hneq⟩

/-- **A second deviation, not in D24's recorded signature**: the fast path hits but the regexp `name` does not match
    the text `name` itself (a row name with regexp metacharacters).  The function returns that row; the documented list
    does not contain it (and is empty when nothing else matches). -/
theorem count_selector_self_nonmatch (t : Tbl) (h : Coherent t) (m : Match) (sel name : String) (c offset i : Int)
    (hsplit : splitNameCountOffset t sel = .ok (name, some c, offset))
    (hfast : scanLookup t.indexCol name c offset = some i)
    (hself : m name = false) :
    (getRegexpIndices t m sel).2 = .ok [i] ∧ i ∉ docCount t.indexCol m c offset ∧
    ((∀ nn ∈ t.indexCol, m nn = true → nn = name) → docCount t.indexCol m c offset = []) := by
  obtain ⟨i0, h0, hi, _⟩ := scanLookup_some_split t.indexCol name c offset i hfast
  have hspec := (docCount_spec t.indexCol m c offset).2
  refine ⟨getRegexpIndices_count_hit t h m sel name c offset i hsplit hfast, ?_, ?_⟩
  · intro hin
    obtain ⟨nn, i1, _, hm, hsc, hj⟩ := (hspec i).mp hin
    have : i1 = i0 := by omega
    subst this
    rw [scanLookup_zero_inj t.indexCol nn name c i1 hsc h0] at hm
    rw [hself] at hm
    exact Bool.noConfusion hm
  · intro honly
    apply List.eq_nil_iff_forall_not_mem.mpr
    intro j hj
    obtain ⟨nn, i1, hnn, hm, _, _⟩ := (hspec j).mp hj
    rw [honly nn hnn hm, hself] at hm
    exact Bool.noConfusion hm

/-! ### the exact characterisation -/

/-- where the fast path changes the answer: the literal `name` has a `c`-th occurrence, and either the regexp does not
    match `name` itself or it matches a different row name that has a `c`-th occurrence -/
def Deviates (col : List String) (m : Match) (name : String) (c offset : Int) : Prop :=
  ∃ i, scanLookup col name c offset = some i ∧
    (m name = false ∨ ∃ nn ∈ col, nn ≠ name ∧ m nn = true ∧ ∃ i', scanLookup col nn c 0 = some i')

/-- D24's recorded signature (for a selector that has a `::count` part): the name part is a row name and the regexp
    also matches a different row name -/
def D24Sig (col : List String) (m : Match) (name : String) : Prop :=
  name ∈ col ∧ ∃ nn ∈ col, nn ≠ name ∧ m nn = true

/-- the second signature: the name part is a row name that the regexp `name` does not match -/
def SelfMiss (col : List String) (m : Match) (name : String) : Prop :=
  name ∈ col ∧ m name = false

/-- **`'regex::count<<k'` returns the documented list exactly when not `Deviates`** -/
theorem count_selector_documented_iff (t : Tbl) (h : Coherent t) (m : Match) (sel name : String) (c offset : Int)
    (hsplit : splitNameCountOffset t sel = .ok (name, some c, offset)) :
    (getRegexpIndices t m sel).2 = .ok (docCount t.indexCol m c offset) ↔
      ¬ Deviates t.indexCol m name c offset := by
  cases hfast : scanLookup t.indexCol name c offset with
  | none =>
    constructor
    · rintro _ ⟨i, hi, _⟩
      rw [hfast] at hi
      exact absurd hi (by simp)
    · intro _
      exact getRegexpIndices_count_miss t h m sel name c offset hsplit hfast
  | some i =>
    rw [getRegexpIndices_count_hit t h m sel name c offset i hsplit hfast]
    have hiff := docCount_eq_singleton_iff t.indexCol m name c offset i hfast
    constructor
    · intro heq
      have hdoc : docCount t.indexCol m c offset = [i] := (Except.ok.inj heq).symm
      obtain ⟨hself, hother⟩ := hiff.mp hdoc
      rintro ⟨_, _, hdev⟩
      rcases hdev with hf | ⟨nn, hnn, hne, hm, i', hi'⟩
      · rw [hself] at hf; exact Bool.noConfusion hf
      · rw [hother nn hnn hm hne] at hi'; exact absurd hi' (by simp)
    · intro hnd
      have hdoc : docCount t.indexCol m c offset = [i] := by
        apply hiff.mpr
        constructor
        · cases hmn : m name with
          | true => rfl
          | false => exact absurd ⟨i, hfast, Or.inl hmn⟩ hnd
        · intro nn hnn hm hne
          cases hsc : scanLookup t.indexCol nn c 0 with
          | none => rfl
          | some i' => exact absurd ⟨i, hfast, Or.inr ⟨nn, hnn, hne, hm, i', hsc⟩⟩ hnd
      rw [hdoc]

/-- a deviation carries D24's signature or the self-non-match signature -/
theorem deviates_signature (col : List String) (m : Match) (name : String) (c offset : Int)
    (hd : Deviates col m name c offset) : D24Sig col m name ∨ SelfMiss col m name := by
  obtain ⟨i, hfast, hdev⟩ := hd
  obtain ⟨_, _, _, hmem⟩ := scanLookup_some_split col name c offset i hfast
  rcases hdev with hf | ⟨nn, hnn, hne, hm, _⟩
  · exact Or.inr ⟨hmem, hf⟩
  · exact Or.inl ⟨hmem, nn, hnn, hne, hm⟩

/-- **Outside D24's signature** (and outside the self-non-match signature) a selector with a count returns the
    documented list: ascending, and a position is listed exactly when it is the shifted `c`-th occurrence of a matching
    row name — whether the fast path hit or not -/
theorem count_selector_outside_D24 (t : Tbl) (h : Coherent t) (m : Match) (sel name : String) (c offset : Int)
    (hsplit : splitNameCountOffset t sel = .ok (name, some c, offset))
    (hD24 : ¬ D24Sig t.indexCol m name) (hself : ¬ SelfMiss t.indexCol m name) :
    ∃ l, (getRegexpIndices t m sel).2 = .ok l ∧ l = docCount t.indexCol m c offset ∧ l.Pairwise (· ≤ ·) ∧
      ∀ j, j ∈ l ↔ ∃ (nn : String) (i : Int), nn ∈ t.indexCol ∧ m nn = true ∧
        scanLookup t.indexCol nn c 0 = some i ∧ j = i + offset := by
  have hnd : ¬ Deviates t.indexCol m name c offset := fun hd =>
    (deviates_signature _ _ _ _ _ hd).elim hD24 hself
  have hspec := docCount_spec t.indexCol m c offset
  exact ⟨_, (count_selector_documented_iff t h m sel name c offset hsplit).mpr hnd, rfl, hspec.1, hspec.2⟩

/-- D24's signature is necessary, not sufficient: it needs the other name to HAVE a `c`-th occurrence -/
theorem d24Sig_without_deviation (t : Tbl) (h : Coherent t) (m : Match) (sel name : String) (c offset : Int)
    (hsplit : splitNameCountOffset t sel = .ok (name, some c, offset))
    (hself : m name = true)
    (hnone : ∀ nn ∈ t.indexCol, m nn = true → nn ≠ name → scanLookup t.indexCol nn c 0 = none) :
    (getRegexpIndices t m sel).2 = .ok (docCount t.indexCol m c offset) := by
  apply (count_selector_documented_iff t h m sel name c offset hsplit).mpr
  rintro ⟨_, _, hdev⟩
  rcases hdev with hf | ⟨nn, hnn, hne, hm, i', hi'⟩
  · rw [hself] at hf; exact Bool.noConfusion hf
  · rw [hnone nn hnn hm hne] at hi'; exact absurd hi' (by simp)

/-! ### examples -/

/-- rows `A`, `b`, `a` -/
def fastEx : Tbl :=
  { index := "name", colNames := ["name", "k"],
    data := [("name", [.str "A", .str "b", .str "a"]), ("k", [.int 10, .int 11, .int 12])],
    cache := none }

/-- `re.fullmatch('A', IGNORECASE)` on the row names -/
def fastExM : Match := fun s => s == "A" || s == "a"
/-- `re.fullmatch('b', IGNORECASE)` -/
def fastExB : Match := fun s => s == "b" || s == "B"

theorem fastEx_coherent : Coherent fastEx := Or.inl rfl
theorem fastEx_split : splitNameCountOffset fastEx "A::0" = .ok ("A", some 0, 0) := by rfl
theorem fastEx_split_b : splitNameCountOffset fastEx "b::0" = .ok ("b", some 0, 0) := by rfl

/-- **D24 on the example** (required): `'A::0'` — the fast path gives the one row `0`, the documented semantics the two
    rows `0` and `2` -/
example : (getRegexpIndices fastEx fastExM "A::0").2 = .ok [0] := by rfl
example : docCount fastEx.indexCol fastExM 0 0 = [0, 2] := by rfl
/-- the same selector when the fast path cannot hit (`'[Aa]::0'` is not a row name): the documented two rows -/
example : (getRegexpIndices fastEx fastExM "[Aa]::0").2 = .ok [0, 2] := by rfl

/-- hypotheses of `count_selector_fast_deviates` on the example -/
example : (getRegexpIndices fastEx fastExM "A::0").2 = .ok [0] ∧
    (2 : Int) + 0 ∈ docCount fastEx.indexCol fastExM 0 0 ∧ (2 : Int) + 0 ≠ 0 ∧
    docCount fastEx.indexCol fastExM 0 0 ≠ [0] ∧
    (fastExM "A" = true → (0 : Int) ∈ docCount fastEx.indexCol fastExM 0 0 ∧
      2 ≤ (docCount fastEx.indexCol fastExM 0 0).length) :=
  count_selector_fast_deviates fastEx fastEx_coherent fastExM "A::0" "A" 0 0 0 fastEx_split (by rfl)
    "a" 2 (by decide) (by decide) (by rfl) (by rfl)

/-- hypotheses of `count_selector_fast_hit` on the example: `'b::0'`, only `b` matches -/
example : (getRegexpIndices fastEx fastExB "b::0").2 = .ok [1] ∧ docCount fastEx.indexCol fastExB 0 0 = [1] :=
  let r := count_selector_fast_hit fastEx fastEx_coherent fastExB "b::0" "b" 0 0 1 fastEx_split_b (by rfl)
    (by decide) (by rfl)
  ⟨r.1, r.2.1⟩

/-- `count_selector_outside_D24` on the example -/
example : ∃ l, (getRegexpIndices fastEx fastExB "b::0").2 = .ok l ∧ l = docCount fastEx.indexCol fastExB 0 0 ∧
    l.Pairwise (· ≤ ·) ∧
    ∀ j, j ∈ l ↔ ∃ (nn : String) (i : Int), nn ∈ fastEx.indexCol ∧ fastExB nn = true ∧
      scanLookup fastEx.indexCol nn 0 0 = some i ∧ j = i + 0 :=
  count_selector_outside_D24 fastEx fastEx_coherent fastExB "b::0" "b" 0 0 fastEx_split_b
    (by unfold D24Sig; decide) (by unfold SelfMiss; decide)

/-- no range check, in either path: `'b::0>>5'` yields position `6` of a three-row table through the fast path, and
    the regexp path (`'[b]::0>>5'`, not a row name) yields the same `6`; `'b::0<<3'` yields `-2` -/
theorem fastEx_out_of_range :
    (getRegexpIndices fastEx fastExB "b::0>>5").2 = .ok [6] ∧
    (getRegexpIndices fastEx fastExB "[b]::0>>5").2 = .ok [6] ∧
    docCount fastEx.indexCol fastExB 0 5 = [6] ∧
    (getRegexpIndices fastEx fastExB "b::0<<3").2 = .ok [-2] ∧
    (getRegexpIndices fastEx fastExB "[b]::0<<3").2 = .ok [-2] := by
  refine ⟨by rfl, by rfl, by rfl, by rfl, by rfl⟩

/-- rows `a+`, `aa`: the regexp `a+` does not match the text `a+` -/
def fastExPlus : Tbl :=
  { index := "name", colNames := ["name"],
    data := [("name", [.str "a+", .str "aa"])],
    cache := none }
/-- `re.fullmatch('a+', IGNORECASE)` on the row names: `aa` matches, `a+` does not -/
def fastExPlusM : Match := fun s => s == "aa" || s == "a"
/-- an oracle that matches nothing in the table -/
def fastExNoneM : Match := fun _ => false

/-- **the self-non-match deviation on an example**: `'a+::0'` returns row `0` (the row literally called `a+`), the
    documented semantics row `1` (`aa`) -/
example : (getRegexpIndices fastExPlus fastExPlusM "a+::0").2 = .ok [0] := by rfl
example : docCount fastExPlus.indexCol fastExPlusM 0 0 = [1] := by rfl
/-- hypotheses of `count_selector_self_nonmatch` -/
example : (getRegexpIndices fastExPlus fastExNoneM "a+::0").2 = .ok [0] ∧
    (0 : Int) ∉ docCount fastExPlus.indexCol fastExNoneM 0 0 ∧
    ((∀ nn ∈ fastExPlus.indexCol, fastExNoneM nn = true → nn = "a+") →
      docCount fastExPlus.indexCol fastExNoneM 0 0 = []) :=
  count_selector_self_nonmatch fastExPlus (Or.inl rfl) fastExNoneM "a+::0" "a+" 0 0 0 (by rfl) (by rfl) (by rfl)

/-- rows `A`, `A`, `a`, selector `'A::1'`: D24's signature holds (`a` matches too) but `a` has no second occurrence,
    so the fast path's row is the documented answer -/
def fastExTwo : Tbl :=
  { index := "name", colNames := ["name"],
    data := [("name", [.str "A", .str "A", .str "a"])],
    cache := none }
example : D24Sig fastExTwo.indexCol fastExM "A" := ⟨by decide, "a", by decide, by decide, by rfl⟩
example : (getRegexpIndices fastExTwo fastExM "A::1").2 = .ok [1] := by rfl
example : docCount fastExTwo.indexCol fastExM 1 0 = [1] := by rfl
example : (getRegexpIndices fastExTwo fastExM "A::1").2 = .ok (docCount fastExTwo.indexCol fastExM 1 0) :=
  d24Sig_without_deviation fastExTwo (Or.inl rfl) fastExM "A::1" "A" 1 0 (by rfl) (by rfl) (by decide)

/-- `count_selector_documented_iff` on the examples, both directions -/
example : Deviates fastEx.indexCol fastExM "A" 0 0 :=
  ⟨0, by rfl, Or.inr ⟨"a", by decide, by decide, by rfl, 2, by rfl⟩⟩
example : (getRegexpIndices fastEx fastExM "A::0").2 ≠ .ok (docCount fastEx.indexCol fastExM 0 0) := fun hq =>
  (count_selector_documented_iff fastEx fastEx_coherent fastExM "A::0" "A" 0 0 fastEx_split).mp hq
    ⟨0, by rfl, Or.inr ⟨"a", by decide, by decide, by rfl, 2, by rfl⟩⟩

end TableM
