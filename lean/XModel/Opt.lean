/-! Prototype: control skeleton of `Optimize.solve` / `step` / `reload` over abstract numerics, in a
    state-with-exceptions monad (Python exceptions keep the side effects made so far), and the
    coherence invariant behind C09. -/
namespace Opt

variable {R : Type}

structure Cfg (R : Type) where
  n : Nat
  mulW : Nat → R → R                       -- x ↦ x * weight_i
  divW : Nat → R → R                       -- k ↦ k / weight_i
  inLimits : Nat → R → Bool
  f : (Nat → R) → Option (Nat → R)         -- user's function on the container (none = raises)
  within : (Nat → R) → (Nat → Bool) → Bool -- every active target within tolerance
  assertWithinTol : Bool
  restoreIfFail : Bool

structure Row (R : Type) where
  knobs : Nat → R
  vAct : Nat → Bool
  tAct : Nat → Bool

structure St (R : Type) where
  knobs : Nat → R
  vAct : Nat → Bool
  tAct : Nat → Bool
  solverX : Nat → R
  lastWithin : Bool
  log : List (Row R)
  -- ghost: the argument and the container/masks of the most recent completed merit evaluation
  evalX : Nat → R
  evalKnobs : Nat → R
  evalTAct : Nat → Bool

inductive Err where
  | limit | user | noTol | penalty
deriving DecidableEq

/-- state persists when an exception is raised -/
abbrev M (R : Type) (α : Type) := St R → (Except Err α × St R)

def pure' {α} (a : α) : M R α := fun s => (.ok a, s)
def bind' {α β} (m : M R α) (k : α → M R β) : M R β := fun s =>
  match m s with
  | (.ok a, s') => k a s'
  | (.error e, s') => (.error e, s')
def raise {α} (e : Err) : M R α := fun s => (.error e, s)
def tryCatch' {α} (m : M R α) (h : Err → M R α) : M R α := fun s =>
  match m s with
  | (.ok a, s') => (.ok a, s')
  | (.error e, s') => h e s'

/-- the knob-writing loop of `MeritFunctionForMatch.__call__`: active knobs in order, limit test first -/
def writeKnobs (c : Cfg R) (check : Bool) (x : Nat → R) : Nat → M R Unit
  | 0 => pure' ()
  | k+1 => bind' (writeKnobs c check x k) (fun _ s =>
      let i := k
      if s.vAct i then
        let v := c.mulW i (x i)
        if check && !(c.inLimits i v) then (.error .limit, s)
        else (.ok (), { s with knobs := fun j => if j = i then v else s.knobs j })
      else (.ok (), s))

/-- one call of the merit function -/
def merit (c : Cfg R) (check : Bool) (x : Nat → R) : M R Unit :=
  bind' (writeKnobs c check x c.n) (fun _ s =>
    match c.f s.knobs with
    | none => (.error .user, s)
    | some res =>
      (.ok (), { s with lastWithin := c.within res s.tAct, evalX := x, evalKnobs := s.knobs, evalTAct := s.tAct }))

def extractX (c : Cfg R) (s : St R) : Nat → R := fun i => c.divW i (s.knobs i)

/-- `add_point_to_log`: read the knobs, evaluate there, append the row -/
def addPoint (c : Cfg R) : M R Unit := fun s =>
  let row : Row R := ⟨s.knobs, s.vAct, s.tAct⟩
  match merit c true (extractX c s) s with
  | (.ok (), s') => (.ok (), { s' with log := s'.log ++ [row] })
  | (.error e, s') => (.error e, s')

/-- `reload(iteration)`: all knobs and both masks from the row, then log the point -/
def reload (c : Cfg R) (i : Nat) : M R Unit := fun s =>
  match s.log[i]? with
  | none => (.error .user, s)
  | some row => addPoint c { s with knobs := row.knobs, vAct := row.vAct, tAct := row.tAct }

/-- `set_knobs_from_x(solver.x)` -/
def setKnobsFromX (c : Cfg R) : M R Unit := fun s =>
  (.ok (), { s with knobs := fun i => if i < c.n ∧ s.vAct i = true then c.mulW i (s.solverX i) else s.knobs i })

/-- a run of merit calls, stopping at the first exception -/
def meritAll (c : Cfg R) (check : Bool) : List (Nat → R) → M R Unit
  | [] => pure' ()
  | x :: xs => bind' (merit c check x) (fun _ => meritAll c check xs)

/-- `JacobianSolver.step`: some merit calls decided by the numerics (an oracle list here: Jacobian
    perturbations without limit check, then bisection trials with it), possibly the penalty-increase
    error after a re-evaluation at the old point; on normal return `x` is the last trial point. -/
def solverStep (c : Cfg R) (jac : List (Nat → R)) (trials : List (Nat → R)) (lastTrial : Nat → R)
    (penaltyError : Bool) : M R Unit := fun s =>
  let x0 := s.solverX
  let m : M R Unit :=
    bind' (merit c true x0) (fun _ =>
    bind' (meritAll c false jac) (fun _ =>
    bind' (meritAll c true trials) (fun _ =>
    bind' (merit c true lastTrial) (fun _ =>
      if penaltyError then bind' (merit c true x0) (fun _ => raise .penalty)
      else fun s => (.ok (), { s with solverX := lastTrial })))))
  m s

/-- the variant that stops right after the first evaluation ("tolerance met") -/
def solverStepEarly (c : Cfg R) : M R Unit := fun s => merit c true s.solverX s

/-- one iteration of the loop of `Optimize.step` -/
def optIter (c : Cfg R) (resync early : Bool) (jac trials : List (Nat → R)) (lastTrial : Nat → R) (pe : Bool) : M R Unit :=
  bind' (fun s => (.ok (), if resync then { s with solverX := extractX c s } else s)) (fun _ =>
  bind' (if early then solverStepEarly c else solverStep c jac trials lastTrial pe) (fun _ =>
  bind' (setKnobsFromX c) (fun _ s =>
    (.ok (), { s with log := s.log ++ [⟨s.knobs, s.vAct, s.tAct⟩] }))))

/-! ### the coherence invariant -/

/-- container and masks are those of the last evaluation, and the flag is the tolerance predicate there -/
structure Coh (c : Cfg R) (s : St R) : Prop where
  knobs : s.knobs = s.evalKnobs
  tact : s.tAct = s.evalTAct
  flag : ∃ res, c.f s.evalKnobs = some res ∧ s.lastWithin = c.within res s.evalTAct
  img : ∀ i, i < c.n → s.vAct i = true → s.knobs i = c.mulW i (s.evalX i)

theorem writeKnobs_spec (c : Cfg R) (check : Bool) (x : Nat → R) (k : Nat) (s s' : St R)
    (h : writeKnobs c check x k s = (.ok (), s')) :
    s'.vAct = s.vAct ∧ s'.tAct = s.tAct ∧ s'.solverX = s.solverX ∧ s'.log = s.log ∧
    (∀ i, i < k → s.vAct i = true → s'.knobs i = c.mulW i (x i)) ∧
    (∀ i, (k ≤ i ∨ s.vAct i = false) → s'.knobs i = s.knobs i) := by
  induction k generalizing s' with
  | zero =>
    simp only [writeKnobs, pure'] at h
    cases h
    exact ⟨rfl, rfl, rfl, rfl, by intro i hi; omega, by intro i _; rfl⟩
  | succ k ih =>
    simp only [writeKnobs, bind'] at h
    cases hk : writeKnobs c check x k s with
    | mk r s1 =>
      rw [hk] at h
      cases r with
      | error e => simp at h
      | ok u =>
        obtain ⟨h1, h2, h3, h4, h5, h6⟩ := ih s1 hk
        simp only at h
        by_cases ha : s1.vAct k = true
        · simp only [ha, if_true] at h
          by_cases hl : (check && !(c.inLimits k (c.mulW k (x k)))) = true
          · simp [hl] at h
          · simp only [hl] at h
            cases h
            refine ⟨h1, h2, h3, h4, ?_, ?_⟩
            · intro i hi hact
              by_cases hik : i = k
              · subst hik; simp
              · simp only [hik, if_false]; exact h5 i (by omega) hact
            · intro i hi
              have hik : i ≠ k := by
                rintro rfl
                rcases hi with hi | hi
                · omega
                · rw [← h1] at hi; simp [ha] at hi
              simp only [hik, if_false]
              exact h6 i (by rcases hi with hi | hi; exact Or.inl (by omega); exact Or.inr hi)
        · simp only [ha] at h
          cases h
          refine ⟨h1, h2, h3, h4, ?_, ?_⟩
          · intro i hi hact
            by_cases hik : i = k
            · subst hik; rw [← h1] at hact; exact absurd hact ha
            · exact h5 i (by omega) hact
          · intro i hi
            by_cases hik : i = k
            · subst hik; exact h6 i (Or.inl (Nat.le_refl _))
            · exact h6 i (by rcases hi with hi | hi; exact Or.inl (by omega); exact Or.inr hi)

/-- after a successful merit call the state is coherent, whatever it was before -/
theorem merit_coh (c : Cfg R) (check : Bool) (x : Nat → R) (s s' : St R)
    (h : merit c check x s = (.ok (), s')) :
    Coh c s' ∧ s'.evalX = x ∧ s'.vAct = s.vAct ∧ s'.tAct = s.tAct ∧ s'.solverX = s.solverX ∧ s'.log = s.log := by
  simp only [merit, bind'] at h
  cases hw : writeKnobs c check x c.n s with
  | mk r s1 =>
    rw [hw] at h
    cases r with
    | error e => simp at h
    | ok u =>
      obtain ⟨h1, h2, h3, h4, h5, h6⟩ := writeKnobs_spec c check x c.n s s1 hw
      simp only at h
      cases hf : c.f s1.knobs with
      | none => simp [hf] at h
      | some res =>
        simp only [hf] at h
        cases h
        refine ⟨⟨rfl, rfl, ⟨res, hf, rfl⟩, ?_⟩, rfl, h1, h2, h3, h4⟩
        intro i hi hact
        exact h5 i hi (by rw [← h1]; exact hact)


/-- what the loop needs from a solver step: coherent, and the solver's point is the evaluated one -/
def Sync (c : Cfg R) (s : St R) : Prop := Coh c s ∧ ∀ i, i < c.n → s.solverX i = s.evalX i

theorem meritAll_ok (c : Cfg R) (check : Bool) (xs : List (Nat → R)) (s s' : St R)
    (h : meritAll c check xs s = (.ok (), s')) :
    s'.solverX = s.solverX ∧ s'.vAct = s.vAct ∧ s'.tAct = s.tAct ∧ s'.log = s.log := by
  induction xs generalizing s with
  | nil => simp only [meritAll, pure'] at h; cases h; exact ⟨rfl, rfl, rfl, rfl⟩
  | cons x xs ih =>
    simp only [meritAll, bind'] at h
    cases hk : merit c check x s with
    | mk r s1 =>
      rw [hk] at h
      cases r with
      | error e => simp at h
      | ok u =>
        obtain ⟨_, _, b2, b3, b1, b4⟩ := merit_coh c check x s s1 hk
        obtain ⟨a1, a2, a3, a4⟩ := ih s1 h
        exact ⟨a1.trans b1, a2.trans b2, a3.trans b3, a4.trans b4⟩

theorem solverStep_sync (c : Cfg R) (jac trials : List (Nat → R)) (lastTrial : Nat → R) (pe : Bool)
    (s s' : St R) (h : solverStep c jac trials lastTrial pe s = (.ok (), s')) :
    Sync c s' ∧ s'.vAct = s.vAct ∧ s'.tAct = s.tAct ∧ s'.log = s.log := by
  simp only [solverStep, bind'] at h
  cases h1 : merit c true s.solverX s with
  | mk r1 s1 =>
    rw [h1] at h
    cases r1 with
    | error e => simp at h
    | ok u1 =>
      obtain ⟨_, _, m1v, m1t, _, m1l⟩ := merit_coh c true _ s s1 h1
      simp only at h
      cases h2 : meritAll c false jac s1 with
      | mk r2 s2 =>
        rw [h2] at h
        cases r2 with
        | error e => simp at h
        | ok u2 =>
          obtain ⟨_, j2, j3, j4⟩ := meritAll_ok c false jac s1 s2 h2
          simp only at h
          cases h3 : meritAll c true trials s2 with
          | mk r3 s3 =>
            rw [h3] at h
            cases r3 with
            | error e => simp at h
            | ok u3 =>
              obtain ⟨_, t2, t3, t4⟩ := meritAll_ok c true trials s2 s3 h3
              simp only at h
              cases h4 : merit c true lastTrial s3 with
              | mk r4 s4 =>
                rw [h4] at h
                cases r4 with
                | error e => simp at h
                | ok u4 =>
                  obtain ⟨coh4, ex4, v4, ta4, _, l4⟩ := merit_coh c true lastTrial s3 s4 h4
                  simp only at h
                  cases pe with
                  | true =>
                    simp only [if_true, bind', raise] at h
                    cases h5 : merit c true s.solverX s4 with
                    | mk r5 s5 => rw [h5] at h; cases r5 <;> simp at h
                  | false =>
                    simp only [Bool.false_eq_true, if_false] at h
                    cases h
                    refine ⟨⟨⟨coh4.knobs, coh4.tact, coh4.flag, coh4.img⟩, ?_⟩, ?_, ?_, ?_⟩
                    · intro i _; exact congrFun ex4.symm i
                    · exact v4.trans (t2.trans (j2.trans m1v))
                    · exact ta4.trans (t3.trans (j3.trans m1t))
                    · exact l4.trans (t4.trans (j4.trans m1l))

theorem setKnobsFromX_coh (c : Cfg R) (s s' : St R) (hs : Sync c s) (h : setKnobsFromX c s = (.ok (), s')) :
    Coh c s' := by
  simp only [setKnobsFromX] at h
  cases h
  obtain ⟨coh, hx⟩ := hs
  have hk : (fun i => if i < c.n ∧ s.vAct i = true then c.mulW i (s.solverX i) else s.knobs i) = s.knobs := by
    funext i
    by_cases hc : i < c.n ∧ s.vAct i = true
    · simp only [hc, and_self, if_true]
      rw [hx i hc.1]; exact (coh.img i hc.1 hc.2).symm
    · simp [hc]
  refine ⟨by simp only [hk]; exact coh.knobs, coh.tact, coh.flag, ?_⟩
  intro i hi ha
  show (if i < c.n ∧ s.vAct i = true then c.mulW i (s.solverX i) else s.knobs i) = _
  rw [congrFun hk i]
  exact coh.img i hi ha

/-- C09 (normal return): a coherent state whose flag is set is a matched point -/
theorem matched_of_coh (c : Cfg R) (s : St R) (h : Coh c s) (hw : s.lastWithin = true) :
    ∃ res, c.f s.knobs = some res ∧ c.within res s.tAct = true := by
  obtain ⟨res, hf, hflag⟩ := h.flag
  exact ⟨res, by rw [h.knobs]; exact hf, by rw [h.tact, ← hflag]; exact hw⟩


theorem coh_log (c : Cfg R) (s : St R) (l : List (Row R)) (h : Coh c s) : Coh c { s with log := l } :=
  ⟨h.knobs, h.tact, h.flag, h.img⟩

theorem addPoint_coh (c : Cfg R) (s s' : St R) (h : addPoint c s = (.ok (), s')) : Coh c s' := by
  simp only [addPoint] at h
  cases hm : merit c true (extractX c s) s with
  | mk r s1 =>
    rw [hm] at h
    cases r with
    | error e => simp at h
    | ok u =>
      simp only at h
      cases h
      exact coh_log c s1 _ (merit_coh c true _ s s1 hm).1

theorem reload_coh (c : Cfg R) (i : Nat) (s s' : St R) (h : reload c i s = (.ok (), s')) : Coh c s' := by
  simp only [reload] at h
  cases hl : s.log[i]? with
  | none => simp [hl] at h
  | some row => simp only [hl] at h; exact addPoint_coh c _ s' h

theorem optIter_coh (c : Cfg R) (resync early : Bool) (jac trials : List (Nat → R)) (last : Nat → R) (pe : Bool)
    (s s' : St R) (h : optIter c resync early jac trials last pe s = (.ok (), s')) : Coh c s' := by
  simp only [optIter, bind'] at h
  generalize hs0 : (if resync = true then { s with solverX := extractX c s } else s) = s0 at h
  cases early with
  | true =>
    simp only [if_true, solverStepEarly] at h
    cases h1 : merit c true s0.solverX s0 with
    | mk r1 s1 =>
      rw [h1] at h
      cases r1 with
      | error e => simp at h
      | ok u =>
        obtain ⟨coh1, ex1, _, _, sx1, _⟩ := merit_coh c true _ s0 s1 h1
        simp only at h
        have hsync : Sync c s1 := ⟨coh1, fun i _ => by rw [sx1, ex1]⟩
        cases h2 : setKnobsFromX c s1 with
        | mk r2 s2 =>
          rw [h2] at h
          cases r2 with
          | error e => simp at h
          | ok u2 =>
            simp only at h
            cases h
            exact coh_log c s2 _ (setKnobsFromX_coh c s1 s2 hsync h2)
  | false =>
    simp only [Bool.false_eq_true, if_false] at h
    cases h1 : solverStep c jac trials last pe s0 with
    | mk r1 s1 =>
      rw [h1] at h
      cases r1 with
      | error e => simp at h
      | ok u =>
        obtain ⟨hsync, _, _, _⟩ := solverStep_sync c jac trials last pe s0 s1 h1
        simp only at h
        cases h2 : setKnobsFromX c s1 with
        | mk r2 s2 =>
          rw [h2] at h
          cases r2 with
          | error e => simp at h
          | ok u2 =>
            simp only at h
            cases h
            exact coh_log c s2 _ (setKnobsFromX_coh c s1 s2 hsync h2)

structure Iter (R : Type) where
  resync : Bool
  early : Bool
  jac : List (Nat → R)
  trials : List (Nat → R)
  last : Nat → R
  pe : Bool

/-- the loop of `Optimize.step` with its early break -/
def optLoop (c : Cfg R) : List (Iter R) → M R Unit
  | [] => pure' ()
  | it :: rest => bind' (optIter c it.resync it.early it.jac it.trials it.last it.pe)
      (fun _ s => if s.lastWithin then (.ok (), s) else optLoop c rest s)

theorem optLoop_coh (c : Cfg R) (its : List (Iter R)) (s s' : St R) (h0 : Coh c s)
    (h : optLoop c its s = (.ok (), s')) : Coh c s' := by
  induction its generalizing s with
  | nil => simp only [optLoop, pure'] at h; cases h; exact h0
  | cons it rest ih =>
    simp only [optLoop, bind'] at h
    cases h1 : optIter c it.resync it.early it.jac it.trials it.last it.pe s with
    | mk r1 s1 =>
      rw [h1] at h
      cases r1 with
      | error e => simp at h
      | ok u =>
        have c1 := optIter_coh c _ _ _ _ _ _ s s1 h1
        simp only at h
        by_cases hw : s1.lastWithin = true
        · simp only [hw, if_true] at h; cases h; exact c1
        · simp only [hw] at h; exact ih s1 c1 h

/-- `Optimize.step` (start row, loop, take_best) and `solve` (try / restore / re-raise) -/
def optStep (c : Cfg R) (its : List (Iter R)) (takeBest : Option Nat) : M R Unit :=
  bind' (addPoint c) (fun _ =>
  bind' (optLoop c its) (fun _ s =>
    match takeBest with
    | some i => if s.lastWithin then (.ok (), s) else reload c i s
    | none => (.ok (), s)))

def solve (c : Cfg R) (its : List (Iter R)) (takeBest : Option Nat) : M R Unit :=
  tryCatch'
    (bind' (fun s => (.ok (), { s with solverX := extractX c s })) (fun _ =>
     bind' (optStep c its takeBest) (fun _ s =>
       if c.assertWithinTol && !s.lastWithin then (.error .noTol, s) else (.ok (), s))))
    (fun e => if c.restoreIfFail then bind' (reload c 0) (fun _ => raise e) else raise e)

theorem optStep_coh (c : Cfg R) (its : List (Iter R)) (tb : Option Nat) (s s' : St R)
    (h : optStep c its tb s = (.ok (), s')) : Coh c s' := by
  simp only [optStep, bind'] at h
  cases h1 : addPoint c s with
  | mk r1 s1 =>
    rw [h1] at h
    cases r1 with
    | error e => simp at h
    | ok u =>
      have c1 := addPoint_coh c s s1 h1
      simp only at h
      cases h2 : optLoop c its s1 with
      | mk r2 s2 =>
        rw [h2] at h
        cases r2 with
        | error e => simp at h
        | ok u2 =>
          have c2 := optLoop_coh c its s1 s2 c1 h2
          simp only at h
          cases tb with
          | none => simp only at h; cases h; exact c2
          | some i =>
            simp only at h
            by_cases hw : s2.lastWithin = true
            · simp only [hw, if_true] at h; cases h; exact c2
            · simp only [hw] at h; exact reload_coh c i s2 s' h

/-- C09, first clause: a normal return of `solve` (with `assert_within_tol`) is a matched point. -/
theorem solve_matched (c : Cfg R) (its : List (Iter R)) (tb : Option Nat) (s s' : St R)
    (hassert : c.assertWithinTol = true) (h : solve c its tb s = (.ok (), s')) :
    ∃ res, c.f s'.knobs = some res ∧ c.within res s'.tAct = true := by
  simp only [solve, tryCatch', bind'] at h
  cases h1 : optStep c its tb { s with solverX := extractX c s } with
  | mk r1 s1 =>
    rw [h1] at h
    cases r1 with
    | error e =>
      -- the handler always re-raises
      simp only at h
      by_cases hr : c.restoreIfFail = true
      · simp only [hr, if_true, bind', raise] at h
        cases h2 : reload c 0 s1 with
        | mk r2 s2 => rw [h2] at h; cases r2 <;> simp at h
      · simp [hr, raise] at h
    | ok u =>
      have c1 := optStep_coh c its tb _ s1 h1
      simp only [hassert, Bool.true_and] at h
      by_cases hw : s1.lastWithin = true
      · simp only [hw, Bool.not_true, Bool.false_eq_true, if_false] at h
        have hm := matched_of_coh c s1 c1 hw
        cases h
        exact hm
      · have hw' : s1.lastWithin = false := by simpa using hw
        simp only [hw', Bool.not_false, if_true] at h
        by_cases hr : c.restoreIfFail = true
        · simp only [hr, if_true, bind', raise] at h
          cases h2 : reload c 0 s1 with
          | mk r2 s2 => rw [h2] at h; cases r2 <;> simp at h
        · simp [hr, raise] at h

#print axioms solve_matched

/-! ### the restore clause: reasoning about the state *after an exception* -/

/-- a computation only ever appends to the log, whatever its outcome -/
def LM {α : Type} (m : M R α) : Prop := ∀ s r s', m s = (r, s') → ∃ suf, s'.log = s.log ++ suf

theorem LM.bind {α β : Type} {m : M R α} {k : α → M R β} (hm : LM m) (hk : ∀ a, LM (k a)) : LM (bind' m k) := by
  intro s r s' h
  simp only [bind'] at h
  cases hms : m s with
  | mk r1 s1 =>
    rw [hms] at h
    obtain ⟨suf1, e1⟩ := hm s r1 s1 hms
    cases r1 with
    | error e => simp only at h; cases h; exact ⟨suf1, e1⟩
    | ok a =>
      simp only at h
      obtain ⟨suf2, e2⟩ := hk a s1 r s' h
      exact ⟨suf1 ++ suf2, by rw [e2, e1, List.append_assoc]⟩

/-- outcome-agnostic frame of the knob-writing loop -/
theorem writeKnobs_frame (c : Cfg R) (check : Bool) (x : Nat → R) (k : Nat) (s : St R) (r : Except Err Unit) (s' : St R)
    (h : writeKnobs c check x k s = (r, s')) :
    s'.vAct = s.vAct ∧ s'.tAct = s.tAct ∧ s'.log = s.log ∧
    ∀ i, s'.knobs i = s.knobs i ∨ s'.knobs i = c.mulW i (x i) := by
  induction k generalizing r s' with
  | zero => simp only [writeKnobs, pure'] at h; cases h; exact ⟨rfl, rfl, rfl, fun _ => Or.inl rfl⟩
  | succ k ih =>
    simp only [writeKnobs, bind'] at h
    cases hk : writeKnobs c check x k s with
    | mk r1 s1 =>
      rw [hk] at h
      obtain ⟨a1, a2, a3, a4⟩ := ih r1 s1 hk
      cases r1 with
      | error e => simp only at h; cases h; exact ⟨a1, a2, a3, a4⟩
      | ok u =>
        simp only at h
        by_cases ha : s1.vAct k = true
        · simp only [ha, if_true] at h
          by_cases hl : (check && !(c.inLimits k (c.mulW k (x k)))) = true
          · simp only [hl, if_true] at h; cases h; exact ⟨a1, a2, a3, a4⟩
          · simp only [hl] at h
            cases h
            refine ⟨a1, a2, a3, fun i => ?_⟩
            by_cases hik : i = k
            · subst hik; right; simp
            · simp only [hik, if_false]; exact a4 i
        · simp only [ha] at h; cases h; exact ⟨a1, a2, a3, a4⟩

theorem merit_frame (c : Cfg R) (check : Bool) (x : Nat → R) (s : St R) (r : Except Err Unit) (s' : St R)
    (h : merit c check x s = (r, s')) :
    s'.vAct = s.vAct ∧ s'.tAct = s.tAct ∧ s'.log = s.log ∧
    ∀ i, s'.knobs i = s.knobs i ∨ s'.knobs i = c.mulW i (x i) := by
  simp only [merit, bind'] at h
  cases hw : writeKnobs c check x c.n s with
  | mk r1 s1 =>
    rw [hw] at h
    obtain ⟨a1, a2, a3, a4⟩ := writeKnobs_frame c check x c.n s r1 s1 hw
    cases r1 with
    | error e => simp only at h; cases h; exact ⟨a1, a2, a3, a4⟩
    | ok u =>
      simp only at h
      cases hf : c.f s1.knobs with
      | none => simp only [hf] at h; cases h; exact ⟨a1, a2, a3, a4⟩
      | some res => simp only [hf] at h; cases h; exact ⟨a1, a2, a3, a4⟩

theorem LM_merit (c : Cfg R) (check : Bool) (x : Nat → R) : LM (merit c check x) :=
  fun s r s' h => ⟨[], by simp [(merit_frame c check x s r s' h).2.2.1]⟩

/-- `reload i`, whatever its outcome: flags are the row's, every knob is the row's value or its image -/
theorem reload_frame (c : Cfg R) (i : Nat) (row : Row R) (s : St R) (r : Except Err Unit) (s' : St R)
    (hrow : s.log[i]? = some row) (h : reload c i s = (r, s')) :
    s'.vAct = row.vAct ∧ s'.tAct = row.tAct ∧
    ∀ j, s'.knobs j = row.knobs j ∨ s'.knobs j = c.mulW j (c.divW j (row.knobs j)) := by
  simp only [reload, hrow, addPoint] at h
  generalize hs0 : ({ s with knobs := row.knobs, vAct := row.vAct, tAct := row.tAct } : St R) = s0 at h
  cases hm : merit c true (extractX c s0) s0 with
  | mk r1 s1 =>
    rw [hm] at h
    obtain ⟨a1, a2, _, a4⟩ := merit_frame c true _ s0 r1 s1 hm
    have hk0 : s0.knobs = row.knobs := by rw [← hs0]
    have hv0 : s0.vAct = row.vAct := by rw [← hs0]
    have ht0 : s0.tAct = row.tAct := by rw [← hs0]
    have key : ∀ j, s1.knobs j = row.knobs j ∨ s1.knobs j = c.mulW j (c.divW j (row.knobs j)) := by
      intro j
      rcases a4 j with h1 | h1
      · left; rw [h1, hk0]
      · right; rw [h1]; simp only [extractX, hk0]
    cases r1 with
    | error e => simp only at h; cases h; exact ⟨a1.trans hv0, a2.trans ht0, key⟩
    | ok u => simp only at h; cases h; exact ⟨a1.trans hv0, a2.trans ht0, key⟩


theorem LM_pure {α : Type} (a : α) : LM (pure' a : M R α) := fun s r s' h => by
  simp only [pure'] at h; cases h; exact ⟨[], by simp⟩

theorem LM_raise {α : Type} (e : Err) : LM (raise e : M R α) := fun s r s' h => by
  simp only [raise] at h; cases h; exact ⟨[], by simp⟩

theorem LM_meritAll (c : Cfg R) (check : Bool) (xs : List (Nat → R)) : LM (meritAll c check xs) := by
  induction xs with
  | nil => exact LM_pure ()
  | cons x xs ih => exact LM.bind (LM_merit c check x) (fun _ => ih)

theorem LM_addPoint (c : Cfg R) : LM (addPoint c) := by
  intro s r s' h
  simp only [addPoint] at h
  cases hm : merit c true (extractX c s) s with
  | mk r1 s1 =>
    rw [hm] at h
    have hl := (merit_frame c true _ s r1 s1 hm).2.2.1
    cases r1 with
    | error e => simp only at h; cases h; exact ⟨[], by simp [hl]⟩
    | ok u => simp only at h; cases h; exact ⟨[⟨s.knobs, s.vAct, s.tAct⟩], by simp [hl]⟩

theorem LM_reload (c : Cfg R) (i : Nat) : LM (reload c i) := by
  intro s r s' h
  simp only [reload] at h
  cases hl : s.log[i]? with
  | none => simp only [hl] at h; cases h; exact ⟨[], by simp⟩
  | some row =>
    simp only [hl] at h
    exact LM_addPoint c { s with knobs := row.knobs, vAct := row.vAct, tAct := row.tAct } r s' h

theorem LM_setKnobs (c : Cfg R) : LM (setKnobsFromX c) := fun s r s' h => by
  simp only [setKnobsFromX] at h; cases h; exact ⟨[], by simp⟩

theorem LM_solverStep (c : Cfg R) (jac trials : List (Nat → R)) (last : Nat → R) (pe : Bool) :
    LM (solverStep c jac trials last pe) := by
  intro s r s' h
  simp only [solverStep] at h
  refine LM.bind (LM_merit c true s.solverX) (fun _ =>
    LM.bind (LM_meritAll c false jac) (fun _ =>
    LM.bind (LM_meritAll c true trials) (fun _ =>
    LM.bind (LM_merit c true last) (fun _ => ?_)))) s r s' h
  cases pe with
  | true => simp only [if_true]; exact LM.bind (LM_merit c true s.solverX) (fun _ => LM_raise _)
  | false =>
    simp only [Bool.false_eq_true, if_false]
    intro s2 r2 s2' h2; cases h2; exact ⟨[], by simp⟩

theorem LM_optIter (c : Cfg R) (resync early : Bool) (jac trials : List (Nat → R)) (last : Nat → R) (pe : Bool) :
    LM (optIter c resync early jac trials last pe) := by
  unfold optIter
  refine LM.bind ?_ (fun _ => LM.bind ?_ (fun _ => LM.bind (LM_setKnobs c) (fun _ => ?_)))
  · intro s r s' h; cases h; by_cases hr : resync = true <;> exact ⟨[], by simp [hr]⟩
  · cases early with
    | true => simp only [if_true]; intro s r s' h; exact LM_merit c true s.solverX s r s' h
    | false => simp only [Bool.false_eq_true, if_false]; exact LM_solverStep c jac trials last pe
  · intro s r s' h; cases h; exact ⟨[_], rfl⟩

theorem LM_optLoop (c : Cfg R) (its : List (Iter R)) : LM (optLoop c its) := by
  induction its with
  | nil => exact LM_pure ()
  | cons it rest ih =>
    unfold optLoop
    refine LM.bind (LM_optIter c _ _ _ _ _ _) (fun _ => ?_)
    intro s r s' h
    by_cases hw : s.lastWithin = true
    · simp only [hw, if_true] at h; cases h; exact ⟨[], by simp⟩
    · simp only [hw] at h; exact ih s r s' h

theorem LM_optStep (c : Cfg R) (its : List (Iter R)) (tb : Option Nat) : LM (optStep c its tb) := by
  unfold optStep
  refine LM.bind (LM_addPoint c) (fun _ => LM.bind (LM_optLoop c its) (fun _ => ?_))
  intro s r s' h
  cases tb with
  | none => simp only at h; cases h; exact ⟨[], by simp⟩
  | some i =>
    simp only at h
    by_cases hw : s.lastWithin = true
    · simp only [hw, if_true] at h; cases h; exact ⟨[], by simp⟩
    · simp only [hw] at h; exact LM_reload c i s r s' h

/-- C09, second clause: if `solve` raises and `restore_if_fail` is set, the active flags are those of log
    row 0 and every knob is row 0's value or its image under `k ↦ (k / w) * w`. -/
theorem solve_restore (c : Cfg R) (its : List (Iter R)) (tb : Option Nat) (s s' : St R) (e : Err)
    (r0 : Row R) (rest : List (Row R)) (hlog : s.log = r0 :: rest) (hres : c.restoreIfFail = true)
    (h : solve c its tb s = (.error e, s')) :
    s'.vAct = r0.vAct ∧ s'.tAct = r0.tAct ∧
    ∀ j, s'.knobs j = r0.knobs j ∨ s'.knobs j = c.mulW j (c.divW j (r0.knobs j)) := by
  simp only [solve, tryCatch', bind'] at h
  -- the state in which the handler runs still has row 0 at the front of its log
  have row0 : ∀ r1 s1, optStep c its tb { s with solverX := extractX c s } = (r1, s1) → s1.log[0]? = some r0 := by
    intro r1 s1 h1
    obtain ⟨suf, hs⟩ := LM_optStep c its tb _ r1 s1 h1
    simp [hs, hlog]
  -- whatever `reload 0` does, the frame holds
  have handler : ∀ s1, s1.log[0]? = some r0 → ∀ e1 r2 s2,
      (bind' (reload c 0) (fun _ => (raise e1 : M R Unit))) s1 = (r2, s2) →
      s2.vAct = r0.vAct ∧ s2.tAct = r0.tAct ∧
      ∀ j, s2.knobs j = r0.knobs j ∨ s2.knobs j = c.mulW j (c.divW j (r0.knobs j)) := by
    intro s1 h0 e1 r2 s2 h2
    simp only [bind', raise] at h2
    cases hr : reload c 0 s1 with
    | mk r3 s3 =>
      rw [hr] at h2
      have fr := reload_frame c 0 r0 s1 r3 s3 h0 hr
      cases r3 with
      | error e3 => simp only at h2; cases h2; exact fr
      | ok u => simp only at h2; cases h2; exact fr
  cases h1 : optStep c its tb { s with solverX := extractX c s } with
  | mk r1 s1 =>
    rw [h1] at h
    have h0 := row0 r1 s1 h1
    cases r1 with
    | error e1 =>
      simp only [hres, if_true] at h
      exact handler s1 h0 e1 _ s' h
    | ok u =>
      simp only at h
      by_cases hc : (c.assertWithinTol && !s1.lastWithin) = true
      · simp only [hc, if_true, hres] at h
        exact handler s1 h0 .noTol _ s' h
      · simp only [hc] at h
        cases h

#print axioms solve_restore
end Opt
