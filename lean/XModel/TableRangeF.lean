import XModel.TableSel
/-!
# Value ranges `lo:hi:'col'` over numbers of any kind (C08)

`xdeps/table.py::_get_row_indices`, the branch for a slice whose step is a column name and whose bounds are not
strings: `np.where((col >= lo) & (col <= hi))[0]`, with the two one-sided variants.  `XModel/Table.lean` had this
for integer cells only (`cellLe`, `rangeOk`, `valueRange`: anything else a `TypeError`).  Here:

* `valueRangeBy le` (defined in `Table.lean`, next to `valueRange`, because the dispatcher uses its instance) is the
  same computation over an ARBITRARY comparison `le : Cell → Cell → Option Bool` (`none` = the comparison raises).
  `valueRangeBy_spec`: the selection is, strictly ascending, exactly the positions `i` with `le lo col[i] = some true`
  and `le col[i] hi = some true` (either bound optional); `valueRangeBy_error_iff`: it raises exactly when some
  comparison it needs is undefined.  Nothing is assumed of `le` — no reflexivity, transitivity or totality — so an
  order with unordered elements (IEEE's NaN) is covered: `unordered_never_selected`.
* `cellLeF` is the instance the model runs: integer and float cells compared by value (`cellNum`, `numLe` of
  `XModel/TableNum.lean`: exact decimals, NaN unordered, the infinities at the ends), string cells undefined as
  before — numpy raises `TypeError` for `'s0' >= 1` on an object column.  `valueRangeF = valueRangeBy cellLeF`.
* `valueRange = valueRangeBy cellLe` (`rfl`), `valueRangeF` extends `valueRange` (`valueRangeF_of_valueRange_ok`:
  wherever the integer model answers, the general one gives the same answer; `valueRangeX_eq`: "try `valueRange`,
  fall back to `valueRangeF` on `TypeError`" IS `valueRangeF`), so every theorem about integer columns transfers.
* the dispatcher: `Sel.range lo hi col` is the same slice with bounds that are cells of any kind
  (`getRowIndices_range`), and on an integer column with integer bounds it is the slice selector
  (`getRowIndices_slice_eq_range`).  The theorems on `indicesOf` / `maskOf` / `rowsOf` and on tuples are stated for
  every `Sel` and needed no change beyond one case of `getRowIndices_keeps`.
* `cellLeIEEE`: the same comparison through Lean's `Float` (`Float.ofScientific`, `Float.le`); the specification is the
  same corollary of `valueRangeBy_spec`, no IEEE reasoning involved.  The driver runs `cellLeF`, which the kernel can
  evaluate; `Float` is opaque to it.
-/
namespace TableM
open Cache

/-! ### the abstract comparison -/

theorem valueRange_eq_by (col : List Cell) (lo hi : Option Cell) :
    valueRange col lo hi = valueRangeBy cellLe col lo hi := rfl

theorem rangeOk_eq_by (lo hi : Option Cell) (x : Cell) : rangeOk lo hi x = rangeOkBy cellLe lo hi x := rfl

/-- a row passes the test exactly when every bound that is given compares `some true` -/
theorem rangeOkBy_true_iff (le : Cell → Cell → Option Bool) (lo hi : Option Cell) (x : Cell) :
    (rangeOkBy le lo hi x).getD false = true ↔
      (∀ l, lo = some l → le l x = some true) ∧ (∀ h, hi = some h → le x h = some true) := by
  cases lo with
  | none =>
    cases hi with
    | none => simp [rangeOkBy]
    | some h => cases hq : le x h <;> simp [rangeOkBy, hq]
  | some l =>
    cases hi with
    | none => cases hp : le l x <;> simp [rangeOkBy, hp]
    | some h => cases hp : le l x <;> cases hq : le x h <;> simp [rangeOkBy, hp, hq]

/-- the test is defined exactly when every comparison it needs is -/
theorem rangeOkBy_isSome_iff (le : Cell → Cell → Option Bool) (lo hi : Option Cell) (x : Cell) :
    (rangeOkBy le lo hi x).isSome = true ↔
      (∀ l, lo = some l → (le l x).isSome = true) ∧ (∀ h, hi = some h → (le x h).isSome = true) := by
  cases lo with
  | none =>
    cases hi with
    | none => simp [rangeOkBy]
    | some h => simp [rangeOkBy]
  | some l =>
    cases hi with
    | none => simp [rangeOkBy]
    | some h => cases hp : le l x <;> cases hq : le x h <;> simp [rangeOkBy, hp, hq]

/-- the computation, named: enumerate, keep the rows that pass -/
theorem valueRangeBy_ok (le : Cell → Cell → Option Bool) (col : List Cell) (lo hi : Option Cell)
    (hdef : ∀ x ∈ col, (rangeOkBy le lo hi x).isSome = true) :
    valueRangeBy le col lo hi =
      .ok (.idx (positionsWhere col (fun x => (rangeOkBy le lo hi x).getD false) 0)) := by
  unfold valueRangeBy
  rw [if_pos (List.all_eq_true.mpr hdef)]
  simp [positionsWhere]

/-- it raises (`TypeError`) exactly when some comparison it needs is undefined; there is no other error -/
theorem valueRangeBy_error_iff (le : Cell → Cell → Option Bool) (col : List Cell) (lo hi : Option Cell) (e : TErr) :
    valueRangeBy le col lo hi = .error e ↔ e = .typeError ∧ ∃ x ∈ col, rangeOkBy le lo hi x = none := by
  unfold valueRangeBy
  by_cases hall : col.all (fun x => (rangeOkBy le lo hi x).isSome) = true
  · rw [if_pos hall]
    constructor
    · intro h; cases h
    · rintro ⟨_, x, hx, hn⟩
      have := List.all_eq_true.mp hall x hx
      simp [hn] at this
  · rw [if_neg hall]
    constructor
    · intro h
      cases h
      refine ⟨rfl, ?_⟩
      have hf : col.all (fun x => (rangeOkBy le lo hi x).isSome) = false := by simpa using hall
      obtain ⟨x, hx, hn⟩ := List.all_eq_false.mp hf
      refine ⟨x, hx, ?_⟩
      cases hr : rangeOkBy le lo hi x with
      | none => rfl
      | some b => simp [hr] at hn
    · rintro ⟨rfl, _⟩; rfl

/-- **the value range over any comparison**: when every comparison is defined, the selection is — strictly
    ascending, i.e. in table order and each row once — exactly the positions whose cell compares `some true` with every
    bound that is given.  `le` is arbitrary: no order laws are used -/
theorem valueRangeBy_spec (le : Cell → Cell → Option Bool) (col : List Cell) (lo hi : Option Cell)
    (hdef : ∀ x ∈ col, (∀ l, lo = some l → (le l x).isSome = true) ∧ (∀ h, hi = some h → (le x h).isSome = true)) :
    ∃ r, valueRangeBy le col lo hi = .ok (.idx r) ∧ r.Pairwise (· < ·) ∧
      ∀ j, j ∈ r ↔ ∃ (i : Nat) (x : Cell), col[i]? = some x ∧
        (∀ l, lo = some l → le l x = some true) ∧ (∀ h, hi = some h → le x h = some true) ∧ j = (i : Int) := by
  have hs := positionsWhere_spec col (fun x => (rangeOkBy le lo hi x).getD false) 0
  refine ⟨_, valueRangeBy_ok le col lo hi (fun x hx => (rangeOkBy_isSome_iff le lo hi x).mpr (hdef x hx)), hs.1, ?_⟩
  intro j
  rw [hs.2 j]
  constructor
  · rintro ⟨i, x, hx, hq, rfl⟩
    have := (rangeOkBy_true_iff le lo hi x).mp hq
    exact ⟨i, x, hx, this.1, this.2, by simp⟩
  · rintro ⟨i, x, hx, h1, h2, rfl⟩
    exact ⟨i, x, hx, (rangeOkBy_true_iff le lo hi x).mpr ⟨h1, h2⟩, by simp⟩

/-- the same without the hypothesis: WHENEVER the selection succeeds, it is that list (and every comparison was
    defined) -/
theorem valueRangeBy_spec_of_ok (le : Cell → Cell → Option Bool) (col : List Cell) (lo hi : Option Cell) (ix : Ix)
    (hok : valueRangeBy le col lo hi = .ok ix) :
    ∃ r, ix = .idx r ∧ r.Pairwise (· < ·) ∧
      (∀ x ∈ col, (∀ l, lo = some l → (le l x).isSome = true) ∧ (∀ h, hi = some h → (le x h).isSome = true)) ∧
      ∀ j, j ∈ r ↔ ∃ (i : Nat) (x : Cell), col[i]? = some x ∧
        (∀ l, lo = some l → le l x = some true) ∧ (∀ h, hi = some h → le x h = some true) ∧ j = (i : Int) := by
  have hdef : ∀ x ∈ col, (rangeOkBy le lo hi x).isSome = true := by
    intro x hx
    cases hr : rangeOkBy le lo hi x with
    | some b => rfl
    | none =>
      have := (valueRangeBy_error_iff le col lo hi .typeError).mpr ⟨rfl, x, hx, hr⟩
      rw [hok] at this; cases this
  have hdef' := fun x hx => (rangeOkBy_isSome_iff le lo hi x).mp (hdef x hx)
  obtain ⟨r, hr, hp, hm⟩ := valueRangeBy_spec le col lo hi hdef'
  rw [hok] at hr
  cases hr
  exact ⟨r, rfl, hp, hdef', hm⟩

/-- two comparisons that agree on the comparisons a selection needs give the same selection -/
theorem valueRangeBy_congr (le1 le2 : Cell → Cell → Option Bool) (col : List Cell) (lo hi : Option Cell)
    (h : ∀ x ∈ col, rangeOkBy le1 lo hi x = rangeOkBy le2 lo hi x) :
    valueRangeBy le1 col lo hi = valueRangeBy le2 col lo hi := by
  unfold valueRangeBy
  have h1 : col.all (fun x => (rangeOkBy le1 lo hi x).isSome) = col.all (fun x => (rangeOkBy le2 lo hi x).isSome) := by
    apply Bool.eq_iff_iff.mpr
    simp only [List.all_eq_true]
    constructor
    · intro hh x hx; rw [← h x hx]; exact hh x hx
    · intro hh x hx; rw [h x hx]; exact hh x hx
  have h2 : (enumFrom 0 col).filter (fun p => (rangeOkBy le1 lo hi p.2).getD false) =
      (enumFrom 0 col).filter (fun p => (rangeOkBy le2 lo hi p.2).getD false) := by
    apply List.filter_congr
    intro p hp
    obtain ⟨i, x⟩ := p
    have hx : x ∈ col := List.mem_of_getElem? ((mem_enumFrom col 0 i x).mp hp).2
    simp only [h x hx]
  rw [h1, h2]

/-- **an element unordered with the bounds is never selected**: if the cell at position `i` does not compare
    `some true` with any bound, neither below nor above (IEEE: a NaN), and at least one bound is given, then `i` is not
    in the selection — whatever `le` is otherwise -/
theorem unordered_never_selected (le : Cell → Cell → Option Bool) (col : List Cell) (lo hi : Option Cell)
    (hb : lo.isSome = true ∨ hi.isSome = true) (i : Nat) (x : Cell) (hx : col[i]? = some x)
    (hun : ∀ b, le b x ≠ some true ∧ le x b ≠ some true) (r : List Int)
    (hok : valueRangeBy le col lo hi = .ok (.idx r)) : (i : Int) ∉ r := by
  obtain ⟨r', hr, _, _, hm⟩ := valueRangeBy_spec_of_ok le col lo hi _ hok
  cases hr
  intro hi'
  obtain ⟨i', x', hx', h1, h2, hj⟩ := (hm _).mp hi'
  have : i = i' := by omega
  subst this
  rw [hx] at hx'
  cases hx'
  rcases hb with hb | hb
  · obtain ⟨l, hl⟩ := Option.isSome_iff_exists.mp hb
    exact (hun l).1 (h1 l hl)
  · obtain ⟨h, hh⟩ := Option.isSome_iff_exists.mp hb
    exact (hun h).2 (h2 h hh)

/-! ### the instance the model runs: numbers by value -/

theorem cellLeF_int (a b : Int) : cellLeF (.int a) (.int b) = cellLe (.int a) (.int b) := by
  simp [cellLeF, cellNum, cellLe, numLe_int]

/-- `cellLeF` extends `cellLe` -/
theorem cellLeF_of_cellLe (a b : Cell) (p : Bool) (h : cellLe a b = some p) : cellLeF a b = some p := by
  cases a <;> cases b <;> simp [cellLe] at h
  rw [cellLeF_int]; simp [cellLe, h]

/-- defined exactly on the pairs of numbers (a string cell, or a float token that does not read as a number, is not) -/
theorem cellLeF_isSome_iff (a b : Cell) : (cellLeF a b).isSome = true ↔ (cellNum a).isSome = true ∧ (cellNum b).isSome = true := by
  unfold cellLeF
  cases cellNum a <;> cases cellNum b <;> simp

theorem cellLeF_eq_some_true_iff (a b : Cell) :
    cellLeF a b = some true ↔ ∃ x y, cellNum a = some x ∧ cellNum b = some y ∧ numLe x y = true := by
  unfold cellLeF
  cases cellNum a <;> cases cellNum b <;> simp

theorem rangeOkF_of_rangeOk (lo hi : Option Cell) (x : Cell) (p : Bool) (h : rangeOk lo hi x = some p) :
    rangeOkF lo hi x = some p := by
  unfold rangeOkF
  cases lo with
  | none =>
    cases hi with
    | none => exact h
    | some hh => exact cellLeF_of_cellLe _ _ _ h
  | some l =>
    cases hi with
    | none => exact cellLeF_of_cellLe _ _ _ h
    | some hh =>
      simp only [rangeOk] at h
      cases hp : cellLe l x with
      | none => simp [hp] at h
      | some p1 =>
        cases hq : cellLe x hh with
        | none => simp [hp, hq] at h
        | some q1 =>
          simp only [hp, hq, Option.some.injEq] at h
          simp only [rangeOkBy, cellLeF_of_cellLe _ _ _ hp, cellLeF_of_cellLe _ _ _ hq, h]

/-- **the general range extends the integer one**: wherever `valueRange` answers, `valueRangeF` gives the same answer -/
theorem valueRangeF_of_valueRange_ok (col : List Cell) (lo hi : Option Cell) (ix : Ix)
    (h : valueRange col lo hi = .ok ix) : valueRangeF col lo hi = .ok ix := by
  have hdef : ∀ x ∈ col, (rangeOk lo hi x).isSome = true := by
    intro x hx
    cases hr : rangeOk lo hi x with
    | some b => rfl
    | none =>
      have := (valueRangeBy_error_iff cellLe col lo hi .typeError).mpr ⟨rfl, x, hx, hr⟩
      rw [← valueRange_eq_by, h] at this; cases this
  rw [← h, valueRange_eq_by]
  unfold valueRangeF
  apply valueRangeBy_congr
  intro x hx
  obtain ⟨b, hb⟩ := Option.isSome_iff_exists.mp (hdef x hx)
  rw [← rangeOk_eq_by, hb]
  exact rangeOkF_of_rangeOk lo hi x b hb

/-- "try the integer range, fall back to the general one on `TypeError`" -/
def valueRangeX (col : List Cell) (lo hi : Option Cell) : Except TErr Ix :=
  match valueRange col lo hi with
  | .error .typeError => valueRangeF col lo hi
  | r => r

/-- the fallback lemma: that combination IS the general range, so the dispatcher may use `valueRangeF` outright -/
theorem valueRangeX_eq (col : List Cell) (lo hi : Option Cell) : valueRangeX col lo hi = valueRangeF col lo hi := by
  unfold valueRangeX
  cases h : valueRange col lo hi with
  | ok ix => exact (valueRangeF_of_valueRange_ok col lo hi ix h).symm
  | error e =>
    rw [valueRange_eq_by] at h
    obtain ⟨rfl, _⟩ := (valueRangeBy_error_iff cellLe col lo hi e).mp h
    rfl

/-- on a column of integer cells with integer bounds the two are the same function -/
theorem valueRangeF_eq_valueRange_of_ints (lo hi : Option Int) (col : List Cell)
    (hint : ∀ x ∈ col, ∃ i, x = Cell.int i) :
    valueRangeF col (lo.map Cell.int) (hi.map Cell.int) = valueRange col (lo.map Cell.int) (hi.map Cell.int) := by
  rw [valueRange_eq_by]
  unfold valueRangeF
  apply valueRangeBy_congr
  intro x hx
  obtain ⟨v, rfl⟩ := hint x hx
  cases lo <;> cases hi <;> simp [rangeOkBy, cellLeF_int]

/-- the specification of `valueRangeF`, in numbers: the rows whose cell is a number `v` with `lo <= v` and `v <= hi`
    in IEEE's sense (`numLe`), for every bound that is given -/
theorem valueRangeF_spec (col : List Cell) (lo hi : Option Cell)
    (hcol : ∀ x ∈ col, (cellNum x).isSome = true)
    (hlo : ∀ l, lo = some l → (cellNum l).isSome = true) (hhi : ∀ h, hi = some h → (cellNum h).isSome = true) :
    ∃ r, valueRangeF col lo hi = .ok (.idx r) ∧ r.Pairwise (· < ·) ∧
      ∀ j, j ∈ r ↔ ∃ (i : Nat) (x : Cell) (v : Num), col[i]? = some x ∧ cellNum x = some v ∧
        (∀ l, lo = some l → ∃ vl, cellNum l = some vl ∧ numLe vl v = true) ∧
        (∀ h, hi = some h → ∃ vh, cellNum h = some vh ∧ numLe v vh = true) ∧ j = (i : Int) := by
  obtain ⟨r, hr, hp, hm⟩ := valueRangeBy_spec cellLeF col lo hi (fun x hx =>
    ⟨fun l hl => (cellLeF_isSome_iff l x).mpr ⟨hlo l hl, hcol x hx⟩,
     fun h hh => (cellLeF_isSome_iff x h).mpr ⟨hcol x hx, hhi h hh⟩⟩)
  refine ⟨r, hr, hp, ?_⟩
  intro j
  rw [hm j]
  constructor
  · rintro ⟨i, x, hx, h1, h2, rfl⟩
    obtain ⟨v, hv⟩ := Option.isSome_iff_exists.mp (hcol x (List.mem_of_getElem? hx))
    refine ⟨i, x, v, hx, hv, ?_, ?_, rfl⟩
    · intro l hl
      obtain ⟨a, b, ha, hb, hab⟩ := (cellLeF_eq_some_true_iff l x).mp (h1 l hl)
      rw [hv] at hb; cases hb
      exact ⟨a, ha, hab⟩
    · intro h hh
      obtain ⟨a, b, ha, hb, hab⟩ := (cellLeF_eq_some_true_iff x h).mp (h2 h hh)
      rw [hv] at ha; cases ha
      exact ⟨b, hb, hab⟩
  · rintro ⟨i, x, v, hx, hv, h1, h2, rfl⟩
    refine ⟨i, x, hx, ?_, ?_, rfl⟩
    · intro l hl
      obtain ⟨vl, hvl, hle⟩ := h1 l hl
      exact (cellLeF_eq_some_true_iff l x).mpr ⟨vl, v, hvl, hv, hle⟩
    · intro h hh
      obtain ⟨vh, hvh, hle⟩ := h2 h hh
      exact (cellLeF_eq_some_true_iff x h).mpr ⟨v, vh, hv, hvh, hle⟩

/-- **a NaN is never selected**: a cell whose number `v` fails `v <= v` (that is: NaN, `numLe_self_eq_false_iff`) is in
    no value range that has a bound -/
theorem nan_never_selected (col : List Cell) (lo hi : Option Cell)
    (hb : lo.isSome = true ∨ hi.isSome = true) (i : Nat) (x : Cell) (v : Num) (hx : col[i]? = some x)
    (hv : cellNum x = some v) (hnan : numLe v v = false) (r : List Int)
    (hok : valueRangeF col lo hi = .ok (.idx r)) : (i : Int) ∉ r := by
  refine unordered_never_selected cellLeF col lo hi hb i x hx ?_ r hok
  intro b
  constructor
  · intro h
    obtain ⟨a, c, _, hc, hac⟩ := (cellLeF_eq_some_true_iff b x).mp h
    rw [hv] at hc; cases hc
    rw [(numLe_unordered v hnan a).1] at hac; cases hac
  · intro h
    obtain ⟨a, c, ha, _, hac⟩ := (cellLeF_eq_some_true_iff x b).mp h
    rw [hv] at ha; cases ha
    rw [(numLe_unordered v hnan c).2] at hac; cases hac

/-- a NaN BOUND selects nothing -/
theorem nan_bound_selects_nothing (col : List Cell) (lo hi : Option Cell) (b : Cell) (hbn : cellNum b = some .nan)
    (hb : lo = some b ∨ hi = some b) (r : List Int) (hok : valueRangeF col lo hi = .ok (.idx r)) : r = [] := by
  obtain ⟨r', hr, _, _, hm⟩ := valueRangeBy_spec_of_ok cellLeF col lo hi _ hok
  cases hr
  apply List.eq_nil_iff_forall_not_mem.mpr
  intro j hj
  obtain ⟨i, x, _, h1, h2, _⟩ := (hm j).mp hj
  rcases hb with hb | hb
  · obtain ⟨a, c, ha, _, hac⟩ := (cellLeF_eq_some_true_iff b x).mp (h1 b hb)
    rw [hbn] at ha; cases ha
    rw [numLe_nan_left] at hac; cases hac
  · obtain ⟨a, c, _, hc, hac⟩ := (cellLeF_eq_some_true_iff x b).mp (h2 b hb)
    rw [hbn] at hc; cases hc
    rw [numLe_nan_right] at hac; cases hac

/-! ### the dispatcher -/

/-- the selector `Sel.range lo hi col` (a bound given) is `valueRangeF` on that column -/
theorem getRowIndices_range (t : Tbl) (m : String → Match) (lo hi : Option Cell) (cname : String) (col : List Cell)
    (hcol : t.col cname = some col) (hb : lo.isSome = true ∨ hi.isSome = true) :
    getRowIndices t m (.range lo hi cname) = (t, valueRangeF col lo hi) := by
  cases lo <;> cases hi <;> simp_all [getRowIndices]

/-- without bounds it is every row, on an unknown column a `KeyError`: as for the slice selector -/
theorem getRowIndices_range_open (t : Tbl) (m : String → Match) (cname : String) (col : List Cell)
    (hcol : t.col cname = some col) :
    getRowIndices t m (.range none none cname) = (t, .ok (.slice none none none)) := by
  simp [getRowIndices, hcol]

theorem getRowIndices_range_nocol (t : Tbl) (m : String → Match) (lo hi : Option Cell) (cname : String)
    (hcol : t.col cname = none) : getRowIndices t m (.range lo hi cname) = (t, .error .keyError) := by
  simp [getRowIndices, hcol]

def boundOfInt : Option Int → Bound
  | none => .none
  | some i => .int i

/-- **on an integer column, the slice selector with integer bounds and the general range selector are the same** (so
    is the `KeyError` of an unknown column and the bound-less form) -/
theorem getRowIndices_slice_eq_range (t : Tbl) (m : String → Match) (lo hi : Option Int) (cname : String)
    (hint : ∀ col, t.col cname = some col → ∀ x ∈ col, ∃ i, x = Cell.int i) :
    getRowIndices t m (.slice (boundOfInt lo) (boundOfInt hi) (.str cname)) =
      getRowIndices t m (.range (lo.map Cell.int) (hi.map Cell.int) cname) := by
  cases hcol : t.col cname with
  | none => cases lo <;> cases hi <;> simp [getRowIndices, boundOfInt, hcol]
  | some col =>
    have he := valueRangeF_eq_valueRange_of_ints lo hi col (hint col hcol)
    cases lo <;> cases hi <;> simp_all [getRowIndices, boundOfInt]

/-! ### the same comparison through Lean's `Float` -/

def Num.toFloat : Num → Float
  | .nan => 0.0 / 0.0
  | .pinf => 1.0 / 0.0
  | .ninf => -(1.0 / 0.0)
  | .fin m e =>
    let a := Float.ofScientific m.natAbs (decide (e < 0)) e.natAbs
    if m < 0 then -a else a

/-- `a <= b` as IEEE doubles -/
def cellLeIEEE (a b : Cell) : Option Bool :=
  match cellNum a, cellNum b with
  | some x, some y => some (decide (x.toFloat ≤ y.toFloat))
  | _, _ => none

/-- the `Float` instance of the specification: exactly the rows with `lo <= col[i]` and `col[i] <= hi` as doubles,
    ascending.  Nothing about IEEE arithmetic is used (or available: `Float` is opaque) — `Float.le` is a Boolean
    function, and that a NaN fails both comparisons is a fact about that function -/
theorem valueRangeIEEE_spec (col : List Cell) (lo hi : Option Cell)
    (hcol : ∀ x ∈ col, (cellNum x).isSome = true)
    (hlo : ∀ l, lo = some l → (cellNum l).isSome = true) (hhi : ∀ h, hi = some h → (cellNum h).isSome = true) :
    ∃ r, valueRangeBy cellLeIEEE col lo hi = .ok (.idx r) ∧ r.Pairwise (· < ·) ∧
      ∀ j, j ∈ r ↔ ∃ (i : Nat) (x : Cell), col[i]? = some x ∧
        (∀ l, lo = some l → cellLeIEEE l x = some true) ∧ (∀ h, hi = some h → cellLeIEEE x h = some true) ∧
        j = (i : Int) := by
  apply valueRangeBy_spec
  intro x hx
  have hx' := hcol x hx
  constructor
  · intro l hl
    have := hlo l hl
    unfold cellLeIEEE
    cases hcl : cellNum l <;> cases hcx : cellNum x <;> simp_all
  · intro h hh
    have := hhi h hh
    unfold cellLeIEEE
    cases hch : cellNum h <;> cases hcx : cellNum x <;> simp_all

/-! ### instances, evaluated by the kernel -/

deriving instance DecidableEq for Ix

/-- equality of two selection results is decidable (for the `decide` instances below and in `Properties/C08.lean`) -/
@[instance_reducible] def decEqRangeResult : DecidableEq (Except TErr Ix)
  | .ok a, .ok b => if h : a = b then isTrue (h ▸ rfl) else isFalse (fun e => h (Except.ok.inj e))
  | .error a, .error b => if h : a = b then isTrue (h ▸ rfl) else isFalse (fun e => h (Except.error.inj e))
  | .ok _, .error _ => isFalse (fun e => by cases e)
  | .error _, .ok _ => isFalse (fun e => by cases e)

attribute [local instance] decEqRangeResult

/-- the tokens of `repr(float)` -/
example : cellNum (.flt "nan") = some .nan ∧ cellNum (.flt "inf") = some .pinf ∧ cellNum (.flt "-inf") = some .ninf ∧
    cellNum (.flt "-1.5") = some (.fin (-15) (-1)) ∧ cellNum (.flt "1e-07") = some (.fin 1 (-7)) ∧
    cellNum (.flt "2.5e+20") = some (.fin 25 19) ∧ cellNum (.int 3) = some (.fin 3 0) ∧ cellNum (.str "s0") = none := by
  decide

/-- `0 <= z` on a float column with NaN and both infinities: NaN and `-inf` are left out, `inf` is kept -/
example : valueRangeF [.flt "nan", .flt "1.0", .flt "inf", .flt "-0.0", .flt "-inf", .flt "-1.5"] (some (.int 0)) none =
    .ok (.idx [1, 2, 3]) := by decide

/-- `z <= 2.5`: NaN and `inf` are left out, `-inf` is kept -/
example : valueRangeF [.flt "nan", .flt "1.0", .flt "inf", .flt "2.5", .flt "-inf", .flt "2.75"] none (some (.flt "2.5")) =
    .ok (.idx [1, 3, 4]) := by decide

/-- `-inf <= z <= inf` keeps everything but the NaN rows -/
example : valueRangeF [.flt "nan", .flt "1.0", .flt "inf", .flt "nan", .flt "-inf"] (some (.flt "-inf")) (some (.flt "inf")) =
    .ok (.idx [1, 2, 4]) := by decide

/-- fractional bounds on an integer column -/
example : valueRangeF [.int 0, .int 1, .int 2, .int 3] (some (.flt "0.5")) (some (.flt "2.5")) = .ok (.idx [1, 2]) := by
  decide

/-- a string cell in the column: `TypeError`, as numpy raises on an object column -/
example : valueRangeF [.int 0, .str "s0"] (some (.int 0)) none = .error .typeError := by decide

/-- the integer model said `TypeError` on every float column; where it answers, the two agree -/
example : valueRange [.flt "1.0"] (some (.int 0)) none = .error .typeError ∧
    valueRangeF [.int 0, .int 5, .int 2] (some (.int 1)) (some (.int 5)) =
      valueRange [.int 0, .int 5, .int 2] (some (.int 1)) (some (.int 5)) := by decide

/-- through the dispatcher -/
example : (getRowIndices ⟨"name", ["name", "z"],
      [("name", [.str "a", .str "b", .str "c"]), ("z", [.flt "nan", .flt "2.0", .flt "-inf"])], none, "::", "<<", ">>"⟩
    (fun _ _ => false) (.range none (some (.flt "2.5")) "z")).2 = .ok (.idx [1, 2]) := by decide

/-- an abstract comparison with an unordered element: cells `0 <= 1 <= 2` in a chain, the cell `9` comparable with
    nothing, not even itself.  It is never selected; the chain is -/
def chainLe : Cell → Cell → Option Bool
  | .int 9, _ => some false
  | _, .int 9 => some false
  | .int a, .int b => some (decide (a ≤ b))
  | _, _ => none

example : valueRangeBy chainLe [.int 2, .int 9, .int 0, .int 1] (some (.int 1)) none = .ok (.idx [0, 3]) ∧
    valueRangeBy chainLe [.int 2, .int 9, .int 0, .int 1] none (some (.int 1)) = .ok (.idx [2, 3]) ∧
    valueRangeBy chainLe [.int 2, .int 9, .int 0, .int 1] (some (.int 9)) none = .ok (.idx []) := by decide

example : ∀ b, chainLe b (.int 9) ≠ some true ∧ chainLe (.int 9) b ≠ some true := by
  intro b
  constructor
  · unfold chainLe; split <;> simp_all
  · simp [chainLe]

end TableM
