import XModel.Parse
import XModel.KeyPrint
/-! # The printed expression language with the FULL key language: tuple / bool / `None` / negative / float keys

`XModel/Parse.lean` proves the print → parse round trip for expressions whose item keys are strings or integers.
`ItemRef.__repr__` prints `f"{owner!r}[{key!r}]"`, so a tuple key prints as Python's `repr` of the tuple —
`d[(1, 'a')]`, `d[(3,)]`, `d[()]`, nested `d[(1, (2, 3))]` — and Python's parser reads it back as a parenthesised tuple
display inside the subscript; `d[True]`, `d[None]`, `d[-1]`, `d[-0.5]` likewise.  This file extends the language:

* keys are `KeyPrint.KeyX` — THE key language of C06's injectivity theorems (`XModel/KeyPrint.lean`): strings, ints
  (negative too), floats (sign + the opaque text of `repr(abs x)`, one NUMBER token, exactly as float literals are),
  `True` / `False` / `None`, and tuples of keys of any arity (0 and 1 included), nested;
* the key printer IS `KeyPrint.printKeyX` (not a copy): `()`, `(k,)`, `(k1, k2)`, … (`print_item`,
  `printKey_is_C06_printer`; on the `str | int` keys of `Parse` it is `Parse.printKey`, `printKey_extends_parse`);
* `Expr` is `Parse.Expr` with `KeyX` keys, `print` is `Parse.print` with that key printer (`print_embed`: on the image of
  `Parse.Expr` the two printers give the same tokens, and well-formedness is preserved);
* the parser reads, after `[`, a key (`parseKey`): a string / number / signed number token, the names `True` `False`
  `None`, or a parenthesised display: `()` is the empty tuple, `(k)` is just `k` (Python: parentheses alone do not make a
  tuple), `(k,)` the 1-tuple, `(k1, k2)` / `(k1, k2,)` longer tuples (a trailing comma is accepted, as Python does; the
  printer never writes one except in the 1-tuple), then `]`.

Theorems: `parseKey_print` (a printed key reads back as the key, whatever follows), `parse_print_keys` (the round trip
for well-formed expressions of the extended language, for all sufficiently large fuel — same shape as
`Parse.parse_print`), `print_injective`, and the ties to C06's printers: `print_ofPath` (C06's path printer
`KeyPrint.printPath` is the restriction of `print` to access paths) with `printPath_injective_from_roundtrip` (C06's
path injectivity re-derived from the round trip).

Not modelled (as in `Parse`): which names are Python keywords — a container labelled `True` would print as the NAME
token `True` and read back (here) as that label in expression position; the library's labels are identifiers chosen by
the user, the oracle's `eval` of the text covers what Python really does.  Bare tuple subscripts `d[1, 2]` (Python reads
them as the key `(1, 2)`; the printer never writes them) are rejected by `parseKey`. -/
namespace ParseKeys
open Parse (Tok Ev NoTrail HeadAtom NotKw NoOpHead HeadArg printInt printFloat unops isIdent notkw_name headArg_of_atom)
open KeyPrint (KeyX printKeyX printElems printMore KeyHead keyHead)

/-- `Parse.Expr` with the extended key language -/
inductive Expr where
  | root (l : String)
  | item (o : Expr) (k : KeyX)
  | attr (o : Expr) (a : String)
  | lit (i : Int)
  | bin (op : String) (l r : Expr)
  | un (op : String) (a : Expr)
  | call (f : Expr) (args : List Expr)
  | flit (neg : Bool) (text : String)
  | callkw (f : Expr) (args : List Expr) (kws : List (String × Expr))
deriving Repr

mutual
/-- `Parse.print` with keys printed by `KeyPrint.printKeyX` (`repr(key)`) -/
def print : Expr → List Tok
  | .root l => [.name l]
  | .item o k => print o ++ [.lbr] ++ printKeyX k ++ [.rbr]
  | .attr o a => print o ++ [.dot, .name a]
  | .lit i => printInt i
  | .bin op l r => [.lpar] ++ printLhs l ++ [.op op] ++ print r ++ [.rpar]
  | .un op a => [.lpar, .op op] ++ print a ++ [.rpar]
  | .call f args => print f ++ [.lpar] ++ printArgs args
  | .flit neg t => printFloat neg t
  | .callkw f args kws => print f ++ [.lpar] ++ printPos args ++ printKws kws
def printLhs : Expr → List Tok
  | .lit i => if 0 ≤ i then printInt i else [.lpar] ++ printInt i ++ [.rpar]
  | .root l => print (.root l)
  | .item o k => print (.item o k)
  | .attr o a => print (.attr o a)
  | .bin op l r => print (.bin op l r)
  | .un op a => print (.un op a)
  | .call f args => print (.call f args)
  | .flit neg t => if neg then [.lpar] ++ printFloat neg t ++ [.rpar] else printFloat neg t
  | .callkw f args kws => print (.callkw f args kws)
def printArgs : List Expr → List Tok
  | [] => [.rpar]
  | [a] => print a ++ [.rpar]
  | a :: b :: rest => print a ++ [.comma] ++ printArgs (b :: rest)
def printPos : List Expr → List Tok
  | [] => []
  | a :: rest => print a ++ [.comma] ++ printPos rest
def printKws : List (String × Expr) → List Tok
  | [] => [.rpar]
  | [(k, v)] => [.name k, .op "="] ++ print v ++ [.rpar]
  | (k, v) :: b :: rest => [.name k, .op "="] ++ print v ++ [.comma] ++ printKws (b :: rest)
end

def kwNames (kws : List (String × Expr)) : List String := kws.map Prod.fst

def namesDistinct (kws : List (String × Expr)) : Bool := decide (kwNames kws).Nodup

def mkCall (f : Expr) (args : List Expr) (kws : List (String × Expr)) : Expr :=
  if kws.isEmpty then .call f args else .callkw f args kws

/-! ### the key parser -/

mutual
/-- a key: what may stand between `[` and `]` -/
def parseKey : Nat → List Tok → Option (KeyX × List Tok)
  | 0, _ => none
  | _+1, .str s :: rest => some (.str s, rest)
  | _+1, .num k :: rest => some (.int k, rest)
  | _+1, .op "-" :: .num k :: rest => some (.int (-(k : Int)), rest)
  | _+1, .fnum t :: rest => some (.flt false t, rest)
  | _+1, .op "-" :: .fnum t :: rest => some (.flt true t, rest)
  | _+1, .name "True" :: rest => some (.bool true, rest)
  | _+1, .name "False" :: rest => some (.bool false, rest)
  | _+1, .name "None" :: rest => some (.none, rest)
  | _+1, .lpar :: .rpar :: rest => some (.tuple [], rest)
  | n+1, .lpar :: rest =>
    match parseKey n rest with
    | some (k, .rpar :: rest') => some (k, rest')          -- `(k)` is just `k`
    | some (k, .comma :: rest') =>
      (match parseMore n rest' with
       | some (ks, r) => some (.tuple (k :: ks), r)
       | none => none)
    | _ => none
  | _+1, _ => none
/-- the elements after the first comma of a tuple display, up to the closing parenthesis: nothing (`(k,)`), or keys
    separated by commas, a trailing comma allowed -/
def parseMore : Nat → List Tok → Option (List KeyX × List Tok)
  | 0, _ => none
  | _+1, .rpar :: rest => some ([], rest)
  | n+1, toks =>
    match parseKey n toks with
    | some (k, .rpar :: rest') => some ([k], rest')
    | some (k, .comma :: rest') =>
      (match parseMore n rest' with
       | some (ks, r) => some (k :: ks, r)
       | none => none)
    | _ => none
end

/-! ### the expression parser: `Parse.parseExpr` with `parseKey` between the brackets -/

mutual
def parseExpr : Nat → List Tok → Option (Expr × List Tok)
  | 0, _ => none
  | _+1, .op "-" :: .num k :: rest => some (.lit (-(k : Int)), rest)
  | _+1, .op "-" :: .fnum t :: rest => some (.flit true t, rest)
  | n+1, toks => match parsePrimary n toks with
    | some (p, rest) => parseTrailers n p rest
    | none => none
def parsePrimary : Nat → List Tok → Option (Expr × List Tok)
  | 0, _ => none
  | _+1, .num k :: rest => some (.lit k, rest)
  | _+1, .fnum t :: rest => some (.flit false t, rest)
  | _+1, .name l :: rest => some (.root l, rest)
  | _+1, .lpar :: .op "-" :: .num k :: .rpar :: rest => some (.lit (-(k : Int)), rest)
  | _+1, .lpar :: .op "-" :: .fnum t :: .rpar :: rest => some (.flit true t, rest)
  | n+1, .lpar :: .op o :: rest =>
    if o ∈ unops then
      match parseExpr n rest with
      | some (a, .rpar :: rest') => some (.un o a, rest')
      | _ => none
    else none
  | n+1, .lpar :: rest =>
    match parseExpr n rest with
    | some (l, .op o :: r1) =>
      (match parseExpr n r1 with
       | some (r, .rpar :: r2) => some (.bin o l r, r2)
       | _ => none)
    | _ => none
  | _+1, _ => none
def parseTrailers : Nat → Expr → List Tok → Option (Expr × List Tok)
  | 0, _, _ => none
  | n+1, acc, .lbr :: rest =>
    match parseKey n rest with
    | some (k, .rbr :: rest') => parseTrailers n (.item acc k) rest'
    | _ => none
  | n+1, acc, .dot :: .name a :: rest => parseTrailers n (.attr acc a) rest
  | n+1, acc, .lpar :: rest =>
    match parseArgs n rest with
    | some ((args, kws), rest') => parseTrailers n (mkCall acc args kws) rest'
    | none => none
  | _+1, acc, toks => some (acc, toks)
def parseArgs : Nat → List Tok → Option ((List Expr × List (String × Expr)) × List Tok)
  | 0, _ => none
  | _+1, .rpar :: rest => some (([], []), rest)
  | n+1, .name k :: .op "=" :: rest =>
    match parseKws n (.name k :: .op "=" :: rest) with
    | some (kws, rest') => if namesDistinct kws then some (([], kws), rest') else none
    | none => none
  | n+1, toks =>
    match parseExpr n toks with
    | some (a, .comma :: rest) =>
      (match parseArgs n rest with
       | some ((as, kws), rest') => if as.isEmpty && kws.isEmpty then none else some ((a :: as, kws), rest')
       | none => none)
    | some (a, .rpar :: rest) => some (([a], []), rest)
    | _ => none
def parseKws : Nat → List Tok → Option (List (String × Expr) × List Tok)
  | 0, _ => none
  | n+1, .name k :: .op "=" :: rest =>
    match parseExpr n rest with
    | some (v, .comma :: rest') =>
      (match parseKws n rest' with
       | some (kws, r) => some ((k, v) :: kws, r)
       | none => none)
    | some (v, .rpar :: rest') => some ([(k, v)], rest')
    | _ => none
  | _+1, _ => none
end

/-- `d[(1, 'a')][(3,)].x + f(d[()], k=d[None])` -/
def exTuple : Expr :=
  .bin "+" (.attr (.item (.item (.root "d") (.tuple [.int 1, .str "a"])) (.tuple [.int 3])) "x")
    (.callkw (.root "f") [.item (.root "d") (.tuple [])] [("k", .item (.root "d") .none)])
def exTupleToks : List Tok :=
  [.lpar, .name "d", .lbr, .lpar, .num 1, .comma, .str "a", .rpar, .rbr, .lbr, .lpar, .num 3, .comma, .rpar, .rbr,
   .dot, .name "x", .op "+", .name "f", .lpar, .name "d", .lbr, .lpar, .rpar, .rbr, .comma, .name "k", .op "=",
   .name "d", .lbr, .name "None", .rbr, .rpar, .rpar]

/-! ### keys read back -/

/-- a scalar key: one or two tokens, read back with fuel 1 whatever follows -/
theorem parseKey_scalar (n : Nat) (k : KeyX) (hk : ∀ ks, k ≠ .tuple ks) (rest : List Tok) :
    parseKey (n + 1) (printKeyX k ++ rest) = some (k, rest) := by
  cases k with
  | tuple ks => exact absurd rfl (hk ks)
  | str s => simp [printKeyX, parseKey]
  | int i =>
    by_cases hi : 0 ≤ i
    · have h2 : ((i.toNat : Nat) : Int) = i := Int.toNat_of_nonneg hi
      simp [printKeyX, printInt, hi, parseKey, h2]
    · simp [printKeyX, printInt, hi, parseKey]
      omega
  | bool b => cases b <;> simp [printKeyX, parseKey]
  | flt neg t => cases neg <;> simp [printKeyX, printFloat, parseKey]
  | none => simp [printKeyX, parseKey]

/-- an opening parenthesis followed by the start of a key: a parenthesised key or a tuple display -/
theorem parseKey_lpar (n : Nat) (X : List Tok) (h : KeyHead X) :
    parseKey (n + 1) (.lpar :: X) =
      match parseKey n X with
      | some (k, .rpar :: rest') => some (k, rest')
      | some (k, .comma :: rest') =>
        (match parseMore n rest' with
         | some (ks, r) => some (.tuple (k :: ks), r)
         | none => none)
      | _ => none := by
  conv => lhs; unfold parseKey
  split <;> simp_all [KeyHead]

theorem parseMore_key (n : Nat) (X : List Tok) (h : KeyHead X) :
    parseMore (n + 1) X =
      match parseKey n X with
      | some (k, .rpar :: rest') => some ([k], rest')
      | some (k, .comma :: rest') =>
        (match parseMore n rest' with
         | some (ks, r) => some (k :: ks, r)
         | none => none)
      | _ => none := by
  conv => lhs; unfold parseMore
  split <;> simp_all [KeyHead]

theorem parseMore_rpar (n : Nat) (rest : List Tok) : parseMore (n + 1) (.rpar :: rest) = some ([], rest) := by
  conv => lhs; unfold parseMore

mutual
/-- **a printed key reads back as the key**, whatever follows it -/
theorem parseKey_print : ∀ (k : KeyX) (rest : List Tok), Ev (fun n => parseKey n (printKeyX k ++ rest)) (k, rest)
  | .str s, rest => ⟨1, fun n hn => by
      obtain ⟨m, rfl⟩ : ∃ m, n = m + 1 := ⟨n - 1, by omega⟩
      exact parseKey_scalar m _ (by intro ks; simp) rest⟩
  | .int i, rest => ⟨1, fun n hn => by
      obtain ⟨m, rfl⟩ : ∃ m, n = m + 1 := ⟨n - 1, by omega⟩
      exact parseKey_scalar m _ (by intro ks; simp) rest⟩
  | .bool b, rest => ⟨1, fun n hn => by
      obtain ⟨m, rfl⟩ : ∃ m, n = m + 1 := ⟨n - 1, by omega⟩
      exact parseKey_scalar m _ (by intro ks; simp) rest⟩
  | .flt neg t, rest => ⟨1, fun n hn => by
      obtain ⟨m, rfl⟩ : ∃ m, n = m + 1 := ⟨n - 1, by omega⟩
      exact parseKey_scalar m _ (by intro ks; simp) rest⟩
  | .none, rest => ⟨1, fun n hn => by
      obtain ⟨m, rfl⟩ : ∃ m, n = m + 1 := ⟨n - 1, by omega⟩
      exact parseKey_scalar m _ (by intro ks; simp) rest⟩
  | .tuple [], rest => ⟨1, fun n hn => by
      obtain ⟨m, rfl⟩ : ∃ m, n = m + 1 := ⟨n - 1, by omega⟩
      show parseKey (m + 1) (printKeyX (.tuple []) ++ rest) = some (.tuple [], rest)
      simp [printKeyX, printElems, parseKey]⟩
  | .tuple (a :: r), rest => by
    obtain ⟨n1, h1⟩ := parseKey_print a (.comma :: (printMore r ++ rest))
    obtain ⟨n2, h2⟩ := parseMore_print r rest
    refine ⟨n1 + n2 + 1, fun n hn => ?_⟩
    obtain ⟨m, rfl⟩ : ∃ m, n = m + 1 := ⟨n - 1, by omega⟩
    show parseKey (m + 1) (printKeyX (.tuple (a :: r)) ++ rest) = some (.tuple (a :: r), rest)
    have e1 : printKeyX (.tuple (a :: r)) ++ rest = .lpar :: (printKeyX a ++ .comma :: (printMore r ++ rest)) := by
      simp [printKeyX, printElems, List.append_assoc]
    have q1 := h1 m (by omega)
    have q2 := h2 m (by omega)
    dsimp only at q1 q2
    rw [e1, parseKey_lpar _ _ (keyHead a _), q1]
    simp only
    rw [q2]
/-- the elements after the first comma -/
theorem parseMore_print : ∀ (ks : List KeyX) (rest : List Tok),
    Ev (fun n => parseMore n (printMore ks ++ rest)) (ks, rest)
  | [], rest => ⟨1, fun n hn => by
      obtain ⟨m, rfl⟩ : ∃ m, n = m + 1 := ⟨n - 1, by omega⟩
      show parseMore (m + 1) (printMore [] ++ rest) = some ([], rest)
      simpa [printMore] using parseMore_rpar m rest⟩
  | [b], rest => by
    obtain ⟨n1, h1⟩ := parseKey_print b (.rpar :: rest)
    refine ⟨n1 + 1, fun n hn => ?_⟩
    obtain ⟨m, rfl⟩ : ∃ m, n = m + 1 := ⟨n - 1, by omega⟩
    show parseMore (m + 1) (printMore [b] ++ rest) = some ([b], rest)
    have e1 : printMore [b] ++ rest = printKeyX b ++ .rpar :: rest := by simp [printMore, List.append_assoc]
    have q1 := h1 m (by omega)
    dsimp only at q1
    rw [e1, parseMore_key _ _ (keyHead b _), q1]
  | b :: c :: r, rest => by
    obtain ⟨n1, h1⟩ := parseKey_print b (.comma :: (printMore (c :: r) ++ rest))
    obtain ⟨n2, h2⟩ := parseMore_print (c :: r) rest
    refine ⟨n1 + n2 + 1, fun n hn => ?_⟩
    obtain ⟨m, rfl⟩ : ∃ m, n = m + 1 := ⟨n - 1, by omega⟩
    show parseMore (m + 1) (printMore (b :: c :: r) ++ rest) = some (b :: c :: r, rest)
    have e1 : printMore (b :: c :: r) ++ rest = printKeyX b ++ .comma :: (printMore (c :: r) ++ rest) := by
      simp [printMore, List.append_assoc]
    have q1 := h1 m (by omega)
    have q2 := h2 m (by omega)
    dsimp only at q1 q2
    rw [e1, parseMore_key _ _ (keyHead b _), q1]
    simp only
    rw [q2]
end


/-! ### round trip (the proof of `Parse.parse_print`, with `parseKey_print` at the item steps) -/

theorem parseTrailers_stop (n : Nat) (acc : Expr) (toks : List Tok) (h : NoTrail toks) :
    parseTrailers (n + 1) acc toks = some (acc, toks) := by
  unfold parseTrailers
  split <;> simp_all [NoTrail]

theorem ev_trailers_stop (acc : Expr) (toks : List Tok) (h : NoTrail toks) :
    Ev (fun n => parseTrailers n acc toks) (acc, toks) :=
  ⟨1, fun n hn => by
    obtain ⟨m, rfl⟩ : ∃ m, n = m + 1 := ⟨n - 1, by omega⟩
    exact parseTrailers_stop m acc toks h⟩


/-! well-formed = what the library can build and print (`Parse.WFpost` … verbatim; keys carry NO condition: every `KeyX`
    is printable and reads back) -/
mutual
def WFpost : Expr → Prop
  | .root _ => True
  | .item o _ => WFpost o
  | .attr o _ => WFpost o
  | .lit _ => False
  | .flit _ _ => False
  | .bin _ l r => WFarg l ∧ WFarg r
  | .un op a => op ∈ unops ∧ WFpost a
  | .call f args => WFpost f ∧ WFargs args
  | .callkw f args kws => WFpost f ∧ WFargs args ∧ kws ≠ [] ∧ WFkws kws ∧ (kwNames kws).Nodup
def WFarg : Expr → Prop
  | .lit _ => True
  | .flit _ _ => True
  | .root _ => True
  | .item o _ => WFpost o
  | .attr o _ => WFpost o
  | .bin _ l r => WFarg l ∧ WFarg r
  | .un op a => op ∈ unops ∧ WFpost a
  | .call f args => WFpost f ∧ WFargs args
  | .callkw f args kws => WFpost f ∧ WFargs args ∧ kws ≠ [] ∧ WFkws kws ∧ (kwNames kws).Nodup
def WFargs : List Expr → Prop
  | [] => True
  | a :: r => WFarg a ∧ WFargs r
/-- keyword arguments: every name a (non-empty) Python identifier, every value an argument expression -/
def WFkws : List (String × Expr) → Prop
  | [] => True
  | (k, v) :: r => isIdent k = true ∧ WFarg v ∧ WFkws r
end


theorem head_post : ∀ e : Expr, WFpost e → ∀ rest, HeadAtom (print e ++ rest)
  | .root l, _, rest => by simp [print, HeadAtom]
  | .item o k, h, rest => by
    have := head_post o (by simpa [WFpost] using h) ([.lbr] ++ printKeyX k ++ [.rbr] ++ rest)
    simpa [print, List.append_assoc] using this
  | .attr o a, h, rest => by
    have := head_post o (by simpa [WFpost] using h) ([.dot, .name a] ++ rest)
    simpa [print, List.append_assoc] using this
  | .lit _, h, _ => by simp [WFpost] at h
  | .flit _ _, h, _ => by simp [WFpost] at h
  | .bin _ _ _, _, rest => by simp [print, HeadAtom]
  | .un _ _, _, rest => by simp [print, HeadAtom]
  | .call f args, h, rest => by
    have := head_post f (by simp [WFpost] at h; exact h.1) ([.lpar] ++ printArgs args ++ rest)
    simpa [print, List.append_assoc] using this
  | .callkw f args kws, h, rest => by
    have := head_post f (by simp [WFpost] at h; exact h.1) ([.lpar] ++ printPos args ++ printKws kws ++ rest)
    simpa [print, List.append_assoc] using this


theorem notkw_post : ∀ e : Expr, WFpost e → ∀ rest, NoOpHead rest → NotKw (print e ++ rest)
  | .root l, _, rest, hr => by simpa [print] using notkw_name l rest hr
  | .item o k, h, rest, _ => by
    have := notkw_post o (by simpa [WFpost] using h) ([.lbr] ++ printKeyX k ++ [.rbr] ++ rest) (by simp [NoOpHead])
    simpa [print, List.append_assoc] using this
  | .attr o a, h, rest, _ => by
    have := notkw_post o (by simpa [WFpost] using h) ([.dot, .name a] ++ rest) (by simp [NoOpHead])
    simpa [print, List.append_assoc] using this
  | .lit _, h, _, _ => by simp [WFpost] at h
  | .flit _ _, h, _, _ => by simp [WFpost] at h
  | .bin _ _ _, _, rest, _ => by simp [print, NotKw]
  | .un _ _, _, rest, _ => by simp [print, NotKw]
  | .call f args, h, rest, _ => by
    have := notkw_post f (by simp [WFpost] at h; exact h.1) ([.lpar] ++ printArgs args ++ rest) (by simp [NoOpHead])
    simpa [print, List.append_assoc] using this
  | .callkw f args kws, h, rest, _ => by
    have := notkw_post f (by simp [WFpost] at h; exact h.1) ([.lpar] ++ printPos args ++ printKws kws ++ rest) (by simp [NoOpHead])
    simpa [print, List.append_assoc] using this

theorem parseExpr_atom (n : Nat) (toks : List Tok) (h : HeadAtom toks) :
    parseExpr (n + 1) toks = match parsePrimary n toks with
      | some (p, rest) => parseTrailers n p rest
      | none => none := by
  unfold parseExpr
  split <;> simp_all [HeadAtom]

theorem parsePrimary_name (n : Nat) (l : String) (rest : List Tok) :
    parsePrimary (n + 1) (.name l :: rest) = some (.root l, rest) := by
  unfold parsePrimary; rfl

/-- opening parenthesis followed by an atom start: a binary node -/
theorem parsePrimary_bin (n : Nat) (X : List Tok)
    (h : HeadAtom X ∨ (∃ k r, X = .num k :: r) ∨ (∃ t r, X = .fnum t :: r)) :
    parsePrimary (n + 1) (.lpar :: X) =
      match parseExpr n X with
      | some (l, .op o :: r1) =>
        (match parseExpr n r1 with
         | some (r, .rpar :: r2) => some (.bin o l r, r2)
         | _ => none)
      | _ => none := by
  unfold parsePrimary
  rcases h with h | ⟨k, r, rfl⟩ | ⟨t, r, rfl⟩
  · split <;> simp_all [HeadAtom]
  · split <;> simp_all
  · split <;> simp_all

theorem parsePrimary_un (n : Nat) (o : String) (X : List Tok) (ho : o ∈ unops) (h : HeadAtom X) :
    parsePrimary (n + 1) (.lpar :: .op o :: X) =
      match parseExpr n X with
      | some (a, .rpar :: rest') => some (.un o a, rest')
      | _ => none := by
  unfold parsePrimary
  split
  all_goals first
    | (simp_all [HeadAtom]; done)
    | (exfalso; rename_i hne _ heq; exact hne _ _ (List.cons.inj heq.symm).2)


theorem parseTrailers_call (n : Nat) (acc : Expr) (Y : List Tok) :
    parseTrailers (n + 1) acc (.lpar :: Y) =
      match parseArgs n Y with
      | some ((args, kws), rest') => parseTrailers n (mkCall acc args kws) rest'
      | none => none := by
  conv => lhs; unfold parseTrailers

theorem parseTrailers_attr (n : Nat) (acc : Expr) (a : String) (rest : List Tok) :
    parseTrailers (n + 1) acc (.dot :: .name a :: rest) = parseTrailers n (.attr acc a) rest := by
  conv => lhs; unfold parseTrailers


theorem parseTrailers_lbr (n : Nat) (acc : Expr) (X : List Tok) :
    parseTrailers (n + 1) acc (.lbr :: X) =
      match parseKey n X with
      | some (k, .rbr :: rest') => parseTrailers n (.item acc k) rest'
      | _ => none := by
  conv => lhs; unfold parseTrailers

/-- an item step: the key between the brackets reads back (`parseKey_print`), then the trailer loop goes on -/
theorem ev_trailers_item (acc : Expr) (k : KeyX) (rest : List Tok) (res : Expr × List Tok)
    (h : Ev (fun n => parseTrailers n (.item acc k) rest) res) :
    Ev (fun n => parseTrailers n acc (.lbr :: printKeyX k ++ .rbr :: rest)) res := by
  obtain ⟨n3, h3⟩ := h
  obtain ⟨n1, h1⟩ := parseKey_print k (.rbr :: rest)
  refine ⟨n1 + n3 + 1, fun n hn => ?_⟩
  obtain ⟨m, rfl⟩ : ∃ m, n = m + 1 := ⟨n - 1, by omega⟩
  show parseTrailers (m + 1) acc (.lbr :: printKeyX k ++ .rbr :: rest) = some res
  have q1 := h1 m (by omega)
  dsimp only at q1
  rw [List.cons_append, parseTrailers_lbr, q1]
  exact h3 m (by omega)


/-- a positional argument: not the closing parenthesis and not the keyword look-ahead -/
theorem parseArgs_arg (n : Nat) (toks : List Tok) (h : HeadArg toks) (hk : NotKw toks) :
    parseArgs (n + 1) toks =
      match parseExpr n toks with
      | some (a, .comma :: rest) =>
        (match parseArgs n rest with
         | some ((as, kws), rest') => if as.isEmpty && kws.isEmpty then none else some ((a :: as, kws), rest')
         | none => none)
      | some (a, .rpar :: rest) => some (([a], []), rest)
      | _ => none := by
  conv => lhs; unfold parseArgs
  split <;> simp_all [HeadArg, NotKw]

/-- the keyword look-ahead -/
theorem parseArgs_kw (n : Nat) (k : String) (rest : List Tok) :
    parseArgs (n + 1) (.name k :: .op "=" :: rest) =
      match parseKws n (.name k :: .op "=" :: rest) with
      | some (kws, rest') => if namesDistinct kws then some (([], kws), rest') else none
      | none => none := by
  conv => lhs; unfold parseArgs
  simp

theorem parseKws_kw (n : Nat) (k : String) (rest : List Tok) :
    parseKws (n + 1) (.name k :: .op "=" :: rest) =
      match parseExpr n rest with
      | some (v, .comma :: rest') =>
        (match parseKws n rest' with
         | some (kws, r) => some ((k, v) :: kws, r)
         | none => none)
      | some (v, .rpar :: rest') => some ([(k, v)], rest')
      | _ => none := by
  conv => lhs; unfold parseKws
  simp

theorem parseExpr_lit (n : Nat) (i : Int) (rest : List Tok) (hnt : NoTrail rest) :
    parseExpr (n + 3) (printInt i ++ rest) = some (.lit i, rest) := by
  by_cases hi : 0 ≤ i
  · have h2 : ((i.toNat : Nat) : Int) = i := Int.toNat_of_nonneg hi
    simp only [printInt, hi, if_true, List.singleton_append]
    unfold parseExpr
    simp only [parsePrimary, parseTrailers_stop _ _ _ hnt, h2]
  · have h2 : -(((-i).toNat : Nat) : Int) = i := by
      have : ((-i).toNat : Int) = -i := Int.toNat_of_nonneg (by omega)
      omega
    simp only [printInt, hi, if_false, List.cons_append, List.nil_append]
    unfold parseExpr
    simp only [h2]

theorem parseExpr_flit (n : Nat) (neg : Bool) (t : String) (rest : List Tok) (hnt : NoTrail rest) :
    parseExpr (n + 3) (printFloat neg t ++ rest) = some (.flit neg t, rest) := by
  cases neg with
  | false =>
    simp only [printFloat, Bool.false_eq_true, if_false, List.singleton_append]
    unfold parseExpr
    simp only [parsePrimary, parseTrailers_stop _ _ _ hnt]
  | true =>
    simp only [printFloat, if_true, List.cons_append, List.nil_append]
    unfold parseExpr
    simp


abbrev PostClaim (e : Expr) : Prop :=
  WFpost e → ∀ rest res, Ev (fun n => parseTrailers n e rest) res → Ev (fun n => parseExpr n (print e ++ rest)) res

theorem ev_lit (i : Int) (rest : List Tok) (hnt : NoTrail rest) :
    Ev (fun n => parseExpr n (printInt i ++ rest)) (.lit i, rest) :=
  ⟨3, fun n hn => by
    obtain ⟨m, rfl⟩ : ∃ m, n = m + 3 := ⟨n - 3, by omega⟩
    exact parseExpr_lit m i rest hnt⟩

theorem ev_flit (neg : Bool) (t : String) (rest : List Tok) (hnt : NoTrail rest) :
    Ev (fun n => parseExpr n (printFloat neg t ++ rest)) (.flit neg t, rest) :=
  ⟨3, fun n hn => by
    obtain ⟨m, rfl⟩ : ∃ m, n = m + 3 := ⟨n - 3, by omega⟩
    exact parseExpr_flit m neg t rest hnt⟩

/-- right operands and call arguments -/
theorem arg_of_post (e : Expr) (hp : PostClaim e) (h : WFarg e) (rest : List Tok) (hnt : NoTrail rest) :
    Ev (fun n => parseExpr n (print e ++ rest)) (e, rest) := by
  cases e with
  | lit i => simpa [print] using ev_lit i rest hnt
  | flit neg t => simpa [print] using ev_flit neg t rest hnt
  | root l => exact hp (by simp [WFpost]) rest _ (ev_trailers_stop _ rest hnt)
  | item o k => exact hp (by simpa [WFpost, WFarg] using h) rest _ (ev_trailers_stop _ rest hnt)
  | attr o a => exact hp (by simpa [WFpost, WFarg] using h) rest _ (ev_trailers_stop _ rest hnt)
  | bin op l r => exact hp (by simpa [WFpost, WFarg] using h) rest _ (ev_trailers_stop _ rest hnt)
  | un op a => exact hp (by simpa [WFpost, WFarg] using h) rest _ (ev_trailers_stop _ rest hnt)
  | call f args => exact hp (by simpa [WFpost, WFarg] using h) rest _ (ev_trailers_stop _ rest hnt)
  | callkw f args kws => exact hp (by simpa [WFpost, WFarg] using h) rest _ (ev_trailers_stop _ rest hnt)

theorem parseExpr_parenneg (n : Nat) (k : Nat) (rest : List Tok) (hnt : NoTrail rest) :
    parseExpr (n + 3) (.lpar :: .op "-" :: .num k :: .rpar :: rest) = some (.lit (-(k : Int)), rest) := by
  rw [parseExpr_atom _ _ (by simp [HeadAtom])]
  have : parsePrimary (n + 2) (.lpar :: .op "-" :: .num k :: .rpar :: rest) = some (.lit (-(k : Int)), rest) := by
    conv => lhs; unfold parsePrimary
    simp
  rw [this]
  exact parseTrailers_stop _ _ _ hnt

theorem parseExpr_parennegf (n : Nat) (t : String) (rest : List Tok) (hnt : NoTrail rest) :
    parseExpr (n + 3) (.lpar :: .op "-" :: .fnum t :: .rpar :: rest) = some (.flit true t, rest) := by
  rw [parseExpr_atom _ _ (by simp [HeadAtom])]
  have : parsePrimary (n + 2) (.lpar :: .op "-" :: .fnum t :: .rpar :: rest) = some (.flit true t, rest) := by
    conv => lhs; unfold parsePrimary
    simp
  rw [this]
  exact parseTrailers_stop _ _ _ hnt

/-- left operands (negative literals are parenthesised) -/
theorem lhs_of_post (e : Expr) (hp : PostClaim e) (h : WFarg e) (rest : List Tok) (hnt : NoTrail rest) :
    Ev (fun n => parseExpr n (printLhs e ++ rest)) (e, rest) := by
  cases e with
  | lit i =>
    by_cases hi : 0 ≤ i
    · simpa [printLhs, hi] using ev_lit i rest hnt
    · have h2 : -(((-i).toNat : Nat) : Int) = i := by
        have : ((-i).toNat : Int) = -i := Int.toNat_of_nonneg (by omega)
        omega
      refine ⟨3, fun n hn => ?_⟩
      obtain ⟨m, rfl⟩ : ∃ m, n = m + 3 := ⟨n - 3, by omega⟩
      have := parseExpr_parenneg m (-i).toNat rest hnt
      rw [h2] at this
      simpa [printLhs, hi, printInt] using this
  | flit neg t =>
    cases neg with
    | false => simpa [printLhs] using ev_flit false t rest hnt
    | true =>
      refine ⟨3, fun n hn => ?_⟩
      obtain ⟨m, rfl⟩ : ∃ m, n = m + 3 := ⟨n - 3, by omega⟩
      have := parseExpr_parennegf m t rest hnt
      simpa [printLhs, printFloat] using this
  | root l => simpa [printLhs] using arg_of_post _ hp h rest hnt
  | item o k => simpa [printLhs] using arg_of_post _ hp h rest hnt
  | attr o a => simpa [printLhs] using arg_of_post _ hp h rest hnt
  | bin op l r => simpa [printLhs] using arg_of_post _ hp h rest hnt
  | un op a => simpa [printLhs] using arg_of_post _ hp h rest hnt
  | call f args => simpa [printLhs] using arg_of_post _ hp h rest hnt
  | callkw f args kws => simpa [printLhs] using arg_of_post _ hp h rest hnt


theorem head_lhs (e : Expr) (h : WFarg e) (rest : List Tok) :
    HeadAtom (printLhs e ++ rest) ∨ (∃ k r, printLhs e ++ rest = .num k :: r) ∨
      (∃ t r, printLhs e ++ rest = .fnum t :: r) := by
  cases e with
  | lit i =>
    by_cases hi : 0 ≤ i
    · right; left; exact ⟨i.toNat, rest, by simp [printLhs, hi, printInt]⟩
    · left; simp [printLhs, hi, HeadAtom]
  | flit neg t =>
    cases neg with
    | false => right; right; exact ⟨t, rest, by simp [printLhs, printFloat]⟩
    | true => left; simp [printLhs, HeadAtom]
  | root l => left; simpa [printLhs] using head_post (.root l) (by simp [WFpost]) rest
  | item o k => left; simpa [printLhs] using head_post (.item o k) (by simpa [WFpost, WFarg] using h) rest
  | attr o a => left; simpa [printLhs] using head_post (.attr o a) (by simpa [WFpost, WFarg] using h) rest
  | bin op l r => left; simp [printLhs, print, HeadAtom]
  | un op a => left; simp [printLhs, print, HeadAtom]
  | call f args => left; simpa [printLhs] using head_post (.call f args) (by simpa [WFpost, WFarg] using h) rest
  | callkw f args kws =>
    left; simpa [printLhs] using head_post (.callkw f args kws) (by simpa [WFpost, WFarg] using h) rest


theorem head_arg (e : Expr) (h : WFarg e) (rest : List Tok) : HeadArg (print e ++ rest) := by
  cases e with
  | lit i => by_cases hi : 0 ≤ i <;> simp [print, printInt, hi, HeadArg]
  | flit neg t => cases neg <;> simp [print, printFloat, HeadArg]
  | root l => simp [print, HeadArg]
  | item o k => exact headArg_of_atom _ (head_post (.item o k) (by simpa [WFpost, WFarg] using h) rest)
  | attr o a => exact headArg_of_atom _ (head_post (.attr o a) (by simpa [WFpost, WFarg] using h) rest)
  | bin op l r => simp [print, HeadArg]
  | un op a => simp [print, HeadArg]
  | call f args => exact headArg_of_atom _ (head_post (.call f args) (by simpa [WFpost, WFarg] using h) rest)
  | callkw f args kws =>
    exact headArg_of_atom _ (head_post (.callkw f args kws) (by simpa [WFpost, WFarg] using h) rest)

/-- a positional argument never looks like the start of a keyword argument -/
theorem notkw_arg (e : Expr) (h : WFarg e) (rest : List Tok) (hr : NoOpHead rest) : NotKw (print e ++ rest) := by
  cases e with
  | lit i => by_cases hi : 0 ≤ i <;> simp [print, printInt, hi, NotKw]
  | flit neg t => cases neg <;> simp [print, printFloat, NotKw]
  | root l => exact notkw_post (.root l) (by simp [WFpost]) rest hr
  | item o k => exact notkw_post (.item o k) (by simpa [WFpost, WFarg] using h) rest hr
  | attr o a => exact notkw_post (.attr o a) (by simpa [WFpost, WFarg] using h) rest hr
  | bin op l r => simp [print, NotKw]
  | un op a => simp [print, NotKw]
  | call f args => exact notkw_post (.call f args) (by simpa [WFpost, WFarg] using h) rest hr
  | callkw f args kws => exact notkw_post (.callkw f args kws) (by simpa [WFpost, WFarg] using h) rest hr

/-- the keyword part read by `parseArgs`, from the keyword part read by `parseKws` -/
theorem ev_args_of_kws (kws : List (String × Expr)) (toks rest : List Tok)
    (hh : ∃ k r, toks = .name k :: .op "=" :: r) (hd : (kwNames kws).Nodup)
    (h : Ev (fun n => parseKws n toks) (kws, rest)) :
    Ev (fun n => parseArgs n toks) (([], kws), rest) := by
  obtain ⟨k, r, rfl⟩ := hh
  obtain ⟨n0, h⟩ := h
  refine ⟨n0 + 1, fun n hn => ?_⟩
  obtain ⟨m, rfl⟩ : ∃ m, n = m + 1 := ⟨n - 1, by omega⟩
  have q := h m (by omega)
  dsimp only at q
  show parseArgs (m + 1) _ = _
  rw [parseArgs_kw, q]
  simp [namesDistinct, hd]

theorem printKws_head (kws : List (String × Expr)) (hne : kws ≠ []) (rest : List Tok) :
    ∃ k r, printKws kws ++ rest = .name k :: .op "=" :: r := by
  match kws, hne with
  | [(k, v)], _ => exact ⟨k, print v ++ .rpar :: rest, by simp [printKws]⟩
  | (k, v) :: b :: r, _ => exact ⟨k, print v ++ .comma :: (printKws (b :: r) ++ rest), by simp [printKws]⟩

mutual
theorem rt_post : ∀ e : Expr, PostClaim e
  | .root l => by
    intro _ rest res ⟨n0, h⟩
    refine ⟨n0 + 2, fun n hn => ?_⟩
    obtain ⟨m, rfl⟩ : ∃ m, n = m + 2 := ⟨n - 2, by omega⟩
    show parseExpr (m + 2) (print (.root l) ++ rest) = some res
    simp only [print, List.singleton_append]
    rw [parseExpr_atom _ _ (by simp [HeadAtom]), parsePrimary_name]
    exact h (m + 1) (by omega)
  | .item o k => by
    intro hw rest res hev
    have := rt_post o (by simpa [WFpost] using hw) (.lbr :: printKeyX k ++ .rbr :: rest) res
      (ev_trailers_item o k rest res hev)
    simpa [print, List.append_assoc] using this
  | .attr o a => by
    intro hw rest res hev
    have := rt_post o (by simpa [WFpost] using hw) (.dot :: .name a :: rest) res
      (Ev.shift hev (fun n => parseTrailers_attr n o a rest))
    simpa [print, List.append_assoc] using this
  | .lit i => by intro hw; simp [WFpost] at hw
  | .flit _ _ => by intro hw; simp [WFpost] at hw
  | .bin op l r => by
    intro hw rest res ⟨n3, h3⟩
    have hl : WFarg l := by simp [WFpost] at hw; exact hw.1
    have hr : WFarg r := by simp [WFpost] at hw; exact hw.2
    obtain ⟨n1, h1⟩ := lhs_of_post l (rt_post l) hl (.op op :: (print r ++ .rpar :: rest)) (by simp [NoTrail])
    obtain ⟨n2, h2⟩ := arg_of_post r (rt_post r) hr (.rpar :: rest) (by simp [NoTrail])
    refine ⟨n1 + n2 + n3 + 2, fun n hn => ?_⟩
    obtain ⟨m, rfl⟩ : ∃ m, n = m + 2 := ⟨n - 2, by omega⟩
    show parseExpr (m + 2) (print (.bin op l r) ++ rest) = some res
    have e1 : print (.bin op l r) ++ rest = .lpar :: (printLhs l ++ .op op :: (print r ++ .rpar :: rest)) := by
      simp [print, List.append_assoc]
    have q1 := h1 m (by omega)
    have q2 := h2 m (by omega)
    dsimp only at q1 q2
    rw [e1, parseExpr_atom _ _ (by simp [HeadAtom]), parsePrimary_bin _ _ (head_lhs l hl _), q1]
    simp only
    rw [q2]
    simp only
    exact h3 (m + 1) (by omega)
  | .un op a => by
    intro hw rest res ⟨n3, h3⟩
    have ho : op ∈ unops := by simp [WFpost] at hw; exact hw.1
    have ha : WFpost a := by simp [WFpost] at hw; exact hw.2
    obtain ⟨n1, h1⟩ := rt_post a ha (.rpar :: rest) (a, .rpar :: rest) (ev_trailers_stop _ _ (by simp [NoTrail]))
    refine ⟨n1 + n3 + 2, fun n hn => ?_⟩
    obtain ⟨m, rfl⟩ : ∃ m, n = m + 2 := ⟨n - 2, by omega⟩
    show parseExpr (m + 2) (print (.un op a) ++ rest) = some res
    have e1 : print (.un op a) ++ rest = .lpar :: .op op :: (print a ++ .rpar :: rest) := by
      simp [print, List.append_assoc]
    have q1 := h1 m (by omega)
    dsimp only at q1
    rw [e1, parseExpr_atom _ _ (by simp [HeadAtom]), parsePrimary_un _ _ _ ho (head_post a ha _), q1]
    simp only
    exact h3 (m + 1) (by omega)
  | .call f args => by
    intro hw rest res ⟨n3, h3⟩
    have hf : WFpost f := by simp [WFpost] at hw; exact hw.1
    have hargs : WFargs args := by simp [WFpost] at hw; exact hw.2
    obtain ⟨n1, h1⟩ := rt_args args hargs rest
    have hev : Ev (fun n => parseTrailers n f (.lpar :: (printArgs args ++ rest))) res := by
      refine ⟨n1 + n3 + 1, fun n hn => ?_⟩
      obtain ⟨m, rfl⟩ : ∃ m, n = m + 1 := ⟨n - 1, by omega⟩
      show parseTrailers (m + 1) f (.lpar :: (printArgs args ++ rest)) = some res
      have q1 := h1 m (by omega)
      dsimp only at q1
      rw [parseTrailers_call, q1]
      exact h3 m (by omega)
    have := rt_post f hf (.lpar :: (printArgs args ++ rest)) res hev
    simpa [print, List.append_assoc] using this
  | .callkw f args kws => by
    intro hw rest res ⟨n3, h3⟩
    have hw' : WFpost f ∧ WFargs args ∧ kws ≠ [] ∧ WFkws kws ∧ (kwNames kws).Nodup := by
      simpa [WFpost] using hw
    obtain ⟨hf, hargs, hne, hkws, hd⟩ := hw'
    have hk := ev_args_of_kws kws (printKws kws ++ rest) rest (printKws_head kws hne rest) hd
      (rt_kws kws hne hkws rest)
    obtain ⟨n1, h1⟩ := rt_pos args hargs (printKws kws ++ rest) kws rest hne hk
    have hev : Ev (fun n => parseTrailers n f (.lpar :: (printPos args ++ (printKws kws ++ rest)))) res := by
      refine ⟨n1 + n3 + 1, fun n hn => ?_⟩
      obtain ⟨m, rfl⟩ : ∃ m, n = m + 1 := ⟨n - 1, by omega⟩
      show parseTrailers (m + 1) f (.lpar :: (printPos args ++ (printKws kws ++ rest))) = some res
      have q1 := h1 m (by omega)
      dsimp only at q1
      rw [parseTrailers_call, q1]
      have : mkCall f args kws = .callkw f args kws := by
        cases kws with
        | nil => exact absurd rfl hne
        | cons x xs => simp [mkCall]
      simp only [this]
      exact h3 m (by omega)
    have := rt_post f hf (.lpar :: (printPos args ++ (printKws kws ++ rest))) res hev
    simpa [print, List.append_assoc] using this
theorem rt_args : ∀ args : List Expr, WFargs args → ∀ rest,
    Ev (fun n => parseArgs n (printArgs args ++ rest)) ((args, []), rest)
  | [], _, rest => ⟨1, fun n hn => by
      obtain ⟨m, rfl⟩ : ∃ m, n = m + 1 := ⟨n - 1, by omega⟩
      show parseArgs (m + 1) (printArgs [] ++ rest) = some (([], []), rest)
      simp only [printArgs, List.singleton_append]
      conv => lhs; unfold parseArgs⟩
  | [a], hw, rest => by
    have ha : WFarg a := by simp [WFargs] at hw; exact hw
    obtain ⟨n1, h1⟩ := arg_of_post a (rt_post a) ha (.rpar :: rest) (by simp [NoTrail])
    refine ⟨n1 + 1, fun n hn => ?_⟩
    obtain ⟨m, rfl⟩ : ∃ m, n = m + 1 := ⟨n - 1, by omega⟩
    show parseArgs (m + 1) (printArgs [a] ++ rest) = some (([a], []), rest)
    have e1 : printArgs [a] ++ rest = print a ++ .rpar :: rest := by simp [printArgs, List.append_assoc]
    have q1 := h1 m (by omega)
    dsimp only at q1
    rw [e1, parseArgs_arg _ _ (head_arg a ha _) (notkw_arg a ha _ (by simp [NoOpHead])), q1]
  | a :: b :: r, hw, rest => by
    have ha : WFarg a := by simp [WFargs] at hw; exact hw.1
    have hbr : WFargs (b :: r) := by simp [WFargs] at hw ⊢; exact hw.2
    obtain ⟨n1, h1⟩ := arg_of_post a (rt_post a) ha (.comma :: (printArgs (b :: r) ++ rest)) (by simp [NoTrail])
    obtain ⟨n2, h2⟩ := rt_args (b :: r) hbr rest
    refine ⟨n1 + n2 + 1, fun n hn => ?_⟩
    obtain ⟨m, rfl⟩ : ∃ m, n = m + 1 := ⟨n - 1, by omega⟩
    show parseArgs (m + 1) (printArgs (a :: b :: r) ++ rest) = some ((a :: b :: r, []), rest)
    have e1 : printArgs (a :: b :: r) ++ rest = print a ++ .comma :: (printArgs (b :: r) ++ rest) := by
      simp [printArgs, List.append_assoc]
    have q1 := h1 m (by omega)
    have q2 := h2 m (by omega)
    dsimp only at q1 q2
    rw [e1, parseArgs_arg _ _ (head_arg a ha _) (notkw_arg a ha _ (by simp [NoOpHead])), q1]
    simp only
    rw [q2]
    simp
/-- positional arguments in front of a keyword part `toks` -/
theorem rt_pos : ∀ args : List Expr, WFargs args → ∀ (toks : List Tok) (kws : List (String × Expr)) (rest : List Tok),
    kws ≠ [] → Ev (fun n => parseArgs n toks) (([], kws), rest) →
    Ev (fun n => parseArgs n (printPos args ++ toks)) ((args, kws), rest)
  | [], _, toks, kws, rest, _, h => by simpa [printPos] using h
  | a :: r, hw, toks, kws, rest, hne, h => by
    have ha : WFarg a := by simp [WFargs] at hw; exact hw.1
    have hr : WFargs r := by simp [WFargs] at hw; exact hw.2
    obtain ⟨n1, h1⟩ := arg_of_post a (rt_post a) ha (.comma :: (printPos r ++ toks)) (by simp [NoTrail])
    obtain ⟨n2, h2⟩ := rt_pos r hr toks kws rest hne h
    refine ⟨n1 + n2 + 1, fun n hn => ?_⟩
    obtain ⟨m, rfl⟩ : ∃ m, n = m + 1 := ⟨n - 1, by omega⟩
    show parseArgs (m + 1) (printPos (a :: r) ++ toks) = some ((a :: r, kws), rest)
    have e1 : printPos (a :: r) ++ toks = print a ++ .comma :: (printPos r ++ toks) := by
      simp [printPos, List.append_assoc]
    have q1 := h1 m (by omega)
    have q2 := h2 m (by omega)
    dsimp only at q1 q2
    rw [e1, parseArgs_arg _ _ (head_arg a ha _) (notkw_arg a ha _ (by simp [NoOpHead])), q1]
    simp only
    rw [q2]
    have : kws.isEmpty = false := by cases kws <;> simp_all
    simp [this]
theorem rt_kws : ∀ kws : List (String × Expr), kws ≠ [] → WFkws kws → ∀ rest,
    Ev (fun n => parseKws n (printKws kws ++ rest)) (kws, rest)
  | [], hne, _, _ => absurd rfl hne
  | [(k, v)], _, hw, rest => by
    have hv : WFarg v := by simp [WFkws] at hw; exact hw.2
    obtain ⟨n1, h1⟩ := arg_of_post v (rt_post v) hv (.rpar :: rest) (by simp [NoTrail])
    refine ⟨n1 + 1, fun n hn => ?_⟩
    obtain ⟨m, rfl⟩ : ∃ m, n = m + 1 := ⟨n - 1, by omega⟩
    show parseKws (m + 1) (printKws [(k, v)] ++ rest) = some ([(k, v)], rest)
    have e1 : printKws [(k, v)] ++ rest = .name k :: .op "=" :: (print v ++ .rpar :: rest) := by
      simp [printKws, List.append_assoc]
    have q1 := h1 m (by omega)
    dsimp only at q1
    rw [e1, parseKws_kw, q1]
  | (k, v) :: b :: r, _, hw, rest => by
    have hv : WFarg v := by simp [WFkws] at hw; exact hw.2.1
    have hbr : WFkws (b :: r) := by simp [WFkws] at hw; exact hw.2.2
    obtain ⟨n1, h1⟩ := arg_of_post v (rt_post v) hv (.comma :: (printKws (b :: r) ++ rest)) (by simp [NoTrail])
    obtain ⟨n2, h2⟩ := rt_kws (b :: r) (by simp) hbr rest
    refine ⟨n1 + n2 + 1, fun n hn => ?_⟩
    obtain ⟨m, rfl⟩ : ∃ m, n = m + 1 := ⟨n - 1, by omega⟩
    show parseKws (m + 1) (printKws ((k, v) :: b :: r) ++ rest) = some ((k, v) :: b :: r, rest)
    have e1 : printKws ((k, v) :: b :: r) ++ rest =
        .name k :: .op "=" :: (print v ++ .comma :: (printKws (b :: r) ++ rest)) := by
      simp [printKws, List.append_assoc]
    have q1 := h1 m (by omega)
    have q2 := h2 m (by omega)
    dsimp only at q1 q2
    rw [e1, parseKws_kw, q1]
    simp only
    rw [q2]
end

/-- **C11 (token level), full key language**: printing then parsing gives the expression back, for every well-formed
    expression whose item keys are strings, ints, floats, `True` / `False` / `None` or (nested) tuples of these — for all
    sufficiently large fuel, the shape of `Parse.parse_print`. -/
theorem parse_print_keys (e : Expr) (h : WFarg e) : Ev (fun n => parseExpr n (print e)) (e, []) := by
  have := arg_of_post e (rt_post e) h [] (by simp [NoTrail])
  simpa using this

/-- hence the extended printer is injective on well-formed expressions -/
theorem print_injective (e₁ e₂ : Expr) (h₁ : WFarg e₁) (h₂ : WFarg e₂) (h : print e₁ = print e₂) : e₁ = e₂ := by
  obtain ⟨n1, p1⟩ := parse_print_keys e₁ h₁
  obtain ⟨n2, p2⟩ := parse_print_keys e₂ h₂
  have a := p1 (n1 + n2) (by omega)
  have b := p2 (n1 + n2) (by omega)
  rw [h] at a
  rw [a] at b
  exact (Prod.mk.inj (Option.some.inj b)).1

#print axioms parseKey_print
#print axioms parse_print_keys
#print axioms print_injective

/-- the example reads back, by evaluation of the parser -/
example : print exTuple = exTupleToks := by
  simp [exTuple, exTupleToks, print, printLhs, printPos, printKws, printKeyX, printElems, printMore, printInt]
example : parseExpr 12 exTupleToks = some (exTuple, []) := rfl
/-- `(k)` is just `k`; a trailing comma after two elements is accepted; a bare `1, 2` is not a key here -/
example : parseKey 4 [.lpar, .num 3, .rpar, .rbr] = some (.int 3, [.rbr]) := rfl
example : parseKey 4 [.lpar, .num 3, .comma, .rpar, .rbr] = some (.tuple [.int 3], [.rbr]) := rfl
example : parseKey 5 [.lpar, .num 1, .comma, .num 2, .comma, .rpar] = some (.tuple [.int 1, .int 2], []) := rfl
example : parseExpr 8 [.name "d", .lbr, .num 1, .comma, .num 2, .rbr] = none := rfl

/-! ### the key printer is C06's, and extends `Parse`'s -/

/-- an item step prints the owner, `[`, **C06's key printer** `KeyPrint.printKeyX` on the key, `]` -/
theorem print_item (o : Expr) (k : KeyX) : print (.item o k) = print o ++ [.lbr] ++ KeyPrint.printKeyX k ++ [.rbr] := by
  simp [print]

/-- the key printer of this file, as a function: the tokens `print` writes between the brackets of an item step -/
def printKey (k : KeyX) : List Tok := ((print (.item (.root "d") k)).drop 2).dropLast

/-- … it is, for every key, the printer that `C06_key_print_injective` / `KeyPrint.printKeyX_injective` are about -/
theorem printKey_is_C06_printer : printKey = KeyPrint.printKeyX := by
  funext k
  simp [printKey, print]

/-- and on the `str | int` keys of `Parse` it is `Parse.printKey` -/
theorem printKey_extends_parse (k : Parse.Key) : printKey (KeyPrint.embedKey k) = Parse.printKey k := by
  rw [printKey_is_C06_printer]; exact KeyPrint.embedKey_print k

/-- hence keys are determined by what is printed between the brackets (C06's theorem, for this file's printer) -/
theorem printKey_injective (k₁ k₂ : KeyX) (h : printKey k₁ = printKey k₂) : k₁ = k₂ :=
  KeyPrint.printKeyX_injective k₁ k₂ (by rw [printKey_is_C06_printer] at h; exact h)

/-! ### `Parse.Expr` is the sub-language with `str | int` keys -/

mutual
def embed : Parse.Expr → Expr
  | .root l => .root l
  | .item o k => .item (embed o) (KeyPrint.embedKey k)
  | .attr o a => .attr (embed o) a
  | .lit i => .lit i
  | .bin op l r => .bin op (embed l) (embed r)
  | .un op a => .un op (embed a)
  | .call f args => .call (embed f) (embedList args)
  | .flit n t => .flit n t
  | .callkw f args kws => .callkw (embed f) (embedList args) (embedKws kws)
def embedList : List Parse.Expr → List Expr
  | [] => []
  | a :: r => embed a :: embedList r
def embedKws : List (String × Parse.Expr) → List (String × Expr)
  | [] => []
  | (k, v) :: r => (k, embed v) :: embedKws r
end

theorem printLhs_of_print (e : Parse.Expr) (h : print (embed e) = Parse.print e) :
    printLhs (embed e) = Parse.printLhs e := by
  cases e <;> simp only [embed, printLhs, Parse.printLhs] <;> (try simpa only [embed] using h)

mutual
/-- on the sub-language the two printers write the same tokens -/
theorem print_embed : ∀ e : Parse.Expr, print (embed e) = Parse.print e
  | .root l => by simp [embed, print, Parse.print]
  | .item o k => by simp [embed, print, Parse.print, print_embed o, KeyPrint.embedKey_print]
  | .attr o a => by simp [embed, print, Parse.print, print_embed o]
  | .lit i => by simp [embed, print, Parse.print]
  | .bin op l r => by
    simp [embed, print, Parse.print, printLhs_of_print l (print_embed l), print_embed r]
  | .un op a => by simp [embed, print, Parse.print, print_embed a]
  | .call f args => by simp [embed, print, Parse.print, print_embed f, printArgs_embed args]
  | .flit n t => by simp [embed, print, Parse.print]
  | .callkw f args kws => by
    simp [embed, print, Parse.print, print_embed f, printPos_embed args, printKws_embed kws]
theorem printArgs_embed : ∀ l : List Parse.Expr, printArgs (embedList l) = Parse.printArgs l
  | [] => by simp [embedList, printArgs, Parse.printArgs]
  | [a] => by simp [embedList, printArgs, Parse.printArgs, print_embed a]
  | a :: b :: r => by
    have := printArgs_embed (b :: r)
    simp only [embedList] at this
    simp [embedList, printArgs, Parse.printArgs, print_embed a, this]
theorem printPos_embed : ∀ l : List Parse.Expr, printPos (embedList l) = Parse.printPos l
  | [] => by simp [embedList, printPos, Parse.printPos]
  | a :: r => by simp [embedList, printPos, Parse.printPos, print_embed a, printPos_embed r]
theorem printKws_embed : ∀ l : List (String × Parse.Expr), printKws (embedKws l) = Parse.printKws l
  | [] => by simp [embedKws, printKws, Parse.printKws]
  | [(k, v)] => by simp [embedKws, printKws, Parse.printKws, print_embed v]
  | (k, v) :: (k', v') :: r => by
    have := printKws_embed ((k', v') :: r)
    simp only [embedKws] at this
    simp [embedKws, printKws, Parse.printKws, print_embed v, this]
end

theorem kwNames_embed : ∀ l : List (String × Parse.Expr), kwNames (embedKws l) = Parse.kwNames l
  | [] => rfl
  | (k, v) :: r => by
    have := kwNames_embed r
    simp only [kwNames, Parse.kwNames, embedKws, List.map_cons] at this ⊢
    rw [this]

theorem embedKws_ne_nil (l : List (String × Parse.Expr)) (h : l ≠ []) : embedKws l ≠ [] := by
  cases l with
  | nil => exact absurd rfl h
  | cons x xs => obtain ⟨k, v⟩ := x; simp [embedKws]

mutual
/-- well-formedness is preserved: `parse_print_keys` and `print_injective` apply to every expression that
    `Parse.parse_print` applies to -/
theorem wfpost_embed : ∀ e : Parse.Expr, Parse.WFpost e → WFpost (embed e)
  | .root _, _ => by simp [embed, WFpost]
  | .item o _, h => by
    have := wfpost_embed o (by simpa [Parse.WFpost] using h)
    simpa [embed, WFpost] using this
  | .attr o _, h => by
    have := wfpost_embed o (by simpa [Parse.WFpost] using h)
    simpa [embed, WFpost] using this
  | .lit _, h => by simp [Parse.WFpost] at h
  | .flit _ _, h => by simp [Parse.WFpost] at h
  | .bin _ l r, h => by
    have h' : Parse.WFarg l ∧ Parse.WFarg r := by simpa [Parse.WFpost] using h
    simpa [embed, WFpost] using And.intro (wfarg_embed l h'.1) (wfarg_embed r h'.2)
  | .un op a, h => by
    have h' : op ∈ unops ∧ Parse.WFpost a := by simpa [Parse.WFpost] using h
    simpa [embed, WFpost] using And.intro h'.1 (wfpost_embed a h'.2)
  | .call f args, h => by
    have h' : Parse.WFpost f ∧ Parse.WFargs args := by simpa [Parse.WFpost] using h
    simpa [embed, WFpost] using And.intro (wfpost_embed f h'.1) (wfargs_embed args h'.2)
  | .callkw f args kws, h => by
    have h' : Parse.WFpost f ∧ Parse.WFargs args ∧ kws ≠ [] ∧ Parse.WFkws kws ∧ (Parse.kwNames kws).Nodup := by
      simpa [Parse.WFpost] using h
    have : WFpost (embed f) ∧ WFargs (embedList args) ∧ embedKws kws ≠ [] ∧ WFkws (embedKws kws) ∧
        (kwNames (embedKws kws)).Nodup :=
      ⟨wfpost_embed f h'.1, wfargs_embed args h'.2.1, embedKws_ne_nil kws h'.2.2.1, wfkws_embed kws h'.2.2.2.1,
       by rw [kwNames_embed]; exact h'.2.2.2.2⟩
    simpa [embed, WFpost] using this
theorem wfarg_embed : ∀ e : Parse.Expr, Parse.WFarg e → WFarg (embed e)
  | .root _, _ => by simp [embed, WFarg]
  | .lit _, _ => by simp [embed, WFarg]
  | .flit _ _, _ => by simp [embed, WFarg]
  | .item o _, h => by
    have := wfpost_embed o (by simpa [Parse.WFarg] using h)
    simpa [embed, WFarg] using this
  | .attr o _, h => by
    have := wfpost_embed o (by simpa [Parse.WFarg] using h)
    simpa [embed, WFarg] using this
  | .bin _ l r, h => by
    have h' : Parse.WFarg l ∧ Parse.WFarg r := by simpa [Parse.WFarg] using h
    simpa [embed, WFarg] using And.intro (wfarg_embed l h'.1) (wfarg_embed r h'.2)
  | .un op a, h => by
    have h' : op ∈ unops ∧ Parse.WFpost a := by simpa [Parse.WFarg] using h
    simpa [embed, WFarg] using And.intro h'.1 (wfpost_embed a h'.2)
  | .call f args, h => by
    have h' : Parse.WFpost f ∧ Parse.WFargs args := by simpa [Parse.WFarg] using h
    simpa [embed, WFarg] using And.intro (wfpost_embed f h'.1) (wfargs_embed args h'.2)
  | .callkw f args kws, h => by
    have h' : Parse.WFpost f ∧ Parse.WFargs args ∧ kws ≠ [] ∧ Parse.WFkws kws ∧ (Parse.kwNames kws).Nodup := by
      simpa [Parse.WFarg] using h
    have : WFpost (embed f) ∧ WFargs (embedList args) ∧ embedKws kws ≠ [] ∧ WFkws (embedKws kws) ∧
        (kwNames (embedKws kws)).Nodup :=
      ⟨wfpost_embed f h'.1, wfargs_embed args h'.2.1, embedKws_ne_nil kws h'.2.2.1, wfkws_embed kws h'.2.2.2.1,
       by rw [kwNames_embed]; exact h'.2.2.2.2⟩
    simpa [embed, WFarg] using this
theorem wfargs_embed : ∀ l : List Parse.Expr, Parse.WFargs l → WFargs (embedList l)
  | [], _ => by simp [embedList, WFargs]
  | a :: r, h => by
    have h' : Parse.WFarg a ∧ Parse.WFargs r := by simpa [Parse.WFargs] using h
    simpa [embedList, WFargs] using And.intro (wfarg_embed a h'.1) (wfargs_embed r h'.2)
theorem wfkws_embed : ∀ l : List (String × Parse.Expr), Parse.WFkws l → WFkws (embedKws l)
  | [], _ => by simp [embedKws, WFkws]
  | (k, v) :: r, h => by
    have h' : isIdent k = true ∧ Parse.WFarg v ∧ Parse.WFkws r := by simpa [Parse.WFkws] using h
    simpa [embedKws, WFkws] using And.intro h'.1 (And.intro (wfarg_embed v h'.2.1) (wfkws_embed r h'.2.2))
end

/-- `Parse.parse_print` is the special case of `parse_print_keys` for `str | int` keys: the printed tokens of an
    expression of `Parse` are read back by THIS file's parser as its embedding -/
theorem parse_print_embed (e : Parse.Expr) (h : Parse.WFarg e) :
    Ev (fun n => parseExpr n (Parse.print e)) (embed e, []) := by
  rw [← print_embed]; exact parse_print_keys _ (wfarg_embed e h)

/-! ### C06's path printer is the restriction of `print` to access paths -/

open KeyPrint (StepX PathX printStep printSteps printPath)

def ofSteps (acc : Expr) : List StepX → Expr
  | [] => acc
  | .item k :: r => ofSteps (.item acc k) r
  | .attr a :: r => ofSteps (.attr acc a) r

/-- the reference that denotes an access path (C06's `PathX`: label, then item / attribute steps, any `KeyX` keys) -/
def ofPath (p : PathX) : Expr := ofSteps (.root p.label) p.steps

theorem print_ofSteps : ∀ (l : List StepX) (acc : Expr), print (ofSteps acc l) = print acc ++ printSteps l
  | [], acc => by simp [ofSteps, printSteps]
  | .item k :: r, acc => by
    rw [ofSteps, print_ofSteps r]
    simp [print, printSteps, printStep, List.append_assoc]
  | .attr a :: r, acc => by
    rw [ofSteps, print_ofSteps r]
    simp [print, printSteps, printStep, List.append_assoc]

/-- **the printer of `C06_path_print_injective` is this file's `print` on references** -/
theorem print_ofPath (p : PathX) : print (ofPath p) = printPath p := by
  simp [ofPath, print_ofSteps, print, printPath]

theorem wfpost_ofSteps : ∀ (l : List StepX) (acc : Expr), WFpost acc → WFpost (ofSteps acc l)
  | [], _, h => h
  | .item k :: r, acc, h => wfpost_ofSteps r (.item acc k) (by simpa [WFpost] using h)
  | .attr a :: r, acc, h => wfpost_ofSteps r (.attr acc a) (by simpa [WFpost] using h)

theorem wfarg_of_wfpost (e : Expr) (h : WFpost e) : WFarg e := by
  cases e <;> simp_all [WFpost, WFarg]

/-- every access path is a well-formed expression: the round trip applies to it -/
theorem wfarg_ofPath (p : PathX) : WFarg (ofPath p) :=
  wfarg_of_wfpost _ (wfpost_ofSteps p.steps (.root p.label) (by simp [WFpost]))

def pathOf : Expr → Option PathX
  | .root l => some ⟨l, []⟩
  | .item o k => (pathOf o).map (fun p => ⟨p.label, p.steps ++ [.item k]⟩)
  | .attr o a => (pathOf o).map (fun p => ⟨p.label, p.steps ++ [.attr a]⟩)
  | _ => none

theorem pathOf_ofSteps : ∀ (l : List StepX) (acc : Expr) (p : PathX), pathOf acc = some p →
    pathOf (ofSteps acc l) = some ⟨p.label, p.steps ++ l⟩
  | [], acc, p, h => by simpa [ofSteps] using h
  | .item k :: r, acc, p, h => by
    have := pathOf_ofSteps r (.item acc k) ⟨p.label, p.steps ++ [.item k]⟩ (by simp [pathOf, h])
    simpa [ofSteps, List.append_assoc] using this
  | .attr a :: r, acc, p, h => by
    have := pathOf_ofSteps r (.attr acc a) ⟨p.label, p.steps ++ [.attr a]⟩ (by simp [pathOf, h])
    simpa [ofSteps, List.append_assoc] using this

theorem pathOf_ofPath (p : PathX) : pathOf (ofPath p) = some p := by
  have := pathOf_ofSteps p.steps (.root p.label) ⟨p.label, []⟩ rfl
  simpa [ofPath] using this

/-- C06's path injectivity (`KeyPrint.printPath_injective`) obtained from the round trip of this file: a printed
    access path is read back by the parser, so it determines the path -/
theorem printPath_injective_from_roundtrip (p q : PathX) (h : printPath p = printPath q) : p = q := by
  have := print_injective (ofPath p) (ofPath q) (wfarg_ofPath p) (wfarg_ofPath q)
    (by rw [print_ofPath, print_ofPath, h])
  have h2 := pathOf_ofPath p
  rw [this, pathOf_ofPath q] at h2
  exact (Option.some.inj h2).symm

/-- a printed access path reads back as the reference, for all sufficiently large fuel -/
theorem parse_printPath (p : PathX) : Ev (fun n => parseExpr n (printPath p)) (ofPath p, []) := by
  rw [← print_ofPath]; exact parse_print_keys _ (wfarg_ofPath p)

example : ofPath KeyPrint.pathExample =
    .item (.item (.item (.attr (.item (.root "c") (.tuple [.str "a"])) "x") (.int (-1))) (.flt false "0.1")) .none := rfl
example : parseExpr 8 (printPath KeyPrint.pathExample) = some (ofPath KeyPrint.pathExample, []) := rfl

#print axioms print_embed
#print axioms wfarg_embed
#print axioms print_ofPath
#print axioms printPath_injective_from_roundtrip

end ParseKeys
