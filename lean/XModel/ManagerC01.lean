import XModel.ManagerInv
import XModel.Capstone
/-!
# C01 on the executable manager

`Capstone.consistent_of_order` is the scheduling argument on abstract expression tasks.  Here it is
connected to `Manager.setValue` / `Manager.setExpr` as the driver runs them: the graph hypotheses come
from the index invariant `MInv` (C03), the execution list from `findTaskids` through an arbitrary
scheduler, and `runTasks` on expression tasks is `Push.runAll?` on the container tree.
-/
namespace Index
variable {κ ρ : Type} [DecidableEq κ] [DecidableEq ρ]

theorem sRt_pos (ts : List (Task ρ κ)) (u k : κ) (tu tk : Task ρ κ) (h1 : look ts u = some tu)
    (h2 : look ts k = some tk) (d : ρ) (hd1 : d ∈ tu.tars) (hd2 : d ∈ tk.deps) : sRt ts u k ≥ 1 := by
  unfold sRt
  rw [h1, h2]
  exact List.length_pos_of_mem (List.mem_filter.mpr ⟨hd1, decide_eq_true hd2⟩)

theorem sDep_pos (ts : List (Task ρ κ)) (k : κ) (tk : Task ρ κ) (h2 : look ts k = some tk) (d : ρ)
    (hd2 : d ∈ tk.deps) : sDep ts d k ≥ 1 := by
  unfold sDep
  rw [h2]
  simp [hd2]

end Index

namespace Manager
open Store Push Index

/-! ### paths -/

/-- two paths of at least two steps that are not prefix-incomparable share the first two steps, and that
    two-step path is in both owner chains -/
theorem common_of_not_incomparable : ∀ (p q : Path), 2 ≤ p.length → 2 ≤ q.length → ¬ Incomparable p q →
    ∃ d, d ∈ chainR p ∧ d ∈ chainR q
  | l :: s :: p, l' :: s' :: q, _, _, h => by
    simp only [Incomparable, not_or, Decidable.not_not] at h
    obtain ⟨rfl, rfl, _⟩ := h
    exact ⟨[l, s], by simp [chainR, chain], by simp [chainR, chain]⟩
  | [], _, h, _, _ => by simp at h
  | [_], _, h, _, _ => by simp at h
  | _ :: _ :: _, [], _, h, _ => by simp at h
  | _ :: _ :: _, [_], _, h, _ => by simp at h

theorem incomparable_of_not_comparable : ∀ (p q : Path), comparable p q = false → Incomparable p q
  | [], q, h => by simp [comparable, isPrefix] at h
  | _ :: _, [], h => by simp [comparable, isPrefix] at h
  | a :: p, b :: q, h => by
    simp only [Incomparable]
    by_cases hab : a = b
    · subst hab
      right
      apply incomparable_of_not_comparable p q
      simpa [comparable, isPrefix] using h
    · exact Or.inl hab

/-! ### expression-only managers -/

/-- the abstract expression task of a definition -/
def toE (t : MTask) : ETask := ⟨t.id, match t.kind with | .expr e => e | _ => .lit .none⟩

/-- every definition is `ExprTask(target, expr)` as `set_value` builds it -/
def ExprDefs (defs : List MTask) : Prop :=
  ∀ t ∈ defs, ∃ e, t.kind = .expr e ∧ t.deps = exprDeps e ∧ t.tars = chainR t.id

/-- C01's state predicate: every expression-defined location holds the value of its expression -/
def Consistent (s : MState) : Prop := ∀ t ∈ s.defs, (exprSys pySem).Q (toE t) s.store

theorem look_of_mem : ∀ (defs : List MTask), (defs.map (·.id)).Nodup → ∀ t ∈ defs,
    look (defs.map MTask.toIdx) t.id = some t.toIdx
  | [], _, t, h => by cases h
  | a :: defs, hnd, t, h => by
    have hn : a.id ∉ defs.map (·.id) ∧ (defs.map (·.id)).Nodup := by simpa using hnd
    rcases List.mem_cons.mp h with rfl | ht
    · simp [look, MTask.toIdx]
    · have hne : a.id ≠ t.id := fun e => hn.1 (e ▸ List.mem_map_of_mem ht)
      have ih := look_of_mem defs hn.2 t ht
      simp only [look, List.map_cons, List.find?_cons] at ih ⊢
      simp only [MTask.toIdx, hne, decide_false] at ih ⊢
      exact ih

theorem lookDef_of_mem : ∀ (defs : List MTask), (defs.map (·.id)).Nodup → ∀ t ∈ defs, lookDef defs t.id = some t
  | [], _, t, h => by cases h
  | a :: defs, hnd, t, h => by
    have hn : a.id ∉ defs.map (·.id) ∧ (defs.map (·.id)).Nodup := by simpa using hnd
    rcases List.mem_cons.mp h with rfl | ht
    · simp [lookDef]
    · have hne : a.id ≠ t.id := fun e => hn.1 (e ▸ List.mem_map_of_mem ht)
      have ih := lookDef_of_mem defs hn.2 t ht
      simp only [lookDef, List.find?_cons, hne, decide_false] at ih ⊢
      exact ih

theorem lookDef_mem {defs : List MTask} {id : Path} {t : MTask} (h : lookDef defs id = some t) : t ∈ defs :=
  List.mem_of_find?_eq_some h

/-! ### the declared graph contains every data-flow edge (from the index invariant) -/

theorem mem_exprDeps (e : Expr) (d : Path) : d ∈ exprDeps e ↔ ∃ r ∈ leafRefs e, d ∈ chainR r := by
  unfold exprDeps
  rw [mem_uniq]
  simp [List.mem_flatMap]

/-- a task reading a location that another task's target is comparable with is a successor of that task -/
theorem edge_of_read (s : MState) (hi : MInv s) (hex : ExprDefs s.defs) (u t : MTask) (hu : u ∈ s.defs) (ht : t ∈ s.defs)
    (hul : 2 ≤ u.id.length) (r : Path) (hr : r ∈ leafRefs (toE t).expr) (hrl : 2 ≤ r.length)
    (hc : ¬ Incomparable u.id r) : t.id ∈ gOf s.idx u.id := by
  obtain ⟨eu, _, _, hutars⟩ := hex u hu
  obtain ⟨et, hkt, htdeps, _⟩ := hex t ht
  have hr' : r ∈ leafRefs et := by simpa [toE, hkt] using hr
  obtain ⟨d, hd1, hd2⟩ := common_of_not_incomparable u.id r hul hrl hc
  unfold gOf
  rw [RC.mem_keys_iff _ (hi.inv.wf2 u.id)]
  show DD.cnt2 s.idx.rtasks u.id t.id ≥ 1
  rw [hi.inv.rt, hi.link]
  have hdt : d ∈ t.deps := by rw [htdeps]; exact (mem_exprDeps et d).mpr ⟨r, hr', hd2⟩
  have hdu : d ∈ u.tars := by rw [hutars]; exact hd1
  exact sRt_pos _ u.id t.id u.toIdx t.toIdx (look_of_mem s.defs hi.ids u hu) (look_of_mem s.defs hi.ids t ht) d hdu hdt

/-- a task reading a location comparable with the assigned one is in the start set -/
theorem start_of_read (s : MState) (hi : MInv s) (hex : ExprDefs s.defs) (p : Path) (t : MTask) (ht : t ∈ s.defs)
    (hpl : 2 ≤ p.length) (r : Path) (hr : r ∈ leafRefs (toE t).expr) (hrl : 2 ≤ r.length)
    (hc : ¬ Incomparable p r) : t.id ∈ startOf s.idx (chainR p) := by
  obtain ⟨et, hkt, htdeps, _⟩ := hex t ht
  have hr' : r ∈ leafRefs et := by simpa [toE, hkt] using hr
  obtain ⟨d, hd1, hd2⟩ := common_of_not_incomparable p r hpl hrl hc
  unfold startOf
  rw [mem_uniq]
  refine List.mem_flatMap.mpr ⟨d, hd1, ?_⟩
  rw [RC.mem_keys_iff _ (hi.inv.wf3 d)]
  show DD.cnt2 s.idx.deptasks d t.id ≥ 1
  rw [hi.inv.dept, hi.link]
  have hdt : d ∈ t.deps := by rw [htdeps]; exact (mem_exprDeps et d).mpr ⟨r, hr', hd2⟩
  exact sDep_pos _ t.id t.toIdx (look_of_mem s.defs hi.ids t ht) d hdt

/-! ### `run_tasks` on expression tasks is the abstract run on the container tree -/

theorem writeRef_nofault (s : MState) (p : Path) (v : Val) (hnf : s.faultIn = none) (s' : MState)
    (h : writeRef s p v = (s', none)) :
    set s.store p v = .ok s'.store ∧ s'.faultIn = none ∧ s'.defs = s.defs ∧ s'.idx = s.idx ∧ s'.frozen = s.frozen := by
  unfold writeRef at h
  cases hs : set s.store p v with
  | error e => simp [hs] at h
  | ok σ' =>
    simp only [hs, hnf] at h
    have := (Prod.mk.inj h).1
    subst this
    exact ⟨rfl, rfl, rfl, rfl, rfl⟩

theorem runTasks_expr : ∀ (l : List MTask) (s s' : MState), s.faultIn = none →
    (∀ t ∈ l, ∃ e, t.kind = .expr e) → runTasks s l = (s', none) →
    runAll? (exprSys pySem) (l.map toE) s.store = some s'.store ∧ s'.faultIn = none
  | [], s, s', hnf, _, h => by
    simp only [runTasks] at h
    have := (Prod.mk.inj h).1
    subst this
    exact ⟨rfl, hnf⟩
  | t :: l, s, s', hnf, hex, h => by
    obtain ⟨e, hk⟩ := hex t (List.mem_cons_self ..)
    simp only [runTasks] at h
    cases hrt : runTask s t with
    | mk s1 x =>
      cases x with
      | some x => simp [hrt] at h
      | none =>
        simp only [hrt] at h
        have hrt' := hrt
        simp only [runTask, hk] at hrt'
        cases hev : evalE s e with
        | error x => simp [hev] at hrt'
        | ok v =>
          simp only [hev] at hrt'
          obtain ⟨hset, hnf1, _, _, _⟩ := writeRef_nofault s t.id v hnf s1 hrt'
          obtain ⟨ih, hnf'⟩ := runTasks_expr l s1 s' hnf1 (fun u hu => hex u (List.mem_cons_of_mem _ hu)) h
          refine ⟨?_, hnf'⟩
          simp only [List.map_cons, runAll?]
          have : (exprSys pySem).run? (toE t) s.store = some s1.store := by
            simp only [exprSys, toE, hk]
            unfold evalE at hev
            simp [hev, hset]
          rw [this]
          exact ih

/-! ### one assignment -/

/-- what a scheduler must return — any iteration order of Python's sets does -/
structure ValidSched (g : Path → List Path) (L π : List Path) : Prop where
  nodup : π.Nodup
  mem : ∀ x, x ∈ π ↔ x ∈ L
  order : ∀ u w, u ∈ π → w ∈ π → w ∈ g u → w ≠ u → Dfs3.Before π u w

/-- refs to locations (not to whole containers), with canonical steps -/
def PathOK (p : Path) : Prop := 2 ≤ p.length ∧ canonPath p

/-- The hypotheses of C01 for an assignment to `p` in state `s` (H1–H3 of DESIGN.md, Appendix B). -/
structure Scope (s : MState) (p : Path) : Prop where
  exprs : ExprDefs s.defs
  pathP : PathOK p
  paths : ∀ t ∈ s.defs, PathOK t.id ∧ ∀ r ∈ leafRefs (toE t).expr, PathOK r
  /-- H1: no cycle through two distinct tasks below the start set -/
  acyclic : ∀ a b, (∃ s0 ∈ startOf s.idx (chainR p), Dfs3.Reach (gOf s.idx) s0 a) → a ≠ b →
      Dfs3.Reach (gOf s.idx) a b → Dfs3.Reach (gOf s.idx) b a → False
  /-- H2: the locations written by distinct tasks are incomparable, and so is the assigned one -/
  h2 : ∀ t ∈ s.defs, ∀ u ∈ s.defs, t.id ≠ u.id → Incomparable u.id t.id
  h2p : ∀ t ∈ s.defs, t.id ≠ p → Incomparable p t.id
  /-- H3: no task reads a location comparable with the one it writes -/
  h3 : ∀ t ∈ s.defs, ∀ r ∈ leafRefs (toE t).expr, Incomparable t.id r
  nofault : s.faultIn = none

theorem mapM_lookDef (defs : List MTask) (f : Path → Except Err MTask)
    (hf : ∀ id t, f id = .ok t → lookDef defs id = some t) : ∀ (π : List Path) (l : List MTask),
    π.mapM f = .ok l → l.map (·.id) = π ∧ ∀ t ∈ l, t ∈ defs
  | [], l, h => by
    simp only [List.mapM_nil, pure, Except.pure, Except.ok.injEq] at h
    subst h
    simp
  | x :: π, l, h => by
    simp only [List.mapM_cons, bind, Except.bind] at h
    cases hx : f x with
    | error e => simp [hx] at h
    | ok t =>
      simp only [hx] at h
      cases hr : π.mapM f with
      | error e => simp [hr] at h
      | ok l' =>
        simp only [hr, pure, Except.pure, Except.ok.injEq] at h
        subst h
        obtain ⟨h1, h2⟩ := mapM_lookDef defs f hf π l' hr
        have hx' := hf x t hx
        refine ⟨by simp [h1, lookDef_id hx'], ?_⟩
        intro u hu
        rcases List.mem_cons.mp hu with rfl | hu
        · exact lookDef_mem hx'
        · exact h2 u hu

theorem lookTask_ok (defs : List MTask) (id : Path) (t : MTask) (h : lookTask defs id = .ok t) :
    lookDef defs id = some t := by
  unfold lookTask at h
  cases hx : lookDef defs id with
  | none => simp [hx] at h
  | some t' => simp only [hx, Except.ok.injEq] at h; rw [h]

theorem eq_of_id_eq : ∀ (defs : List MTask), (defs.map (·.id)).Nodup → ∀ t ∈ defs, ∀ u ∈ defs, t.id = u.id → t = u := by
  intro defs hnd t ht u hu he
  have h1 := lookDef_of_mem defs hnd t ht
  have h2 := lookDef_of_mem defs hnd u hu
  rw [he, h2] at h1
  exact (Option.some.inj h1).symm

/-- **One assignment, after the graph part of `set_value`.**  If every other definition holds, the definition
    at `p` (if there is one) evaluates to the value being written, and the scheduler returns a legal order,
    then after a completed `write + run_tasks` every definition holds. -/
theorem writeAndRun_consistent (sched : Sched) (s : MState) (p : Path) (v : Val) (hi : MInv s) (sc : Scope s p)
    (hvs : ValidSched (gOf s.idx) (findTaskids s.idx (chainR p)) (sched (findTaskids s.idx (chainR p))))
    (hbefore : ∀ t ∈ s.defs, t.id ≠ p → t.id ∉ sched (findTaskids s.idx (chainR p)) → (exprSys pySem).Q (toE t) s.store)
    (hself : ∀ t ∈ s.defs, t.id = p → eval pySem s.store (toE t).expr = .ok v)
    (s' : MState) (hok : writeAndRun sched s p v = (s', none)) :
    Consistent s' ∧ s'.defs = s.defs ∧ s'.idx = s.idx ∧ s'.faultIn = none ∧ s'.frozen = s.frozen := by
  unfold writeAndRun at hok
  cases hw : writeRef s p v with
  | mk s1 x =>
    cases x with
    | some x => simp [hw] at hok
    | none =>
      simp only [hw] at hok
      obtain ⟨hset, hnf1, hd1, hi1, hf1⟩ := writeRef_nofault s p v sc.nofault s1 hw
      rw [hi1, hd1] at hok
      generalize hm : List.mapM (lookTask s.defs) (sched (findTaskids s.idx (chainR p))) = res at hok
      cases res with
      | error e => simp at hok
      | ok l =>
        simp only at hok
        obtain ⟨hlmap, hlsub⟩ := mapM_lookDef s.defs _ (lookTask_ok s.defs) _ l hm
        have hexl : ∀ t ∈ l, ∃ e, t.kind = .expr e := fun t ht => by
          obtain ⟨e, he, _⟩ := sc.exprs t (hlsub t ht); exact ⟨e, he⟩
        obtain ⟨hrun, hnf'⟩ := runTasks_expr l s1 s' hnf1 hexl hok
        have hg := runTasks_graph l s1
        rw [hok] at hg
        obtain ⟨hgi, hgd, hgf⟩ := hg
        obtain ⟨hnd, hmem, _⟩ := findTaskids_spec s hi (chainR p) sc.acyclic
        generalize hπ : sched (findTaskids s.idx (chainR p)) = π at hvs hlmap hbefore
        have memπ : ∀ x, x ∈ π ↔ ∃ s0 ∈ startOf s.idx (chainR p), Dfs3.Reach (gOf s.idx) s0 x :=
          fun x => (hvs.mem x).trans (hmem x)
        have key := Capstone.consistent_of_order pySem (s.defs.map toE) (gOf s.idx) (startOf s.idx (chainR p)) π
          s1.store s'.store (l.map toE)
          (by rw [List.map_map]; exact hlmap)
          (by
            intro t ht
            obtain ⟨t0, ht0, rfl⟩ := List.mem_map.mp ht
            exact List.mem_map_of_mem (hlsub t0 ht0))
          hrun
          (by
            intro t' ht' hnot
            obtain ⟨t, ht, rfl⟩ := List.mem_map.mp ht'
            have hnot' : t.id ∉ π := hnot
            obtain ⟨hpt, hpr⟩ := sc.paths t ht
            by_cases hp : t.id = p
            · -- the definition just installed at `p`
              refine ⟨v, ?_, ?_⟩
              · rw [← hself t ht hp]
                refine eval_frame pySem _ _ _ (fun r hr => ?_)
                exact get_set_incomparable hset (hp ▸ sc.h3 t ht r hr) sc.pathP.2 (hpr r hr).2
              · show get s1.store t.id = .ok v
                rw [hp]; exact get_set_same hset
            · refine Capstone.Q_after_set pySem (toE t) s.store s1.store p v (hbefore t ht hp hnot') hset sc.pathP.2 hpt.2
                (sc.h2p t ht hp) ?_
              intro r hr
              refine ⟨(hpr r hr).2, Classical.byContradiction fun hc => hnot' ?_⟩
              have := start_of_read s hi sc.exprs p t ht sc.pathP.1 r hr (hpr r hr).1 hc
              exact (memπ t.id).mpr ⟨t.id, this, Dfs3.Reach.refl _⟩)
          hvs.nodup memπ
          (by
            intro u w hu hw hne
            obtain ⟨s0, hs0, hr0⟩ := (memπ u).mp hu
            exact hvs.order u w hu ((memπ w).mpr ⟨s0, hs0, hr0.tail hw⟩) hw hne)
          (by
            intro u' hu' t' ht' hex
            obtain ⟨u, hu, rfl⟩ := List.mem_map.mp hu'
            obtain ⟨t, ht, rfl⟩ := List.mem_map.mp ht'
            obtain ⟨r, hr, hc⟩ := hex
            exact edge_of_read s hi sc.exprs u t hu ht (sc.paths u hu).1.1 r hr ((sc.paths t ht).2 r hr).1 hc)
          (by
            intro x hx
            have : x ∈ l.map (·.id) := by rw [hlmap]; exact hx
            obtain ⟨t, ht, rfl⟩ := List.mem_map.mp this
            exact ⟨toE t, List.mem_map_of_mem ht, rfl⟩)
          (by
            intro t' ht' u' hu' hne
            obtain ⟨t, ht, rfl⟩ := List.mem_map.mp ht'
            obtain ⟨u, hu, rfl⟩ := List.mem_map.mp hu'
            exact sc.h2 t ht u hu hne)
          (by
            intro t' ht' u' hu' he
            obtain ⟨t, ht, rfl⟩ := List.mem_map.mp ht'
            obtain ⟨u, hu, rfl⟩ := List.mem_map.mp hu'
            rw [eq_of_id_eq s.defs hi.ids t ht u hu he])
          (by
            intro t' ht'
            obtain ⟨t, ht, rfl⟩ := List.mem_map.mp ht'
            exact ⟨(sc.paths t ht).1.2, fun r hr => ⟨((sc.paths t ht).2 r hr).2, sc.h3 t ht r hr⟩⟩)
        refine ⟨?_, by rw [hgd, hd1], by rw [hgi, hi1], hnf', by rw [hgf, hf1]⟩
        intro t ht
        rw [hgd, hd1] at ht
        exact key (toE t) (List.mem_map_of_mem ht)

/-! ### `set_value(ref, value)` -/

/-- the state in which `set_value` writes: a definition at `p`, if any, has been unregistered -/
def preState (s : MState) (p : Path) : MState :=
  match lookDef s.defs p with
  | some _ => (unregister s p).1
  | none => s

theorem register_store (s : MState) (t : MTask) :
    (register s t).1.store = s.store ∧ (register s t).1.faultIn = s.faultIn := by
  unfold register
  split <;> simp

theorem unregister_store (s : MState) (id : Path) :
    (unregister s id).1.store = s.store ∧ (unregister s id).1.faultIn = s.faultIn := by
  unfold unregister
  split
  · simp
  · split <;> simp

theorem setValue_eq (sched : Sched) (s : MState) (p : Path) (v : Val) (s' : MState)
    (hok : setValue sched s p v = (s', none)) : writeAndRun sched (preState s p) p v = (s', none) := by
  unfold setValue at hok
  unfold preState
  cases hl : lookDef s.defs p with
  | none => simpa [hl] using hok
  | some t =>
    simp only [hl] at hok ⊢
    generalize unregister s p = r at hok
    obtain ⟨s0, x0⟩ := r
    cases x0 with
    | some x => simp at hok
    | none => simpa using hok

theorem preState_facts (s : MState) (p : Path) (hi : MInv s) (hf : lookDef s.defs p ≠ none → s.frozen = false) :
    MInv (preState s p) ∧ (preState s p).store = s.store ∧ (preState s p).faultIn = s.faultIn ∧
    (preState s p).frozen = s.frozen ∧
    lookDef (preState s p).defs p = none ∧ ∀ t ∈ (preState s p).defs, t ∈ s.defs ∧ t.id ≠ p := by
  unfold preState
  cases hl : lookDef s.defs p with
  | none =>
    refine ⟨hi, rfl, rfl, rfl, hl, fun t ht => ⟨ht, fun e => ?_⟩⟩
    have := lookDef_of_mem s.defs hi.ids t ht
    rw [e, hl] at this
    cases this
  | some t0 =>
    have hf' := hf (by simp [hl])
    obtain ⟨_, hdefs, _, hfz, hst⟩ := unregister_present_eq s p t0 hf' hl
    refine ⟨unregister_MInv s p t0 hi hf' hl, hst, (unregister_store s p).2, by rw [hfz, hf'],
      lookDef_after_unregister s p t0 hf' hl, ?_⟩
    intro t ht
    simp only [hdefs] at ht
    obtain ⟨h1, h2⟩ := List.mem_filter.mp ht
    exact ⟨h1, by simpa using h2⟩

/-- **C01, `set_value(ref, value)` on the executable manager.**  In a state reachable through the API
    (`MInv`) in which every definition holds, a completed assignment of a plain value — with any legal
    iteration order of the sets involved — leaves every definition holding. -/
theorem setValue_consistent (sched : Sched) (s : MState) (p : Path) (v : Val) (hi : MInv s) (hc : Consistent s)
    (sc : Scope (preState s p) p)
    (hvs : ValidSched (gOf (preState s p).idx) (findTaskids (preState s p).idx (chainR p))
      (sched (findTaskids (preState s p).idx (chainR p))))
    (s' : MState) (hok : setValue sched s p v = (s', none)) :
    Consistent s' ∧ MInv s' ∧ s'.faultIn = none := by
  have hf : lookDef s.defs p ≠ none → s.frozen = false := by
    intro hne
    cases hl : lookDef s.defs p with
    | none => exact absurd hl hne
    | some t =>
      cases hfz : s.frozen with
      | false => rfl
      | true =>
        rw [setValue_frozen_defined sched s p v t hfz hl] at hok
        cases hok
  obtain ⟨hi0, hst, _, _, hfree, hsub⟩ := preState_facts s p hi hf
  have hw := setValue_eq sched s p v s' hok
  obtain ⟨hcons, _, _, hnf, _⟩ := writeAndRun_consistent sched (preState s p) p v hi0 sc hvs
    (fun t ht _ _ => by rw [hst]; exact hc t (hsub t ht).1)
    (fun t ht he => absurd he (hsub t ht).2) s' hw
  refine ⟨hcons, ?_, hnf⟩
  have := setValue_MInv sched s p v hi
  rw [hok] at this
  exact this

/-! ### `set_value(ref, expression)` -/

theorem setExpr_eq (sched : Sched) (s : MState) (p : Path) (e : Expr) (s' : MState) (hf : s.frozen = false)
    (hok : setExpr sched s p e = (s', none)) :
    ∃ v, evalE (defPart s p e) e = .ok v ∧ writeAndRun sched (defPart s p e) p v = (s', none) := by
  unfold setExpr at hok
  unfold defPart
  cases hl : lookDef s.defs p with
  | some t =>
    simp only [hl] at hok ⊢
    have hu : (unregister s p).2 = none := by simp [unregister, hf, hl]
    have hfz : (unregister s p).1.frozen = false := by simp [unregister, hf, hl]
    generalize unregister s p = r at hu hfz hok
    obtain ⟨s0, x0⟩ := r
    simp only at hu hfz
    subst hu
    simp only at hok ⊢
    have hr : (register s0 (mkExprTask p e)).2 = none := by simp [register, hfz]
    generalize register s0 (mkExprTask p e) = r at hr hok
    obtain ⟨s1, x1⟩ := r
    simp only at hr
    subst hr
    simp only at hok ⊢
    cases hev : evalE s1 e with
    | error x => simp [hev] at hok
    | ok v => exact ⟨v, rfl, by simpa [hev] using hok⟩
  | none =>
    simp only [hl] at hok ⊢
    have hr : (register s (mkExprTask p e)).2 = none := by simp [register, hf]
    generalize register s (mkExprTask p e) = r at hr hok
    obtain ⟨s1, x1⟩ := r
    simp only at hr
    subst hr
    simp only at hok ⊢
    cases hev : evalE s1 e with
    | error x => simp [hev] at hok
    | ok v => exact ⟨v, rfl, by simpa [hev] using hok⟩

theorem defPart_facts (s : MState) (p : Path) (e : Expr) (hi : MInv s) (hf : s.frozen = false) :
    MInv (defPart s p e) ∧ (defPart s p e).store = s.store ∧
    ∀ t ∈ (defPart s p e).defs, (t ∈ s.defs ∧ t.id ≠ p) ∨ t = mkExprTask p e := by
  obtain ⟨hi0, hst, _, hfz, hfree, hsub⟩ := preState_facts s p hi (fun _ => hf)
  have hdp : defPart s p e = (register (preState s p) (mkExprTask p e)).1 := rfl
  have hfz0 : (preState s p).frozen = false := by rw [hfz, hf]
  obtain ⟨_, hdefs, _, _⟩ := register_fresh_eq (preState s p) (mkExprTask p e) hi0 hfz0 (by simpa [mkExprTask] using hfree)
  refine ⟨?_, ?_, ?_⟩
  · rw [hdp]
    exact register_MInv _ _ hi0 hfz0 (by simpa [mkExprTask] using hfree) (mkExprTask_nodup p e).1 (mkExprTask_nodup p e).2
  · rw [hdp, (register_store _ _).1, hst]
  · intro t ht
    rw [hdp, hdefs] at ht
    rcases List.mem_append.mp ht with h | h
    · exact Or.inl (hsub t h)
    · exact Or.inr (by simpa using h)

/-- **C01, `set_value(ref, expression)` on the executable manager.** -/
theorem setExpr_consistent (sched : Sched) (s : MState) (p : Path) (e : Expr) (hi : MInv s) (hc : Consistent s)
    (sc : Scope (defPart s p e) p)
    (hvs : ValidSched (gOf (defPart s p e).idx) (findTaskids (defPart s p e).idx (chainR p))
      (sched (findTaskids (defPart s p e).idx (chainR p))))
    (s' : MState) (hok : setExpr sched s p e = (s', none)) :
    Consistent s' ∧ MInv s' ∧ s'.faultIn = none := by
  have hf : s.frozen = false := by
    cases hfz : s.frozen with
    | false => rfl
    | true =>
      rw [setExpr_frozen sched s p e hfz] at hok
      cases hok
  obtain ⟨hi0, hst, hsub⟩ := defPart_facts s p e hi hf
  obtain ⟨v, hev, hw⟩ := setExpr_eq sched s p e s' hf hok
  obtain ⟨hcons, _, _, hnf, _⟩ := writeAndRun_consistent sched (defPart s p e) p v hi0 sc hvs
    (by
      intro t ht hne _
      rcases hsub t ht with ⟨h1, _⟩ | h
      · rw [hst]; exact hc t h1
      · exact absurd (by rw [h]; rfl) hne)
    (by
      intro t ht he
      rcases hsub t ht with ⟨_, h2⟩ | h
      · exact absurd he h2
      · rw [h]; exact hev)
    s' hw
  refine ⟨hcons, ?_, hnf⟩
  have := setExpr_MInv sched s p e hi
  rw [hok] at this
  exact this

/-! ### in-place operators reduce to one of the two assignments -/

/-- the assignment `ref[k] ⊕= operand` ends up making (`none`: it raises before assigning anything) -/
def inplaceCall (s : MState) (op : String) (p : Path) (operand : Expr) : Option Call :=
  match exprOf s p with
  | some e => some (.setExpr p (.bin op e operand))
  | none =>
    match get s.store p with
    | .error _ => none
    | .ok old =>
      match operand with
      | .lit w => (match pyBinRaw op old w with | .error _ => none | .ok v => some (.setValue p v))
      | _ => some (.setExpr p (.bin op (.lit old) operand))

theorem inplace_eq (sched : Sched) (s : MState) (op : String) (p : Path) (operand : Expr) (c : Call)
    (h : inplaceCall s op p operand = some c) : inplace sched s op p operand = apply sched s c := by
  unfold inplaceCall at h
  unfold inplace
  cases he : exprOf s p with
  | some e =>
    simp only [he, Option.some.injEq] at h
    subst h; rfl
  | none =>
    simp only [he] at h ⊢
    cases hg : get s.store p with
    | error x => simp [hg] at h
    | ok old =>
      simp only [hg] at h ⊢
      cases operand with
      | lit w =>
        simp only at h ⊢
        cases hb : pyBinRaw op old w with
        | error x => simp [hb] at h
        | ok v =>
          simp only [hb, Option.some.injEq] at h
          subst h; rfl
      | ref r => simp only [Option.some.injEq] at h; subst h; rfl
      | bin o l r => simp only [Option.some.injEq] at h; subst h; rfl
      | un o a => simp only [Option.some.injEq] at h; subst h; rfl

/-! ### histories -/

/-- A history every assignment of which is in scope, gets a legal schedule and completes.  Maintenance
    calls and `unregister` are free; an in-place operator counts as the assignment it reduces to
    (`inplaceCall`); `register` and `load` are not part of this theorem. -/
def GoodRun (sched : Sched) : MState → List Call → Prop
  | _, [] => True
  | s, .setValue p v :: cs =>
    Scope (preState s p) p ∧
    ValidSched (gOf (preState s p).idx) (findTaskids (preState s p).idx (chainR p))
      (sched (findTaskids (preState s p).idx (chainR p))) ∧
    (setValue sched s p v).2 = none ∧ GoodRun sched (setValue sched s p v).1 cs
  | s, .setExpr p e :: cs =>
    Scope (defPart s p e) p ∧
    ValidSched (gOf (defPart s p e).idx) (findTaskids (defPart s p e).idx (chainR p))
      (sched (findTaskids (defPart s p e).idx (chainR p))) ∧
    (setExpr sched s p e).2 = none ∧ GoodRun sched (setExpr sched s p e).1 cs
  | s, .unregister id :: cs => GoodRun sched (unregister s id).1 cs
  | s, .cleanup :: cs => GoodRun sched (cleanup s) cs
  | s, .verify :: cs => GoodRun sched (verify s).1 cs
  | s, .refresh :: cs => GoodRun sched (refresh s).1 cs
  | s, .inplace op p operand :: cs =>
    match inplaceCall s op p operand with
    | some (.setValue q v) =>
      Scope (preState s q) q ∧
      ValidSched (gOf (preState s q).idx) (findTaskids (preState s q).idx (chainR q))
        (sched (findTaskids (preState s q).idx (chainR q))) ∧
      (setValue sched s q v).2 = none ∧ GoodRun sched (setValue sched s q v).1 cs
    | some (.setExpr q e) =>
      Scope (defPart s q e) q ∧
      ValidSched (gOf (defPart s q e).idx) (findTaskids (defPart s q e).idx (chainR q))
        (sched (findTaskids (defPart s q e).idx (chainR q))) ∧
      (setExpr sched s q e).2 = none ∧ GoodRun sched (setExpr sched s q e).1 cs
    | _ => False
  | _, _ :: _ => False

theorem unregister_consistent (s : MState) (id : Path) (hi : MInv s) (hc : Consistent s) :
    Consistent (unregister s id).1 ∧ MInv (unregister s id).1 := by
  by_cases hf : s.frozen = true
  · rw [unregister_frozen s id hf]; exact ⟨hc, hi⟩
  · have hf' : s.frozen = false := by simpa using hf
    cases hl : lookDef s.defs id with
    | none =>
      have : unregister s id = (s, some .keyError) := by simp [unregister, hf', hl]
      rw [this]; exact ⟨hc, hi⟩
    | some t =>
      obtain ⟨_, hdefs, _, _, hst⟩ := unregister_present_eq s id t hf' hl
      refine ⟨?_, unregister_MInv s id t hi hf' hl⟩
      intro u hu
      rw [hdefs] at hu
      rw [hst]
      exact hc u (List.mem_filter.mp hu).1

theorem refresh_defs (s : MState) : (refresh s).1.defs = s.defs ∧ (refresh s).1.store = s.store := by
  unfold refresh
  split
  · exact ⟨rfl, rfl⟩
  · exact ⟨rfl, rfl⟩

/-- **C01 over histories, on the executable manager**: from any state reachable through the API in which
    all definitions hold (e.g. a manager with containers and no definitions yet), every good run ends in a
    state where every expression-defined location equals its expression evaluated on the current data. -/
theorem goodRun_consistent (sched : Sched) : ∀ (cs : List Call) (s : MState), MInv s → Consistent s →
    GoodRun sched s cs → Consistent (applyAll sched s cs) ∧ MInv (applyAll sched s cs)
  | [], s, hi, hc, _ => ⟨hc, hi⟩
  | .setValue p v :: cs, s, hi, hc, hg => by
    obtain ⟨sc, hvs, hok, hrest⟩ := hg
    have hok' : setValue sched s p v = ((setValue sched s p v).1, none) := by rw [← hok]
    obtain ⟨hc', hi', _⟩ := setValue_consistent sched s p v hi hc sc hvs _ hok'
    exact goodRun_consistent sched cs _ hi' hc' hrest
  | .setExpr p e :: cs, s, hi, hc, hg => by
    obtain ⟨sc, hvs, hok, hrest⟩ := hg
    have hok' : setExpr sched s p e = ((setExpr sched s p e).1, none) := by rw [← hok]
    obtain ⟨hc', hi', _⟩ := setExpr_consistent sched s p e hi hc sc hvs _ hok'
    exact goodRun_consistent sched cs _ hi' hc' hrest
  | .unregister id :: cs, s, hi, hc, hg => by
    obtain ⟨hc', hi'⟩ := unregister_consistent s id hi hc
    exact goodRun_consistent sched cs _ hi' hc' hg
  | .cleanup :: cs, s, hi, hc, hg => by
    have hd := cleanup_defs s
    have hc' : Consistent (cleanup s) := by
      intro t ht
      rw [hd.1] at ht
      rw [hd.2.1]
      exact hc t ht
    exact goodRun_consistent sched cs _ (cleanup_MInv s hi) hc' hg
  | .verify :: cs, s, hi, hc, hg => by
    have hd := verify_defs s
    have hc' : Consistent (verify s).1 := by
      intro t ht
      rw [hd.1] at ht
      rw [hd.2.1]
      exact hc t ht
    exact goodRun_consistent sched cs _ (verify_MInv s hi) hc' hg
  | .refresh :: cs, s, hi, hc, hg => by
    have hd := refresh_defs s
    have hc' : Consistent (refresh s).1 := by
      intro t ht
      rw [hd.1] at ht
      rw [hd.2]
      exact hc t ht
    exact goodRun_consistent sched cs _ (refresh_MInv s hi) hc' hg
  | .inplace op p operand :: cs, s, hi, hc, hg => by
    simp only [GoodRun] at hg
    cases hcall : inplaceCall s op p operand with
    | none => simp [hcall] at hg
    | some c =>
      have heq := inplace_eq sched s op p operand c hcall
      cases c with
      | setValue q v =>
        simp only [hcall] at hg
        obtain ⟨sc, hvs, hok, hrest⟩ := hg
        have hok' : setValue sched s q v = ((setValue sched s q v).1, none) := by rw [← hok]
        obtain ⟨hc', hi', _⟩ := setValue_consistent sched s q v hi hc sc hvs _ hok'
        have : applyAll sched s (.inplace op p operand :: cs) = applyAll sched (setValue sched s q v).1 cs := by
          simp only [applyAll, apply, heq]
        rw [this]
        exact goodRun_consistent sched cs _ hi' hc' hrest
      | setExpr q e =>
        simp only [hcall] at hg
        obtain ⟨sc, hvs, hok, hrest⟩ := hg
        have hok' : setExpr sched s q e = ((setExpr sched s q e).1, none) := by rw [← hok]
        obtain ⟨hc', hi', _⟩ := setExpr_consistent sched s q e hi hc sc hvs _ hok'
        have : applyAll sched s (.inplace op p operand :: cs) = applyAll sched (setExpr sched s q e).1 cs := by
          simp only [applyAll, apply, heq]
        rw [this]
        exact goodRun_consistent sched cs _ hi' hc' hrest
      | inplace _ _ _ => simp [hcall] at hg
      | register _ => simp [hcall] at hg
      | unregister _ => simp [hcall] at hg
      | load _ _ => simp [hcall] at hg
      | refresh => simp [hcall] at hg
      | cleanup => simp [hcall] at hg
      | verify => simp [hcall] at hg
  | .register _ :: _, _, _, _, hg => by simp [GoodRun] at hg
  | .load _ _ :: _, _, _, _, hg => by simp [GoodRun] at hg

end Manager
