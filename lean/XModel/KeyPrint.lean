import XModel.Parse
/-! # Keys of every printable kind, and the injectivity of the reference printer on access paths (token level)

`BaseRef.__eq__` / `__hash__` of the library compare / hash the printed form; an `ItemRef` prints as
`f"{owner}[{repr(key)}]"`, an `AttrRef` as `f"{owner}.{name}"`.  Equality of references is therefore *by definition*
equality of printed texts, and "equal exactly when they denote the same access path" is the **injectivity of the
printer**.  `Parse.Key` only has `str | int` keys.  This file extends the key language to what `repr` prints
structurally — strings, ints, bools, floats, `None` and (nested) tuples of these — and proves injectivity for it.

Level of the model: the token list of `Parse` (`Parse.Tok`), i.e. what Python's own tokenizer makes of the printed text.
A string key is ONE `.str` token, a float key ONE `.fnum` token (preceded by the operator `-` when negative), exactly as
`Parse.print` treats them; that `repr(k)` lexes into these tokens, that the `.str` token determines the string and the
`.fnum` text determines the float (distinct floats have distinct `repr` texts: shortest round-trip representation) are
Python's guarantees, recorded assumptions outside the model, exercised on every run by tokenising the real text.  The
character level (quoting and escaping of strings, decimal numerals, `", "` separators) is `XModel/KeyText.lean`.

Python's `dict` identifies the keys `1`, `True` and `1.0` (equal and equal hashes).  The library's reference equality,
being textual, does NOT: `c[1]`, `c[True]`, `c[1.0]` are three different references although they select the same
dictionary entry.  That is the library's behaviour (checked by the oracle); the model follows it (`distinct_scalars`).

Outside (oracle only): `bytes` keys, numpy scalars, `inf` / `nan` (their `repr` is a NAME token, not a NUMBER),
arbitrary objects as keys (their `repr` is whatever the class defines, no injectivity can be expected). -/
namespace KeyPrint
open Parse

/-- keys whose `repr` is structural.  A float is carried by its sign and the text of `repr(abs x)` (uninterpreted),
    exactly as `Parse.Expr.flit`. -/
inductive KeyX where
  | str (s : String)
  | int (i : Int)
  | bool (b : Bool)
  | flt (neg : Bool) (text : String)
  | none
  | tuple (ks : List KeyX)
deriving Repr

mutual
/-- the tokens of `repr(key)` -/
def printKeyX : KeyX → List Tok
  | .str s => [.str s]
  | .int i => printInt i
  | .bool b => [.name (if b then "True" else "False")]
  | .flt neg t => printFloat neg t
  | .none => [.name "None"]
  | .tuple ks => .lpar :: printElems ks
/-- the elements of a tuple followed by the closing parenthesis: `)`, `x,)`, `x, y)`, `x, y, z)` … -/
def printElems : List KeyX → List Tok
  | [] => [.rpar]
  | a :: r => printKeyX a ++ .comma :: printMore r
/-- the elements after the first comma: nothing, or comma separated WITHOUT trailing comma -/
def printMore : List KeyX → List Tok
  | [] => [.rpar]
  | [b] => printKeyX b ++ [.rpar]
  | b :: c :: r => printKeyX b ++ .comma :: printMore (c :: r)
end

/-- first token of a printed key: never a closing parenthesis, a comma, a bracket or a dot -/
def KeyHead : List Tok → Prop
  | .str _ :: _ => True
  | .num _ :: _ => True
  | .fnum _ :: _ => True
  | .op _ :: _ => True
  | .name _ :: _ => True
  | .lpar :: _ => True
  | _ => False

theorem keyHead (k : KeyX) (rest : List Tok) : KeyHead (printKeyX k ++ rest) := by
  cases k with
  | str s => simp [printKeyX, KeyHead]
  | int i => by_cases hi : 0 ≤ i <;> simp [printKeyX, printInt, hi, KeyHead]
  | bool b => simp [printKeyX, KeyHead]
  | flt neg t => cases neg <;> simp [printKeyX, printFloat, KeyHead]
  | none => simp [printKeyX, KeyHead]
  | tuple ks => simp [printKeyX, KeyHead]

theorem printInt_uniq (i j : Int) (r r' : List Tok) (h : printInt i ++ r = printInt j ++ r') : i = j ∧ r = r' := by
  unfold printInt at h
  by_cases hi : 0 ≤ i <;> by_cases hj : 0 ≤ j <;> simp [hi, hj] at h
  · exact ⟨by omega, h.2⟩
  · exact ⟨by omega, h.2⟩

theorem printFloat_uniq (n n' : Bool) (t t' : String) (r r' : List Tok)
    (h : printFloat n t ++ r = printFloat n' t' ++ r') : (n = n' ∧ t = t') ∧ r = r' := by
  unfold printFloat at h
  cases n <;> cases n' <;> simp at h <;> simp [h]

theorem printInt_ne_float (i : Int) (n : Bool) (t : String) (r r' : List Tok) :
    printInt i ++ r ≠ printFloat n t ++ r' := by
  unfold printInt printFloat
  by_cases hi : 0 ≤ i <;> cases n <;> simp [hi]

/-- scalar keys: the printed form determines the key and where it ends -/
theorem scalar_uniq (k k' : KeyX) (hk : ∀ ks, k ≠ .tuple ks) (r r' : List Tok)
    (h : printKeyX k ++ r = printKeyX k' ++ r') : k = k' ∧ r = r' := by
  cases k with
  | tuple ks => exact absurd rfl (hk ks)
  | str s =>
    cases k' with
    | str s' => simp [printKeyX] at h; simp [h]
    | int j => exfalso; by_cases hj : 0 ≤ j <;> simp [printKeyX, printInt, hj] at h
    | bool b => simp [printKeyX] at h
    | flt n t => exfalso; cases n <;> simp [printKeyX, printFloat] at h
    | none => simp [printKeyX] at h
    | tuple ks => simp [printKeyX] at h
  | int i =>
    cases k' with
    | str s' => exfalso; by_cases hi : 0 ≤ i <;> simp [printKeyX, printInt, hi] at h
    | int j =>
      have := printInt_uniq i j r r' (by simpa [printKeyX] using h)
      exact ⟨by rw [this.1], this.2⟩
    | bool b => exfalso; by_cases hi : 0 ≤ i <;> simp [printKeyX, printInt, hi] at h
    | flt n t => exact absurd (by simpa [printKeyX] using h) (printInt_ne_float i n t r r')
    | none => exfalso; by_cases hi : 0 ≤ i <;> simp [printKeyX, printInt, hi] at h
    | tuple ks => exfalso; by_cases hi : 0 ≤ i <;> simp [printKeyX, printInt, hi] at h
  | bool b =>
    cases k' with
    | str s' => simp [printKeyX] at h
    | int j => exfalso; by_cases hj : 0 ≤ j <;> simp [printKeyX, printInt, hj] at h
    | bool b' => cases b <;> cases b' <;> simp [printKeyX] at h <;> simp [h]
    | flt n t => exfalso; cases n <;> simp [printKeyX, printFloat] at h
    | none => exfalso; cases b <;> simp [printKeyX] at h
    | tuple ks => simp [printKeyX] at h
  | flt n t =>
    cases k' with
    | str s' => exfalso; cases n <;> simp [printKeyX, printFloat] at h
    | int j => exact absurd (by simpa [printKeyX] using h.symm) (printInt_ne_float j n t r' r)
    | bool b => exfalso; cases n <;> simp [printKeyX, printFloat] at h
    | flt n' t' =>
      have := printFloat_uniq n n' t t' r r' (by simpa [printKeyX] using h)
      exact ⟨by rw [this.1.1, this.1.2], this.2⟩
    | none => exfalso; cases n <;> simp [printKeyX, printFloat] at h
    | tuple ks => exfalso; cases n <;> simp [printKeyX, printFloat] at h
  | none =>
    cases k' with
    | str s' => simp [printKeyX] at h
    | int j => exfalso; by_cases hj : 0 ≤ j <;> simp [printKeyX, printInt, hj] at h
    | bool b => exfalso; cases b <;> simp [printKeyX] at h
    | flt n t => exfalso; cases n <;> simp [printKeyX, printFloat] at h
    | none => simp [printKeyX] at h; simp [h]
    | tuple ks => simp [printKeyX] at h

/-- a key in front of a closing parenthesis is never just a closing parenthesis … -/
theorem rpar_ne_key (k : KeyX) (r r' : List Tok) : Tok.rpar :: r ≠ printKeyX k ++ r' := by
  intro h
  have := keyHead k r'
  rw [← h] at this
  exact this

mutual
/-- **unique readability**: a printed key determines the key and where it ends -/
theorem key_uniq : ∀ (k k' : KeyX) (r r' : List Tok), printKeyX k ++ r = printKeyX k' ++ r' → k = k' ∧ r = r'
  | .tuple ks, .tuple ks', r, r', h => by
    have := elems_uniq ks ks' r r' (by simpa [printKeyX] using h)
    exact ⟨by rw [this.1], this.2⟩
  | .tuple ks, .str s, r, r', h => by simp [printKeyX] at h
  | .tuple ks, .int j, r, r', h => by exfalso; by_cases hj : 0 ≤ j <;> simp [printKeyX, printInt, hj] at h
  | .tuple ks, .bool b, r, r', h => by simp [printKeyX] at h
  | .tuple ks, .flt n t, r, r', h => by exfalso; cases n <;> simp [printKeyX, printFloat] at h
  | .tuple ks, .none, r, r', h => by simp [printKeyX] at h
  | .str s, k', r, r', h => scalar_uniq _ k' (by intro ks; simp) r r' h
  | .int i, k', r, r', h => scalar_uniq _ k' (by intro ks; simp) r r' h
  | .bool b, k', r, r', h => scalar_uniq _ k' (by intro ks; simp) r r' h
  | .flt n t, k', r, r', h => scalar_uniq _ k' (by intro ks; simp) r r' h
  | .none, k', r, r', h => scalar_uniq _ k' (by intro ks; simp) r r' h
theorem elems_uniq : ∀ (ks ks' : List KeyX) (r r' : List Tok),
    printElems ks ++ r = printElems ks' ++ r' → ks = ks' ∧ r = r'
  | [], [], r, r', h => by simpa [printElems] using h
  | [], a :: l, r, r', h => by
    exfalso; exact rpar_ne_key a r (.comma :: printMore l ++ r') (by simpa [printElems] using h)
  | a :: l, [], r, r', h => by
    exfalso; exact rpar_ne_key a r' (.comma :: printMore l ++ r) (by simpa [printElems] using h.symm)
  | a :: l, a' :: l', r, r', h => by
    have h1 := key_uniq a a' (.comma :: printMore l ++ r) (.comma :: printMore l' ++ r')
      (by simpa [printElems] using h)
    have h2 := more_uniq l l' r r' (by simpa using h1.2)
    exact ⟨by rw [h1.1, h2.1], h2.2⟩
theorem more_uniq : ∀ (ks ks' : List KeyX) (r r' : List Tok),
    printMore ks ++ r = printMore ks' ++ r' → ks = ks' ∧ r = r'
  | [], [], r, r', h => by simpa [printMore] using h
  | [], [b], r, r', h => by
    exfalso; exact rpar_ne_key b r (.rpar :: r') (by simpa [printMore] using h)
  | [], b :: c :: l, r, r', h => by
    exfalso; exact rpar_ne_key b r (.comma :: printMore (c :: l) ++ r') (by simpa [printMore] using h)
  | [b], [], r, r', h => by
    exfalso; exact rpar_ne_key b r' (.rpar :: r) (by simpa [printMore] using h.symm)
  | b :: c :: l, [], r, r', h => by
    exfalso; exact rpar_ne_key b r' (.comma :: printMore (c :: l) ++ r) (by simpa [printMore] using h.symm)
  | [b], [b'], r, r', h => by
    have h1 := key_uniq b b' (.rpar :: r) (.rpar :: r') (by simpa [printMore] using h)
    exact ⟨by rw [h1.1], by simpa using h1.2⟩
  | [b], b' :: c' :: l', r, r', h => by
    have h1 := key_uniq b b' (.rpar :: r) (.comma :: printMore (c' :: l') ++ r') (by simpa [printMore] using h)
    simp at h1
  | b :: c :: l, [b'], r, r', h => by
    have h1 := key_uniq b b' (.comma :: printMore (c :: l) ++ r) (.rpar :: r') (by simpa [printMore] using h)
    simp at h1
  | b :: c :: l, b' :: c' :: l', r, r', h => by
    have h1 := key_uniq b b' (.comma :: printMore (c :: l) ++ r) (.comma :: printMore (c' :: l') ++ r')
      (by simpa [printMore] using h)
    have h2 := more_uniq (c :: l) (c' :: l') r r' (by simpa using h1.2)
    exact ⟨by rw [h1.1, h2.1], h2.2⟩
end

/-- **the key printer is injective** — no hypothesis at the token level: every `KeyX` is well formed. -/
theorem printKeyX_injective (k₁ k₂ : KeyX) (h : printKeyX k₁ = printKeyX k₂) : k₁ = k₂ :=
  (key_uniq k₁ k₂ [] [] (by simpa using h)).1

/-! ### access paths -/

inductive StepX where
  | item (k : KeyX)
  | attr (a : String)
deriving Repr

/-- an access path: the container's label and the item / attribute steps, outermost last -/
structure PathX where
  label : String
  steps : List StepX
deriving Repr

def printStep : StepX → List Tok
  | .item k => .lbr :: printKeyX k ++ [.rbr]
  | .attr a => [.dot, .name a]

def printSteps : List StepX → List Tok
  | [] => []
  | s :: r => printStep s ++ printSteps r

def printPath (p : PathX) : List Tok := .name p.label :: printSteps p.steps

theorem step_uniq (s s' : StepX) (r r' : List Tok) (h : printStep s ++ r = printStep s' ++ r') :
    s = s' ∧ r = r' := by
  cases s with
  | item k =>
    cases s' with
    | item k' =>
      have := key_uniq k k' (.rbr :: r) (.rbr :: r') (by simpa [printStep] using h)
      exact ⟨by rw [this.1], by simpa using this.2⟩
    | attr a' => simp [printStep] at h
  | attr a =>
    cases s' with
    | item k' => simp [printStep] at h
    | attr a' => simp [printStep] at h; simp [h]

theorem printStep_ne_nil (s : StepX) (r : List Tok) : printStep s ++ r ≠ [] := by
  cases s <;> simp [printStep]

theorem steps_uniq : ∀ (l l' : List StepX), printSteps l = printSteps l' → l = l'
  | [], [], _ => rfl
  | [], s :: r, h => absurd h.symm (by simpa [printSteps] using printStep_ne_nil s (printSteps r))
  | s :: r, [], h => absurd h (by simpa [printSteps] using printStep_ne_nil s (printSteps r))
  | s :: r, s' :: r', h => by
    have h1 := step_uniq s s' (printSteps r) (printSteps r') (by simpa [printSteps] using h)
    rw [h1.1, steps_uniq r r' h1.2]

/-- **the path printer is injective**: two access paths with the same printed form are the same path (same label,
    same steps in the same order with the same keys).  No hypothesis at the token level. -/
theorem printPath_injective (p q : PathX) (h : printPath p = printPath q) : p = q := by
  cases p with | mk l s => cases q with | mk l' s' =>
  simp only [printPath, List.cons.injEq, Tok.name.injEq] at h
  rw [h.1, steps_uniq s s' h.2]

theorem printSteps_append (l l' : List StepX) : printSteps (l ++ l') = printSteps l ++ printSteps l' := by
  induction l with
  | nil => rfl
  | cons s r ih => simp [printSteps, ih]

/-! ### the paths of `Parse` are a special case -/

def embedKey : Key → KeyX
  | .str s => .str s
  | .int i => .int i

theorem embedKey_print (k : Key) : printKeyX (embedKey k) = Parse.printKey k := by
  cases k <;> rfl

theorem embedKey_injective (k k' : Key) (h : embedKey k = embedKey k') : k = k' := by
  cases k <;> cases k' <;> simp_all [embedKey]

def PathX.snoc (p : PathX) (s : StepX) : PathX := ⟨p.label, p.steps ++ [s]⟩

theorem printPath_snoc (p : PathX) (s : StepX) : printPath (p.snoc s) = printPath p ++ printStep s := by
  simp [printPath, PathX.snoc, printSteps_append, printSteps]

/-- the access path denoted by an expression of `Parse`: defined on the container, item and attribute nodes -/
def pathOf : Expr → Option PathX
  | .root l => some ⟨l, []⟩
  | .item o k => (pathOf o).map (fun p => p.snoc (.item (embedKey k)))
  | .attr o a => (pathOf o).map (fun p => p.snoc (.attr a))
  | _ => none

/-- on the paths of `Parse` the extended printer is `Parse.print` -/
theorem pathOf_print : ∀ (e : Expr) (p : PathX), pathOf e = some p → printPath p = print e
  | .root l, p, h => by
    simp only [pathOf, Option.some.injEq] at h
    subst h; simp [printPath, printSteps, print]
  | .item o k, p, h => by
    simp only [pathOf, Option.map_eq_some_iff] at h
    obtain ⟨q, hq, rfl⟩ := h
    rw [printPath_snoc, pathOf_print o q hq]
    simp [print, printStep, embedKey_print]
  | .attr o a, p, h => by
    simp only [pathOf, Option.map_eq_some_iff] at h
    obtain ⟨q, hq, rfl⟩ := h
    rw [printPath_snoc, pathOf_print o q hq]
    simp [print, printStep]
  | .lit _, _, h => by simp [pathOf] at h
  | .bin _ _ _, _, h => by simp [pathOf] at h
  | .un _ _, _, h => by simp [pathOf] at h
  | .call _ _, _, h => by simp [pathOf] at h
  | .flit _ _, _, h => by simp [pathOf] at h
  | .callkw _ _ _, _, h => by simp [pathOf] at h

theorem snoc_inj (p q : PathX) (s t : StepX) (h : p.snoc s = q.snoc t) : p = q ∧ s = t := by
  cases p with | mk l a => cases q with | mk l' a' =>
  simp only [PathX.snoc, PathX.mk.injEq] at h
  have := List.append_inj' h.2 rfl
  simp_all

theorem snoc_ne_root (p : PathX) (s : StepX) (l : String) : p.snoc s ≠ ⟨l, []⟩ := by
  cases p with | mk l' a =>
  simp [PathX.snoc]

/-- the embedding loses nothing: different expressions denote different paths -/
theorem pathOf_injective : ∀ (e e' : Expr) (p : PathX), pathOf e = some p → pathOf e' = some p → e = e'
  | .root l, e', p, h, h' => by
    simp only [pathOf, Option.some.injEq] at h
    subst h
    cases e' with
    | root l' => simp only [pathOf, Option.some.injEq, PathX.mk.injEq] at h'; rw [h'.1]
    | item o' k' =>
      simp only [pathOf, Option.map_eq_some_iff] at h'
      obtain ⟨q, _, hq⟩ := h'
      exact absurd hq (snoc_ne_root _ _ _)
    | attr o' a' =>
      simp only [pathOf, Option.map_eq_some_iff] at h'
      obtain ⟨q, _, hq⟩ := h'
      exact absurd hq (snoc_ne_root _ _ _)
    | lit _ => simp [pathOf] at h'
    | bin _ _ _ => simp [pathOf] at h'
    | un _ _ => simp [pathOf] at h'
    | call _ _ => simp [pathOf] at h'
    | flit _ _ => simp [pathOf] at h'
    | callkw _ _ _ => simp [pathOf] at h'
  | .item o k, e', p, h, h' => by
    simp only [pathOf, Option.map_eq_some_iff] at h
    obtain ⟨q, hq, rfl⟩ := h
    cases e' with
    | root l' =>
      simp only [pathOf, Option.some.injEq] at h'
      exact absurd h'.symm (snoc_ne_root _ _ _)
    | item o' k' =>
      simp only [pathOf, Option.map_eq_some_iff] at h'
      obtain ⟨q', hq', e⟩ := h'
      have := snoc_inj _ _ _ _ e
      have hk : k' = k := embedKey_injective _ _ (by simpa using this.2)
      rw [this.1] at hq'
      rw [pathOf_injective o o' q hq hq', hk]
    | attr o' a' =>
      simp only [pathOf, Option.map_eq_some_iff] at h'
      obtain ⟨q', _, e⟩ := h'
      have := (snoc_inj _ _ _ _ e).2
      simp at this
    | lit _ => simp [pathOf] at h'
    | bin _ _ _ => simp [pathOf] at h'
    | un _ _ => simp [pathOf] at h'
    | call _ _ => simp [pathOf] at h'
    | flit _ _ => simp [pathOf] at h'
    | callkw _ _ _ => simp [pathOf] at h'
  | .attr o a, e', p, h, h' => by
    simp only [pathOf, Option.map_eq_some_iff] at h
    obtain ⟨q, hq, rfl⟩ := h
    cases e' with
    | root l' =>
      simp only [pathOf, Option.some.injEq] at h'
      exact absurd h'.symm (snoc_ne_root _ _ _)
    | item o' k' =>
      simp only [pathOf, Option.map_eq_some_iff] at h'
      obtain ⟨q', _, e⟩ := h'
      have := (snoc_inj _ _ _ _ e).2
      simp at this
    | attr o' a' =>
      simp only [pathOf, Option.map_eq_some_iff] at h'
      obtain ⟨q', hq', e⟩ := h'
      have := snoc_inj _ _ _ _ e
      have ha : a' = a := by simpa using this.2
      rw [this.1] at hq'
      rw [pathOf_injective o o' q hq hq', ha]
    | lit _ => simp [pathOf] at h'
    | bin _ _ _ => simp [pathOf] at h'
    | un _ _ => simp [pathOf] at h'
    | call _ _ => simp [pathOf] at h'
    | flit _ _ => simp [pathOf] at h'
    | callkw _ _ _ => simp [pathOf] at h'
  | .lit _, _, _, h, _ => by simp [pathOf] at h
  | .bin _ _ _, _, _, h, _ => by simp [pathOf] at h
  | .un _ _, _, _, h, _ => by simp [pathOf] at h
  | .call _ _, _, _, h, _ => by simp [pathOf] at h
  | .flit _ _, _, _, h, _ => by simp [pathOf] at h
  | .callkw _ _ _, _, _, h, _ => by simp [pathOf] at h

/-- the path part of `Parse.print_injective`, obtained as the special case of `printPath_injective` -/
theorem parse_paths_special_case (e e' : Expr) (p p' : PathX) (he : pathOf e = some p) (he' : pathOf e' = some p')
    (h : print e = print e') : e = e' := by
  have : p = p' := printPath_injective p p' (by rw [pathOf_print e p he, pathOf_print e' p' he', h])
  subst this
  exact pathOf_injective e e' p he he'

/-! ### what the theorem separates -/

/-- `('a',)` is not `'a'` -/
example : printKeyX (.tuple [.str "a"]) ≠ printKeyX (.str "a") := by decide
/-- `(1, (2, 3))`, `((1, 2), 3)` and `(1, 2, 3)` are three keys -/
example : printKeyX (.tuple [.int 1, .tuple [.int 2, .int 3]]) ≠ printKeyX (.tuple [.int 1, .int 2, .int 3]) := by
  decide
example : printKeyX (.tuple [.int 1, .tuple [.int 2, .int 3]]) ≠
    printKeyX (.tuple [.tuple [.int 1, .int 2], .int 3]) := by decide
example : printKeyX (.tuple [.tuple [.int 1, .int 2], .int 3]) ≠ printKeyX (.tuple [.int 1, .int 2, .int 3]) := by
  decide
/-- `1`, `True`, `'1'` and `1.0` print differently — although `1`, `True`, `1.0` are the same `dict` key: the
    library's textual equality keeps them apart -/
theorem distinct_scalars :
    printKeyX (.int 1) ≠ printKeyX (.bool true) ∧ printKeyX (.bool true) ≠ printKeyX (.str "1") ∧
    printKeyX (.str "1") ≠ printKeyX (.flt false "1.0") ∧ printKeyX (.int 1) ≠ printKeyX (.flt false "1.0") ∧
    printKeyX (.int 1) ≠ printKeyX (.str "1") ∧ printKeyX (.bool true) ≠ printKeyX (.flt false "1.0") := by
  decide
/-- `()` and `None`, `-1` and `-1.0` -/
example : printKeyX (.tuple []) ≠ printKeyX .none ∧ printKeyX (.int (-1)) ≠ printKeyX (.flt true "1.0") := by decide

#guard printKeyX (.tuple [.str "a"]) == [.lpar, .str "a", .comma, .rpar]
#guard printKeyX (.tuple []) == [.lpar, .rpar]
#guard printKeyX (.tuple [.int 1, .tuple [.int (-2), .flt true "0.5"], .none, .bool false]) ==
  [.lpar, .num 1, .comma, .lpar, .op "-", .num 2, .comma, .op "-", .fnum "0.5", .rpar, .comma, .name "None", .comma,
   .name "False", .rpar]

/-- a path with every kind of key: `c[('a',)].x[-1][0.1][None]` -/
def pathExample : PathX :=
  ⟨"c", [.item (.tuple [.str "a"]), .attr "x", .item (.int (-1)), .item (.flt false "0.1"), .item .none]⟩
#guard printPath pathExample ==
  [.name "c", .lbr, .lpar, .str "a", .comma, .rpar, .rbr, .dot, .name "x", .lbr, .op "-", .num 1, .rbr,
   .lbr, .fnum "0.1", .rbr, .lbr, .name "None", .rbr]
/-- the embedding on `c['a'][-1].x` -/
example : pathOf (.attr (.item (.item (.root "c") (.str "a")) (.int (-1))) "x") =
    some ⟨"c", [.item (.str "a"), .item (.int (-1)), .attr "x"]⟩ := rfl

/-! ### negative witnesses: the seeded defects are non-injective printers -/

mutual
/-- DEFECT (seeded): tuple keys printed without their parentheses (and without the 1-tuple's trailing comma) -/
def printKeyNoParen : KeyX → List Tok
  | .tuple ks => printElemsNoParen ks
  | .str s => [.str s]
  | .int i => printInt i
  | .bool b => [.name (if b then "True" else "False")]
  | .flt neg t => printFloat neg t
  | .none => [.name "None"]
def printElemsNoParen : List KeyX → List Tok
  | [] => []
  | [a] => printKeyNoParen a
  | a :: b :: r => printKeyNoParen a ++ .comma :: printElemsNoParen (b :: r)
end

/-- it identifies `('a',)` with `'a'` … -/
example : printKeyNoParen (.tuple [.str "a"]) = printKeyNoParen (.str "a") := rfl
/-- … and `(1, (2, 3))` with `((1, 2), 3)` and with `(1, 2, 3)` -/
example : printKeyNoParen (.tuple [.int 1, .tuple [.int 2, .int 3]]) =
    printKeyNoParen (.tuple [.int 1, .int 2, .int 3]) := rfl
example : printKeyNoParen (.tuple [.tuple [.int 1, .int 2], .int 3]) =
    printKeyNoParen (.tuple [.int 1, .int 2, .int 3]) := rfl
theorem printKeyNoParen_not_injective : ¬ ∀ k k', printKeyNoParen k = printKeyNoParen k' → k = k' := by
  intro h
  have := h (.tuple [.str "a"]) (.str "a") rfl
  simp at this

/-- `'%g' % x` on the texts that matter for the example: six significant digits.  (A table, not an implementation of
    `%g`: the float's text is uninterpreted in this model.) -/
def sixDigits (t : String) : String :=
  if t = "0.30000000000000004" then "0.3" else t

/-- DEFECT (seeded): float keys printed with six significant digits -/
def printKeySixDigits : KeyX → List Tok
  | .flt neg t => printFloat neg (sixDigits t)
  | k => printKeyX k

/-- it identifies the floats `0.1 + 0.2` (`0.30000000000000004`) and `0.3` -/
example : printKeySixDigits (.flt false "0.30000000000000004") = printKeySixDigits (.flt false "0.3") := rfl
theorem printKeySixDigits_not_injective : ¬ ∀ k k', printKeySixDigits k = printKeySixDigits k' → k = k' := by
  intro h
  have := h (.flt false "0.30000000000000004") (.flt false "0.3") rfl
  simp at this

#print axioms printKeyX_injective
#print axioms printPath_injective
#print axioms pathOf_print
#print axioms parse_paths_special_case
end KeyPrint
