/-! Prototype: Tie A.  Extracted tables (plain data), a decidable validity predicate, and the lift of
    validity to all Python-level terms by structural induction (C04's homomorphism). -/
namespace Tables

/-- primitive binary operators of Python -/
inductive Prim where
  | add | sub | mul | matmul | truediv | floordiv | mod | pow | and_ | or_ | xor
  | lt | le | ge | gt | rshift | lshift
deriving DecidableEq, Repr

/-- where `self` ends up in the node built by a dunder -/
inductive Side where | selfLhs | selfRhs
deriving DecidableEq, Repr

/-- extracted: what each node class computes (found by evaluating it on recording operands) -/
structure ClassRow where
  cls : String
  prim : Prim
  swapped : Bool      -- computes prim(rhs, lhs) instead of prim(lhs, rhs)
  guard : Bool        -- ZeroDivisionError → NaN
deriving DecidableEq, Repr

/-- extracted: which node a dunder builds -/
structure DunderRow where
  name : String
  cls : String
  side : Side
deriving DecidableEq, Repr

structure Tbl where
  classes : List ClassRow
  dunders : List DunderRow

/-- Python's data model: the meaning of each binary dunder (fixed, part of the specification) -/
structure Meaning where
  prim : Prim
  selfFirst : Bool     -- `__op__`: prim(self, other); reflected `__rop__`: prim(other, self)
deriving DecidableEq, Repr

def pySpec : List (String × Meaning) :=
  [ ("__add__", ⟨.add, true⟩), ("__radd__", ⟨.add, false⟩),
    ("__sub__", ⟨.sub, true⟩), ("__rsub__", ⟨.sub, false⟩),
    ("__mul__", ⟨.mul, true⟩), ("__rmul__", ⟨.mul, false⟩),
    ("__truediv__", ⟨.truediv, true⟩), ("__rtruediv__", ⟨.truediv, false⟩),
    ("__floordiv__", ⟨.floordiv, true⟩), ("__rfloordiv__", ⟨.floordiv, false⟩),
    ("__mod__", ⟨.mod, true⟩), ("__rmod__", ⟨.mod, false⟩),
    ("__pow__", ⟨.pow, true⟩), ("__rpow__", ⟨.pow, false⟩),
    ("__lt__", ⟨.lt, true⟩), ("__gt__", ⟨.gt, true⟩), ("__le__", ⟨.le, true⟩), ("__ge__", ⟨.ge, true⟩) ]

def guarded : Prim → Bool
  | .truediv | .floordiv | .mod => true
  | _ => false

def Tbl.findClass (t : Tbl) (c : String) : Option ClassRow := t.classes.find? (·.cls = c)
def Tbl.findDunder (t : Tbl) (d : String) : Option DunderRow := t.dunders.find? (·.name = d)

/-- the row for dunder `d` builds a node that means what Python says `d` means -/
def rowOk (t : Tbl) (d : String) (m : Meaning) : Bool :=
  match t.findDunder d with
  | none => false
  | some row =>
    match t.findClass row.cls with
    | none => false
    | some c =>
      c.prim = m.prim && c.guard = guarded m.prim && !c.swapped &&
      -- self is the first operand of the primitive  ⇔  (self is lhs) xor swapped
      ((decide (row.side = .selfLhs) != c.swapped) == m.selfFirst)

def Tbl.Valid (t : Tbl) : Bool := pySpec.all (fun p => rowOk t p.1 p.2)

/-! semantics -/
variable {V : Type}

structure PyOps (V : Type) where
  bin : Prim → V → V → Except String V     -- the operator itself, including raising
  nan : V
  isZeroDiv : String → Bool

/-- a node as the library builds it -/
inductive Node (V : Type) where
  | val (v : V)                       -- a leaf: ref value or literal (already a value here)
  | bin (cls : String) (l r : Node V)

def evalNode (t : Tbl) (ops : PyOps V) : Node V → Except String V
  | .val v => .ok v
  | .bin cls l r =>
    match t.findClass cls with
    | none => .error "no such class"
    | some c => do
      let a ← evalNode t ops l
      let b ← evalNode t ops r
      let res := if c.swapped then ops.bin c.prim b a else ops.bin c.prim a b
      match res with
      | .error e => if c.guard && ops.isZeroDiv e then .ok ops.nan else .error e
      | .ok v => .ok v

/-- a Python-level term: which operand is the ref decides which dunder Python calls -/
inductive Term (V : Type) where
  | val (v : V)
  | op (d : String) (m : Meaning) (self other : Term V)   -- `self.d(other)` with Python meaning m

/-- what Python computes directly on the operand values (documented deviation: guarded ops give NaN) -/
def evalDirect (ops : PyOps V) : Term V → Except String V
  | .val v => .ok v
  | .op _ m self other => do
    let s ← evalDirect ops self
    let o ← evalDirect ops other
    let res := if m.selfFirst then ops.bin m.prim s o else ops.bin m.prim o s
    match res with
    | .error e => if guarded m.prim && ops.isZeroDiv e then .ok ops.nan else .error e
    | .ok v => .ok v

/-- the library's construction -/
def build (t : Tbl) : Term V → Option (Node V)
  | .val v => some (.val v)
  | .op d _ self other =>
    match t.findDunder d, build t self, build t other with
    | some row, some s, some o =>
      (match row.side with
       | .selfLhs => some (.bin row.cls s o)
       | .selfRhs => some (.bin row.cls o s))
    | _, _, _ => none

def isVal : Term V → Bool
  | .val _ => true
  | _ => false

/-- reflected dunders are only reached when the other (left) operand is a plain literal -/
def WFTerm : Term V → Prop
  | .val _ => True
  | .op d m s o => (d, m) ∈ pySpec ∧ WFTerm s ∧ WFTerm o ∧ (m.selfFirst = false → isVal o = true)

theorem rowOk_of_valid (t : Tbl) (hv : t.Valid = true) (d : String) (m : Meaning) (h : (d, m) ∈ pySpec) :
    rowOk t d m = true := by
  unfold Tbl.Valid at hv
  exact List.all_eq_true.mp hv (d, m) h

theorem evalDirect_val (ops : PyOps V) (o : Term V) (h : isVal o = true) : ∃ v, o = .val v ∧ evalDirect ops o = .ok v := by
  cases o with
  | val v => exact ⟨v, rfl, rfl⟩
  | op _ _ _ _ => simp [isVal] at h

/-- C04 (binary fragment): validity of the extracted tables lifts to every term. -/
theorem build_eval (t : Tbl) (hv : t.Valid = true) (ops : PyOps V) :
    ∀ term : Term V, WFTerm term → ∃ node, build t term = some node ∧ evalNode t ops node = evalDirect ops term
  | .val v, _ => ⟨.val v, rfl, rfl⟩
  | .op d m s o, hw => by
    obtain ⟨hmem, hs, ho, hrefl⟩ := hw
    obtain ⟨ns, bs, es⟩ := build_eval t hv ops s hs
    obtain ⟨no, bo, eo⟩ := build_eval t hv ops o ho
    have hrow := rowOk_of_valid t hv d m hmem
    unfold rowOk at hrow
    cases hfd : t.findDunder d with
    | none => simp [hfd] at hrow
    | some row =>
      simp only [hfd] at hrow
      cases hfc : t.findClass row.cls with
      | none => simp [hfc] at hrow
      | some c =>
        simp only [hfc, Bool.and_eq_true, decide_eq_true_eq, beq_iff_eq] at hrow
        obtain ⟨⟨⟨hprim, hguard⟩, hnsw⟩, hside⟩ := hrow
        have hsw0 : c.swapped = false := by simpa using hnsw
        cases hsd : row.side with
        | selfLhs =>
          refine ⟨.bin row.cls ns no, by simp [build, hfd, bs, bo, hsd], ?_⟩
          simp only [evalNode, hfc, es, eo, evalDirect, hprim, hguard]
          have hsf : m.selfFirst = true := by simpa [hsd, hsw0] using hside.symm
          simp [hsf, hsw0]
        | selfRhs =>
          refine ⟨.bin row.cls no ns, by simp [build, hfd, bs, bo, hsd], ?_⟩
          have hsf : m.selfFirst = false := by simpa [hsd, hsw0] using hside.symm
          obtain ⟨v, rfl, hv'⟩ := evalDirect_val ops o (hrefl hsf)
          have : no = .val v := by simpa [build] using bo.symm
          subst this
          cases hds : evalDirect ops s with
          | error e => simp [evalNode, hfc, es, hsf, hsw0, evalDirect, bind, Except.bind, hds]
          | ok w => simp [evalNode, hfc, es, hsf, hsw0, evalDirect, bind, Except.bind, hds, hprim, hguard]

/-- the table the extractor produces for the pinned tree (excerpt), and its validity by `decide` -/
def pinned : Tbl :=
  { classes := [⟨"AddExpr", .add, false, false⟩, ⟨"SubExpr", .sub, false, false⟩, ⟨"MulExpr", .mul, false, false⟩,
                ⟨"TruedivExpr", .truediv, false, true⟩, ⟨"FloordivExpr", .floordiv, false, true⟩,
                ⟨"ModExpr", .mod, false, true⟩, ⟨"PowExpr", .pow, false, false⟩,
                ⟨"LtExpr", .lt, false, false⟩, ⟨"GtExpr", .gt, false, false⟩, ⟨"LeExpr", .le, false, false⟩, ⟨"GeExpr", .ge, false, false⟩],
    dunders := [⟨"__add__", "AddExpr", .selfLhs⟩, ⟨"__radd__", "AddExpr", .selfRhs⟩,
                ⟨"__sub__", "SubExpr", .selfLhs⟩, ⟨"__rsub__", "SubExpr", .selfRhs⟩,
                ⟨"__mul__", "MulExpr", .selfLhs⟩, ⟨"__rmul__", "MulExpr", .selfRhs⟩,
                ⟨"__truediv__", "TruedivExpr", .selfLhs⟩, ⟨"__rtruediv__", "TruedivExpr", .selfRhs⟩,
                ⟨"__floordiv__", "FloordivExpr", .selfLhs⟩, ⟨"__rfloordiv__", "FloordivExpr", .selfRhs⟩,
                ⟨"__mod__", "ModExpr", .selfLhs⟩, ⟨"__rmod__", "ModExpr", .selfRhs⟩,
                ⟨"__pow__", "PowExpr", .selfLhs⟩, ⟨"__rpow__", "PowExpr", .selfRhs⟩,
                ⟨"__lt__", "LtExpr", .selfLhs⟩, ⟨"__gt__", "GtExpr", .selfLhs⟩, ⟨"__le__", "LeExpr", .selfLhs⟩, ⟨"__ge__", "GeExpr", .selfLhs⟩] }

theorem pinned_valid : pinned.Valid = true := by decide

/-- a mutant: `__rsub__` builds SubExpr(self, other) — the obligation no longer checks -/
def mutant : Tbl := { pinned with dunders := pinned.dunders.map (fun r => if r.name = "__rsub__" then { r with side := .selfLhs } else r) }
theorem mutant_invalid : mutant.Valid = false := by decide

end Tables
