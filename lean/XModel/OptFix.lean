import XModel.Opt
/-!
# C10: a disabled knob is never changed by `step()`

For a knob `k` that is inactive when `Optimize.step` starts, the invariant

    the flag of k is off,  the container holds v at k,  every log row appended since the call started records
    (knobs k = v, flag off)

is kept by every operation of the call *whatever its outcome* (normal return or exception): merit calls skip
inactive knobs, `set_knobs_from_x` writes active knobs only, rows are appended from the container, and the
`take_best` reload — which writes **all** knobs of the chosen row — picks a row logged during this call, which
records `v`.  The numerics (which points are evaluated, which row is best) are arbitrary.
-/
namespace Opt

variable {R : Type}

/-- the invariant, relative to the log length `n` at the start of the call -/
def FixInv (k : Nat) (v : R) (n : Nat) (s : St R) : Prop :=
  s.vAct k = false ∧ s.knobs k = v ∧
  ∀ i row, n ≤ i → s.log[i]? = some row → row.knobs k = v ∧ row.vAct k = false

/-- an operation keeps the invariant whatever its outcome -/
def FP (k : Nat) (v : R) (n : Nat) {α : Type} (m : M R α) : Prop :=
  ∀ s r s', FixInv k v n s → m s = (r, s') → FixInv k v n s'

theorem FP.bind {k : Nat} {v : R} {n : Nat} {α β : Type} {m : M R α} {f : α → M R β}
    (hm : FP k v n m) (hf : ∀ a, FP k v n (f a)) : FP k v n (bind' m f) := by
  intro s r s' hi h
  simp only [bind'] at h
  cases hms : m s with
  | mk r1 s1 =>
    rw [hms] at h
    have h1 := hm s r1 s1 hi hms
    cases r1 with
    | error e => simp only at h; cases h; exact h1
    | ok a => simp only at h; exact hf a s1 r s' h1 h

theorem FP_pure (k : Nat) (v : R) (n : Nat) {α : Type} (a : α) : FP k v n (pure' a : M R α) := fun s r s' hi h => by
  simp only [pure'] at h; cases h; exact hi

theorem FP_raise (k : Nat) (v : R) (n : Nat) {α : Type} (e : Err) : FP k v n (raise e : M R α) := fun s r s' hi h => by
  simp only [raise] at h; cases h; exact hi

/-- the knob-writing loop leaves an inactive knob, all flags and the log alone -/
theorem writeKnobs_inactive (c : Cfg R) (check : Bool) (x : Nat → R) (j : Nat) : ∀ (k : Nat) (s s' : St R)
    (r : Except Err Unit), writeKnobs c check x k s = (r, s') → s.vAct j = false →
    s'.knobs j = s.knobs j ∧ s'.vAct = s.vAct ∧ s'.log = s.log
  | 0, s, s', r, h, _ => by
    simp only [writeKnobs, pure'] at h; cases h; exact ⟨rfl, rfl, rfl⟩
  | k+1, s, s', r, h, hj => by
    simp only [writeKnobs, bind'] at h
    cases h1 : writeKnobs c check x k s with
    | mk r1 s1 =>
      rw [h1] at h
      have ih := writeKnobs_inactive c check x j k s s1 r1 h1 hj
      cases r1 with
      | error e => simp only at h; cases h; exact ih
      | ok u =>
        simp only at h
        by_cases ha : s1.vAct k = true
        · simp only [ha, if_true] at h
          by_cases hl : (check && !(c.inLimits k (c.mulW k (x k)))) = true
          · simp only [hl, if_true] at h; cases h; exact ih
          · simp only [hl] at h
            cases h
            refine ⟨?_, ih.2.1, ih.2.2⟩
            have hne : j ≠ k := by
              intro e; subst e
              rw [ih.2.1, hj] at ha; exact absurd ha (by simp)
            simp only [hne, if_false]
            exact ih.1
        · simp only [ha] at h; cases h; exact ih

theorem FP_merit (c : Cfg R) (check : Bool) (x : Nat → R) (k : Nat) (v : R) (n : Nat) : FP k v n (merit c check x) := by
  intro s r s' hi h
  simp only [merit, bind'] at h
  cases hw : writeKnobs c check x c.n s with
  | mk r1 s1 =>
    rw [hw] at h
    obtain ⟨a1, a2, a3⟩ := writeKnobs_inactive c check x k c.n s s1 r1 hw hi.1
    have h1 : FixInv k v n s1 := ⟨by rw [a2]; exact hi.1, by rw [a1]; exact hi.2.1, by rw [a3]; exact hi.2.2⟩
    cases r1 with
    | error e => simp only at h; cases h; exact h1
    | ok u =>
      simp only at h
      cases hf : c.f s1.knobs with
      | none => simp only [hf] at h; cases h; exact h1
      | some res => simp only [hf] at h; cases h; exact h1

theorem FP_meritAll (c : Cfg R) (check : Bool) (k : Nat) (v : R) (n : Nat) : ∀ xs : List (Nat → R),
    FP k v n (meritAll c check xs)
  | [] => FP_pure k v n ()
  | x :: xs => FP.bind (FP_merit c check x k v n) (fun _ => FP_meritAll c check k v n xs)

/-- appending the current container as a row keeps the invariant -/
theorem FixInv_append (k : Nat) (v : R) (n : Nat) (s : St R) (hi : FixInv k v n s) (kn : Nat → R) (va ta : Nat → Bool)
    (hk : kn k = v) (hv : va k = false) :
    FixInv k v n { s with log := s.log ++ [⟨kn, va, ta⟩] } := by
  refine ⟨hi.1, hi.2.1, ?_⟩
  intro i row hn hrow
  simp only at hrow
  by_cases hlt : i < s.log.length
  · rw [List.getElem?_append_left hlt] at hrow
    exact hi.2.2 i row hn hrow
  · have hge : s.log.length ≤ i := Nat.le_of_not_lt hlt
    rw [List.getElem?_append_right hge] at hrow
    cases hd : i - s.log.length with
    | zero =>
      rw [hd] at hrow
      simp only [List.getElem?_cons_zero, Option.some.injEq] at hrow
      subst hrow
      exact ⟨hk, hv⟩
    | succ d =>
      rw [hd] at hrow
      simp at hrow

theorem FP_addPoint (c : Cfg R) (k : Nat) (v : R) (n : Nat) : FP k v n (addPoint c) := by
  intro s r s' hi h
  simp only [addPoint] at h
  cases hm : merit c true (extractX c s) s with
  | mk r1 s1 =>
    rw [hm] at h
    have h1 := FP_merit c true _ k v n s r1 s1 hi hm
    cases r1 with
    | error e => simp only at h; cases h; exact h1
    | ok u =>
      simp only at h
      cases h
      exact FixInv_append k v n s1 h1 s.knobs s.vAct s.tAct hi.2.1 hi.1

/-- `reload(i)` of a row logged since the start of the call -/
theorem FP_reload (c : Cfg R) (k : Nat) (v : R) (n : Nat) (i : Nat) (hn : n ≤ i) : FP k v n (reload c i) := by
  intro s r s' hi h
  simp only [reload] at h
  cases hl : s.log[i]? with
  | none => simp only [hl] at h; cases h; exact hi
  | some row =>
    simp only [hl] at h
    obtain ⟨rk, rv⟩ := hi.2.2 i row hn hl
    exact FP_addPoint c k v n { s with knobs := row.knobs, vAct := row.vAct, tAct := row.tAct } r s' ⟨rv, rk, hi.2.2⟩ h

theorem FP_setKnobs (c : Cfg R) (k : Nat) (v : R) (n : Nat) : FP k v n (setKnobsFromX c) := by
  intro s r s' hi h
  simp only [setKnobsFromX] at h
  cases h
  refine ⟨hi.1, ?_, hi.2.2⟩
  simp only [hi.1, Bool.false_eq_true, and_false, if_false]
  exact hi.2.1

theorem FP_solverStep (c : Cfg R) (jac trials : List (Nat → R)) (last : Nat → R) (pe : Bool) (k : Nat) (v : R) (n : Nat) :
    FP k v n (solverStep c jac trials last pe) := by
  intro s r s' hi h
  simp only [solverStep] at h
  refine (FP.bind (FP_merit c true s.solverX k v n) (fun _ =>
    FP.bind (FP_meritAll c false k v n jac) (fun _ =>
    FP.bind (FP_meritAll c true k v n trials) (fun _ =>
    FP.bind (FP_merit c true last k v n) (fun _ => ?_))))) s r s' hi h
  by_cases hpe : pe = true
  · simp only [hpe, if_true]
    exact FP.bind (FP_merit c true s.solverX k v n) (fun _ => FP_raise k v n .penalty)
  · simp only [hpe, Bool.false_eq_true, if_false]
    intro s1 r1 s1' hi1 h1
    cases h1
    exact hi1

theorem FP_optIter (c : Cfg R) (resync early : Bool) (jac trials : List (Nat → R)) (last : Nat → R) (pe : Bool)
    (k : Nat) (v : R) (n : Nat) : FP k v n (optIter c resync early jac trials last pe) := by
  unfold optIter
  refine FP.bind ?_ (fun _ => FP.bind ?_ (fun _ => FP.bind (FP_setKnobs c k v n) (fun _ => ?_)))
  · intro s r s' hi h
    cases h
    by_cases hr : resync = true
    · simp only [hr, if_true]; exact hi
    · simp only [hr, Bool.false_eq_true, if_false]; exact hi
  · by_cases he : early = true
    · simp only [he, if_true]
      intro s r s' hi h
      exact FP_merit c true s.solverX k v n s r s' hi h
    · simp only [he, Bool.false_eq_true, if_false]
      exact FP_solverStep c jac trials last pe k v n
  · intro s r s' hi h
    cases h
    exact FixInv_append k v n s hi s.knobs s.vAct s.tAct hi.2.1 hi.1

theorem FP_optLoop (c : Cfg R) (k : Nat) (v : R) (n : Nat) : ∀ its : List (Iter R), FP k v n (optLoop c its)
  | [] => FP_pure k v n ()
  | it :: rest => by
    simp only [optLoop]
    refine FP.bind (FP_optIter c it.resync it.early it.jac it.trials it.last it.pe k v n) (fun _ => ?_)
    intro s r s' hi h
    by_cases hw : s.lastWithin = true
    · simp only [hw, if_true] at h; cases h; exact hi
    · simp only [hw] at h
      exact FP_optLoop c k v n rest s r s' hi h

/-- **`Optimize.step` never changes a disabled knob**: whatever the numerics evaluate, whatever the outcome (normal
    return or exception), with `take_best` choosing any row logged during this call -/
theorem optStep_disabled_fixed (c : Cfg R) (its : List (Iter R)) (tb : Option Nat) (k : Nat) (s s' : St R)
    (r : Except Err Unit) (hk : s.vAct k = false) (htb : ∀ i, tb = some i → s.log.length ≤ i)
    (h : optStep c its tb s = (r, s')) :
    s'.knobs k = s.knobs k ∧ s'.vAct k = false ∧
    ∀ i row, s.log.length ≤ i → s'.log[i]? = some row → row.knobs k = s.knobs k ∧ row.vAct k = false := by
  have hi : FixInv k (s.knobs k) s.log.length s := ⟨hk, rfl, by
    intro i row hn hrow
    have : s.log[i]? = none := List.getElem?_eq_none hn
    rw [this] at hrow; cases hrow⟩
  have hfp : FP k (s.knobs k) s.log.length (optStep c its tb) := by
    unfold optStep
    refine FP.bind (FP_addPoint c k _ _) (fun _ => FP.bind (FP_optLoop c k _ _ its) (fun _ => ?_))
    intro s1 r1 s1' hi1 h1
    cases tb with
    | none => simp only at h1; cases h1; exact hi1
    | some i =>
      simp only at h1
      by_cases hw : s1.lastWithin = true
      · simp only [hw, if_true] at h1; cases h1; exact hi1
      · simp only [hw] at h1
        exact FP_reload c k _ _ i (htb i rfl) s1 r1 s1' hi1 h1
  obtain ⟨a, b, d⟩ := hfp s r s' hi h
  exact ⟨b, a, d⟩

end Opt
