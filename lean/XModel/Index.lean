/-! Prototype: RefCount / defaultdict(RefCount) and Manager.register / unregister (pinned and repaired),
    the index invariant as a decidable check, and the D3 witness by `decide`. -/
namespace Index

variable {κ ρ : Type} [DecidableEq κ] [DecidableEq ρ]

/-- `RefCount(dict)`: insertion-ordered key → positive count -/
abbrev RC (κ : Type) := List (κ × Nat)

def RC.cnt : RC κ → κ → Nat
  | [], _ => 0
  | (k', n) :: r, k => if k' = k then n else RC.cnt r k

def RC.append : RC κ → κ → RC κ
  | [], k => [(k, 1)]
  | (k', n) :: r, k => if k' = k then (k', n + 1) :: r else (k', n) :: RC.append r k

/-- `remove` (Python raises KeyError when absent; callers guard with `in`) -/
def RC.remove : RC κ → κ → RC κ
  | [], _ => []
  | (k', n) :: r, k => if k' = k then (if n > 1 then (k', n - 1) :: r else r) else (k', n) :: RC.remove r k

def RC.keys (m : RC κ) : List κ := m.map (·.1)

def RC.WF (m : RC κ) : Prop := (RC.keys m).Nodup ∧ ∀ p ∈ m, p.2 ≥ 1

theorem RC.cnt_append (m : RC κ) (k j : κ) :
    RC.cnt (RC.append m k) j = RC.cnt m j + (if k = j then 1 else 0) := by
  induction m with
  | nil => simp [RC.append, RC.cnt]
  | cons p r ih =>
    obtain ⟨k', n⟩ := p
    simp only [RC.append]
    by_cases h : k' = k
    · subst h
      by_cases h2 : k' = j
      · simp [RC.cnt, h2]
      · simp [RC.cnt, h2]
    · simp only [h, if_false, RC.cnt]
      by_cases h2 : k' = j
      · have : k ≠ j := fun e => h (h2.trans e.symm)
        simp [h2, this]
      · simp [h2, ih]

theorem RC.cnt_eq_zero_of_not_mem (m : RC κ) (k : κ) (h : k ∉ RC.keys m) : RC.cnt m k = 0 := by
  induction m with
  | nil => simp [RC.cnt]
  | cons p r ih =>
    obtain ⟨k', n⟩ := p
    simp only [RC.keys, List.map_cons, List.mem_cons, not_or] at h
    have h1 : k' ≠ k := fun e => h.1 e.symm
    simp only [RC.cnt, h1, if_false]
    exact ih h.2

theorem RC.cnt_remove (m : RC κ) (hwf : RC.WF m) (k j : κ) :
    RC.cnt (RC.remove m k) j = RC.cnt m j - (if k = j then 1 else 0) := by
  induction m with
  | nil => simp [RC.remove, RC.cnt]
  | cons p r ih =>
    obtain ⟨k', n⟩ := p
    have hnd : k' ∉ RC.keys r ∧ (RC.keys r).Nodup := by
      have := hwf.1
      simpa [RC.keys] using this
    have hwf' : RC.WF r := ⟨hnd.2, fun p hp => hwf.2 p (List.mem_cons_of_mem _ hp)⟩
    have hn : n ≥ 1 := hwf.2 (k', n) (List.mem_cons_self ..)
    simp only [RC.remove]
    by_cases h : k' = k
    · subst h
      simp only [if_true]
      by_cases h2 : k' = j
      · subst h2
        by_cases h3 : n > 1
        · simp [h3, RC.cnt]
        · have : n = 1 := by omega
          simp [h3, RC.cnt, this, RC.cnt_eq_zero_of_not_mem r k' hnd.1]
      · by_cases h3 : n > 1
        · simp [h3, RC.cnt, h2]
        · simp [h3, RC.cnt, h2]
    · simp only [h, if_false, RC.cnt]
      by_cases h2 : k' = j
      · have : k ≠ j := fun e => h (h2.trans e.symm)
        simp [h2, this]
      · simp [h2, ih hwf']

/-- `defaultdict(RefCount)` -/
abbrev DD (ρ κ : Type) := List (ρ × RC κ)

def DD.get : DD ρ κ → ρ → RC κ
  | [], _ => []
  | (a', m) :: r, a => if a' = a then m else DD.get r a

def DD.modify : DD ρ κ → ρ → (RC κ → RC κ) → DD ρ κ
  | [], a, f => [(a, f [])]
  | (a', m) :: r, a, f => if a' = a then (a', f m) :: r else (a', m) :: DD.modify r a f

def DD.del : DD ρ κ → ρ → DD ρ κ
  | [], _ => []
  | (a', m) :: r, a => if a' = a then r else (a', m) :: DD.del r a

theorem DD.get_modify (d : DD ρ κ) (a b : ρ) (f : RC κ → RC κ) :
    DD.get (DD.modify d a f) b = if a = b then f (DD.get d a) else DD.get d b := by
  induction d with
  | nil =>
    by_cases h : a = b <;> simp [DD.modify, DD.get, h]
  | cons p r ih =>
    obtain ⟨a', m⟩ := p
    simp only [DD.modify]
    by_cases h : a' = a
    · subst h
      by_cases h2 : a' = b <;> simp [DD.get, h2]
    · by_cases h2 : a' = b
      · subst h2
        have h' : a ≠ a' := fun e => h e.symm
        simp [DD.get, h, h']
      · simp [DD.get, h, h2, ih]

structure Task (ρ κ : Type) where
  id : κ
  deps : List ρ        -- a Python set
  tars : List ρ        -- a Python set

structure Mgr (ρ κ : Type) where
  tasks : List (Task ρ κ)
  rdeps : DD ρ ρ
  rtasks : DD κ κ
  deptasks : DD ρ κ
  tartasks : DD ρ κ

def Mgr.empty : Mgr ρ κ := ⟨[], [], [], [], []⟩

/-- `Manager.register`, statement by statement -/
def register (s : Mgr ρ κ) (t : Task ρ κ) : Mgr ρ κ :=
  let s := { s with tasks := s.tasks.filter (fun x => x.id ≠ t.id) ++ [t] }
  let s := t.deps.foldl (fun s dep =>
    let s := { s with rdeps := t.tars.foldl (fun d tar => DD.modify d dep (RC.append · tar)) s.rdeps }
    let s := { s with deptasks := DD.modify s.deptasks dep (RC.append · t.id) }
    { s with rtasks := (RC.keys (DD.get s.tartasks dep)).foldl (fun d u => DD.modify d u (RC.append · t.id)) s.rtasks }) s
  t.tars.foldl (fun s tar =>
    let s := { s with tartasks := DD.modify s.tartasks tar (RC.append · t.id) }
    { s with rtasks := (RC.keys (DD.get s.deptasks tar)).foldl (fun d x => DD.modify d t.id (RC.append · x)) s.rtasks }) s

def findTask (s : Mgr ρ κ) (id : κ) : Option (Task ρ κ) := s.tasks.find? (fun x => x.id = id)

def rmIf (m : RC κ) (k : κ) : RC κ := if k ∈ RC.keys m then RC.remove m k else m

/-- `Manager.unregister` as pinned: looks for the edge under `rtasks[dep]` -/
def unregisterPinned [DecidableEq ρ] (toId : ρ → κ) (s : Mgr ρ κ) (id : κ) : Mgr ρ κ :=
  match findTask s id with
  | none => s
  | some t =>
    let s := t.deps.foldl (fun s dep =>
      let s := { s with rdeps := t.tars.foldl (fun d tar => DD.modify d dep (rmIf · tar)) s.rdeps }
      let s := { s with rtasks := DD.modify s.rtasks (toId dep) (rmIf · id) }
      { s with deptasks := DD.modify s.deptasks dep (rmIf · id) }) s
    let s := t.tars.foldl (fun s tar => { s with tartasks := DD.modify s.tartasks tar (RC.remove · id) }) s
    { s with rtasks := DD.del s.rtasks id, tasks := s.tasks.filter (fun x => x.id ≠ id) }

/-- repaired: walk the tasks that write `dep` -/
def unregister (s : Mgr ρ κ) (id : κ) : Mgr ρ κ :=
  match findTask s id with
  | none => s
  | some t =>
    let s := t.deps.foldl (fun s dep =>
      let s := { s with rdeps := t.tars.foldl (fun d tar => DD.modify d dep (rmIf · tar)) s.rdeps }
      let s := { s with rtasks := (RC.keys (DD.get s.tartasks dep)).foldl (fun d u => DD.modify d u (rmIf · id)) s.rtasks }
      { s with deptasks := DD.modify s.deptasks dep (rmIf · id) }) s
    let s := t.tars.foldl (fun s tar => { s with tartasks := DD.modify s.tartasks tar (RC.remove · id) }) s
    { s with rtasks := DD.del s.rtasks id, tasks := s.tasks.filter (fun x => x.id ≠ id) }

/-! the specification: every count is a function of the surviving tasks -/
def specRt (ts : List (Task ρ κ)) (u k : κ) : Nat :=
  match ts.find? (·.id = u), ts.find? (·.id = k) with
  | some tu, some tk => (tu.tars.filter (· ∈ tk.deps)).length
  | _, _ => 0
def specRdeps (ts : List (Task ρ κ)) (d r : ρ) : Nat := (ts.filter (fun t => d ∈ t.deps ∧ r ∈ t.tars)).length
def specDep (ts : List (Task ρ κ)) (d : ρ) (k : κ) : Nat := if ts.any (fun t => t.id = k ∧ d ∈ t.deps) then 1 else 0
def specTar (ts : List (Task ρ κ)) (r : ρ) (k : κ) : Nat := if ts.any (fun t => t.id = k ∧ r ∈ t.tars) then 1 else 0

/-- the invariant, checked on finite universes of refs and ids (used by `decide` examples) -/
def invOn (refs : List ρ) (ids : List κ) (s : Mgr ρ κ) : Bool :=
  ids.all (fun u => ids.all (fun k => RC.cnt (DD.get s.rtasks u) k == specRt s.tasks u k)) &&
  refs.all (fun d => refs.all (fun r => RC.cnt (DD.get s.rdeps d) r == specRdeps s.tasks d r)) &&
  refs.all (fun d => ids.all (fun k => RC.cnt (DD.get s.deptasks d) k == specDep s.tasks d k)) &&
  refs.all (fun r => ids.all (fun k => RC.cnt (DD.get s.tartasks r) k == specTar s.tasks r k))

/-! ### the D3 witness, on refs named by strings (ExprTask: taskid = target ref) -/
section witness
def tX : Task String String := ⟨"n.x", ["a"], ["n", "n.x"]⟩         -- d['n']['x'] = d['a']*2
def tB : Task String String := ⟨"b", ["n", "n.y"], ["b"]⟩           -- d['b'] = d['n']['y']+1
def refs := ["a", "n", "n.x", "n.y", "b"]
def ids := ["n.x", "b"]
def s2 : Mgr String String := register (register Mgr.empty tX) tB

theorem inv_after_registers : invOn refs ids s2 = true := by decide
theorem repaired_unregister_ok : invOn refs ids (unregister s2 "b") = true := by decide
/-- D3: the pinned `unregister` leaves the edge n.x → b behind -/
theorem pinned_unregister_stale :
    invOn refs ids (unregisterPinned id s2 "b") = false ∧
    RC.cnt (DD.get (unregisterPinned id s2 "b").rtasks "n.x") "b" = 1 := by decide
-- the test suite's multiplicity (test_ref_count): task b[0] feeds c through both b and b[0]
def tC : Task String String := ⟨"c", ["b", "b[0]"], ["c"]⟩
def tB0 : Task String String := ⟨"b[0]", ["a"], ["b", "b[0]"]⟩
theorem ref_count_two : RC.cnt (DD.get (register (register Mgr.empty tC) tB0).rtasks "b[0]") "c" = 2 := by decide
end witness

#print axioms pinned_unregister_stale
end Index
