import XModel.StoreComm
/-!
A container tree reached from `τ` by writes to a fixed family `W` of pairwise prefix-incomparable, existing
locations is determined by the values it holds at `W`: it is `τ` with every `w ∈ W` overwritten by the current
value (normal form).  Hence two such trees that agree on `W` are equal — the fact that turns "every definition
holds" (C01) plus "same free inputs" into equality of whole containers (C13).
-/
namespace Store

/-! ### writing back what is there -/

theorem KVs.update_lookup_id (kvs : KVs) (k : Key) (a : Val) (h : KVs.lookup kvs k = some a) :
    KVs.update kvs k a = kvs := by
  induction kvs with
  | nil => simp [KVs.lookup] at h
  | cons kv rest ih =>
    obtain ⟨k0, v0⟩ := kv
    by_cases hk : k0 = k
    · subst hk
      simp only [KVs.lookup, if_true, Option.some.injEq] at h
      subst h
      simp [KVs.update]
    · simp only [KVs.lookup, hk, if_false] at h
      simp [KVs.update, hk, ih h]

theorem Vals.set?_get?_id : ∀ (xs : Vals) (n : Nat) (a : Val), Vals.get? xs n = some a → Vals.set? xs n a = some xs
  | [], _, _, h => by simp [Vals.get?] at h
  | v :: rest, 0, a, h => by
    simp only [Vals.get?, Option.some.injEq] at h
    subst h; rfl
  | v :: rest, n+1, a, h => by
    simp only [Vals.get?] at h
    simp [Vals.set?, Vals.set?_get?_id rest n a h]

theorem setStep_getStep_id {v a : Val} {s : Step} (h : getStep v s = .ok a) : setStep v s a = .ok v := by
  cases v with
  | int i => cases s <;> simp [getStep] at h
  | none => cases s <;> simp [getStep] at h
  | nan => cases s <;> simp [getStep] at h
  | dict kvs =>
    cases s with
    | attr _ => simp [getStep] at h
    | item k =>
      simp only [getStep] at h
      cases hl : KVs.lookup kvs k with
      | none => simp [hl] at h
      | some x =>
        simp only [hl, Except.ok.injEq] at h
        subst h
        simp [setStep, KVs.update_lookup_id kvs k x hl]
  | obj as =>
    cases s with
    | item _ => simp [getStep] at h
    | attr a1 =>
      simp only [getStep] at h
      cases hl : KVs.lookup as (.str a1) with
      | none => simp [hl] at h
      | some x =>
        simp only [hl, Except.ok.injEq] at h
        subst h
        simp [setStep, KVs.update_lookup_id as _ x hl]
  | list xs =>
    cases s with
    | attr _ => simp [getStep] at h
    | item k =>
      cases k with
      | str _ => simp [getStep] at h
      | int i =>
        simp only [getStep] at h
        split at h
        · next n hn =>
          split at h
          · next x hg =>
            simp only [Except.ok.injEq] at h
            subst h
            simp [setStep, hn, Vals.set?_get?_id xs n x hg]
          · cases h
        · cases h

/-- writing back the value a location holds changes nothing -/
theorem set_get_id : ∀ (p : List Step) (v a : Val), p ≠ [] → get v p = .ok a → set v p a = .ok v
  | [], _, _, h, _ => absurd rfl h
  | [s], v, a, _, h => by
    simp only [get, bind, Except.bind] at h
    cases hs : getStep v s with
    | error e => simp [hs] at h
    | ok c =>
      simp only [hs, Except.ok.injEq] at h
      subst h
      simpa [set] using setStep_getStep_id hs
  | s :: t :: p, v, a, _, h => by
    simp only [get, bind, Except.bind] at h
    cases hs : getStep v s with
    | error e => simp [hs] at h
    | ok c =>
      simp only [hs] at h
      have ih := set_get_id (t :: p) c a (by simp) (by simpa [get, bind, Except.bind] using h)
      rw [set_cons_cons]
      simp only [hs, ih, bind, Except.bind]
      exact setStep_getStep_id hs

/-- a second write to the same location wins -/
theorem set_overwrite : ∀ (p : List Step) (v v1 x : Val) (y : Val), set v p x = .ok v1 → set v1 p y = set v p y
  | [], _, _, _, _, h => by simp [set] at h
  | [s], v, v1, x, y, h => by
    simp only [set] at h ⊢
    exact setStep_overwrite y h
  | s :: t :: p, v, v1, x, y, h => by
    obtain ⟨w, hw, hw'⟩ := set_first_step h
    rcases hw' with ⟨e, _⟩ | ⟨_, c, hc, hs⟩
    · cases e
    · have hg : getStep v1 s = .ok w := getStep_setStep_same hw
      rw [set_cons_cons, set_cons_cons]
      simp only [hg, hc, bind, Except.bind]
      rw [set_overwrite (t :: p) c w x y hs]
      cases set c (t :: p) y with
      | error e => rfl
      | ok c'' => exact setStep_overwrite c'' hw

/-! ### families of locations -/

abbrev LPath := List Step

/-- pairwise prefix-incomparable, canonical, non-empty paths -/
structure Family (W : List LPath) : Prop where
  nodup : W.Nodup
  canon : ∀ w ∈ W, ∀ s ∈ w, s.canon
  inc : ∀ w ∈ W, ∀ w' ∈ W, w ≠ w' → Incomparable w w'

def AllExist (W : List LPath) (σ : Val) : Prop := ∀ w ∈ W, ∃ a, get σ w = .ok a

theorem incomparable_ne_nil {p q : LPath} (h : Incomparable p q) : p ≠ [] := by
  intro e; subst e; simp [Incomparable] at h

theorem allExist_set {W : List LPath} (hW : Family W) {σ σ' : Val} {p : LPath} {a : Val} (hp : p ∈ W)
    (hex : AllExist W σ) (hs : set σ p a = .ok σ') : AllExist W σ' := by
  intro w hw
  by_cases e : p = w
  · subst e; exact ⟨a, get_set_same hs⟩
  · obtain ⟨b, hb⟩ := hex w hw
    exact ⟨b, by rw [get_set_incomparable hs (hW.inc p hp w hw e) (hW.canon p hp) (hW.canon w hw)]; exact hb⟩

/-- reachable by writes to members of `W` -/
inductive Reach (W : List LPath) (τ : Val) : Val → Prop
  | refl : Reach W τ τ
  | step {σ σ' : Val} {p : LPath} {a : Val} : Reach W τ σ → p ∈ W → set σ p a = .ok σ' → Reach W τ σ'

theorem Reach.allExist {W : List LPath} (hW : Family W) {τ σ : Val} (h : Reach W τ σ) (hex : AllExist W τ) :
    AllExist W σ := by
  induction h with
  | refl => exact hex
  | step _ hp hs ih => exact allExist_set hW hp ih hs

theorem Reach.trans {W : List LPath} {τ σ ρ : Val} (h1 : Reach W τ σ) (h2 : Reach W σ ρ) : Reach W τ ρ := by
  induction h2 with
  | refl => exact h1
  | step _ hp hs ih => exact Reach.step ih hp hs

theorem Reach.mono {W W' : List LPath} (hsub : ∀ w ∈ W, w ∈ W') {τ σ : Val} (h : Reach W τ σ) : Reach W' τ σ := by
  induction h with
  | refl => exact Reach.refl
  | step _ hp hs ih => exact Reach.step ih (hsub _ hp) hs

/-- overwrite a list of locations in order -/
def ovL : Val → List (LPath × Val) → Except Err Val
  | σ, [] => .ok σ
  | σ, (w, x) :: rest => match set σ w x with | .ok σ' => ovL σ' rest | .error e => .error e

/-- a write at the end of a run of writes to other members can be done first -/
theorem ovL_comm_front {W : List LPath} (hW : Family W) (p : LPath) (hp : p ∈ W) (a : Val) :
    ∀ (R : List (LPath × Val)) (τ σ σ' : Val), AllExist W τ → (∀ r ∈ R, r.1 ∈ W ∧ r.1 ≠ p) →
      ovL τ R = .ok σ → set σ p a = .ok σ' → ∃ τ', set τ p a = .ok τ' ∧ ovL τ' R = .ok σ'
  | [], τ, σ, σ', _, _, h, hs => by
    simp only [ovL, Except.ok.injEq] at h
    subst h
    exact ⟨σ', hs, rfl⟩
  | (r, x) :: R, τ, σ, σ', hex, hR, h, hs => by
    obtain ⟨hrW, hrp⟩ := hR (r, x) (List.mem_cons_self ..)
    simp only [ovL] at h
    cases hτ : set τ r x with
    | error e => simp [hτ] at h
    | ok τ2 =>
      simp only [hτ] at h
      have hex2 := allExist_set hW hrW hex hτ
      obtain ⟨τ2', h1, h2⟩ := ovL_comm_front hW p hp a R τ2 σ σ' hex2
        (fun q hq => hR q (List.mem_cons_of_mem _ hq)) h hs
      obtain ⟨pr, hpr⟩ := hex r hrW
      obtain ⟨pp, hpp⟩ := hex p hp
      obtain ⟨τ', h3, h4⟩ := set_comm r p τ τ2 τ2' x a pr pp (hW.inc r hrW p hp hrp) (hW.canon r hrW) (hW.canon p hp)
        hpr hpp hτ h1
      exact ⟨τ', h3, by simp only [ovL, h4]; exact h2⟩

/-- pushing one more write into the normal form -/
theorem ovL_push : ∀ (W W0 : List LPath), Family W0 → (∀ w ∈ W, w ∈ W0) → W.Nodup →
    ∀ (f : LPath → Val) (p : LPath) (a : Val) (τ σ σ' : Val), p ∈ W → AllExist W0 τ →
      ovL τ (W.map (fun w => (w, f w))) = .ok σ → set σ p a = .ok σ' →
      ovL τ (W.map (fun w => (w, if w = p then a else f w))) = .ok σ'
  | [], _, _, _, _, _, p, _, _, _, _, hp, _, _, _ => by cases hp
  | w :: W, W0, hW0, hsub, hnd, f, p, a, τ, σ, σ', hp, hex, h, hs => by
    have hn : w ∉ W ∧ W.Nodup := by simpa using hnd
    have hwW0 : w ∈ W0 := hsub w (List.mem_cons_self ..)
    simp only [List.map_cons, ovL] at h ⊢
    cases hτ : set τ w (f w) with
    | error e => simp [hτ] at h
    | ok τ1 =>
      simp only [hτ] at h
      have hex1 := allExist_set hW0 hwW0 hex hτ
      by_cases hwp : w = p
      · subst hwp
        simp only [if_true]
        -- move the final write to the front, where it overwrites the first one
        obtain ⟨τ1', h1, h2⟩ := ovL_comm_front hW0 w hwW0 a (W.map (fun w' => (w', f w'))) τ1 σ σ' hex1
          (by
            intro r hr
            obtain ⟨w', hw', rfl⟩ := List.mem_map.mp hr
            exact ⟨hsub w' (List.mem_cons_of_mem _ hw'), fun e => hn.1 (e ▸ hw')⟩)
          h hs
        rw [set_overwrite w τ τ1 (f w) a hτ] at h1
        simp only [h1]
        have : W.map (fun w' => (w', if w' = w then a else f w')) = W.map (fun w' => (w', f w')) := by
          apply List.map_congr_left
          intro w' hw'
          have : w' ≠ w := fun e => hn.1 (e ▸ hw')
          simp [this]
        rw [this]
        exact h2
      · have hpW : p ∈ W := by
          rcases List.mem_cons.mp hp with e | e
          · exact absurd e.symm hwp
          · exact e
        simp only [hwp, if_false, hτ]
        exact ovL_push W W0 hW0 (fun w' hw' => hsub w' (List.mem_cons_of_mem _ hw')) hn.2 f p a τ1 σ σ' hpW hex1 h hs

/-- the value a tree holds at a location (`none` where it cannot be read) -/
def cur (σ : Val) (w : LPath) : Val := match get σ w with | .ok x => x | .error _ => .none

theorem ovL_id : ∀ (W : List LPath) (τ : Val), (∀ w ∈ W, w ≠ [] ∧ ∃ a, get τ w = .ok a) →
    ovL τ (W.map (fun w => (w, cur τ w))) = .ok τ
  | [], _, _ => rfl
  | w :: W, τ, h => by
    obtain ⟨hne, a, ha⟩ := h w (List.mem_cons_self ..)
    simp only [List.map_cons, ovL, cur, ha]
    rw [set_get_id w τ a hne ha]
    exact ovL_id W τ (fun w' hw' => h w' (List.mem_cons_of_mem _ hw'))

/-- **normal form**: a tree reached by writes to `W` is the start tree with `W` overwritten by its current values -/
theorem Reach.normal_form {W : List LPath} (hW : Family W) (hne : ∀ w ∈ W, w ≠ []) {τ σ : Val} (h : Reach W τ σ)
    (hex : AllExist W τ) : ovL τ (W.map (fun w => (w, cur σ w))) = .ok σ := by
  induction h with
  | refl => exact ovL_id W τ (fun w hw => ⟨hne w hw, hex w hw⟩)
  | @step σ σ' p a hr hp hs ih =>
    have := ovL_push W W hW (fun _ h => h) hW.nodup (cur σ) p a τ σ σ' hp hex ih hs
    have hcur : W.map (fun w => (w, if w = p then a else cur σ w)) = W.map (fun w => (w, cur σ' w)) := by
      apply List.map_congr_left
      intro w hw
      by_cases e : w = p
      · subst e
        simp [cur, get_set_same hs]
      · have : get σ' w = get σ w :=
          get_set_incomparable hs (hW.inc p hp w hw (fun e' => e e'.symm)) (hW.canon p hp) (hW.canon w hw)
        simp [e, cur, this]
    rw [← hcur]
    exact this

/-- **two trees reached by writes to `W` that agree on `W` are equal** -/
theorem Reach.eq_of_agree {W : List LPath} (hW : Family W) (hne : ∀ w ∈ W, w ≠ []) {τ σ σ' : Val}
    (h1 : Reach W τ σ) (h2 : Reach W τ σ') (hex : AllExist W τ) (hag : ∀ w ∈ W, get σ w = get σ' w) : σ = σ' := by
  have n1 := h1.normal_form hW hne hex
  have n2 := h2.normal_form hW hne hex
  have : W.map (fun w => (w, cur σ w)) = W.map (fun w => (w, cur σ' w)) := by
    apply List.map_congr_left
    intro w hw
    simp [cur, hag w hw]
  rw [this, n2] at n1
  exact (Except.ok.inj n1).symm

end Store
