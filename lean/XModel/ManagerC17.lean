import XModel.ManagerFrame
/-!
# C17, last sentence: after `unfreeze_tree()` the manager behaves as if it had never been frozen

A frozen manager is simulated step by step by the never-frozen one: every call is either *rejected* (`ValueError`,
whole state untouched) or does exactly what it does on the unfrozen manager, the flag being neither read nor
written on that path.  Hence, for every history `cs` of API calls made while frozen,

    unfreeze (run frozen cs)  =  run never-frozen (the calls of cs that were not rejected)

as *whole states* (containers, task table, the four indices with their insertion orders, knob memories): nothing
that any later call can read distinguishes the two managers.
-/
namespace Manager
open Store Push Index

/-- `freeze_tree()` / `unfreeze_tree()` -/
def setF (b : Bool) (s : MState) : MState := { s with frozen := b }

theorem setF_setF (b c : Bool) (s : MState) : setF b (setF c s) = setF b s := rfl
theorem setF_self (s : MState) : setF s.frozen s = s := by cases s; rfl

/-! ### nothing that runs reads or writes the flag -/

theorem writeRef_flag (b : Bool) (s : MState) (p : Path) (v : Val) :
    writeRef (setF b s) p v = (setF b (writeRef s p v).1, (writeRef s p v).2) := by
  unfold writeRef setF
  simp only
  split
  · rfl
  · split <;> rfl

theorem runBody_flag (b : Bool) : ∀ (body : List (Path × Expr)) (s : MState),
    runBody (setF b s) body = (setF b (runBody s body).1, (runBody s body).2)
  | [], _ => rfl
  | (p, e) :: rest, s => by
    simp only [runBody]
    have he : evalE (setF b s) e = evalE s e := rfl
    rw [he]
    cases evalE s e with
    | error x => rfl
    | ok v =>
      simp only
      rw [writeRef_flag]
      generalize writeRef s p v = r
      obtain ⟨s1, x⟩ := r
      cases x with
      | some x => rfl
      | none => exact runBody_flag b rest s1

theorem runKnobLoop_flag (b : Bool) (delta : Val) : ∀ (l : List (Int × Path)) (s : MState),
    runKnobLoop (setF b s) delta l = (setF b (runKnobLoop s delta l).1, (runKnobLoop s delta l).2)
  | [], _ => rfl
  | (w, t) :: rest, s => by
    simp only [runKnobLoop]
    have hg : get (setF b s).store t = get s.store t := rfl
    rw [hg]
    cases get s.store t with
    | error e => rfl
    | ok old =>
      simp only
      cases pyBin "Mul" (.int w) delta with
      | error e => rfl
      | ok wd =>
        simp only
        cases pyBin "Add" old wd with
        | error e => rfl
        | ok nv =>
          simp only
          rw [writeRef_flag]
          generalize writeRef s t nv = r
          obtain ⟨s1, x⟩ := r
          cases x with
          | some x => rfl
          | none => exact runKnobLoop_flag b delta rest s1

theorem runTask_flag (b : Bool) (s : MState) (t : MTask) :
    runTask (setF b s) t = (setF b (runTask s t).1, (runTask s t).2) := by
  unfold runTask
  cases t.kind with
  | expr e =>
    simp only
    have he : evalE (setF b s) e = evalE s e := rfl
    rw [he]
    cases evalE s e with
    | error x => rfl
    | ok v => exact writeRef_flag b s t.id v
  | func body =>
    simp only
    have := runBody_flag b body { s with trace := s.trace ++ [(false, t.id)] }
    have hs : ({ setF b s with trace := (setF b s).trace ++ [(false, t.id)] } : MState) =
        setF b { s with trace := s.trace ++ [(false, t.id)] } := rfl
    rw [hs, this]
    rfl
  | knob src ws tars =>
    simp only
    have hg : get (setF b s).store src = get s.store src := rfl
    rw [hg]
    cases get s.store src with
    | error e => rfl
    | ok value =>
      simp only
      have hp : (setF b s).prev = s.prev := rfl
      rw [hp]
      cases pyBin "Sub" value (lookPrev s.prev t.id) with
      | error e => rfl
      | ok delta =>
        simp only
        rw [runKnobLoop_flag]
        generalize runKnobLoop s delta (ws.zip tars) = r
        obtain ⟨s1, x⟩ := r
        cases x with
        | some x => rfl
        | none => rfl

theorem runTasks_flag (b : Bool) : ∀ (l : List MTask) (s : MState),
    runTasks (setF b s) l = (setF b (runTasks s l).1, (runTasks s l).2)
  | [], _ => rfl
  | t :: rest, s => by
    simp only [runTasks]
    rw [runTask_flag]
    generalize runTask s t = r
    obtain ⟨s1, x⟩ := r
    cases x with
    | some x => rfl
    | none => exact runTasks_flag b rest s1

theorem writeAndRun_flag (b : Bool) (sched : Sched) (s : MState) (p : Path) (v : Val) :
    writeAndRun sched (setF b s) p v = (setF b (writeAndRun sched s p v).1, (writeAndRun sched s p v).2) := by
  unfold writeAndRun
  rw [writeRef_flag]
  generalize writeRef s p v = r
  obtain ⟨s1, x⟩ := r
  cases x with
  | some x => rfl
  | none =>
    simp only
    have h1 : (setF b s1).idx = s1.idx := rfl
    have h2 : (setF b s1).defs = s1.defs := rfl
    rw [h1, h2]
    cases (sched (findTaskids s1.idx (chainR p))).mapM (lookTask s1.defs) with
    | error x => rfl
    | ok l => exact runTasks_flag b l s1

theorem setValue_plain_flag (b : Bool) (sched : Sched) (s : MState) (p : Path) (v : Val)
    (hl : lookDef s.defs p = none) :
    setValue sched (setF b s) p v = (setF b (setValue sched s p v).1, (setValue sched s p v).2) := by
  have hl' : lookDef (setF b s).defs p = none := hl
  unfold setValue
  simp only [hl, hl']
  exact writeAndRun_flag b sched s p v

theorem verify_flag (b : Bool) (s : MState) : verify (setF b s) = (setF b (verify s).1, (verify s).2) := by
  unfold verify
  simp only
  have hc : cleanup (setF b s) = setF b (cleanup s) := rfl
  rw [hc]
  have h1 : (setF b (cleanup s)).idx = (cleanup s).idx := rfl
  have h2 : (setF b (cleanup s)).defs = (cleanup s).defs := rfl
  rw [h1, h2]
  split <;> rfl

/-- a `load` that a frozen manager lets through (every pair skipped) is the same no-op on the unfrozen one -/
theorem load_frozen_none (s : MState) (ow : Bool) : ∀ pairs : List (Path × Expr),
    (load (setF true s) ow pairs).2 = none → load s ow pairs = (s, none) := by
  intro pairs
  induction pairs with
  | nil => intro _; rfl
  | cons pe rest ih =>
    obtain ⟨p, e⟩ := pe
    intro h
    have hd : (setF true s).defs = s.defs := rfl
    simp only [load, hd] at h ⊢
    cases hl : lookDef s.defs p with
    | some t =>
      rw [hl] at h
      simp only at h ⊢
      cases ow with
      | true =>
        simp only [if_true, unregister_frozen (setF true s) p rfl] at h
        cases h
      | false =>
        simp only [Bool.false_eq_true, if_false] at h ⊢
        exact ih h
    | none =>
      rw [hl] at h
      simp only [register_frozen (setF true s) _ rfl] at h
      cases h

/-! ### one call: rejected, or simulated -/

/-- the calls a frozen manager rejects (as a decidable test on the frozen state) -/
def rejectedB (sf : MState) : Call → Bool
  | .setValue p _ => (lookDef sf.defs p).isSome
  | .setExpr _ _ => true
  | .inplace op p operand =>
    match exprOf sf p with
    | some _ => true
    | none =>
      match get sf.store p with
      | .error _ => false
      | .ok old =>
        match operand with
        | .lit w => (match pyBinRaw op old w with
            | .error _ => false
            | .ok _ => (lookDef sf.defs p).isSome)
        | _ => true
  | .register _ => true
  | .unregister _ => true
  | .load ow pairs => (match (load sf ow pairs).2 with | some _ => true | none => false)
  | .refresh => true
  | .cleanup => false
  | .verify => false

theorem setValue_sim (sched : Sched) (s : MState) (hs : s.frozen = false) (p : Path) (v : Val) :
    (((lookDef s.defs p).isSome = true ∧ setValue sched (setF true s) p v = (setF true s, some .valueError)) ∨
     ((lookDef s.defs p).isSome = false ∧
      setValue sched (setF true s) p v = (setF true (setValue sched s p v).1, (setValue sched s p v).2) ∧
      (setValue sched s p v).1.frozen = false)) := by
  cases hl : lookDef s.defs p with
  | some t =>
    exact Or.inl ⟨rfl, setValue_frozen_defined sched (setF true s) p v t rfl hl⟩
  | none =>
    refine Or.inr ⟨rfl, setValue_plain_flag true sched s p v hl, ?_⟩
    rw [(setValue_plain_graph sched s p v hl).2.2]; exact hs

/-- **one call on a frozen manager**: rejected with `ValueError` and the whole state untouched, or exactly the
    call on the never-frozen manager (same outcome, same new state up to the flag) -/
theorem frozen_sim (sched : Sched) (s : MState) (hs : s.frozen = false) (c : Call) :
    (rejectedB (setF true s) c = true ∧ apply sched (setF true s) c = (setF true s, some .valueError)) ∨
    (rejectedB (setF true s) c = false ∧
     apply sched (setF true s) c = (setF true (apply sched s c).1, (apply sched s c).2) ∧
     (apply sched s c).1.frozen = false) := by
  have hfz : (setF true s).frozen = true := rfl
  cases c with
  | setValue p v =>
    simp only [apply, rejectedB]
    have hd : (setF true s).defs = s.defs := rfl
    rw [hd]
    exact setValue_sim sched s hs p v
  | setExpr p e => exact Or.inl ⟨rfl, by simp [apply, setExpr_frozen sched (setF true s) p e hfz]⟩
  | inplace op p operand =>
    simp only [apply, rejectedB]
    have hx : exprOf (setF true s) p = exprOf s p := rfl
    have hg' : get (setF true s).store p = get s.store p := rfl
    have hd : (setF true s).defs = s.defs := rfl
    rw [hx, hg', hd]
    unfold inplace
    rw [hx, hg']
    cases he : exprOf s p with
    | some e => exact Or.inl ⟨rfl, by simp [setExpr_frozen sched (setF true s) p _ hfz]⟩
    | none =>
      simp only
      cases hg : get s.store p with
      | error e => exact Or.inr ⟨rfl, rfl, hs⟩
      | ok old =>
        simp only
        cases operand with
        | lit w =>
          simp only
          cases hb : pyBinRaw op old w with
          | error e => exact Or.inr ⟨rfl, rfl, hs⟩
          | ok v =>
            simp only
            exact setValue_sim sched s hs p v
        | ref q => exact Or.inl ⟨rfl, by simp [setExpr_frozen sched (setF true s) p _ hfz]⟩
        | bin o l r => exact Or.inl ⟨rfl, by simp [setExpr_frozen sched (setF true s) p _ hfz]⟩
        | un o a => exact Or.inl ⟨rfl, by simp [setExpr_frozen sched (setF true s) p _ hfz]⟩
  | register t => exact Or.inl ⟨rfl, by simp [apply, register_frozen (setF true s) t hfz]⟩
  | unregister id => exact Or.inl ⟨rfl, by simp [apply, unregister_frozen (setF true s) id hfz]⟩
  | load ow pairs =>
    simp only [apply, rejectedB]
    have hl := load_frozen (setF true s) ow hfz pairs
    rcases hl.2 with h2 | h2
    · refine Or.inl ⟨by rw [h2], ?_⟩
      exact Prod.ext hl.1 h2
    · refine Or.inr ⟨by rw [h2], ?_, ?_⟩
      · rw [load_frozen_none s ow pairs h2]
        exact Prod.ext hl.1 h2
      · rw [load_frozen_none s ow pairs h2]; exact hs
  | refresh => exact Or.inl ⟨rfl, by simp [apply, refresh_frozen (setF true s) hfz]⟩
  | cleanup => exact Or.inr ⟨rfl, rfl, hs⟩
  | verify =>
    refine Or.inr ⟨rfl, ?_, ?_⟩
    · simp only [apply]; exact verify_flag true s
    · simp only [apply]; rw [(verify_defs s).2.2]; exact hs

/-! ### histories -/

/-- the calls of a history made on a frozen manager that are *not* rejected -/
def effective (sched : Sched) : MState → List Call → List Call
  | _, [] => []
  | sf, c :: cs =>
    if rejectedB sf c then effective sched sf cs else c :: effective sched (apply sched sf c).1 cs

theorem effective_sublist (sched : Sched) : ∀ (cs : List Call) (sf : MState), (effective sched sf cs).Sublist cs
  | [], _ => List.Sublist.slnil
  | c :: cs, sf => by
    simp only [effective]
    split
    · exact List.Sublist.cons _ (effective_sublist sched cs sf)
    · exact List.Sublist.cons_cons _ (effective_sublist sched cs _)

/-- **freeze, any history of calls, unfreeze = the never-frozen manager with the non-rejected calls**, as whole
    states -/
theorem unfreeze_as_never_frozen (sched : Sched) : ∀ (cs : List Call) (s : MState), s.frozen = false →
    setF false (applyAll sched (setF true s) cs) = applyAll sched s (effective sched (setF true s) cs)
  | [], s, hs => by
    simp only [applyAll, effective, setF_setF]
    rw [← hs]; exact setF_self s
  | c :: cs, s, hs => by
    simp only [applyAll, effective]
    rcases frozen_sim sched s hs c with ⟨hr, ha⟩ | ⟨hr, ha, hf⟩
    · rw [hr, ha]
      simp only [if_true]
      exact unfreeze_as_never_frozen sched cs s hs
    · rw [hr, ha]
      simp only [Bool.false_eq_true, if_false, applyAll]
      exact unfreeze_as_never_frozen sched cs _ hf

/-- every rejected call raised `ValueError` and changed nothing; every other call had the outcome it has on the
    never-frozen manager — the per-call form of the statement above, along the whole history -/
theorem frozen_outcomes (sched : Sched) (s : MState) (hs : s.frozen = false) (c : Call) :
    (apply sched (setF true s) c).2 = (if rejectedB (setF true s) c then some .valueError else (apply sched s c).2) := by
  rcases frozen_sim sched s hs c with ⟨hr, ha⟩ | ⟨hr, ha, _⟩
  · rw [hr, ha]; rfl
  · rw [hr, ha]; rfl

end Manager
