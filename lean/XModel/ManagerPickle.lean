import XModel.ManagerBisim2
/-!
# C12 on the manager model: `pickle.loads(pickle.dumps(manager))`

What Python does when a `Manager` is pickled: its `__dict__` is pickled —

* `containers` (label → `Ref` → the container object): the model's `store`;
* `tasks` (task id → task object holding expression nodes, and for a `LinearKnob` its `prev_value`): the model's
  `defs` and `prev`;
* the four index dictionaries `rdeps` / `rtasks` / `deptasks` / `tartasks` (`defaultdict(RefCount)` keyed by refs): the
  model's `idx`;
* the freeze flag.

Refs and expression nodes are rebuilt through their `__reduce__` (class + constructor arguments, hash recomputed).
A `dict` (also `defaultdict`, also the `dict` subclass `RefCount`) is rebuilt empty and its items are re-inserted one
by one IN THEIR STORED ORDER (`SETITEMS`), so the restored indices are the OLD indices re-keyed by equal refs — they
are not regenerated from the task table (that would be `clone()` / `refresh()`: `cloneOf`).

`pickleM` below transcribes this on `MState`.  THE PLAIN RESULT (`pickleM_eq_resetT`): for a state that satisfies the
index invariant `MInv` — which contains "no dictionary lists a key twice", a fact about Python dictionaries that the
model's association lists do not have by construction —

    pickleM s = resetT s = { s with trace := [] }

i.e. on the functional model the restored manager IS the original with an empty event log, indices included (same
entries, same counts, same order).  Everything else in this file is a consequence of that equation and of the theorems
of `ManagerBisim.lean` / `ManagerBisim2.lean` about two states with the same task table.

## The three pieces C12 is composed of, and where each is proved

1. NODE ROUND TRIP — every expression node / ref rebuilt by `cls(*args)` from its `__reduce__` is an equal node.  On
   the model an expression is a value of the inductive type `Expr` and `rebuildExpr` (constructor by constructor) is
   the identity (`rebuildExpr_eq`): the model CANNOT see a class whose `__reduce__` drops or reorders an argument.
   That is the per-run obligation of Tie A: the reduce / rebuild table is regenerated from the source on every run
   and `RefsTable.unpickle_pickle_universe` (wrapped as `C12_reduce_rebuild`) says that a valid table round-trips
   every tree of the class universe.  `rebuildExpr_eq` is justified by that obligation, not the other way round.
2. MANAGER STATE — this file: same definitions, same indices, self-check passes, same dump, same behaviour under any
   further history with any two legal schedulers.
3. ALIASING — "assignments to either one never affect the other".  See the section "independence" at the end: not a
   statement the functional model can make; proved on the heap model (`PickleHeap.copies_independent`) and tied to the
   real pickling of a real `Manager`'s containers by the suite `heap`.

## Assumed (not proved anywhere in Lean)

* pickle re-inserts dictionary items in their stored order (`rebuildDict` is `d = {}; for k, v in items: d[k] = v`);
* `hash` / `==` of a rebuilt ref agree with the original's, so that two keys are equal after the round trip iff they
  were equal before (C06) — on the model a ref is a `Path` and its rebuild is the identity;
* `Manager` has no `__getstate__` / `__reduce__` of its own that drops a field: its `__dict__` is what is pickled;
* the containers themselves are picklable (the property's premise): `copyVal` is total.

## Fields of `MState` that are not attributes of the Python `Manager`

* `trace` — the event log of the CURRENT call, an instrument of the trace judge; the driver clears it before every
  call.  A restored manager starts with an empty log: `trace := []`.
* `faultIn` — the fault-injection countdown of the test harness ("k more container writes succeed, the next one
  raises").  It stands for the state of the instrumented container, which travels with the containers: COPIED.  The
  driver arms it for one call and disarms it after the call, so in every state between two calls it is `none` on both
  sides (`pickleM_faultIn_none`).  (Had `pickleM` reset it, the theorems below would need `s.faultIn = none`.)
* `idx.tasks` — the index model's own view of the task table (`MInv.link`: `idx.tasks = defs.map toIdx`), not a
  separate Python object: rebuilt like `defs`.
-/
namespace Manager
open Store Push Index

/-! ## the pieces of the round trip -/

/-- an expression rebuilt node by node through the constructors (`cls(*args)` of each node's `__reduce__`); a ref is
    a `Path` in the model, rebuilt as itself -/
def rebuildExpr : Expr → Expr
  | .lit v => .lit v
  | .ref p => .ref p
  | .bin op l r => .bin op (rebuildExpr l) (rebuildExpr r)
  | .un op a => .un op (rebuildExpr a)

/-- on the model the node-by-node rebuild is the identity — see piece 1 of the header: the content of "every node
    round-trips" is `RefsTable.unpickle_pickle_universe`, a per-run obligation on the table regenerated from the
    source; this lemma only says that `Expr` has no room for a faulty `__reduce__` -/
theorem rebuildExpr_eq : ∀ e : Expr, rebuildExpr e = e
  | .lit _ => rfl
  | .ref _ => rfl
  | .bin op l r => by rw [rebuildExpr, rebuildExpr_eq l, rebuildExpr_eq r]
  | .un op a => by rw [rebuildExpr, rebuildExpr_eq a]

def rebuildKind : Kind → Kind
  | .expr e => .expr (rebuildExpr e)
  | .func body => .func (body.map (fun pe => (pe.1, rebuildExpr pe.2)))
  | .knob src ws tars => .knob src ws tars

/-- a task object rebuilt: same id, declared dependencies and targets; expressions rebuilt -/
def rebuildTask (t : MTask) : MTask := ⟨t.id, rebuildKind t.kind, t.deps, t.tars⟩

theorem rebuildKind_eq : ∀ k : Kind, rebuildKind k = k
  | .expr e => by rw [rebuildKind, rebuildExpr_eq]
  | .func body => by
    rw [rebuildKind]
    congr 1
    induction body with
    | nil => rfl
    | cons pe rest ih => rw [List.map_cons, ih, rebuildExpr_eq]
  | .knob _ _ _ => rfl

theorem rebuildTask_eq (t : MTask) : rebuildTask t = t := by
  cases t; simp only [rebuildTask, rebuildKind_eq]

mutual
/-- deep copy of a container tree: an equal VALUE.  (That the copy is a fresh OBJECT is not expressible here: the
    model's store is a value; identity is the subject of `PickleHeap`.) -/
def copyVal : Val → Val
  | .int i => .int i
  | .none => .none
  | .nan => .nan
  | .dict kvs => .dict (copyKVs kvs)
  | .list xs => .list (copyVals xs)
  | .obj attrs => .obj (copyKVs attrs)
def copyKVs : List (Key × Val) → List (Key × Val)
  | [] => []
  | (k, v) :: rest => (k, copyVal v) :: copyKVs rest
def copyVals : List Val → List Val
  | [] => []
  | v :: rest => copyVal v :: copyVals rest
end

mutual
theorem copyVal_eq : ∀ v : Val, copyVal v = v
  | .int _ => rfl
  | .none => rfl
  | .nan => rfl
  | .dict kvs => by rw [copyVal, copyKVs_eq kvs]
  | .list xs => by rw [copyVal, copyVals_eq xs]
  | .obj attrs => by rw [copyVal, copyKVs_eq attrs]
theorem copyKVs_eq : ∀ kvs : List (Key × Val), copyKVs kvs = kvs
  | [] => rfl
  | (k, v) :: rest => by rw [copyKVs, copyVal_eq v, copyKVs_eq rest]
theorem copyVals_eq : ∀ xs : List Val, copyVals xs = xs
  | [] => rfl
  | v :: rest => by rw [copyVals, copyVal_eq v, copyVals_eq rest]
end

/-- `d[k] = v` on an insertion-ordered dictionary: an existing key keeps its position -/
def dictSet {α β : Type} [DecidableEq α] : List (α × β) → α → β → List (α × β)
  | [], k, v => [(k, v)]
  | (k', v') :: rest, k, v => if k' = k then (k', v) :: rest else (k', v') :: dictSet rest k v

/-- how pickle restores a `dict` (`defaultdict`, `RefCount`): `d = {}`, then `d[k] = f v` for the stored items in
    their stored order (`f` = the round trip of the value) -/
def rebuildDict {α β : Type} [DecidableEq α] (f : β → β) (items : List (α × β)) : List (α × β) :=
  items.foldl (fun d kv => dictSet d kv.1 (f kv.2)) []

theorem dictSet_fresh {α β : Type} [DecidableEq α] : ∀ (d : List (α × β)) (k : α) (v : β), k ∉ d.map (·.1) →
    dictSet d k v = d ++ [(k, v)]
  | [], _, _, _ => rfl
  | (k', v') :: rest, k, v, h => by
    have h' : k' ≠ k ∧ k ∉ rest.map (·.1) := by
      simp only [List.map_cons, List.mem_cons, not_or] at h
      exact ⟨fun e => h.1 e.symm, h.2⟩
    simp only [dictSet, h'.1, if_false, dictSet_fresh rest k v h'.2, List.cons_append]

theorem rebuildDict_go {α β : Type} [DecidableEq α] (f : β → β) : ∀ (items acc : List (α × β)),
    (items.map (·.1)).Nodup → (∀ k ∈ items.map (·.1), k ∉ acc.map (·.1)) →
    items.foldl (fun d kv => dictSet d kv.1 (f kv.2)) acc = acc ++ items.map (fun kv => (kv.1, f kv.2))
  | [], acc, _, _ => by simp
  | kv :: rest, acc, hnd, hd => by
    have hn : kv.1 ∉ rest.map (·.1) ∧ (rest.map (·.1)).Nodup := by simpa using hnd
    have hfresh : kv.1 ∉ acc.map (·.1) := hd kv.1 (by simp)
    rw [List.foldl_cons, dictSet_fresh acc kv.1 (f kv.2) hfresh,
      rebuildDict_go f rest (acc ++ [(kv.1, f kv.2)]) hn.2 (by
        intro k hk hmem
        simp only [List.map_append, List.map_cons, List.map_nil, List.mem_append, List.mem_singleton] at hmem
        rcases hmem with hmem | rfl
        · exact hd k (by simp only [List.map_cons, List.mem_cons]; exact Or.inr hk) hmem
        · exact hn.1 hk)]
    simp

/-- a dictionary whose keys are distinct — every Python dictionary — is restored item for item, in order -/
theorem rebuildDict_nodup {α β : Type} [DecidableEq α] (f : β → β) (items : List (α × β))
    (hnd : (items.map (·.1)).Nodup) : rebuildDict f items = items.map (fun kv => (kv.1, f kv.2)) := by
  unfold rebuildDict
  rw [rebuildDict_go f items [] hnd (by simp)]
  rfl

/-- … and is the same dictionary when the values round-trip -/
theorem rebuildDict_id {α β : Type} [DecidableEq α] (f : β → β) (items : List (α × β))
    (hnd : (items.map (·.1)).Nodup) (hf : ∀ kv ∈ items, f kv.2 = kv.2) : rebuildDict f items = items := by
  rw [rebuildDict_nodup f items hnd]
  induction items with
  | nil => rfl
  | cons kv rest ih =>
    have hn : (rest.map (·.1)).Nodup := by
      have : kv.1 ∉ rest.map (·.1) ∧ (rest.map (·.1)).Nodup := by simpa using hnd
      exact this.2
    rw [List.map_cons, hf kv (List.mem_cons_self ..),
      ih hn (fun x hx => hf x (List.mem_cons_of_mem _ hx))]

/-- one index dictionary: a `defaultdict` of `RefCount`s, both restored by re-insertion; the counts are ints -/
def pickleDD (d : DD Path Path) : DD Path Path := rebuildDict (rebuildDict id) d

/-- the task dictionary `tasks[taskid] = task`, as the list of its values in insertion order -/
def pickleDefs (defs : List MTask) : List MTask :=
  (rebuildDict rebuildTask (defs.map (fun t => (t.id, t)))).map (·.2)

/-- the index model's view of the same dictionary -/
def pickleIdxTasks (ts : List (Task Path Path)) : List (Task Path Path) :=
  (rebuildDict id (ts.map (fun t => (t.id, t)))).map (·.2)

/-- **the model's view of `pickle.loads(pickle.dumps(manager))`** — see the header for every field -/
def pickleM (s : MState) : MState :=
  { store := copyVal s.store
    idx := { tasks := pickleIdxTasks s.idx.tasks
             rdeps := pickleDD s.idx.rdeps
             rtasks := pickleDD s.idx.rtasks
             deptasks := pickleDD s.idx.deptasks
             tartasks := pickleDD s.idx.tartasks }
    defs := pickleDefs s.defs
    prev := s.prev.map (fun p => (p.1, copyVal p.2))
    frozen := s.frozen
    faultIn := s.faultIn
    trace := [] }

/-! ## the round trip is the identity up to the event log -/

theorem pickleDD_eq (d : DD Path Path) (hnd : (DD.rows d).Nodup) (hwf : DD.WF d) : pickleDD d = d := by
  unfold pickleDD
  refine rebuildDict_id _ d hnd ?_
  intro r hr
  have hrow : RC.WF r.2 := by rw [← get_of_mem_rows d hnd r hr]; exact hwf r.1
  exact rebuildDict_id id r.2 hrow.1 (fun _ _ => rfl)

theorem pickleDefs_eq (defs : List MTask) (hnd : (defs.map (·.id)).Nodup) : pickleDefs defs = defs := by
  unfold pickleDefs
  rw [rebuildDict_id rebuildTask _ (by simpa [List.map_map, Function.comp_def] using hnd)
    (fun kv _ => rebuildTask_eq kv.2)]
  simp [List.map_map, Function.comp_def]

theorem pickleIdxTasks_eq (ts : List (Task Path Path)) (hnd : (ts.map (·.id)).Nodup) : pickleIdxTasks ts = ts := by
  unfold pickleIdxTasks
  rw [rebuildDict_id id _ (by simpa [List.map_map, Function.comp_def] using hnd) (fun _ _ => rfl)]
  simp [List.map_map, Function.comp_def]

theorem prev_copy_eq (prev : List (Path × Val)) : prev.map (fun p => (p.1, copyVal p.2)) = prev := by
  induction prev with
  | nil => rfl
  | cons p rest ih => rw [List.map_cons, ih, copyVal_eq]

/-- **what `pickleM` is, plainly**: under the index invariant the restored manager is the original with an empty event
    log — same containers (as a value), same task table, the SAME four index tables (entries, counts, order), same
    flag, knob memory and fault counter.  `MInv` is used only through "no dictionary lists a key twice"
    (`ids`, `link`, `rows1`–`rows4`, and the well-formedness of every `RefCount` row in `inv`); the example
    `PickleExample.dup_rows` shows an association list outside `MInv` that the re-insertion does change. -/
theorem pickleM_eq_resetT (s : MState) (hi : MInv s) : pickleM s = resetT s := by
  have h1 := pickleDD_eq s.idx.rdeps hi.rows1 hi.inv.wf1
  have h2 := pickleDD_eq s.idx.rtasks hi.rows2 hi.inv.wf2
  have h3 := pickleDD_eq s.idx.deptasks hi.rows3 hi.inv.wf3
  have h4 := pickleDD_eq s.idx.tartasks hi.rows4 hi.inv.wf4
  have h5 := pickleDefs_eq s.defs hi.ids
  have h6 : pickleIdxTasks s.idx.tasks = s.idx.tasks :=
    pickleIdxTasks_eq s.idx.tasks (by
      rw [hi.link, List.map_map]
      exact hi.ids)
  unfold pickleM resetT
  rw [h1, h2, h3, h4, h5, h6, copyVal_eq, prev_copy_eq]

/-- a manager between two calls (empty event log, as the driver keeps it) is restored as ITSELF: on the functional
    model there is nothing that distinguishes the restored manager from the original -/
theorem pickleM_eq_self (s : MState) (hi : MInv s) (ht : s.trace = []) : pickleM s = s := by
  rw [pickleM_eq_resetT s hi]
  cases s
  simp only [resetT] at ht ⊢
  rw [ht]

/-- field by field (each by the equation above) -/
theorem pickleM_fields (s : MState) (hi : MInv s) :
    (pickleM s).defs = s.defs ∧ (pickleM s).store = s.store ∧ (pickleM s).idx = s.idx ∧
    (pickleM s).frozen = s.frozen ∧ (pickleM s).prev = s.prev ∧ (pickleM s).faultIn = s.faultIn ∧
    (pickleM s).trace = [] := by
  rw [pickleM_eq_resetT s hi]
  exact ⟨rfl, rfl, rfl, rfl, rfl, rfl, rfl⟩

/-- between two calls the fault counter is `none` on the original, hence on the restored manager -/
theorem pickleM_faultIn_none (s : MState) (h : s.faultIn = none) : (pickleM s).faultIn = none := h

/-- the restored manager satisfies the index invariant -/
theorem pickleM_MInv (s : MState) (hi : MInv s) : MInv (pickleM s) := by
  rw [pickleM_eq_resetT s hi]; exact MInv_resetT hi

/-! ## same definitions, self-check, dump -/

/-- **the restored manager has the same task table** over equal containers, with the same flag, knob memory and fault
    counter, and both satisfy the index invariant.  (`SameTable` allows the two index states to differ; here they do
    not: `pickleM_fields`.)  Hypothesis `MInv s`: the state is one the manager's API can produce from `MState.init`
    (`applyAll_MInv`); needed, see `pickleM_eq_resetT`. -/
theorem pickleM_sameTable (s : MState) (hi : MInv s) : SameTable s (pickleM s) :=
  have h := pickleM_fields s hi
  ⟨h.1, h.2.1, h.2.2.2.1, h.2.2.2.2.1, h.2.2.2.2.2.1, hi, pickleM_MInv s hi⟩

/-- **the restored manager passes its consistency check** (`verify_passes` on `pickleM_MInv`) -/
theorem pickleM_verify (s : MState) (hi : MInv s) : (verify (pickleM s)).2 = none :=
  verify_passes (pickleM s) (pickleM_MInv s hi)

/-- **the restored manager dumps the same definitions** -/
theorem pickleM_dump (s : MState) (hi : MInv s) : dump (pickleM s) = dump s := by
  unfold dump; rw [(pickleM_fields s hi).1]

/-- every query (`find_deps`, `find_taskids`, index rows and key sets, `lookDef`, `exprOf`, `dump`, reading a
    location) has the same answer on the restored manager -/
theorem pickleM_queries (s : MState) (hi : MInv s) : QueriesAgree s (pickleM s) :=
  sameTable_queries (pickleM_sameTable s hi)

/-- `find_taskids` returns the same LIST (not only the same set): the indices are the same tables, so with the same
    hash seed the restored manager would even iterate in the same order; another process has another seed, which is
    what the second scheduler below stands for -/
theorem pickleM_findTaskids (s : MState) (hi : MInv s) (D : List Path) :
    findTaskids (pickleM s).idx D = findTaskids s.idx D := by
  rw [(pickleM_fields s hi).2.2.1]

/-! ## same behaviour under any further history -/

/-- **THE BEHAVIOURAL CLAUSE OF C12 on the manager model.**  Take a manager state `s` reachable through the API
    (`MInv s`), restore it (`pickleM s`), and run ANY history `cs` in the scope `BisimRun'` on the original with a
    scheduler `sched1` and on the restored manager with ANY OTHER scheduler `sched2` (a scheduler stands for the
    iteration order of Python's sets — the restored manager may live in a process with another hash seed).  Then
    * call by call the two return the same error (or none) and the states after the call are `SameTable`:
      same container contents, same definitions, same flag / knob memory, both index states valid;
    * the lists of errors are equal;
    * the final states are `SameTable`;
    * at the end every query has the same answer (`QueriesAgree`).
    Scope (`CallOK'`, file header of `ManagerBisim2.lean`): an assignment is covered when it raises before any task
    runs, or both sides run the triggered tasks in the same order (any task kinds, completing or raising), or it is in
    `ScopeT` (triggered tasks are expression / function tasks with disjoint targets …), both schedulers return a
    legal order, and it completes on the original.  NOT covered: a triggered linear knob run in two different orders;
    assignments that raise inside a task under different orders (`setValue_any_outcome` says what remains true).
    This is `bisim_history'` / `bisim_history_errors'` / `bisim_history_final'` / `bisim_history_queries'` applied to
    `pickleM_sameTable`. -/
theorem pickleM_same_behaviour (sched1 sched2 : Sched) (s : MState) (hi : MInv s) (cs : List Call)
    (hg : BisimRun' sched1 sched2 s (pickleM s) cs) :
    RelatedOutcomes (outcomes sched1 s cs) (outcomes sched2 (pickleM s) cs) ∧
    (outcomes sched2 (pickleM s) cs).map (·.2) = (outcomes sched1 s cs).map (·.2) ∧
    SameTable (applyAll sched1 s cs) (applyAll sched2 (pickleM s) cs) ∧
    QueriesAgree (applyAll sched1 s cs) (applyAll sched2 (pickleM s) cs) :=
  have h := pickleM_sameTable s hi
  ⟨bisim_history' sched1 sched2 cs _ _ h hg, bisim_history_errors' sched1 sched2 cs _ _ h hg,
   bisim_history_final' sched1 sched2 cs _ _ h hg, bisim_history_queries' sched1 sched2 cs _ _ h hg⟩

/-- after any such history both managers still pass the self-check -/
theorem pickleM_history_verify (sched1 sched2 : Sched) (s : MState) (hi : MInv s) (cs : List Call)
    (hg : BisimRun' sched1 sched2 s (pickleM s) cs) :
    (verify (applyAll sched1 s cs)).2 = none ∧ (verify (applyAll sched2 (pickleM s) cs)).2 = none :=
  have h := (pickleM_same_behaviour sched1 sched2 s hi cs hg).2.2.1
  ⟨verify_passes _ h.left, verify_passes _ h.right⟩

/-- the decidable test of the hypothesis (`bisimRunB'`) is sound for the pickled pair -/
theorem pickleM_scope_of_test (sched1 sched2 : Sched) (s : MState) (hi : MInv s) (cs : List Call)
    (hb : bisimRunB' sched1 sched2 s (pickleM s) cs = true) : BisimRun' sched1 sched2 s (pickleM s) cs :=
  bisimRunB'_sound sched1 sched2 cs s (pickleM s) (pickleM_sameTable s hi) hb

/-- **the driver's form** (event log cleared before every call, `outcomesR`), for a manager pickled between two calls:
    the hypothesis is about the ORIGINAL alone (`GoodRunR`: one manager, two schedulers) and the conclusion is
    EQUALITY of the lists of (state, error) outcomes.  By `pickleM_eq_self` this is literally `history_per_call`
    (C20 call by call): on the functional model "restored manager in another process" and "same manager under another
    hash seed" are the same thing. -/
theorem pickleM_history_per_call (sched1 sched2 : Sched) (s : MState) (hi : MInv s) (ht : s.trace = [])
    (cs : List Call) (hg : GoodRunR sched1 sched2 s cs) :
    outcomesR sched2 (pickleM s) cs = outcomesR sched1 s cs := by
  rw [pickleM_eq_self s hi ht]
  exact history_per_call sched1 sched2 cs s hi hg

/-- pickling at ANY point of a history: the manager that continues and the one that is pickled, restored and continued
    (under another scheduler) agree on the rest — `pickleM_same_behaviour` at the state the prefix has led to -/
theorem pickleM_anywhere (sched1 sched2 : Sched) (s0 : MState) (hi0 : MInv s0) (pre rest : List Call)
    (hpre : WFHist sched1 s0 pre)
    (hg : BisimRun' sched1 sched2 (applyAll sched1 s0 pre) (pickleM (applyAll sched1 s0 pre)) rest) :
    (outcomes sched2 (pickleM (applyAll sched1 s0 pre)) rest).map (·.2) =
      (outcomes sched1 (applyAll sched1 s0 pre) rest).map (·.2) ∧
    SameTable (applyAll sched1 s0 (pre ++ rest)) (applyAll sched2 (pickleM (applyAll sched1 s0 pre)) rest) := by
  have hi : MInv (applyAll sched1 s0 pre) := applyAll_MInv sched1 pre s0 hi0 hpre
  have h := pickleM_same_behaviour sched1 sched2 _ hi rest hg
  rw [applyAll_append]
  exact ⟨h.2.1, h.2.2.1⟩

/-! ## independence

"Assignments to either one never affect the other" is NOT a theorem of this file.  On a functional model it would read
"computing `apply sched (pickleM s) c` does not change the value `s`" — true of any two values of any type, with no
content.  Independence is a statement about ALIASING: the restored manager's containers, refs, tasks and index
dictionaries are fresh objects, none of which is reachable from the original.  That is proved on the heap model
(`PickleHeap.copies_independent`, `copy_disjoint`, `copy_sharing`: containers as heap objects, `deepCopy` =
`loads ∘ dumps` into fresh addresses, any interleaving of writes through original and restored roots) and is tied to
the real pickling of a real `Manager`'s containers by the correspondence suite `heap`.  What connects the two models
is only this: the `store` of `pickleM s` is the VALUE (`PickleHeap.valueOf` … `copy_iso`) of the restored containers,
which equals the value of the originals.  Hazards outside both models: a class- or module-level cache shared by all
managers; a function held in a `CallRef` / `FunctionTask` (pickled by reference, i.e. shared by design). -/

end Manager

/-! ## a concrete manager, pickled, and a six-call history on both sides

`c = a + b`, `e = c * a` (defined first, and once more after `c`, so that the indices are NOT in the order a
regeneration would give) and the function task `#F : f := a * 2 ; g := a + 1`; the original uses the model's own order
(`id`), the restored manager moves `#F` to the end of every schedule. -/
namespace PickleExample
open Manager Store Push Index

def da : Path := [.item (.str "d"), .item (.str "a")]
def db : Path := [.item (.str "d"), .item (.str "b")]
def dc : Path := [.item (.str "d"), .item (.str "c")]
def de : Path := [.item (.str "d"), .item (.str "e")]
def df : Path := [.item (.str "d"), .item (.str "f")]
def dg : Path := [.item (.str "d"), .item (.str "g")]
def qz : Path := [.item (.str "q"), .item (.str "zz")]
def idF : Path := [.item (.str "#F")]
def s0 : MState :=
  { MState.init with store := .dict [(.str "d", .dict [(.str "a", .int 1), (.str "b", .int 2), (.str "c", .int 0),
      (.str "e", .int 0), (.str "f", .int 0), (.str "g", .int 0)])] }
def fTask : MTask :=
  ⟨idF, .func [(df, .bin "Mul" (.ref da) (.lit (.int 2))), (dg, .bin "Add" (.ref da) (.lit (.int 1)))], [da], [df, dg]⟩
def hist0 : List Call :=
  [.setExpr de (.bin "Mul" (.ref dc) (.ref da)), .setExpr dc (.bin "Add" (.ref da) (.ref db)), .register fTask,
   .setExpr de (.bin "Mul" (.ref dc) (.ref da))]
/-- the original manager: two definitions and a function task -/
def sP : MState := applyAll id s0 hist0
/-- the restored manager -/
def sR : MState := pickleM sP
/-- the restored manager's iteration order: `#F` last -/
def fLast : Sched := fun l => l.filter (fun x => !decide (x = idF)) ++ l.filter (fun x => decide (x = idF))
/-- six further calls: an assignment that triggers all three tasks, an assignment whose write raises (no container
    `q`), a re-definition, an in-place operator on a plain location, an assignment that overwrites a definition, the
    self-check -/
def hist : List Call :=
  [.setValue da (.int 5), .setValue qz (.int 1), .setExpr de (.bin "Sub" (.ref dc) (.ref db)),
   .inplace "Add" db (.lit (.int 1)), .setValue dc (.int 9), .verify]

theorem s0_inv : MInv s0 := MInv_of_sameGraph (s := MState.init) ⟨rfl, rfl, rfl⟩ MInv.init
theorem sP_inv : MInv sP :=
  applyAll_MInv id hist0 s0 s0_inv ⟨trivial, trivial, ⟨rfl, by decide, by decide⟩, trivial, trivial⟩

/-- the hypotheses of `pickleM_eq_resetT` hold; the restored state, computed, is the original without its event log,
    and the original's event log is not empty (so `sR ≠ sP` as values, by the log alone) -/
example : sR = resetT sP := pickleM_eq_resetT sP sP_inv
example : sR = resetT sP := rfl
example : sP.trace ≠ [] := by decide +kernel
example : sR.idx.rdeps = sP.idx.rdeps ∧ sR.idx.rtasks = sP.idx.rtasks ∧ sR.idx.deptasks = sP.idx.deptasks ∧
    sR.idx.tartasks = sP.idx.tartasks :=
  ⟨by decide +kernel, by decide +kernel, by decide +kernel, by decide +kernel⟩
/-- the index tables that were carried over are the OLD ones, in their old order (`e` was defined first, `c` second,
    then `e` again), not the regenerated ones: the clone of the same manager lists the rows in another order -/
example : sR.idx.tartasks = [(de, [(de, 1)]), (dc, [(dc, 1)]), (df, [(idF, 1)]), (dg, [(idF, 1)])] ∧
    (cloneOf sP).idx.tartasks = [(dc, [(dc, 1)]), (df, [(idF, 1)]), (dg, [(idF, 1)]), (de, [(de, 1)])] :=
  ⟨by decide +kernel, by decide +kernel⟩

theorem sP_sR : SameTable sP sR := pickleM_sameTable sP sP_inv
example : (verify sR).2 = none := pickleM_verify sP sP_inv
example : (verify sR).2 = none := by decide +kernel
example : dump sR = dump sP := pickleM_dump sP sP_inv
example : dump sR = [(dc, .bin "Add" (.ref da) (.ref db)), (de, .bin "Mul" (.ref dc) (.ref da))] := rfl

/-- the two schedulers run the three tasks an assignment to `a` triggers in different orders -/
example : id (findTaskids sP.idx (chainR da)) = [idF, dc, de] ∧ fLast (findTaskids sR.idx (chainR da)) = [dc, de, idF] := by
  decide +kernel

/-- the history is in scope … -/
theorem hist_ok : BisimRun' id fLast sP sR hist :=
  pickleM_scope_of_test id fLast sP sP_inv hist (by decide +kernel)

/-- … so `pickleM_same_behaviour` applies -/
example : RelatedOutcomes (outcomes id sP hist) (outcomes fLast sR hist) ∧
    (outcomes fLast sR hist).map (·.2) = (outcomes id sP hist).map (·.2) ∧
    SameTable (applyAll id sP hist) (applyAll fLast sR hist) ∧
    QueriesAgree (applyAll id sP hist) (applyAll fLast sR hist) :=
  pickleM_same_behaviour id fLast sP sP_inv hist hist_ok

/-- the outcomes, computed on either side: the same errors call by call … -/
example : (outcomes id sP hist).map (·.2) = [none, some .keyError, none, none, none, none] := by decide +kernel
example : (outcomes fLast sR hist).map (·.2) = [none, some .keyError, none, none, none, none] := by decide +kernel
/-- … the same container contents at the end (`a = 5`, `b = 3`, `c = 9` assigned, `e = c − b = 6`, `f = 2a`,
    `g = a + 1`) and the same definitions (`e` alone: `c` was overwritten by a value) -/
example : (applyAll fLast sR hist).store = (applyAll id sP hist).store := rfl
example : (applyAll fLast sR hist).store =
    .dict [(.str "d", .dict [(.str "a", .int 5), (.str "b", .int 3), (.str "c", .int 9), (.str "e", .int 6),
      (.str "f", .int 10), (.str "g", .int 6)])] := rfl
example : dump (applyAll fLast sR hist) = [(de, .bin "Sub" (.ref dc) (.ref db))] ∧
    dump (applyAll id sP hist) = [(de, .bin "Sub" (.ref dc) (.ref db))] := ⟨rfl, rfl⟩
/-- the two sides did run the tasks in different orders: the event logs after the first call differ -/
example : (apply id sP (.setValue da (.int 5))).1.trace ≠ (apply fLast sR (.setValue da (.int 5))).1.trace := by
  decide +kernel

/-- the driver's form: `sP` with its log cleared is a manager between two calls; hypothesis on the original alone,
    equal lists of outcomes -/
example : outcomesR fLast (pickleM (resetT sP)) hist = outcomesR id (resetT sP) hist :=
  pickleM_history_per_call id fLast (resetT sP) (MInv_resetT sP_inv) rfl hist
    (goodRunRB_sound id fLast hist _ (MInv_resetT sP_inv) (by decide +kernel))

/-- pickling in the middle: after the first three calls of `hist` -/
example : SameTable (applyAll id sP (hist.take 3 ++ hist.drop 3))
    (applyAll fLast (pickleM (applyAll id sP (hist.take 3))) (hist.drop 3)) :=
  (pickleM_anywhere id fLast sP sP_inv (hist.take 3) (hist.drop 3) ⟨trivial, trivial, trivial, trivial⟩
    (pickleM_scope_of_test id fLast _
      (applyAll_MInv id (hist.take 3) sP sP_inv ⟨trivial, trivial, trivial, trivial⟩) _ (by decide +kernel))).2

/-- **the hypothesis `MInv` of `pickleM_eq_resetT` is needed** — on the MODEL, whose dictionaries are association
    lists: a list with the key `a` twice (no Python dictionary looks like this; `MInv.rows1` excludes it) is changed
    by the re-insertion, which keeps the first position and the last value -/
def dupState : MState := { MState.init with idx := { (Mgr.empty : Mgr Path Path) with rdeps := [(da, [(dc, 1)]), (db, []), (da, [(de, 2)])] } }
theorem dup_rows : (pickleM dupState).idx.rdeps = [(da, [(de, 2)]), (db, [])] ∧ pickleM dupState ≠ resetT dupState := by
  refine ⟨by decide +kernel, fun h => ?_⟩
  have : (pickleM dupState).idx.rdeps = (resetT dupState).idx.rdeps := by rw [h]
  revert this
  decide +kernel

end PickleExample
