import XModel.ManagerC18Fn
import XModel.ManagerC13Fn
/-!
# C18: recovery after ANY NUMBER of failed updates

`ManagerC18` / `ManagerC18Fn` prove that ONE failed `set_value(ref, value)` is repaired by a completed fault-free
repeat.  Property C18 speaks about *sequences of several faulty updates in a row, followed by a fault-free repeat*.
Here the recovery is proved for any number of attempts.  Each attempt

* may assign a DIFFERENT value,
* may use a different schedule,
* may be cut at a different container write (`faultIn := some k`), fail for another reason (evaluation error), or even
  complete (`faultIn := none`, or `k` larger than the number of writes),

and the final fault-free repeat may assign yet another value under yet another legal schedule.

* `attemptsS s p l`      — the state after the attempts `l : List (Sched × Option Nat × Val)` (fold of
                            `fun st (sched, k, v) => (setValue sched { st with faultIn := k } p v).1`);
* `attempts sched s p l` — the same with one schedule for all attempts, `l : List (Option Nat × Val)`;
* `Recoverable s p st`   — the invariant carried through the attempts: the task table, the indices and the freeze
                            flag of `st` are those of `s`, and every item of every task NOT triggered by an assignment
                            to `p` holds in `st` (the premise of `writeAndRun_consistentF'`);
* `Recoverable.step`     — one more attempt, whatever it does, keeps the invariant (`writeAndRun_outsideF`,
                            `writeAndRun_graph`, `ScopeF_congr`);
* `Recoverable.finish`   — a completed fault-free `write + run_tasks` from a recoverable state leaves every item of
                            every task holding (`writeAndRun_consistentF'`);
* `setValue_recoverF_multiS`, `setValue_recoverF_multi` — the recovery theorems with function tasks;
* `setValue_recover_multiS`,  `setValue_recover_multi`  — the expression-task corollaries (`Consistent` / `Scope`);
* `setValue_recoverF_multi_decided` — all hypotheses as Boolean tests (sound; the driver evaluates `scope` / `scope_f` per line, not `consistentFB`).
-/
namespace Manager
open Store Push Index

/-! ### the sequence of attempts -/

/-- the state after a sequence of attempts of `set_value(p, ·)`, each with its own schedule, its own fault point
    (`none`: no fault injected) and its own value; the outcome (completed / raised) of each attempt is ignored and
    a leftover fault counter is overwritten by the next attempt's -/
def attemptsS (s : MState) (p : Path) (l : List (Sched × Option Nat × Val)) : MState :=
  l.foldl (fun st a => (setValue a.1 { st with faultIn := a.2.1 } p a.2.2).1) s

/-- the same with one schedule for every attempt -/
def attempts (sched : Sched) (s : MState) (p : Path) (l : List (Option Nat × Val)) : MState :=
  l.foldl (fun st a => (setValue sched { st with faultIn := a.1 } p a.2).1) s

theorem attemptsS_nil (s : MState) (p : Path) : attemptsS s p [] = s := rfl

theorem attemptsS_cons (s : MState) (p : Path) (a : Sched × Option Nat × Val) (l : List (Sched × Option Nat × Val)) :
    attemptsS s p (a :: l) = attemptsS (setValue a.1 { s with faultIn := a.2.1 } p a.2.2).1 p l := rfl

theorem attempts_nil (sched : Sched) (s : MState) (p : Path) : attempts sched s p [] = s := rfl

theorem attempts_cons (sched : Sched) (s : MState) (p : Path) (a : Option Nat × Val) (l : List (Option Nat × Val)) :
    attempts sched s p (a :: l) = attempts sched (setValue sched { s with faultIn := a.1 } p a.2).1 p l := rfl

/-- the attempts can be made one after the other -/
theorem attemptsS_append (s : MState) (p : Path) (l1 l2 : List (Sched × Option Nat × Val)) :
    attemptsS s p (l1 ++ l2) = attemptsS (attemptsS s p l1) p l2 := by
  unfold attemptsS; rw [List.foldl_append]

theorem attempts_eq_attemptsS (sched : Sched) (p : Path) : ∀ (l : List (Option Nat × Val)) (s : MState),
    attempts sched s p l = attemptsS s p (l.map (fun a => (sched, a.1, a.2)))
  | [], _ => rfl
  | a :: l, s => by
    rw [attempts_cons, List.map_cons, attemptsS_cons]
    exact attempts_eq_attemptsS sched p l _

/-! ### the invariant of the attempts -/

/-- What is known of a state `st` reached from the consistent state `s` by attempts (failed or not) to assign to `p`:
    the graph is that of `s` and every item of every task that an assignment to `p` does NOT trigger holds.  Nothing
    is said of the triggered tasks, of the value at `p`, of the trace or of the fault counter. -/
structure Recoverable (s : MState) (p : Path) (st : MState) : Prop where
  defs : st.defs = s.defs
  idx : st.idx = s.idx
  frozen : st.frozen = s.frozen
  outside : ∀ t ∈ s.defs, t.id ∉ findTaskids s.idx (chainR p) → ∀ it ∈ itemsOf t, (exprSys pySem).Q it st.store

/-- a consistent state is recoverable -/
theorem Recoverable.start {s : MState} (p : Path) (hc : ConsistentF s) : Recoverable s p s :=
  ⟨rfl, rfl, rfl, fun t ht _ it hit => hc t ht it hit⟩

/-- the fault counter, the trace and `prev` play no role -/
theorem Recoverable.congr {s st st' : MState} {p : Path} (h : Recoverable s p st) (hd : st'.defs = st.defs)
    (hi : st'.idx = st.idx) (hf : st'.frozen = st.frozen) (hs : st'.store = st.store) : Recoverable s p st' :=
  ⟨hd.trans h.defs, hi.trans h.idx, hf.trans h.frozen, fun t ht hn it hit => by rw [hs]; exact h.outside t ht hn it hit⟩

/-- **one more attempt keeps the invariant**, whatever it does: fault at the k-th container write, evaluation error,
    completion; any value; any schedule that returns the triggered ids in some order (a legal schedule does:
    `ValidSched.mem`). -/
theorem Recoverable.step {s st : MState} {p : Path} (hi : MInv s) (sc : ScopeF s p)
    (hnodef : lookDef s.defs p = none) (sched : Sched)
    (hmem : ∀ x, x ∈ sched (findTaskids s.idx (chainR p)) ↔ x ∈ findTaskids s.idx (chainR p))
    (k : Option Nat) (v : Val) (h : Recoverable s p st) :
    Recoverable s p (setValue sched { st with faultIn := k } p v).1 := by
  have hnd : lookDef ({ st with faultIn := k } : MState).defs p = none := by
    show lookDef st.defs p = none
    rw [h.defs]; exact hnodef
  rw [setValue_plain_unfold sched { st with faultIn := k } p v hnd]
  have hi1 : MInv { st with faultIn := k } := MInv_of_sameGraph (s := s) ⟨h.idx, h.defs, h.frozen⟩ hi
  have sc1 : ScopeF { ({ st with faultIn := k } : MState) with faultIn := none } p := ScopeF_congr sc h.defs h.idx rfl
  have hidx : ({ st with faultIn := k } : MState).idx = s.idx := h.idx
  have hdefs : ({ st with faultIn := k } : MState).defs = s.defs := h.defs
  have hout := writeAndRun_outsideF sched { st with faultIn := k } p v hi1 sc1 (by rw [hidx]; exact hmem)
  obtain ⟨hgi, hgd, hgf⟩ := writeAndRun_graph sched { st with faultIn := k } p v
  refine ⟨hgd.trans h.defs, hgi.trans h.idx, hgf.trans h.frozen, ?_⟩
  intro t ht hn it hit
  refine hout t (by rw [hdefs]; exact ht) (fun hin => hn ((hmem t.id).mp ?_)) it hit (h.outside t ht hn it hit)
  rw [hidx] at hin; exact hin

/-- the invariant holds after any sequence of attempts -/
theorem Recoverable.attemptsS {s : MState} {p : Path} (hi : MInv s) (sc : ScopeF s p)
    (hnodef : lookDef s.defs p = none) : ∀ (l : List (Sched × Option Nat × Val)),
    (∀ a ∈ l, ∀ x, x ∈ a.1 (findTaskids s.idx (chainR p)) ↔ x ∈ findTaskids s.idx (chainR p)) →
    ∀ st, Recoverable s p st → Recoverable s p (Manager.attemptsS st p l)
  | [], _, _, h => h
  | a :: l, hl, st, h => by
    rw [attemptsS_cons]
    exact Recoverable.attemptsS hi sc hnodef l (fun b hb => hl b (List.mem_cons_of_mem _ hb)) _
      (h.step hi sc hnodef a.1 (hl a (List.mem_cons_self ..)) a.2.1 a.2.2)

/-- **a completed fault-free `write + run_tasks` from a recoverable state** leaves every item of every task holding -/
theorem Recoverable.finish {s st : MState} {p : Path} (hi : MInv s) (sc : ScopeF s p) (h : Recoverable s p st)
    (sched : Sched)
    (hvs : ValidSched (gOf s.idx) (findTaskids s.idx (chainR p)) (sched (findTaskids s.idx (chainR p))))
    (v : Val) (s' : MState) (hok : writeAndRun sched { st with faultIn := none } p v = (s', none)) :
    ConsistentF s' ∧ s'.defs = s.defs ∧ s'.idx = s.idx ∧ s'.frozen = s.frozen := by
  have hi2 : MInv { st with faultIn := none } := MInv_of_sameGraph (s := s) ⟨h.idx, h.defs, h.frozen⟩ hi
  have sc2 : ScopeF { st with faultIn := none } p := ScopeF_congr sc h.defs h.idx rfl
  have hidx : ({ st with faultIn := none } : MState).idx = s.idx := h.idx
  have hdefs : ({ st with faultIn := none } : MState).defs = s.defs := h.defs
  obtain ⟨h1, h2, h3, h4⟩ := writeAndRun_consistentF' sched { st with faultIn := none } p v hi2 sc2
    (by rw [hidx]; exact hvs)
    (by
      rw [hidx, hdefs]
      intro t ht hnot it hit
      exact h.outside t ht (fun hin => hnot ((hvs.mem t.id).mpr hin)) it hit)
    s' hok
  exact ⟨h1, h2.trans h.defs, h3.trans h.idx, h4.trans h.frozen⟩

/-- the same for `set_value` -/
theorem Recoverable.finish_setValue {s st : MState} {p : Path} (hi : MInv s) (sc : ScopeF s p)
    (hnodef : lookDef s.defs p = none) (h : Recoverable s p st) (sched : Sched)
    (hvs : ValidSched (gOf s.idx) (findTaskids s.idx (chainR p)) (sched (findTaskids s.idx (chainR p))))
    (v : Val) (s' : MState) (hok : setValue sched { st with faultIn := none } p v = (s', none)) :
    ConsistentF s' ∧ s'.defs = s.defs ∧ s'.idx = s.idx ∧ s'.frozen = s.frozen := by
  have hnd : lookDef ({ st with faultIn := none } : MState).defs p = none := by
    show lookDef st.defs p = none
    rw [h.defs]; exact hnodef
  rw [setValue_plain_unfold sched { st with faultIn := none } p v hnd] at hok
  exact h.finish hi sc sched hvs v s' hok

/-! ### recovery after any number of attempts -/

/-- **C18 with function tasks, any number of failed attempts, one schedule per attempt.**  From a consistent state
    `s` in scope for an assignment to the plain location `p`: after any sequence `l` of attempts of
    `set_value(p, ·)` — each with its own legal schedule, its own value, and cut at its own point (`some k`: the
    (k+1)-th container write raises) or not cut at all — a fault-free `set_value(p, v)` under any legal schedule
    `sched'`, when it completes, leaves every item of every task holding, and the task table, the indices and the
    freeze flag are those of `s`. -/
theorem setValue_recoverF_multiS (s : MState) (p : Path) (l : List (Sched × Option Nat × Val)) (sched' : Sched)
    (v : Val) (hi : MInv s) (hc : ConsistentF s) (sc : ScopeF s p) (hnodef : lookDef s.defs p = none)
    (hvs : ∀ a ∈ l, ValidSched (gOf s.idx) (findTaskids s.idx (chainR p)) (a.1 (findTaskids s.idx (chainR p))))
    (hvs' : ValidSched (gOf s.idx) (findTaskids s.idx (chainR p)) (sched' (findTaskids s.idx (chainR p))))
    (s' : MState) (hok : setValue sched' { attemptsS s p l with faultIn := none } p v = (s', none)) :
    ConsistentF s' ∧ s'.defs = s.defs ∧ s'.idx = s.idx ∧ s'.frozen = s.frozen :=
  (Recoverable.attemptsS hi sc hnodef l (fun a ha => (hvs a ha).mem) s (Recoverable.start p hc)).finish_setValue
    hi sc hnodef sched' hvs' v s' hok

/-- **C18 with function tasks, any number of failed attempts**, one schedule `sched` for the attempts and one,
    `sched'`, for the repeat (the form of the brief: `attempts sched s p : List (Option Nat × Val) → MState`). -/
theorem setValue_recoverF_multi (sched sched' : Sched) (s : MState) (p : Path) (l : List (Option Nat × Val)) (v : Val)
    (hi : MInv s) (hc : ConsistentF s) (sc : ScopeF s p) (hnodef : lookDef s.defs p = none)
    (hvs : ValidSched (gOf s.idx) (findTaskids s.idx (chainR p)) (sched (findTaskids s.idx (chainR p))))
    (hvs' : ValidSched (gOf s.idx) (findTaskids s.idx (chainR p)) (sched' (findTaskids s.idx (chainR p))))
    (s' : MState) (hok : setValue sched' { attempts sched s p l with faultIn := none } p v = (s', none)) :
    ConsistentF s' ∧ s'.defs = s.defs ∧ s'.idx = s.idx ∧ s'.frozen = s.frozen := by
  rw [attempts_eq_attemptsS] at hok
  refine setValue_recoverF_multiS s p _ sched' v hi hc sc hnodef ?_ hvs' s' hok
  intro a ha
  obtain ⟨b, _, rfl⟩ := List.mem_map.mp ha
  exact hvs

/-- the `write + run_tasks` form -/
theorem writeAndRun_recoverF_multiS (s : MState) (p : Path) (l : List (Sched × Option Nat × Val)) (sched' : Sched)
    (v : Val) (hi : MInv s) (hc : ConsistentF s) (sc : ScopeF s p) (hnodef : lookDef s.defs p = none)
    (hvs : ∀ a ∈ l, ValidSched (gOf s.idx) (findTaskids s.idx (chainR p)) (a.1 (findTaskids s.idx (chainR p))))
    (hvs' : ValidSched (gOf s.idx) (findTaskids s.idx (chainR p)) (sched' (findTaskids s.idx (chainR p))))
    (s' : MState) (hok : writeAndRun sched' { attemptsS s p l with faultIn := none } p v = (s', none)) :
    ConsistentF s' ∧ s'.defs = s.defs ∧ s'.idx = s.idx ∧ s'.frozen = s.frozen :=
  (Recoverable.attemptsS hi sc hnodef l (fun a ha => (hvs a ha).mem) s (Recoverable.start p hc)).finish
    hi sc sched' hvs' v s' hok

/-- after the attempts alone (no repeat yet): the graph is that of `s` and every task not triggered by an assignment
    to `p` still holds — the damage of any number of failed attempts is confined to the triggered tasks -/
theorem attemptsS_recoverable (s : MState) (p : Path) (l : List (Sched × Option Nat × Val))
    (hi : MInv s) (hc : ConsistentF s) (sc : ScopeF s p) (hnodef : lookDef s.defs p = none)
    (hvs : ∀ a ∈ l, ValidSched (gOf s.idx) (findTaskids s.idx (chainR p)) (a.1 (findTaskids s.idx (chainR p)))) :
    Recoverable s p (attemptsS s p l) :=
  Recoverable.attemptsS hi sc hnodef l (fun a ha => (hvs a ha).mem) s (Recoverable.start p hc)

/-! ### the expression-task corollaries (`Consistent` / `Scope`) -/

/-- no task is registered at a plain location -/
theorem ne_of_lookDef_none {s : MState} {p : Path} (hi : MInv s) (hnodef : lookDef s.defs p = none) :
    ∀ t ∈ s.defs, t.id ≠ p := by
  intro t ht e
  have := lookDef_of_mem s.defs hi.ids t ht
  rw [e, hnodef] at this
  cases this

/-- with expression tasks only, `Scope` for an assignment to a location that carries no task is `ScopeF` -/
theorem Scope.toF {s : MState} {p : Path} (sc : Scope s p) (hne : ∀ t ∈ s.defs, t.id ≠ p) : ScopeF s p := by
  have hitems : ∀ t ∈ s.defs, itemsOf t = [toE t] := fun t ht => by
    obtain ⟨e, hk, _⟩ := sc.exprs t ht
    exact itemsOf_exprTask hk
  exact
    { decl := fun t ht => Or.inl (sc.exprs t ht)
      pathP := sc.pathP
      paths := by
        intro t ht it hit
        rw [hitems t ht, List.mem_singleton] at hit
        subst hit
        exact sc.paths t ht
      acyclic := sc.acyclic
      h2 := by
        intro t ht u hu hne a ha b hb
        rw [hitems t ht, List.mem_singleton] at ha
        rw [hitems u hu, List.mem_singleton] at hb
        subst ha; subst hb
        exact sc.h2 t ht u hu hne
      h2p := by
        intro t ht it hit
        rw [hitems t ht, List.mem_singleton] at hit
        subst hit
        exact sc.h2p t ht (hne t ht)
      h3 := by
        intro t ht it hit
        rw [hitems t ht, List.mem_singleton] at hit
        subst hit
        exact sc.h3 t ht
      body := by
        intro t ht
        rw [hitems t ht]
        exact List.pairwise_singleton _ _
      nofault := sc.nofault }

/-- with expression tasks only, `ConsistentF` is `Consistent` -/
theorem consistent_of_consistentF {s : MState} (hex : ExprDefs s.defs) (hc : ConsistentF s) : Consistent s := by
  intro t ht
  obtain ⟨e, hk, _⟩ := hex t ht
  exact hc t ht (toE t) (by rw [itemsOf_exprTask hk]; exact List.mem_singleton.mpr rfl)

/-- **C18, expression tasks, any number of failed attempts, one schedule per attempt**: the corollary in terms of
    `Consistent` / `Scope`. -/
theorem setValue_recover_multiS (s : MState) (p : Path) (l : List (Sched × Option Nat × Val)) (sched' : Sched)
    (v : Val) (hi : MInv s) (hc : Consistent s) (sc : Scope s p) (hnodef : lookDef s.defs p = none)
    (hvs : ∀ a ∈ l, ValidSched (gOf s.idx) (findTaskids s.idx (chainR p)) (a.1 (findTaskids s.idx (chainR p))))
    (hvs' : ValidSched (gOf s.idx) (findTaskids s.idx (chainR p)) (sched' (findTaskids s.idx (chainR p))))
    (s' : MState) (hok : setValue sched' { attemptsS s p l with faultIn := none } p v = (s', none)) :
    Consistent s' ∧ s'.defs = s.defs ∧ s'.idx = s.idx ∧ s'.frozen = s.frozen := by
  obtain ⟨h1, h2, h3, h4⟩ := setValue_recoverF_multiS s p l sched' v hi (consistentF_of_consistent sc.exprs hc)
    (sc.toF (ne_of_lookDef_none hi hnodef)) hnodef hvs hvs' s' hok
  exact ⟨consistent_of_consistentF (by rw [h2]; exact sc.exprs) h1, h2, h3, h4⟩

/-- **C18, expression tasks, any number of failed attempts**, one schedule for the attempts, one for the repeat -/
theorem setValue_recover_multi (sched sched' : Sched) (s : MState) (p : Path) (l : List (Option Nat × Val)) (v : Val)
    (hi : MInv s) (hc : Consistent s) (sc : Scope s p) (hnodef : lookDef s.defs p = none)
    (hvs : ValidSched (gOf s.idx) (findTaskids s.idx (chainR p)) (sched (findTaskids s.idx (chainR p))))
    (hvs' : ValidSched (gOf s.idx) (findTaskids s.idx (chainR p)) (sched' (findTaskids s.idx (chainR p))))
    (s' : MState) (hok : setValue sched' { attempts sched s p l with faultIn := none } p v = (s', none)) :
    Consistent s' ∧ s'.defs = s.defs ∧ s'.idx = s.idx ∧ s'.frozen = s.frozen := by
  obtain ⟨h1, h2, h3, h4⟩ := setValue_recoverF_multi sched sched' s p l v hi (consistentF_of_consistent sc.exprs hc)
    (sc.toF (ne_of_lookDef_none hi hnodef)) hnodef hvs hvs' s' hok
  exact ⟨consistent_of_consistentF (by rw [h2]; exact sc.exprs) h1, h2, h3, h4⟩

/-! ### decided -/

/-- **recovery after any number of attempts, all hypotheses as Boolean tests** -/
theorem setValue_recoverF_multi_decided (sched sched' : Sched) (s : MState) (p : Path) (l : List (Option Nat × Val))
    (v : Val) (hi : MInv s) (hnodef : lookDef s.defs p = none) (hsc : scopeFB s p = true)
    (hv : validSchedule s.idx (chainR p) (sched (findTaskids s.idx (chainR p))) = true)
    (hv' : validSchedule s.idx (chainR p) (sched' (findTaskids s.idx (chainR p))) = true)
    (hc : consistentFB s = true)
    (s' : MState) (hok : setValue sched' { attempts sched s p l with faultIn := none } p v = (s', none)) :
    ConsistentF s' ∧ s'.defs = s.defs ∧ s'.idx = s.idx ∧ s'.frozen = s.frozen :=
  setValue_recoverF_multi sched sched' s p l v hi (consistentFB_sound s hc) (scopeFB_sound s hi p hsc) hnodef
    (validSchedule_sound s.idx (chainR p) _ hv (scopeFB_acyclic s p hsc))
    (validSchedule_sound s.idx (chainR p) _ hv' (scopeFB_acyclic s p hsc)) s' hok

theorem setValue_recoverF_multiS_decided (s : MState) (p : Path) (l : List (Sched × Option Nat × Val))
    (sched' : Sched) (v : Val) (hi : MInv s) (hnodef : lookDef s.defs p = none) (hsc : scopeFB s p = true)
    (hv : ∀ a ∈ l, validSchedule s.idx (chainR p) (a.1 (findTaskids s.idx (chainR p))) = true)
    (hv' : validSchedule s.idx (chainR p) (sched' (findTaskids s.idx (chainR p))) = true)
    (hc : consistentFB s = true)
    (s' : MState) (hok : setValue sched' { attemptsS s p l with faultIn := none } p v = (s', none)) :
    ConsistentF s' ∧ s'.defs = s.defs ∧ s'.idx = s.idx ∧ s'.frozen = s.frozen :=
  setValue_recoverF_multiS s p l sched' v hi (consistentFB_sound s hc) (scopeFB_sound s hi p hsc) hnodef
    (fun a ha => validSchedule_sound s.idx (chainR p) _ (hv a ha) (scopeFB_acyclic s p hsc))
    (validSchedule_sound s.idx (chainR p) _ hv' (scopeFB_acyclic s p hsc)) s' hok

/-! ### non-vacuity: the state `C18FnExample.sF` (`c = a + b`, `#F : e := c * 2 ; f := a + 1`, `a = 5`, `b = 2`,
    `c = 7`, `e = 14`, `f = 6`) with three failing attempts in a row, each with a different value and cut at a different
    container write, then the fault-free repeat. -/
namespace C18MultiExample
open C18FnExample

/-- attempt 1: `a := 9`, the 2nd write (of `c`) raises; attempt 2: `a := 20`, the 4th write (second line of `#F`)
    raises; attempt 3: `a := 30`, the very first write (of `a` itself) raises -/
def three : List (Option Nat × Val) := [(some 1, .int 9), (some 3, .int 20), (some 0, .int 30)]

def after1 : MState := attempts id sF da [(some 1, .int 9)]
def after2 : MState := attempts id sF da [(some 1, .int 9), (some 3, .int 20)]
def after3 : MState := attempts id sF da three

/-- every one of the three attempts raises -/
example : (setValue id { sF with faultIn := some 1 } da (.int 9)).2 = some .fault ∧
    (setValue id { after1 with faultIn := some 3 } da (.int 20)).2 = some .fault ∧
    (setValue id { after2 with faultIn := some 0 } da (.int 30)).2 = some .fault := ⟨rfl, rfl, rfl⟩

/-- after attempt 1: `a = 9` new, everything else stale -/
example : get after1.store da = .ok (.int 9) ∧ get after1.store dc = .ok (.int 7) ∧
    get after1.store de = .ok (.int 14) ∧ get after1.store df = .ok (.int 6) := ⟨rfl, rfl, rfl, rfl⟩

/-- after attempt 2: `a = 20`, `c = 22`, `e = 44` new, `f = 6` is still the value computed from `a = 5` — the body of
    `#F` is half done -/
example : get after2.store da = .ok (.int 20) ∧ get after2.store dc = .ok (.int 22) ∧
    get after2.store de = .ok (.int 44) ∧ get after2.store df = .ok (.int 6) := ⟨rfl, rfl, rfl, rfl⟩

/-- after attempt 3 (nothing written): the state of attempt 2, inconsistent; the graph is that of `sF` -/
example : after3.store = after2.store ∧ consistentFB after3 = false ∧ after3.defs = sF.defs ∧ after3.idx = sF.idx :=
  ⟨rfl, by decide, rfl, rfl⟩

/-- the fault-free repeat with yet another value (`a := 9`) completes and repairs everything:
    `c = 11`, `e = 22`, `f = 10` -/
example : (setValue id { after3 with faultIn := none } da (.int 9)).2 = none ∧
    get (setValue id { after3 with faultIn := none } da (.int 9)).1.store da = .ok (.int 9) ∧
    get (setValue id { after3 with faultIn := none } da (.int 9)).1.store dc = .ok (.int 11) ∧
    get (setValue id { after3 with faultIn := none } da (.int 9)).1.store de = .ok (.int 22) ∧
    get (setValue id { after3 with faultIn := none } da (.int 9)).1.store df = .ok (.int 10) ∧
    consistentFB (setValue id { after3 with faultIn := none } da (.int 9)).1 = true :=
  ⟨rfl, rfl, rfl, rfl, rfl, by decide⟩

/-- and the recovered container tree is the one a single fault-free call on `sF` would have produced -/
example : (setValue id { after3 with faultIn := none } da (.int 9)).1.store = (setValue id sF da (.int 9)).1.store := rfl

/-- the theorem applied to the example, for ANY list of attempts and any final value: all hypotheses hold -/
example (l : List (Option Nat × Val)) (v : Val) (s' : MState)
    (hok : setValue id { attempts id sF da l with faultIn := none } da v = (s', none)) :
    ConsistentF s' ∧ s'.defs = sF.defs ∧ s'.idx = sF.idx ∧ s'.frozen = sF.frozen :=
  setValue_recoverF_multi_decided id id sF da l v sF_inv sF_hyps.1 sF_hyps.2.1 sF_hyps.2.2.1 sF_hyps.2.2.1
    sF_hyps.2.2.2 s' hok

/-- … and its premise `hok` is satisfiable for the three failing attempts: the conclusion for the concrete run -/
theorem three_recovered : ConsistentF (setValue id { attempts id sF da three with faultIn := none } da (.int 9)).1 :=
  (setValue_recoverF_multi_decided id id sF da three (.int 9) sF_inv sF_hyps.1 sF_hyps.2.1 sF_hyps.2.2.1
    sF_hyps.2.2.1 sF_hyps.2.2.2 _ (Prod.ext rfl rfl)).1

/-- one schedule per attempt: `List.reverse` is NOT a legal schedule here (it would run `#F` before `c`), `id` is;
    the theorem asks for legal schedules, and an attempt that completes (no fault) is allowed in the middle -/
example : validSchedule sF.idx (chainR da) (List.reverse (findTaskids sF.idx (chainR da))) = false := by decide

def mixed : List (Sched × Option Nat × Val) :=
  [(id, some 2, .int 9), (id, none, .int 20), (id, some 100, .int 21), (id, some 1, .int 30)]

/-- attempt 1 raises, attempts 2 and 3 complete (no fault / the fault counter is never reached), attempt 4 raises -/
example : (setValue id { sF with faultIn := some 2 } da (.int 9)).2 = some .fault ∧
    (setValue id { attemptsS sF da (mixed.take 1) with faultIn := none } da (.int 20)).2 = none ∧
    (setValue id { attemptsS sF da (mixed.take 2) with faultIn := some 100 } da (.int 21)).2 = none ∧
    (setValue id { attemptsS sF da (mixed.take 3) with faultIn := some 1 } da (.int 30)).2 = some .fault :=
  ⟨rfl, rfl, rfl, rfl⟩

example : get (attemptsS sF da mixed).store da = .ok (.int 30) ∧ get (attemptsS sF da mixed).store dc = .ok (.int 23) ∧
    consistentFB (attemptsS sF da mixed) = false := ⟨rfl, rfl, by decide⟩

theorem mixed_recovered : ConsistentF (setValue id { attemptsS sF da mixed with faultIn := none } da (.int 9)).1 :=
  (setValue_recoverF_multiS_decided sF da mixed id (.int 9) sF_inv sF_hyps.1 sF_hyps.2.1
    (by intro a ha
        simp only [mixed, List.mem_cons, List.not_mem_nil, or_false] at ha
        rcases ha with rfl | rfl | rfl | rfl <;> exact sF_hyps.2.2.1)
    sF_hyps.2.2.1 sF_hyps.2.2.2 _ (Prod.ext rfl rfl)).1

example : get (setValue id { attemptsS sF da mixed with faultIn := none } da (.int 9)).1.store dc = .ok (.int 11) ∧
    get (setValue id { attemptsS sF da mixed with faultIn := none } da (.int 9)).1.store de = .ok (.int 22) ∧
    get (setValue id { attemptsS sF da mixed with faultIn := none } da (.int 9)).1.store df = .ok (.int 10) :=
  ⟨rfl, rfl, rfl⟩

/-! #### what the MODEL does with a leftover fault counter: a run resets nothing.  An attempt with `faultIn := some 5`
    that completes after 4 writes leaves `faultIn = some 1` in the state; `attempts` overwrites it with the next
    attempt's flag, and the final repeat is stated with `faultIn := none` — without that reset the repeat itself could
    still raise (here: at its second write). -/
example : (setValue id { sF with faultIn := some 5 } da (.int 9)).2 = none ∧
    (setValue id { sF with faultIn := some 5 } da (.int 9)).1.faultIn = some 1 ∧
    (setValue id (setValue id { sF with faultIn := some 5 } da (.int 9)).1 da (.int 10)).2 = some .fault :=
  ⟨rfl, rfl, rfl⟩

/-! #### expression tasks only: `c = a + b`, `e = c * 2` -/
def sE1 : MState := (setExpr id sF0 dc (.bin "Add" (.ref da) (.ref db))).1
def sE2 : MState := (setExpr id sE1 de (.bin "Mul" (.ref dc) (.lit (.int 2)))).1
def sE : MState := (setValue id sE2 da (.int 5)).1

theorem sE_inv : MInv sE :=
  setValue_MInv id sE2 da _ (setExpr_MInv id sE1 de _ (setExpr_MInv id sF0 dc _ sF0_inv))

theorem sE_hyps : lookDef sE.defs da = none ∧ scopeB sE da = true ∧
    validSchedule sE.idx (chainR da) (id (findTaskids sE.idx (chainR da))) = true ∧ consistentFB sE = true := by decide

theorem sE_scope : Scope sE da := scopeB_sound sE sE_inv da sE_hyps.2.1
theorem sE_consistent : Consistent sE := consistent_of_consistentF sE_scope.exprs (consistentFB_sound sE sE_hyps.2.2.2)
theorem sE_sched : ValidSched (gOf sE.idx) (findTaskids sE.idx (chainR da)) (id (findTaskids sE.idx (chainR da))) :=
  validSchedule_sound sE.idx (chainR da) _ sE_hyps.2.2.1 (scopeB_acyclic sE da sE_hyps.2.1)

/-- the expression-task corollary applied: any attempts, any final value -/
example (l : List (Option Nat × Val)) (v : Val) (s' : MState)
    (hok : setValue id { attempts id sE da l with faultIn := none } da v = (s', none)) :
    Consistent s' ∧ s'.defs = sE.defs ∧ s'.idx = sE.idx ∧ s'.frozen = sE.frozen :=
  setValue_recover_multi id id sE da l v sE_inv sE_consistent sE_scope sE_hyps.1 sE_sched sE_sched s' hok

def threeE : List (Option Nat × Val) := [(some 1, .int 9), (some 2, .int 20), (some 0, .int 30)]

/-- three failing attempts (the write of `c`, of `e`, of `a` raises), then the repeat: `c = 11`, `e = 22` -/
example : (setValue id { sE with faultIn := some 1 } da (.int 9)).2 = some .fault ∧
    (setValue id { attempts id sE da [(some 1, .int 9)] with faultIn := some 2 } da (.int 20)).2 = some .fault ∧
    (setValue id { attempts id sE da [(some 1, .int 9), (some 2, .int 20)] with faultIn := some 0 } da (.int 30)).2
      = some .fault ∧
    get (attempts id sE da threeE).store dc = .ok (.int 22) ∧ get (attempts id sE da threeE).store de = .ok (.int 14) :=
  ⟨rfl, rfl, rfl, rfl, rfl⟩

theorem sE_three_recovered :
    Consistent (setValue id { attempts id sE da threeE with faultIn := none } da (.int 9)).1 :=
  (setValue_recover_multi id id sE da threeE (.int 9) sE_inv sE_consistent sE_scope sE_hyps.1 sE_sched sE_sched _
    (Prod.ext rfl rfl)).1

example : (setValue id { attempts id sE da threeE with faultIn := none } da (.int 9)).2 = none ∧
    get (setValue id { attempts id sE da threeE with faultIn := none } da (.int 9)).1.store dc = .ok (.int 11) ∧
    get (setValue id { attempts id sE da threeE with faultIn := none } da (.int 9)).1.store de = .ok (.int 22) :=
  ⟨rfl, rfl, rfl⟩
end C18MultiExample

#print axioms Recoverable.step
#print axioms Recoverable.attemptsS
#print axioms Recoverable.finish
#print axioms Recoverable.finish_setValue
#print axioms attemptsS_recoverable
#print axioms setValue_recoverF_multiS
#print axioms setValue_recoverF_multi
#print axioms writeAndRun_recoverF_multiS
#print axioms Scope.toF
#print axioms consistent_of_consistentF
#print axioms setValue_recover_multiS
#print axioms setValue_recover_multi
#print axioms setValue_recoverF_multi_decided
#print axioms setValue_recoverF_multiS_decided
#print axioms C18MultiExample.three_recovered
#print axioms C18MultiExample.mixed_recovered
#print axioms C18MultiExample.sE_three_recovered

end Manager
