import XModel.KeyPrint
/-! # The printed TEXT of keys and access paths, and its injectivity (character level)

`XModel/KeyPrint.lean` works on tokens: a string key is one atomic token, so "a key that contains quotes / brackets /
looks like two steps" cannot even be written there.  This file goes one level down, to the characters that
`BaseRef.__eq__` really compares (`str(a) == str(b)`):

* `str`: Python's `repr(str)` — quote `'` unless the string contains `'` and no `"`, then `"`; the characters
  backslash, the chosen quote, newline, carriage return and tab are escaped with a backslash, every other character is
  copied.  FAITHFUL for strings whose other characters are printable (`str.isprintable`); Python writes the remaining
  ones as `\xhh`, `\uhhhh`, `\Uhhhhhhhh`, which is not modelled (oracle only) — the injectivity theorem below does not
  depend on it, it holds for the function as defined;
* `int`: decimal digits with a leading `-`;  `bool` / `None`: `True`, `False`, `None`;
* `float`: `-` and the text of `repr(abs x)`, uninterpreted.  HYPOTHESIS `floatTextOK`: the text starts with a digit,
  consists of digits and `.`, `e`, `+`, `-`, and contains at least one non-digit — true of `repr` of every finite float
  (`1.0`, `1e-07`, `1.5e+300`; the shortest round-trip text always has a `.` or an exponent), false of `inf` / `nan`
  (excluded, oracle only).  Needed: a float text `1` would print like the int `1` (`float_text_needs_ok`).  That
  different floats have different texts is Python's guarantee, outside the model;
* tuples: `()`, `(x,)`, `(x, y)`, … separated by comma and ONE space;
* paths: the label, then `[key]` or `.name` per step.  HYPOTHESIS `PathOK`: the label and the attribute names are
  identifiers (`Parse.isIdent`).  Needed: the label `a.b` prints like the attribute `b` of `a` (`label_needs_ident`).

Result: `keyText_injective`, `pathText_injective` — different keys / access paths never print alike. -/
namespace KeyText
open KeyPrint Parse

/-! ### a run of characters of one class, followed by a character outside the class -/

def Stop (P : Char → Bool) : List Char → Prop
  | [] => True
  | c :: _ => P c = false

theorem span_uniq (P : Char → Bool) : ∀ (xs ys r r' : List Char), (∀ c ∈ xs, P c = true) → (∀ c ∈ ys, P c = true) →
    Stop P r → Stop P r' → xs ++ r = ys ++ r' → xs = ys ∧ r = r'
  | [], [], r, r', _, _, _, _, h => ⟨rfl, by simpa using h⟩
  | [], y :: ys, r, r', _, hy, hr, _, h => by
    simp only [List.nil_append] at h
    subst h
    have := hy y (by simp)
    simp [Stop, this] at hr
  | x :: xs, [], r, r', hx, _, _, hr', h => by
    simp only [List.nil_append] at h
    subst h
    have := hx x (by simp)
    simp [Stop, this] at hr'
  | x :: xs, y :: ys, r, r', hx, hy, hr, hr', h => by
    simp only [List.cons_append, List.cons.injEq] at h
    have := span_uniq P xs ys r r' (fun c hc => hx c (by simp [hc])) (fun c hc => hy c (by simp [hc])) hr hr' h.2
    exact ⟨by rw [h.1, this.1], this.2⟩

/-! ### numbers -/

/-- decimal digits: the characters of `toString n` -/
def natText (n : Nat) : List Char := Nat.toDigits 10 n

theorem natText_digits (n : Nat) : ∀ c ∈ natText n, c.isDigit = true :=
  fun _ h => Nat.isDigit_of_mem_toDigits (by decide) (by decide) h

theorem natText_inj {n m : Nat} (h : natText n = natText m) : n = m := by
  have := congrArg (fun l => Nat.ofDigitChars 10 l 0) h
  simpa [natText] using this

/-- an optional minus sign in front of a body -/
def signed (neg : Bool) (body : List Char) : List Char := if neg then '-' :: body else body

def intText (i : Int) : List Char := signed (decide (i < 0)) (natText i.natAbs)

/-- the characters of a float text -/
def isFltChar (c : Char) : Bool := c.isDigit || c == '.' || c == 'e' || c == '+' || c == '-'

/-- what is assumed of the text of `repr(abs x)`, `x` a finite float -/
def floatCharsOK : List Char → Bool
  | [] => false
  | c :: cs => c.isDigit && cs.all isFltChar && cs.any (fun c => !c.isDigit)

def floatTextOK (t : String) : Bool := floatCharsOK t.toList

/-- the body of a printed number: starts with a digit, consists of float characters -/
def NumBody (b : List Char) : Prop := (∃ c t, b = c :: t ∧ c.isDigit = true) ∧ ∀ c ∈ b, isFltChar c = true

theorem numBody_nat (n : Nat) : NumBody (natText n) := by
  refine ⟨?_, fun c hc => by simp [isFltChar, natText_digits n c hc]⟩
  cases h : natText n with
  | nil => exact absurd h Nat.toDigits_ne_nil
  | cons c t => exact ⟨c, t, rfl, natText_digits n c (by rw [h]; simp)⟩

theorem numBody_float (l : List Char) (h : floatCharsOK l = true) : NumBody l := by
  cases l with
  | nil => simp [floatCharsOK] at h
  | cons c cs =>
    simp only [floatCharsOK, Bool.and_eq_true, List.all_eq_true] at h
    refine ⟨⟨c, cs, rfl, h.1.1⟩, fun d hd => ?_⟩
    rcases List.mem_cons.mp hd with rfl | hd
    · simp [isFltChar, h.1.1]
    · exact h.1.2 d hd

theorem float_has_nondigit (l : List Char) (h : floatCharsOK l = true) : ∃ c ∈ l, c.isDigit = false := by
  cases l with
  | nil => simp [floatCharsOK] at h
  | cons c cs =>
    simp only [floatCharsOK, Bool.and_eq_true, List.any_eq_true] at h
    obtain ⟨d, hd, hdd⟩ := h.2
    exact ⟨d, by simp [hd], by simpa using hdd⟩

theorem signed_flt (n : Bool) (b : List Char) (hb : NumBody b) : ∀ c ∈ signed n b, isFltChar c = true := by
  intro c hc
  cases n with
  | false => exact hb.2 c (by simpa [signed] using hc)
  | true =>
    simp only [signed, if_true, List.mem_cons] at hc
    rcases hc with rfl | hc
    · decide
    · exact hb.2 c hc

theorem signed_inj (n n' : Bool) (b b' : List Char) (hb : NumBody b) (hb' : NumBody b')
    (h : signed n b = signed n' b') : n = n' ∧ b = b' := by
  obtain ⟨⟨c, t, rfl, hc⟩, _⟩ := hb
  obtain ⟨⟨c', t', rfl, hc'⟩, _⟩ := hb'
  cases n <;> cases n' <;> simp only [signed, if_true, Bool.false_eq_true, if_false, List.cons.injEq] at h
  · exact ⟨rfl, by simp [h]⟩
  · rw [h.1] at hc; exact absurd hc (by decide)
  · rw [← h.1] at hc'; exact absurd hc' (by decide)
  · exact ⟨rfl, by simp [h]⟩

/-- a delimiter follows every key: end of text, comma, closing parenthesis or closing bracket -/
def Delim : List Char → Prop
  | [] => True
  | c :: _ => c = ',' ∨ c = ')' ∨ c = ']'

theorem delim_stop (r : List Char) (h : Delim r) : Stop isFltChar r := by
  cases r with
  | nil => trivial
  | cons c t => rcases h with rfl | rfl | rfl <;> (show isFltChar _ = false; decide)

/-- a printed number in front of a delimiter determines sign, body and the rest -/
theorem num_uniq (n n' : Bool) (b b' : List Char) (hb : NumBody b) (hb' : NumBody b') (r r' : List Char)
    (hr : Delim r) (hr' : Delim r') (h : signed n b ++ r = signed n' b' ++ r') : (n = n' ∧ b = b') ∧ r = r' := by
  have := span_uniq isFltChar _ _ r r' (signed_flt n b hb) (signed_flt n' b' hb') (delim_stop r hr)
    (delim_stop r' hr') h
  exact ⟨signed_inj n n' b b' hb hb' this.1, this.2⟩

theorem int_of_sign_abs (i j : Int) (h1 : decide (i < 0) = decide (j < 0)) (h2 : i.natAbs = j.natAbs) : i = j := by
  simp only [decide_eq_decide] at h1
  omega

/-! ### strings: `repr(str)` -/

def quoteOf (s : List Char) : Char := if '\'' ∈ s ∧ '"' ∉ s then '"' else '\''

def escChar (q c : Char) : List Char :=
  if c = '\\' then ['\\', '\\'] else if c = q then ['\\', q]
  else if c = '\n' then ['\\', 'n'] else if c = '\r' then ['\\', 'r'] else if c = '\t' then ['\\', 't'] else [c]

def escBody (q : Char) : List Char → List Char
  | [] => []
  | c :: r => escChar q c ++ escBody q r

def strChars (l : List Char) : List Char := quoteOf l :: (escBody (quoteOf l) l ++ [quoteOf l])

def strText (s : String) : List Char := strChars s.toList

def IsQuote (q : Char) : Prop := q = '\'' ∨ q = '"'

theorem quoteOf_isQuote (s : List Char) : IsQuote (quoteOf s) := by
  unfold quoteOf IsQuote; split <;> simp

/-- the code of one character is a prefix code -/
theorem escChar_uniq (q : Char) (hq : IsQuote q) (c c' : Char) (r r' : List Char)
    (h : escChar q c ++ r = escChar q c' ++ r') : c = c' ∧ r = r' := by
  rcases hq with rfl | rfl <;>
  · unfold escChar at h
    repeat' split at h
    all_goals simp only [List.cons_append, List.nil_append, List.cons.injEq] at h
    all_goals (try subst_vars)
    all_goals first | (simp_all; done) | (obtain ⟨h1, h2⟩ := h; subst h1; simp_all)

/-- the code of a character never starts with the (unescaped) quote -/
theorem quote_ne_escChar (q : Char) (hq : IsQuote q) (c : Char) (r r' : List Char) : q :: r ≠ escChar q c ++ r' := by
  rcases hq with rfl | rfl <;>
  · unfold escChar
    repeat' split
    all_goals simp
    all_goals first | (intro h; simp_all; done) | (intro h; subst h; simp_all)

/-- the escaped body up to the closing quote determines the string and what follows the quote -/
theorem body_uniq (q : Char) (hq : IsQuote q) : ∀ (s s' r r' : List Char),
    escBody q s ++ q :: r = escBody q s' ++ q :: r' → s = s' ∧ r = r'
  | [], [], r, r', h => by simpa [escBody] using h
  | [], c :: s', r, r', h => by
    exfalso
    exact quote_ne_escChar q hq c r (escBody q s' ++ q :: r') (by simpa [escBody] using h)
  | c :: s, [], r, r', h => by
    exfalso
    exact quote_ne_escChar q hq c r' (escBody q s ++ q :: r) (by simpa [escBody] using h.symm)
  | c :: s, c' :: s', r, r', h => by
    have h1 := escChar_uniq q hq c c' (escBody q s ++ q :: r) (escBody q s' ++ q :: r')
      (by simpa [escBody] using h)
    have h2 := body_uniq q hq s s' r r' h1.2
    exact ⟨by rw [h1.1, h2.1], h2.2⟩

theorem strChars_uniq (s s' r r' : List Char) (h : strChars s ++ r = strChars s' ++ r') : s = s' ∧ r = r' := by
  simp only [strChars, List.cons_append, List.append_assoc, List.nil_append, List.cons.injEq] at h
  obtain ⟨hq, hb⟩ := h
  rw [← hq] at hb
  exact body_uniq _ (quoteOf_isQuote s) s s' r r' hb

/-! ### keys -/

mutual
/-- the text of `repr(key)` -/
def keyText : KeyX → List Char
  | .str s => strText s
  | .int i => intText i
  | .bool b => if b then ['T', 'r', 'u', 'e'] else ['F', 'a', 'l', 's', 'e']
  | .flt neg t => signed neg t.toList
  | .none => ['N', 'o', 'n', 'e']
  | .tuple ks => '(' :: elemsText ks
def elemsText : List KeyX → List Char
  | [] => [')']
  | a :: r => keyText a ++ ',' :: moreText r
def moreText : List KeyX → List Char
  | [] => [')']
  | [b] => ' ' :: (keyText b ++ [')'])
  | b :: c :: r => ' ' :: (keyText b ++ ',' :: moreText (c :: r))
end

mutual
/-- well formed: every float text is as `repr` writes finite floats -/
def KeyOK : KeyX → Prop
  | .flt _ t => floatTextOK t = true
  | .tuple ks => KeysOK ks
  | .str _ => True
  | .int _ => True
  | .bool _ => True
  | .none => True
def KeysOK : List KeyX → Prop
  | [] => True
  | k :: r => KeyOK k ∧ KeysOK r
end

/-- the kinds that the first character tells apart: quoted / numeric / word / tuple -/
def kindOf : KeyX → Nat
  | .str _ => 0
  | .int _ => 1
  | .flt _ _ => 1
  | .bool _ => 2
  | .none => 2
  | .tuple _ => 3

def cls (c : Char) : Nat :=
  if c = '\'' ∨ c = '"' then 0 else if c.isDigit = true ∨ c = '-' then 1 else if c = '(' then 3 else 2

theorem cls_digit (c : Char) (h : c.isDigit = true) : cls c = 1 := by
  have h1 : c ≠ '\'' := by rintro rfl; exact absurd h (by decide)
  have h2 : c ≠ '"' := by rintro rfl; exact absurd h (by decide)
  simp [cls, h1, h2, h]

theorem cls_signed (n : Bool) (b : List Char) (hb : NumBody b) : ∃ c t, signed n b = c :: t ∧ cls c = 1 := by
  obtain ⟨⟨c, t, rfl, hc⟩, _⟩ := hb
  cases n with
  | false => exact ⟨c, t, by simp [signed], cls_digit c hc⟩
  | true => exact ⟨'-', c :: t, by simp [signed], by decide⟩

theorem keyText_head (k : KeyX) (hk : KeyOK k) : ∃ c t, keyText k = c :: t ∧ cls c = kindOf k := by
  cases k with
  | str s =>
    refine ⟨quoteOf s.toList, _, rfl, ?_⟩
    rcases quoteOf_isQuote s.toList with h | h
    · rw [h]; exact (by decide : cls '\'' = 0)
    · rw [h]; exact (by decide : cls '"' = 0)
  | int i => exact cls_signed _ _ (numBody_nat _)
  | bool b => cases b <;> exact ⟨_, _, rfl, by decide⟩
  | flt n t => exact cls_signed _ _ (numBody_float _ (by simpa [KeyOK, floatTextOK] using hk))
  | none => exact ⟨_, _, rfl, by decide⟩
  | tuple ks => exact ⟨_, _, rfl, (by decide : cls '(' = 3)⟩

theorem kind_eq (k k' : KeyX) (hk : KeyOK k) (hk' : KeyOK k') (r r' : List Char)
    (h : keyText k ++ r = keyText k' ++ r') : kindOf k = kindOf k' := by
  obtain ⟨c, t, e, hc⟩ := keyText_head k hk
  obtain ⟨c', t', e', hc'⟩ := keyText_head k' hk'
  rw [e, e'] at h
  simp only [List.cons_append, List.cons.injEq] at h
  rw [← hc, ← hc', h.1]

/-- keys that are not tuples: the text in front of a delimiter determines the key and the rest -/
theorem scalar_text_uniq (k k' : KeyX) (hk : KeyOK k) (hk' : KeyOK k') (hnt : kindOf k ≠ 3) (r r' : List Char)
    (hr : Delim r) (hr' : Delim r') (h : keyText k ++ r = keyText k' ++ r') : k = k' ∧ r = r' := by
  have hkind := kind_eq k k' hk hk' r r' h
  cases k with
  | str s =>
    cases k' with
    | str s' =>
      have := strChars_uniq s.toList s'.toList r r' (by simpa [keyText, strText] using h)
      exact ⟨by rw [String.toList_inj.mp this.1], this.2⟩
    | _ => simp [kindOf] at hkind
  | int i =>
    cases k' with
    | int j =>
      have := num_uniq _ _ _ _ (numBody_nat _) (numBody_nat _) r r' hr hr' (by simpa [keyText, intText] using h)
      exact ⟨by rw [int_of_sign_abs i j this.1.1 (natText_inj this.1.2)], this.2⟩
    | flt n t =>
      exfalso
      have ht : floatCharsOK t.toList = true := by simpa [KeyOK, floatTextOK] using hk'
      have := num_uniq _ _ _ _ (numBody_nat _) (numBody_float _ ht) r r' hr hr'
        (by simpa [keyText, intText] using h)
      obtain ⟨c, hc, hd⟩ := float_has_nondigit _ ht
      rw [← this.1.2] at hc
      rw [natText_digits _ c hc] at hd
      exact absurd hd (by simp)
    | _ => simp [kindOf] at hkind
  | flt n t =>
    have ht : floatCharsOK t.toList = true := by simpa [KeyOK, floatTextOK] using hk
    cases k' with
    | int j =>
      exfalso
      have := num_uniq _ _ _ _ (numBody_float _ ht) (numBody_nat _) r r' hr hr'
        (by simpa [keyText, intText] using h)
      obtain ⟨c, hc, hd⟩ := float_has_nondigit _ ht
      rw [this.1.2] at hc
      rw [natText_digits _ c hc] at hd
      exact absurd hd (by simp)
    | flt n' t' =>
      have ht' : floatCharsOK t'.toList = true := by simpa [KeyOK, floatTextOK] using hk'
      have := num_uniq _ _ _ _ (numBody_float _ ht) (numBody_float _ ht') r r' hr hr'
        (by simpa [keyText] using h)
      exact ⟨by rw [this.1.1, String.toList_inj.mp this.1.2], this.2⟩
    | _ => simp [kindOf] at hkind
  | bool b =>
    cases k' with
    | bool b' => cases b <;> cases b' <;> simp [keyText] at h <;> simp [h]
    | none => exfalso; cases b <;> simp [keyText] at h
    | _ => simp [kindOf] at hkind
  | none =>
    cases k' with
    | bool b' => exfalso; cases b' <;> simp [keyText] at h
    | none => simp [keyText] at h; simp [h]
    | _ => simp [kindOf] at hkind
  | tuple ks => simp [kindOf] at hnt

theorem kind_tuple (k : KeyX) (h : kindOf k = 3) : ∃ ks, k = .tuple ks := by
  cases k <;> simp [kindOf] at h
  exact ⟨_, rfl⟩

/-- a closing parenthesis is not the beginning of a key -/
theorem rpar_ne_keyText (k : KeyX) (hk : KeyOK k) (r r' : List Char) : ')' :: r ≠ keyText k ++ r' := by
  obtain ⟨c, t, e, hc⟩ := keyText_head k hk
  rw [e]
  intro h
  simp only [List.cons_append, List.cons.injEq] at h
  rw [← h.1] at hc
  have : cls ')' = 2 := by decide
  rw [this] at hc
  rw [← h.1] at e
  cases k <;> simp [kindOf] at hc
  · rename_i b; cases b <;> simp [keyText] at e
  · simp [keyText] at e

mutual
/-- **unique readability of the text**: a printed key in front of a delimiter determines the key and the rest -/
theorem key_text_uniq : ∀ (k k' : KeyX), KeyOK k → KeyOK k' → ∀ (r r' : List Char), Delim r → Delim r' →
    keyText k ++ r = keyText k' ++ r' → k = k' ∧ r = r'
  | .tuple ks, k', hk, hk', r, r', _, _, h => by
    have hkind := kind_eq _ k' hk hk' r r' h
    obtain ⟨ks', rfl⟩ := kind_tuple k' (by rw [← hkind]; rfl)
    have := elems_text_uniq ks ks' (by simpa [KeyOK] using hk) (by simpa [KeyOK] using hk') r r'
      (by simpa [keyText] using h)
    exact ⟨by rw [this.1], this.2⟩
  | .str s, k', hk, hk', r, r', hr, hr', h => scalar_text_uniq _ k' hk hk' (by simp [kindOf]) r r' hr hr' h
  | .int i, k', hk, hk', r, r', hr, hr', h => scalar_text_uniq _ k' hk hk' (by simp [kindOf]) r r' hr hr' h
  | .bool b, k', hk, hk', r, r', hr, hr', h => scalar_text_uniq _ k' hk hk' (by simp [kindOf]) r r' hr hr' h
  | .flt n t, k', hk, hk', r, r', hr, hr', h => scalar_text_uniq _ k' hk hk' (by simp [kindOf]) r r' hr hr' h
  | .none, k', hk, hk', r, r', hr, hr', h => scalar_text_uniq _ k' hk hk' (by simp [kindOf]) r r' hr hr' h
theorem elems_text_uniq : ∀ (ks ks' : List KeyX), KeysOK ks → KeysOK ks' → ∀ (r r' : List Char),
    elemsText ks ++ r = elemsText ks' ++ r' → ks = ks' ∧ r = r'
  | [], [], _, _, r, r', h => by simpa [elemsText] using h
  | [], a :: l, _, hk', r, r', h => by
    exfalso
    exact rpar_ne_keyText a (by simp [KeysOK] at hk'; exact hk'.1) r (',' :: moreText l ++ r')
      (by simpa [elemsText] using h)
  | a :: l, [], hk, _, r, r', h => by
    exfalso
    exact rpar_ne_keyText a (by simp [KeysOK] at hk; exact hk.1) r' (',' :: moreText l ++ r)
      (by simpa [elemsText] using h.symm)
  | a :: l, a' :: l', hk, hk', r, r', h => by
    have hk : KeyOK a ∧ KeysOK l := by simpa [KeysOK] using hk
    have hk' : KeyOK a' ∧ KeysOK l' := by simpa [KeysOK] using hk'
    have h1 := key_text_uniq a a' hk.1 hk'.1 (',' :: moreText l ++ r) (',' :: moreText l' ++ r')
      (by simp [Delim]) (by simp [Delim]) (by simpa [elemsText] using h)
    have h2 := more_text_uniq l l' hk.2 hk'.2 r r' (by simpa using h1.2)
    exact ⟨by rw [h1.1, h2.1], h2.2⟩
theorem more_text_uniq : ∀ (ks ks' : List KeyX), KeysOK ks → KeysOK ks' → ∀ (r r' : List Char),
    moreText ks ++ r = moreText ks' ++ r' → ks = ks' ∧ r = r'
  | [], [], _, _, r, r', h => by simpa [moreText] using h
  | [], [b], _, _, r, r', h => by simp [moreText] at h
  | [], b :: c :: l, _, _, r, r', h => by simp [moreText] at h
  | [b], [], _, _, r, r', h => by simp [moreText] at h
  | b :: c :: l, [], _, _, r, r', h => by simp [moreText] at h
  | [b], [b'], hk, hk', r, r', h => by
    have hk : KeyOK b := by simp [KeysOK] at hk; exact hk
    have hk' : KeyOK b' := by simp [KeysOK] at hk'; exact hk'
    have h1 := key_text_uniq b b' hk hk' (')' :: r) (')' :: r') (by simp [Delim]) (by simp [Delim])
      (by simpa [moreText] using h)
    exact ⟨by rw [h1.1], by simpa using h1.2⟩
  | [b], b' :: c' :: l', hk, hk', r, r', h => by
    have hk : KeyOK b := by simp [KeysOK] at hk; exact hk
    have hk' : KeyOK b' ∧ KeysOK (c' :: l') := by simpa [KeysOK] using hk'
    have h1 := key_text_uniq b b' hk hk'.1 (')' :: r) (',' :: moreText (c' :: l') ++ r') (by simp [Delim])
      (by simp [Delim]) (by simpa [moreText] using h)
    simp at h1
  | b :: c :: l, [b'], hk, hk', r, r', h => by
    have hk : KeyOK b ∧ KeysOK (c :: l) := by simpa [KeysOK] using hk
    have hk' : KeyOK b' := by simp [KeysOK] at hk'; exact hk'
    have h1 := key_text_uniq b b' hk.1 hk' (',' :: moreText (c :: l) ++ r) (')' :: r') (by simp [Delim])
      (by simp [Delim]) (by simpa [moreText] using h)
    simp at h1
  | b :: c :: l, b' :: c' :: l', hk, hk', r, r', h => by
    have hk : KeyOK b ∧ KeysOK (c :: l) := by simpa [KeysOK] using hk
    have hk' : KeyOK b' ∧ KeysOK (c' :: l') := by simpa [KeysOK] using hk'
    have h1 := key_text_uniq b b' hk.1 hk'.1 (',' :: moreText (c :: l) ++ r) (',' :: moreText (c' :: l') ++ r')
      (by simp [Delim]) (by simp [Delim]) (by simpa [moreText] using h)
    have h2 := more_text_uniq (c :: l) (c' :: l') hk.2 hk'.2 r r' (by simpa using h1.2)
    exact ⟨by rw [h1.1, h2.1], h2.2⟩
end

/-- **the text of a key determines the key** — strings with any content (quotes, brackets, backslashes …), ints,
    bools, `None`, floats whose text is as `repr` writes it, and tuples of these, nested at will. -/
theorem keyText_injective (k₁ k₂ : KeyX) (h₁ : KeyOK k₁) (h₂ : KeyOK k₂) (h : keyText k₁ = keyText k₂) : k₁ = k₂ :=
  (key_text_uniq k₁ k₂ h₁ h₂ [] [] trivial trivial (by simpa using h)).1

/-! ### access paths -/

def stepText : StepX → List Char
  | .item k => '[' :: (keyText k ++ [']'])
  | .attr a => '.' :: a.toList

def stepsText : List StepX → List Char
  | [] => []
  | s :: r => stepText s ++ stepsText r

/-- `str(ref)` -/
def pathText (p : PathX) : List Char := p.label.toList ++ stepsText p.steps

def StepOK : StepX → Prop
  | .item k => KeyOK k
  | .attr a => isIdent a = true

def StepsOK : List StepX → Prop
  | [] => True
  | s :: r => StepOK s ∧ StepsOK r

/-- well formed: the label and the attribute names are identifiers, the keys are well formed -/
def PathOK (p : PathX) : Prop := isIdent p.label = true ∧ StepsOK p.steps

theorem ident_chars (s : String) (h : isIdent s = true) : ∀ c ∈ s.toList, identCont c = true := by
  unfold isIdent at h
  cases hs : s.toList with
  | nil => simp
  | cons c cs =>
    rw [hs] at h
    simp only [Bool.and_eq_true, List.all_eq_true] at h
    intro d hd
    rcases List.mem_cons.mp hd with rfl | hd
    · have := h.1
      simp only [identStart, identCont, Bool.or_eq_true, Char.isAlphanum] at this ⊢
      rcases this with h | h
      · exact Or.inl (Or.inl h)
      · exact Or.inr h
    · exact h.2 d hd

theorem stepsText_stop (l : List StepX) : Stop identCont (stepsText l) := by
  cases l with
  | nil => trivial
  | cons s r => cases s <;> simp [stepsText, stepText, Stop] <;> decide

theorem step_text_uniq (s s' : StepX) (hs : StepOK s) (hs' : StepOK s') (l l' : List StepX)
    (h : stepText s ++ stepsText l = stepText s' ++ stepsText l') : s = s' ∧ stepsText l = stepsText l' := by
  cases s with
  | item k =>
    cases s' with
    | item k' =>
      have := key_text_uniq k k' hs hs' (']' :: stepsText l) (']' :: stepsText l') (by simp [Delim])
        (by simp [Delim]) (by simpa [stepText] using h)
      exact ⟨by rw [this.1], by simpa using this.2⟩
    | attr a' => simp [stepText] at h
  | attr a =>
    cases s' with
    | item k' => simp [stepText] at h
    | attr a' =>
      have := span_uniq identCont a.toList a'.toList _ _ (ident_chars a hs) (ident_chars a' hs')
        (stepsText_stop l) (stepsText_stop l') (by simpa [stepText] using h)
      exact ⟨by rw [String.toList_inj.mp this.1], this.2⟩

theorem stepText_ne_nil (s : StepX) (r : List Char) : stepText s ++ r ≠ [] := by
  cases s <;> simp [stepText]

theorem steps_text_uniq : ∀ (l l' : List StepX), StepsOK l → StepsOK l' → stepsText l = stepsText l' → l = l'
  | [], [], _, _, _ => rfl
  | [], s :: r, _, _, h => absurd h.symm (by simpa [stepsText] using stepText_ne_nil s (stepsText r))
  | s :: r, [], _, _, h => absurd h (by simpa [stepsText] using stepText_ne_nil s (stepsText r))
  | s :: r, s' :: r', hl, hl', h => by
    have hl : StepOK s ∧ StepsOK r := by simpa [StepsOK] using hl
    have hl' : StepOK s' ∧ StepsOK r' := by simpa [StepsOK] using hl'
    have h1 := step_text_uniq s s' hl.1 hl'.1 r r' (by simpa [stepsText] using h)
    rw [h1.1, steps_text_uniq r r' hl.2 hl'.2 h1.2]

/-- **different access paths never print alike**: the printed text of a reference determines the container's label
    and every step with its key. -/
theorem pathText_injective (p q : PathX) (hp : PathOK p) (hq : PathOK q) (h : pathText p = pathText q) : p = q := by
  cases p with | mk l s => cases q with | mk l' s' =>
  have := span_uniq identCont l.toList l'.toList _ _ (ident_chars l hp.1) (ident_chars l' hq.1)
    (stepsText_stop s) (stepsText_stop s') h
  rw [String.toList_inj.mp this.1, steps_text_uniq s s' hp.2 hq.2 this.2]

/-! ### examples -/

#guard String.ofList (keyText (.str "a")) == "'a'"
#guard String.ofList (keyText (.str "it's")) == "\"it's\""
#guard String.ofList (keyText (.str "a\"'b\\\n")) == "'a\"\\'b\\\\\\n'"
#guard String.ofList (keyText (.tuple [.str "a"])) == "('a',)"
#guard String.ofList (keyText (.tuple [])) == "()"
#guard String.ofList (keyText (.tuple [.int 1, .tuple [.int (-2), .flt true "0.5"], .none, .bool false])) ==
  "(1, (-2, -0.5), None, False)"
#guard String.ofList (pathText pathExample) == "c[('a',)].x[-1][0.1][None]"
#guard (List.range 30).all fun n => intText (n - 15 : Int) == (toString (n - 15 : Int)).toList

/-- the hypotheses are satisfiable: the path with every kind of key -/
example : PathOK pathExample := by
  refine ⟨by decide, ?_⟩
  simp [pathExample, StepsOK, StepOK, KeyOK, KeysOK]
  decide

/-- one key that looks like two steps: `c['a']['b']` and `c["a']['b"]` are different texts (the quote changes) -/
example : pathText ⟨"c", [.item (.str "a"), .item (.str "b")]⟩ ≠ pathText ⟨"c", [.item (.str "a']['b")]⟩ := by
  decide
#guard String.ofList (pathText ⟨"c", [.item (.str "a']['b")]⟩) == "c[\"a']['b\"]"
/- with both quotes in the key the inner `'` is escaped: `c['a\'][\'b"']` -/
#guard String.ofList (pathText ⟨"c", [.item (.str "a']['b\"")]⟩) == "c['a\\'][\\'b\"']"

/-- `floatTextOK` is needed: a "float" whose text is `1` prints like the int `1` -/
theorem float_text_needs_ok : keyText (.flt false "1") = keyText (.int 1) ∧ floatTextOK "1" = false := by
  decide
/-- `PathOK` is needed: the label `a.b` prints like the attribute `b` of the container `a` -/
theorem label_needs_ident : pathText ⟨"a.b", []⟩ = pathText ⟨"a", [.attr "b"]⟩ ∧ isIdent "a.b" = false := by
  decide
/-- `repr` of finite floats satisfies the hypothesis; `inf` and `nan` do not (outside) -/
example : floatTextOK "0.30000000000000004" = true ∧ floatTextOK "1e-07" = true ∧ floatTextOK "1.5e+300" = true ∧
    floatTextOK "inf" = false ∧ floatTextOK "nan" = false := by decide

/-- a printer that forgot to escape (or quoted with a fixed quote) is NOT injective on paths: with
    `f"{owner}['{key}']"` the key `a']['b` prints like the two steps `a`, `b` -/
def naiveStepText : StepX → List Char
  | .item (.str s) => ['[', '\''] ++ s.toList ++ ['\'', ']']
  | s => stepText s
def naivePathText (p : PathX) : List Char := p.label.toList ++ (p.steps.map naiveStepText).flatten
example : naivePathText ⟨"c", [.item (.str "a"), .item (.str "b")]⟩ = naivePathText ⟨"c", [.item (.str "a']['b")]⟩ := by
  decide

#print axioms keyText_injective
#print axioms pathText_injective
end KeyText
