import XModel.ManagerFrame
/-!
The index invariant lifted to the executable manager state, and its preservation by every operation
(C03), with the graph facts C02 needs as corollaries.
-/
namespace Manager
open Store Push Index

/-! ### small list facts -/

theorem dedup_nodup {α : Type} [DecidableEq α] : ∀ l : List α, (dedup l).Nodup
  | [] => List.nodup_nil
  | a :: l => by
    simp only [dedup]
    split
    · exact dedup_nodup l
    · next h => exact List.nodup_cons.mpr ⟨h, dedup_nodup l⟩

theorem uniq_nodup {α : Type} [DecidableEq α] (l : List α) : (uniq l).Nodup := by
  unfold uniq
  exact List.nodup_reverse.mpr (dedup_nodup _)

theorem chain_ne_nil : ∀ (p : Path) (x : Path), x ∈ chain p → x ≠ []
  | [], x, h => by simp [chain] at h
  | s :: p, x, h => by
    simp only [chain, List.mem_cons, List.mem_map] at h
    rcases h with rfl | ⟨y, _, rfl⟩ <;> simp

theorem chain_nodup : ∀ p : Path, (chain p).Nodup
  | [] => by simp [chain]
  | s :: p => by
    simp only [chain]
    refine List.nodup_cons.mpr ⟨?_, ?_⟩
    · intro h
      simp only [List.mem_map] at h
      obtain ⟨y, hy, he⟩ := h
      have : y = [] := by simpa using he
      exact chain_ne_nil p y hy this
    · exact (chain_nodup p).map (fun a b h => by simpa using h)

theorem chainR_nodup : ∀ p : Path, (chainR p).Nodup
  | [] => by simp [chainR]
  | l :: p => by
    simp only [chainR]
    exact (chain_nodup p).map (fun a b h => by simpa using h)

/-! ### the invariant -/

structure MInv (s : MState) : Prop where
  inv : Inv s.idx
  link : s.idx.tasks = s.defs.map MTask.toIdx
  ids : (s.defs.map (·.id)).Nodup
  rows1 : (DD.rows s.idx.rdeps).Nodup
  rows2 : (DD.rows s.idx.rtasks).Nodup
  rows3 : (DD.rows s.idx.deptasks).Nodup
  rows4 : (DD.rows s.idx.tartasks).Nodup

theorem MInv_of_sameGraph {s s' : MState} (h : SameGraph s s') (hi : MInv s) : MInv s' := by
  obtain ⟨h1, h2, _⟩ := h
  exact ⟨by rw [h1]; exact hi.inv, by rw [h1, h2]; exact hi.link, by rw [h2]; exact hi.ids,
         by rw [h1]; exact hi.rows1, by rw [h1]; exact hi.rows2, by rw [h1]; exact hi.rows3, by rw [h1]; exact hi.rows4⟩

theorem inv_empty : Inv (Mgr.empty : Mgr Path Path) := by
  refine ⟨by intro t h; cases h, ?_, ?_, ?_, ?_, ?_, ?_, ?_, ?_⟩
  all_goals first
    | (intro a; exact ⟨by simp [Mgr.empty, DD.get, RC.keys], by intro p hp; simp [Mgr.empty, DD.get] at hp⟩)
    | (intro a b; simp [Mgr.empty, DD.cnt2, DD.get, RC.cnt, sRdeps, sDep, sTar, sRt, look])

theorem MInv.init : MInv MState.init :=
  ⟨inv_empty, rfl, by simp [MState.init], by simp [MState.init, Mgr.empty, DD.rows], by simp [MState.init, Mgr.empty, DD.rows],
   by simp [MState.init, Mgr.empty, DD.rows], by simp [MState.init, Mgr.empty, DD.rows]⟩

theorem appAll_rows {ρ κ : Type} [DecidableEq ρ] [DecidableEq κ] (d : DD ρ κ) (hnd : (DD.rows d).Nodup)
    (xs : List (ρ × κ)) : (DD.rows (appAll d xs)).Nodup := by
  induction xs generalizing d with
  | nil => simpa [appAll] using hnd
  | cons p xs ih =>
    simp only [appAll, List.foldl_cons]
    exact ih _ (DD.rows_modify d p.1 _ hnd)

theorem del_rows {ρ κ : Type} [DecidableEq ρ] (d : DD ρ κ) (hnd : (DD.rows d).Nodup) (a : ρ) :
    (DD.rows (DD.del d a)).Nodup := by
  induction d with
  | nil => simp [DD.del, DD.rows]
  | cons p r ih =>
    obtain ⟨a', m⟩ := p
    have h' : a' ∉ DD.rows r ∧ (DD.rows r).Nodup := by simpa [DD.rows] using hnd
    simp only [DD.del]
    split
    · exact h'.2
    · have hsub : ∀ x, x ∈ DD.rows (DD.del r a) → x ∈ DD.rows r := by
        intro x hx
        clear ih hnd h'
        induction r with
        | nil => simp [DD.del, DD.rows] at hx
        | cons q r2 ih2 =>
          obtain ⟨b, mb⟩ := q
          simp only [DD.del] at hx
          split at hx
          · simp [DD.rows]; right; simpa [DD.rows] using hx
          · simp only [DD.rows, List.map_cons, List.mem_cons] at hx ⊢
            rcases hx with rfl | hx
            · left; rfl
            · right; exact ih2 hx
      simp only [DD.rows, List.map_cons]
      exact List.nodup_cons.mpr ⟨fun hx => h'.1 (hsub _ hx), ih h'.2⟩

theorem look_map_toIdx (defs : List MTask) (id : Path) :
    look (defs.map MTask.toIdx) id = (lookDef defs id).map MTask.toIdx := by
  unfold look lookDef
  induction defs with
  | nil => rfl
  | cons t rest ih =>
    simp only [List.map_cons, List.find?_cons]
    by_cases h : t.id = id
    · simp [MTask.toIdx, h]
    · simp only [MTask.toIdx, h, decide_false] at ih ⊢
      exact ih

theorem filter_fresh (ts : List (Task Path Path)) (id : Path) (h : look ts id = none) :
    ts.filter (fun x => !decide (x.id = id)) = ts := by
  unfold look at h
  rw [List.filter_eq_self]
  intro x hx
  have := List.find?_eq_none.mp h x hx
  simpa using this

/-- **register (fresh id).** -/
theorem register_MInv (s : MState) (t : MTask) (hi : MInv s) (hf : s.frozen = false)
    (hfresh : lookDef s.defs t.id = none) (hd : t.deps.Nodup) (ht : t.tars.Nodup) :
    MInv (register s t).1 ∧ (register s t).2 = none := by
  have hlook : look s.idx.tasks t.id = none := by
    rw [hi.link, look_map_toIdx, hfresh]; rfl
  have hfilt := filter_fresh s.idx.tasks t.id hlook
  have hidx : ({ s.idx with tasks := s.idx.tasks.filter (fun x => !decide (x.id = t.id)) } : Mgr Path Path) = s.idx := by
    cases hm : s.idx; simp only [hm] at hfilt ⊢; simp [hfilt]
  unfold register
  simp only [hf, Bool.false_eq_true, if_false, hfresh]
  refine ⟨?_, rfl⟩
  have hid : (MTask.toIdx t).id = t.id := rfl
  have hinv : Inv (register' s.idx t.toIdx) := register_inv s.idx t.toIdx hi.inv (by rw [hid]; exact hlook) hd ht
  refine ⟨?_, ?_, ?_, ?_, ?_, ?_, ?_⟩
  · simp only [hidx]; exact hinv
  · simp only [hidx, register', hi.link, List.map_append, List.map_cons, List.map_nil]
  · simp only [List.map_append, List.map_cons, List.map_nil]
    refine List.nodup_append.mpr ⟨hi.ids, by simp, ?_⟩
    intro a ha b hb
    simp only [List.mem_singleton] at hb
    subst hb
    intro e; subst e
    -- a is the id of an existing definition: contradiction with freshness
    obtain ⟨u, hu, hue⟩ := List.mem_map.mp ha
    unfold lookDef at hfresh
    have := List.find?_eq_none.mp hfresh u hu
    simp [hue] at this
  · simp only [hidx, register']; exact appAll_rows _ hi.rows1 _
  · simp only [hidx, register']; exact appAll_rows _ (appAll_rows _ hi.rows2 _) _
  · simp only [hidx, register']; exact appAll_rows _ hi.rows3 _
  · simp only [hidx, register']; exact appAll_rows _ hi.rows4 _

end Manager
