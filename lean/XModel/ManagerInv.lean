import XModel.ManagerFrame
/-!
The index invariant lifted to the executable manager state, and its preservation by every operation
(C03), with the graph facts C02 needs as corollaries.
-/
namespace Manager
open Store Push Index

/-! ### small list facts -/

theorem dedup_nodup {α : Type} [DecidableEq α] : ∀ l : List α, (dedup l).Nodup
  | [] => List.nodup_nil
  | a :: l => by
    simp only [dedup]
    split
    · exact dedup_nodup l
    · next h => exact List.nodup_cons.mpr ⟨h, dedup_nodup l⟩

theorem nodup_reverse' {α : Type} {l : List α} (h : l.Nodup) : l.reverse.Nodup :=
  List.pairwise_reverse.mpr (h.imp (fun hne e => hne e.symm))

theorem nodup_map_inj {α β : Type} (f : α → β) (hf : ∀ a b, f a = f b → a = b) {l : List α} (h : l.Nodup) :
    (l.map f).Nodup :=
  List.Pairwise.map f (fun a b hne e => hne (hf a b e)) h

theorem uniq_nodup {α : Type} [DecidableEq α] (l : List α) : (uniq l).Nodup := by
  unfold uniq
  exact nodup_reverse' (dedup_nodup _)

theorem chain_ne_nil : ∀ (p : Path) (x : Path), x ∈ chain p → x ≠ []
  | [], x, h => by simp [chain] at h
  | s :: p, x, h => by
    simp only [chain, List.mem_cons, List.mem_map] at h
    rcases h with rfl | ⟨y, _, rfl⟩ <;> simp

theorem chain_nodup : ∀ p : Path, (chain p).Nodup
  | [] => by simp [chain]
  | s :: p => by
    simp only [chain]
    refine List.nodup_cons.mpr ⟨?_, ?_⟩
    · intro h
      simp only [List.mem_map] at h
      obtain ⟨y, hy, he⟩ := h
      have : y = [] := by simpa using he
      exact chain_ne_nil p y hy this
    · exact nodup_map_inj _ (fun a b h => by simpa using h) (chain_nodup p)

theorem chainR_nodup : ∀ p : Path, (chainR p).Nodup
  | [] => by simp [chainR]
  | l :: p => by
    simp only [chainR]
    exact nodup_map_inj _ (fun a b h => by simpa using h) (chain_nodup p)

/-! ### the invariant -/

structure MInv (s : MState) : Prop where
  inv : Inv s.idx
  link : s.idx.tasks = s.defs.map MTask.toIdx
  ids : (s.defs.map (·.id)).Nodup
  rows1 : (DD.rows s.idx.rdeps).Nodup
  rows2 : (DD.rows s.idx.rtasks).Nodup
  rows3 : (DD.rows s.idx.deptasks).Nodup
  rows4 : (DD.rows s.idx.tartasks).Nodup

theorem MInv_of_sameGraph {s s' : MState} (h : SameGraph s s') (hi : MInv s) : MInv s' := by
  obtain ⟨h1, h2, _⟩ := h
  exact ⟨by rw [h1]; exact hi.inv, by rw [h1, h2]; exact hi.link, by rw [h2]; exact hi.ids,
         by rw [h1]; exact hi.rows1, by rw [h1]; exact hi.rows2, by rw [h1]; exact hi.rows3, by rw [h1]; exact hi.rows4⟩

theorem wf_nil {ρ κ : Type} [DecidableEq ρ] [DecidableEq κ] : DD.WF ([] : DD ρ κ) := by
  intro a
  exact ⟨by simp [DD.get, RC.keys], by intro p hp; simp [DD.get] at hp⟩

theorem inv_empty : Inv (Mgr.empty : Mgr Path Path) where
  wfT := by intro t h; cases h
  wf1 := wf_nil
  wf2 := wf_nil
  wf3 := wf_nil
  wf4 := wf_nil
  rdeps := by intro a b; simp [Mgr.empty, DD.cnt2, DD.get, RC.cnt, sRdeps]
  dept := by intro a b; simp [Mgr.empty, DD.cnt2, DD.get, RC.cnt, sDep, look]
  tart := by intro a b; simp [Mgr.empty, DD.cnt2, DD.get, RC.cnt, sTar, look]
  rt := by intro a b; simp [Mgr.empty, DD.cnt2, DD.get, RC.cnt, sRt, look]

theorem MInv.init : MInv MState.init :=
  ⟨inv_empty, rfl, by simp [MState.init], by simp [MState.init, Mgr.empty, DD.rows], by simp [MState.init, Mgr.empty, DD.rows],
   by simp [MState.init, Mgr.empty, DD.rows], by simp [MState.init, Mgr.empty, DD.rows]⟩

theorem appAll_rows {ρ κ : Type} [DecidableEq ρ] [DecidableEq κ] (d : DD ρ κ) (hnd : (DD.rows d).Nodup)
    (xs : List (ρ × κ)) : (DD.rows (appAll d xs)).Nodup := by
  induction xs generalizing d with
  | nil => simpa [appAll] using hnd
  | cons p xs ih =>
    simp only [appAll, List.foldl_cons]
    exact ih _ (DD.rows_modify d p.1 _ hnd)

theorem del_rows {ρ κ : Type} [DecidableEq ρ] (d : DD ρ κ) (hnd : (DD.rows d).Nodup) (a : ρ) :
    (DD.rows (DD.del d a)).Nodup := by
  induction d with
  | nil => simp [DD.del, DD.rows]
  | cons p r ih =>
    obtain ⟨a', m⟩ := p
    have h' : a' ∉ DD.rows r ∧ (DD.rows r).Nodup := by simpa [DD.rows] using hnd
    simp only [DD.del]
    split
    · exact h'.2
    · have hsub : ∀ x, x ∈ DD.rows (DD.del r a) → x ∈ DD.rows r := by
        intro x hx
        clear ih hnd h'
        induction r with
        | nil => simp [DD.del, DD.rows] at hx
        | cons q r2 ih2 =>
          obtain ⟨b, mb⟩ := q
          simp only [DD.del] at hx
          split at hx
          · simp [DD.rows]; right; simpa [DD.rows] using hx
          · simp only [DD.rows, List.map_cons, List.mem_cons] at hx ⊢
            rcases hx with rfl | hx
            · left; rfl
            · right; exact ih2 hx
      simp only [DD.rows, List.map_cons]
      exact List.nodup_cons.mpr ⟨fun hx => h'.1 (hsub _ hx), ih h'.2⟩

theorem look_map_toIdx (defs : List MTask) (id : Path) :
    look (defs.map MTask.toIdx) id = (lookDef defs id).map MTask.toIdx := by
  unfold look lookDef
  induction defs with
  | nil => rfl
  | cons t rest ih =>
    simp only [List.map_cons, List.find?_cons]
    by_cases h : t.id = id
    · simp [MTask.toIdx, h]
    · simp only [MTask.toIdx, h, decide_false] at ih ⊢
      exact ih

theorem filter_fresh (ts : List (Task Path Path)) (id : Path) (h : look ts id = none) :
    ts.filter (fun x => !decide (x.id = id)) = ts := by
  unfold look at h
  rw [List.filter_eq_self]
  intro x hx
  have := List.find?_eq_none.mp h x hx
  simpa using this

/-- what `register` does to the task table and the indices when the id is fresh and the tree not frozen -/
theorem register_fresh_eq (s : MState) (t : MTask) (hi : MInv s) (hf : s.frozen = false)
    (hfresh : lookDef s.defs t.id = none) :
    (register s t).2 = none ∧ (register s t).1.defs = s.defs ++ [t] ∧
    (register s t).1.idx = register' s.idx t.toIdx ∧ (register s t).1.frozen = false := by
  have hlook : look s.idx.tasks t.id = none := by
    rw [hi.link, look_map_toIdx, hfresh]; rfl
  have hfilt := filter_fresh s.idx.tasks t.id hlook
  have hidx : ({ s.idx with tasks := s.idx.tasks.filter (fun x => !decide (x.id = t.id)) } : Mgr Path Path) = s.idx := by
    cases hm : s.idx; simp only [hm] at hfilt ⊢; simp [hfilt]
  unfold register
  simp only [hf, Bool.false_eq_true, if_false, hfresh, hidx]
  simp

/-- **register (fresh id).** -/
theorem register_MInv (s : MState) (t : MTask) (hi : MInv s) (hf : s.frozen = false)
    (hfresh : lookDef s.defs t.id = none) (hd : t.deps.Nodup) (ht : t.tars.Nodup) :
    MInv (register s t).1 := by
  obtain ⟨_, hdefs, hidx, _⟩ := register_fresh_eq s t hi hf hfresh
  have hlook : look s.idx.tasks t.id = none := by
    rw [hi.link, look_map_toIdx, hfresh]; rfl
  have hinv : Inv (register' s.idx t.toIdx) := register_inv s.idx t.toIdx hi.inv hlook hd ht
  refine ⟨by rw [hidx]; exact hinv, ?_, ?_, ?_, ?_, ?_, ?_⟩
  · rw [hidx, hdefs]
    simp only [register', hi.link, List.map_append, List.map_cons, List.map_nil]
  · rw [hdefs]
    simp only [List.map_append, List.map_cons, List.map_nil]
    refine List.nodup_append.mpr ⟨hi.ids, by simp, ?_⟩
    intro a ha b hb
    simp only [List.mem_singleton] at hb
    subst hb
    intro e; subst e
    obtain ⟨u, hu, hue⟩ := List.mem_map.mp ha
    unfold lookDef at hfresh
    have := List.find?_eq_none.mp hfresh u hu
    simp [hue] at this
  · rw [hidx]; simp only [register']; exact appAll_rows _ hi.rows1 _
  · rw [hidx]; simp only [register']; exact appAll_rows _ (appAll_rows _ hi.rows2 _) _
  · rw [hidx]; simp only [register']; exact appAll_rows _ hi.rows3 _
  · rw [hidx]; simp only [register']; exact appAll_rows _ hi.rows4 _

/-- what `unregister` does when the id is registered and the tree not frozen -/
theorem unregister_present_eq (s : MState) (id : Path) (t : MTask) (hf : s.frozen = false)
    (hl : lookDef s.defs id = some t) :
    (unregister s id).2 = none ∧ (unregister s id).1.defs = s.defs.filter (fun x => !decide (x.id = id)) ∧
    (unregister s id).1.idx = unregister' s.idx t.toIdx ∧ (unregister s id).1.frozen = false ∧
    (unregister s id).1.store = s.store := by
  unfold unregister
  simp [hf, hl]

theorem lookDef_id {defs : List MTask} {id : Path} {t : MTask} (h : lookDef defs id = some t) : t.id = id := by
  unfold lookDef at h
  have := List.find?_some h
  simpa using this

theorem filter_map_toIdx (defs : List MTask) (id : Path) :
    (defs.map MTask.toIdx).filter (fun x => !decide (x.id = id)) = (defs.filter (fun x => !decide (x.id = id))).map MTask.toIdx := by
  induction defs with
  | nil => rfl
  | cons t rest ih =>
    simp only [List.map_cons, List.filter_cons]
    by_cases h : t.id = id
    · simp [MTask.toIdx, h, ih]
    · simp only [MTask.toIdx, h, decide_false, Bool.not_false, if_true, List.map_cons] at ih ⊢
      rw [ih]

/-- **unregister (registered id).** -/
theorem unregister_MInv (s : MState) (id : Path) (t : MTask) (hi : MInv s) (hf : s.frozen = false)
    (hl : lookDef s.defs id = some t) : MInv (unregister s id).1 := by
  obtain ⟨_, hdefs, hidx, _, _⟩ := unregister_present_eq s id t hf hl
  have hid : t.id = id := lookDef_id hl
  have hlook : look s.idx.tasks t.toIdx.id = some t.toIdx := by
    show look s.idx.tasks t.id = _
    rw [hi.link, look_map_toIdx, hid, hl]; rfl
  have hids : (s.idx.tasks.map (·.id)).Nodup := by
    rw [hi.link, List.map_map]
    exact hi.ids
  have hinv : Inv (unregister' s.idx t.toIdx) := unregister_inv s.idx t.toIdx hi.inv hids hi.rows2 hlook
  refine ⟨by rw [hidx]; exact hinv, ?_, ?_, ?_, ?_, ?_, ?_⟩
  · rw [hidx, hdefs]
    simp only [unregister', hi.link]
    show (s.defs.map MTask.toIdx).filter (fun x => !decide (x.id = t.id)) = _
    rw [hid, filter_map_toIdx]
  · rw [hdefs]
    have : (s.defs.filter (fun x => !decide (x.id = id))).map (·.id) = (s.defs.map (·.id)).filter (fun a => !decide (a = id)) := by
      induction s.defs with
      | nil => rfl
      | cons u rest ih =>
        simp only [List.filter_cons, List.map_cons]
        by_cases h : u.id = id <;> simp [h, ih]
    rw [this]
    exact hi.ids.sublist List.filter_sublist
  · rw [hidx]; simp only [unregister']; exact rmAll_rows _ hi.rows1 _
  · rw [hidx]; simp only [unregister']; exact del_rows _ (rmAll_rows _ hi.rows2 _) _
  · rw [hidx]; simp only [unregister']; exact rmAll_rows _ hi.rows3 _
  · rw [hidx]; simp only [unregister']; exact rmAll_rows _ hi.rows4 _

/-- after `unregister id` the id is free again -/
theorem lookDef_after_unregister (s : MState) (id : Path) (t : MTask) (hf : s.frozen = false)
    (hl : lookDef s.defs id = some t) : lookDef (unregister s id).1.defs id = none := by
  obtain ⟨_, hdefs, _, _, _⟩ := unregister_present_eq s id t hf hl
  rw [hdefs]
  unfold lookDef
  rw [List.find?_eq_none]
  intro x hx
  have := (List.mem_filter.mp hx).2
  simpa using this

theorem mkExprTask_nodup (p : Path) (e : Expr) : (mkExprTask p e).deps.Nodup ∧ (mkExprTask p e).tars.Nodup :=
  ⟨uniq_nodup _, chainR_nodup p⟩

/-- **set_value(ref, expr)** keeps the invariant, whatever happens while the value propagates -/
theorem setExpr_MInv (sched : Sched) (s : MState) (p : Path) (e : Expr) (hi : MInv s) :
    MInv (setExpr sched s p e).1 := by
  by_cases hf : s.frozen = true
  · rw [setExpr_frozen sched s p e hf]; exact hi
  · have hf' : s.frozen = false := by simpa using hf
    -- the graph after the call is `defPart`, and `defPart` is unregister-then-register
    refine MInv_of_sameGraph (setExpr_graph sched s p e hf') ?_
    unfold defPart
    cases hl : lookDef s.defs p with
    | none =>
      simp only
      exact register_MInv s (mkExprTask p e) hi hf' (by simpa [mkExprTask] using hl)
        (mkExprTask_nodup p e).1 (mkExprTask_nodup p e).2
    | some t =>
      simp only
      have h1 := unregister_MInv s p t hi hf' hl
      obtain ⟨_, _, _, hfz, _⟩ := unregister_present_eq s p t hf' hl
      exact register_MInv _ (mkExprTask p e) h1 hfz
        (by simpa [mkExprTask] using lookDef_after_unregister s p t hf' hl)
        (mkExprTask_nodup p e).1 (mkExprTask_nodup p e).2

/-- **set_value(ref, value)** -/
theorem setValue_MInv (sched : Sched) (s : MState) (p : Path) (v : Val) (hi : MInv s) :
    MInv (setValue sched s p v).1 := by
  cases hl : lookDef s.defs p with
  | none => exact MInv_of_sameGraph (setValue_plain_graph sched s p v hl) hi
  | some t =>
    by_cases hf : s.frozen = true
    · rw [setValue_frozen_defined sched s p v t hf hl]; exact hi
    · have hf' : s.frozen = false := by simpa using hf
      unfold setValue
      simp only [hl]
      have h1 := unregister_MInv s p t hi hf' hl
      obtain ⟨hnone, _, _, _, _⟩ := unregister_present_eq s p t hf' hl
      generalize unregister s p = r at h1 hnone
      obtain ⟨s0, x0⟩ := r
      simp only at hnone h1
      subst hnone
      exact MInv_of_sameGraph (writeAndRun_graph sched s0 p v) h1

/-! ### maintenance operations -/

theorem get_cleanupDD {ρ κ : Type} [DecidableEq ρ] [DecidableEq κ] (d : DD ρ κ) (hnd : (DD.rows d).Nodup) (a : ρ) :
    DD.get (cleanupDD d) a = DD.get d a := by
  induction d with
  | nil => rfl
  | cons p r ih =>
    obtain ⟨a', m⟩ := p
    have h' : a' ∉ DD.rows r ∧ (DD.rows r).Nodup := by simpa [DD.rows] using hnd
    simp only [cleanupDD, List.filter_cons]
    by_cases hm : m.isEmpty = true
    · -- the row is dropped: it was empty, and no later row has the same key
      simp only [hm, Bool.not_true, Bool.false_eq_true, if_false]
      have ih' := ih h'.2
      simp only [cleanupDD] at ih'
      rw [ih']
      by_cases ha : a' = a
      · subst ha
        simp only [DD.get, if_true]
        rw [DD.get_eq_nil_of_not_mem r a' h'.1]
        cases m with
        | nil => rfl
        | cons _ _ => simp at hm
      · simp [DD.get, ha]
    · simp only [hm, Bool.not_false, if_true]
      by_cases ha : a' = a
      · simp [DD.get, ha]
      · have ih' := ih h'.2
        simp only [cleanupDD] at ih'
        simp [DD.get, ha, ih']

theorem cleanupDD_rows {ρ κ : Type} [DecidableEq ρ] [DecidableEq κ] (d : DD ρ κ) (hnd : (DD.rows d).Nodup) :
    (DD.rows (cleanupDD d)).Nodup := by
  unfold cleanupDD DD.rows at *
  exact hnd.sublist (List.Sublist.map _ List.filter_sublist)

theorem cleanupDD_WF {ρ κ : Type} [DecidableEq ρ] [DecidableEq κ] (d : DD ρ κ) (hnd : (DD.rows d).Nodup) (h : DD.WF d) :
    DD.WF (cleanupDD d) := by
  intro a; rw [get_cleanupDD d hnd a]; exact h a

/-- **cleanup()** keeps the invariant and the supports -/
theorem cleanup_MInv (s : MState) (hi : MInv s) : MInv (cleanup s) := by
  have g1 := get_cleanupDD s.idx.rdeps hi.rows1
  have g2 := get_cleanupDD s.idx.rtasks hi.rows2
  have g3 := get_cleanupDD s.idx.deptasks hi.rows3
  have g4 := get_cleanupDD s.idx.tartasks hi.rows4
  refine ⟨?_, hi.link, hi.ids, cleanupDD_rows _ hi.rows1, cleanupDD_rows _ hi.rows2, cleanupDD_rows _ hi.rows3, cleanupDD_rows _ hi.rows4⟩
  exact {
    wfT := hi.inv.wfT
    wf1 := cleanupDD_WF _ hi.rows1 hi.inv.wf1
    wf2 := cleanupDD_WF _ hi.rows2 hi.inv.wf2
    wf3 := cleanupDD_WF _ hi.rows3 hi.inv.wf3
    wf4 := cleanupDD_WF _ hi.rows4 hi.inv.wf4
    rdeps := by intro d r; show RC.cnt (DD.get (cleanupDD s.idx.rdeps) d) r = _; rw [g1]; exact hi.inv.rdeps d r
    dept := by intro d k; show RC.cnt (DD.get (cleanupDD s.idx.deptasks) d) k = _; rw [g3]; exact hi.inv.dept d k
    tart := by intro r k; show RC.cnt (DD.get (cleanupDD s.idx.tartasks) r) k = _; rw [g4]; exact hi.inv.tart r k
    rt := by intro u k; show RC.cnt (DD.get (cleanupDD s.idx.rtasks) u) k = _; rw [g2]; exact hi.inv.rt u k }

/-- **verify()** only cleans up -/
theorem verify_MInv (s : MState) (hi : MInv s) : MInv (verify s).1 := by
  unfold verify
  simp only
  split <;> exact cleanup_MInv s hi

/-- the indices of a state, packaged without the store -/
structure GInv (m : Mgr Path Path) (defs : List MTask) : Prop where
  inv : Inv m
  link : m.tasks = defs.map MTask.toIdx
  rows1 : (DD.rows m.rdeps).Nodup
  rows2 : (DD.rows m.rtasks).Nodup
  rows3 : (DD.rows m.deptasks).Nodup
  rows4 : (DD.rows m.tartasks).Nodup

theorem regen_fold (rest : List MTask) : ∀ (pre : List MTask) (m : Mgr Path Path), GInv m pre →
    ((pre ++ rest).map (·.id)).Nodup → (∀ t ∈ rest, t.deps.Nodup ∧ t.tars.Nodup) →
    GInv (rest.foldl (fun m t => register' m t.toIdx) m) (pre ++ rest) := by
  induction rest with
  | nil => intro pre m h _ _; simpa using h
  | cons t rest ih =>
    intro pre m h hids hnd
    simp only [List.foldl_cons]
    have hfresh : look m.tasks t.toIdx.id = none := by
      show look m.tasks t.id = none
      rw [h.link, look_map_toIdx]
      have : lookDef pre t.id = none := by
        unfold lookDef
        rw [List.find?_eq_none]
        intro x hx
        simp only [decide_eq_true_eq]
        intro e
        have hn := hids
        rw [List.map_append, List.nodup_append] at hn
        exact hn.2.2 x.id (List.mem_map.mpr ⟨x, hx, rfl⟩) t.id (by simp) e
      rw [this]; rfl
    have hinv := register_inv m t.toIdx h.inv hfresh (hnd t (by simp)).1 (hnd t (by simp)).2
    have step : GInv (register' m t.toIdx) (pre ++ [t]) :=
      ⟨hinv, by simp [register', h.link], by simp only [register']; exact appAll_rows _ h.rows1 _,
       by simp only [register']; exact appAll_rows _ (appAll_rows _ h.rows2 _) _,
       by simp only [register']; exact appAll_rows _ h.rows3 _, by simp only [register']; exact appAll_rows _ h.rows4 _⟩
    have := ih (pre ++ [t]) _ step (by simpa [List.append_assoc] using hids) (fun u hu => hnd u (List.mem_cons_of_mem _ hu))
    simpa [List.append_assoc] using this

/-- **refresh()**: regenerating the indices from the task table gives the invariant again -/
theorem refresh_MInv (s : MState) (hi : MInv s) : MInv (refresh s).1 := by
  unfold refresh
  by_cases hf : s.frozen = true
  · simp only [hf, if_true]; exact hi
  · simp only [hf, Bool.false_eq_true, if_false]
    have hnd : ∀ t ∈ s.defs, t.deps.Nodup ∧ t.tars.Nodup := by
      intro t ht
      have := hi.inv.wfT t.toIdx (by rw [hi.link]; exact List.mem_map.mpr ⟨t, ht, rfl⟩)
      exact this
    have g := regen_fold s.defs [] Mgr.empty
      ⟨inv_empty, rfl, by simp [Mgr.empty, DD.rows], by simp [Mgr.empty, DD.rows], by simp [Mgr.empty, DD.rows], by simp [Mgr.empty, DD.rows]⟩
      (by simpa using hi.ids) hnd
    simp only [List.nil_append] at g
    apply cleanup_MInv
    exact ⟨g.inv, g.link, hi.ids, g.rows1, g.rows2, g.rows3, g.rows4⟩

/-- **in-place update** -/
theorem inplace_MInv (sched : Sched) (s : MState) (op : String) (p : Path) (operand : Expr) (hi : MInv s) :
    MInv (inplace sched s op p operand).1 := by
  unfold inplace
  split
  · exact setExpr_MInv sched s p _ hi
  · split
    · exact hi
    · split
      · split
        · exact hi
        · exact setValue_MInv sched s p _ hi
      all_goals exact setExpr_MInv sched s p _ hi

/-- **load(dump, overwrite)** -/
theorem load_MInv (ow : Bool) (pairs : List (Path × Expr)) : ∀ s : MState, MInv s → MInv (load s ow pairs).1 := by
  induction pairs with
  | nil => intro s hi; exact hi
  | cons pe rest ih =>
    intro s hi
    obtain ⟨p, e⟩ := pe
    simp only [load]
    by_cases hf : s.frozen = true
    · -- every branch either rejects or skips
      cases hl : lookDef s.defs p with
      | some t =>
        simp only
        cases ow with
        | true => simp only [if_true, unregister_frozen s p hf]; exact hi
        | false => simp only [Bool.false_eq_true, if_false]; exact ih s hi
      | none => simp only [register_frozen s _ hf]; exact hi
    · have hf' : s.frozen = false := by simpa using hf
      cases hl : lookDef s.defs p with
      | some t =>
        simp only
        cases ow with
        | false => simp only [Bool.false_eq_true, if_false]; exact ih s hi
        | true =>
          simp only [if_true]
          have h1 := unregister_MInv s p t hi hf' hl
          obtain ⟨hnone, _, _, hfz, _⟩ := unregister_present_eq s p t hf' hl
          have hfree := lookDef_after_unregister s p t hf' hl
          generalize unregister s p = r at h1 hnone hfz hfree
          obtain ⟨s1, x1⟩ := r
          simp only at hnone h1 hfz hfree
          subst hnone
          simp only
          have h2 := register_MInv s1 (mkExprTask p e) h1 hfz (by simpa [mkExprTask] using hfree)
            (mkExprTask_nodup p e).1 (mkExprTask_nodup p e).2
          obtain ⟨hn2, _, _, _⟩ := register_fresh_eq s1 (mkExprTask p e) h1 hfz (by simpa [mkExprTask] using hfree)
          generalize register s1 (mkExprTask p e) = r2 at h2 hn2
          obtain ⟨s2, x2⟩ := r2
          simp only at hn2 h2
          subst hn2
          exact ih s2 h2
      | none =>
        simp only
        have h2 := register_MInv s (mkExprTask p e) hi hf' (by simpa [mkExprTask] using hl)
          (mkExprTask_nodup p e).1 (mkExprTask_nodup p e).2
        obtain ⟨hn2, _, _, _⟩ := register_fresh_eq s (mkExprTask p e) hi hf' (by simpa [mkExprTask] using hl)
        generalize register s (mkExprTask p e) = r2 at h2 hn2
        obtain ⟨s2, x2⟩ := r2
        simp only at hn2 h2
        subst hn2
        exact ih s2 h2

/-- a user-supplied task (function / linear knob) is well formed for registration -/
def WFCall (s : MState) : Call → Prop
  | .register t => lookDef s.defs t.id = none ∧ t.deps.Nodup ∧ t.tars.Nodup
  | _ => True

/-- **C03, one call.**  Every API call keeps the indices a function of the surviving tasks. -/
theorem apply_MInv (sched : Sched) (s : MState) (c : Call) (hi : MInv s) (hw : WFCall s c) :
    MInv (apply sched s c).1 := by
  cases c with
  | setValue p v => exact setValue_MInv sched s p v hi
  | setExpr p e => exact setExpr_MInv sched s p e hi
  | inplace op p operand => exact inplace_MInv sched s op p operand hi
  | register t =>
    simp only [apply]
    by_cases hf : s.frozen = true
    · rw [register_frozen s t hf]; exact hi
    · exact register_MInv s t hi (by simpa using hf) hw.1 hw.2.1 hw.2.2
  | unregister id =>
    simp only [apply]
    by_cases hf : s.frozen = true
    · rw [unregister_frozen s id hf]; exact hi
    · cases hl : lookDef s.defs id with
      | none => simp [unregister, hf, hl]; exact hi
      | some t => exact unregister_MInv s id t hi (by simpa using hf) hl
  | load ow pairs => exact load_MInv ow pairs s hi
  | refresh => exact refresh_MInv s hi
  | cleanup => exact cleanup_MInv s hi
  | verify => exact verify_MInv s hi

/-- all histories: calls are made one after the other, whatever their outcome -/
def WFHist (sched : Sched) : MState → List Call → Prop
  | _, [] => True
  | s, c :: cs => WFCall s c ∧ WFHist sched (apply sched s c).1 cs

theorem applyAll_MInv (sched : Sched) (cs : List Call) : ∀ s : MState, MInv s → WFHist sched s cs →
    MInv (applyAll sched s cs) := by
  induction cs with
  | nil => intro s hi _; exact hi
  | cons c cs ih =>
    intro s hi hw
    simp only [applyAll]
    exact ih _ (apply_MInv sched s c hi hw.1) hw.2

/-! ### the graph facts C02 needs, from the invariant -/

theorem mem_dedup {α : Type} [DecidableEq α] : ∀ (l : List α) (x : α), x ∈ dedup l ↔ x ∈ l
  | [], x => by simp [dedup]
  | a :: l, x => by
    simp only [dedup]
    split
    · next h =>
      rw [mem_dedup l x]
      constructor
      · exact fun hx => List.mem_cons_of_mem _ hx
      · intro hx
        rcases List.mem_cons.mp hx with rfl | hx
        · exact (mem_dedup l x).mp h
        · exact hx
    · simp [mem_dedup l x]

theorem mem_uniq {α : Type} [DecidableEq α] (l : List α) (x : α) : x ∈ uniq l ↔ x ∈ l := by
  unfold uniq
  rw [List.mem_reverse, mem_dedup, List.mem_reverse]

theorem look_some_mem_ids (defs : List MTask) (k : Path) (t : Task Path Path)
    (h : look (defs.map MTask.toIdx) k = some t) : k ∈ defs.map (·.id) := by
  have := look_mem h
  obtain ⟨u, hu, rfl⟩ := List.mem_map.mp this.1
  exact List.mem_map.mpr ⟨u, hu, this.2⟩

/-- every successor in the ordering graph is a registered task -/
theorem gOf_closed (s : MState) (hi : MInv s) (u w : Path) (hw : w ∈ gOf s.idx u) : w ∈ s.defs.map (·.id) := by
  unfold gOf at hw
  rw [RC.mem_keys_iff _ (hi.inv.wf2 u)] at hw
  have h1 : DD.cnt2 s.idx.rtasks u w ≥ 1 := hw
  rw [hi.inv.rt] at h1
  unfold sRt at h1
  rw [hi.link] at h1
  cases h2 : look (s.defs.map MTask.toIdx) u with
  | none => simp [h2] at h1
  | some tu =>
    cases h3 : look (s.defs.map MTask.toIdx) w with
    | none => simp [h2, h3] at h1
    | some tw => exact look_some_mem_ids s.defs w tw h3

/-- every task in the start set is a registered task -/
theorem startOf_sub (s : MState) (hi : MInv s) (startDeps : List Path) (k : Path)
    (hk : k ∈ startOf s.idx startDeps) : k ∈ s.defs.map (·.id) := by
  unfold startOf at hk
  rw [mem_uniq] at hk
  obtain ⟨d, _, hkd⟩ := List.mem_flatMap.mp hk
  rw [RC.mem_keys_iff _ (hi.inv.wf3 d)] at hkd
  have h1 : DD.cnt2 s.idx.deptasks d k ≥ 1 := hkd
  rw [hi.inv.dept] at h1
  unfold sDep at h1
  rw [hi.link] at h1
  cases h3 : look (s.defs.map MTask.toIdx) k with
  | none => simp [h3] at h1
  | some tk => exact look_some_mem_ids s.defs k tk h3

theorem fuelOf_ge (s : MState) (hi : MInv s) : fuelOf s.idx ≥ (s.defs.map (·.id)).length := by
  unfold fuelOf
  rw [hi.link]
  simp only [List.length_map]
  omega

/-- **C02 on the executable manager.**  For a state reachable through the API (`MInv`) and any assigned
    location: the schedule `find_taskids` computes has no duplicates, contains exactly the tasks
    reachable in the ordering graph from the tasks reading the location or a container enclosing it,
    and lists a producer before each of its consumers — provided no cycle through two distinct tasks
    is reachable from the start set. -/
theorem findTaskids_spec (s : MState) (hi : MInv s) (startDeps : List Path)
    (hac : ∀ a b, (∃ s0 ∈ startOf s.idx startDeps, Dfs3.Reach (gOf s.idx) s0 a) → a ≠ b →
      Dfs3.Reach (gOf s.idx) a b → Dfs3.Reach (gOf s.idx) b a → False) :
    (findTaskids s.idx startDeps).Nodup ∧
    (∀ x, x ∈ findTaskids s.idx startDeps ↔ ∃ s0 ∈ startOf s.idx startDeps, Dfs3.Reach (gOf s.idx) s0 x) ∧
    (∀ u w, u ∈ findTaskids s.idx startDeps → w ∈ gOf s.idx u → w ≠ u →
      Dfs3.Before (findTaskids s.idx startDeps) u w) := by
  have hfuel := fuelOf_ge s hi
  have hstart := fun k hk => startOf_sub s hi startDeps k hk
  have hclosed : ∀ u ∈ s.defs.map (·.id), ∀ w ∈ gOf s.idx u, w ∈ s.defs.map (·.id) :=
    fun u _ w hw => gOf_closed s hi u w hw
  unfold findTaskids
  exact ⟨Dfs3.toposort_nodup (gOf s.idx) _ _ _ hfuel hstart hclosed hac,
         Dfs3.toposort_mem_iff (gOf s.idx) _ _ _ hfuel hstart hclosed hac,
         Dfs3.toposort_before (gOf s.idx) _ _ _ hfuel hstart hclosed hac⟩

/-- the part of the above that holds for every graph, cyclic or not: no duplicates, exactly the reachable tasks -/
theorem findTaskids_once_exact (s : MState) (hi : MInv s) (startDeps : List Path) :
    (findTaskids s.idx startDeps).Nodup ∧
    (∀ x, x ∈ findTaskids s.idx startDeps ↔ ∃ s0 ∈ startOf s.idx startDeps, Dfs3.Reach (gOf s.idx) s0 x) := by
  have hfuel := fuelOf_ge s hi
  have hstart := fun k hk => startOf_sub s hi startDeps k hk
  have hclosed : ∀ u ∈ s.defs.map (·.id), ∀ w ∈ gOf s.idx u, w ∈ s.defs.map (·.id) :=
    fun u _ w hw => gOf_closed s hi u w hw
  unfold findTaskids
  exact ⟨Dfs3.toposort_nodup' (gOf s.idx) _ _ _ hfuel hstart hclosed,
         Dfs3.toposort_mem_iff' (gOf s.idx) _ _ _ hfuel hstart hclosed⟩

end Manager
