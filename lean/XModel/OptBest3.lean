import XModel.Opt
import XModel.OptBest
import XModel.OptBest2
import XModel.Argmin
/-!
# C15, third part: the `take_best` decision as the code makes it, and which appended row records what

The Python code, after the loop of `Optimize.step`:

    if take_best and not last_point_within_tol:
        penalty_step = log["penalty"][i_log_start:]
        i_best = np.argmin(penalty_step)
        if i_best != len(penalty_step) - 1:
            self.reload(iteration=i_best + i_log_start)

* `takeBestArg pens start` is that decision (it is, expression for expression, the rule of `Driver/OptD.lean`):
  `none` — no reload — when there is no penalty or the first minimum is at the last position, `some (argmin + start)`
  otherwise.  `pens` is a list with one entry per ROW POSITION: the numbers the implementation recorded.  The
  skeleton has no penalty function; nothing here says what those numbers are.
* the structural halves of the two branches (`optBody_last_row`, `optStep_reload_position`); the order facts about
  `Argmin.argmin` (minimum, FIRST minimum) need a linear order and are in `XProofs/OptBest3.lean`, where the
  two halves are put together.
* `optStep_log_kinds`: on normal return the appended rows are, IN ORDER, the start row (a *read* row: the container
  read at entry, the evaluation being made at its round trip and leaving the state `s1`), one *evaluated* row per
  executed iteration (the container and masks of exactly the state that iteration leaves — `loopTrace`), and, if
  `take_best` reloads, a copy of the reloaded row (a read row again, leaving the final state).  The states are the
  states of the execution, not existentially chosen coherent states: a log with a made-up row does not satisfy it
  (`GarbageExample`), although each of its rows passes `Truthful` (`truthful_of_total_unit`).
-/
namespace Opt

variable {R : Type}

/-! ### (1) the decision -/

/-- the argument `step(take_best=True)` gives to `reload`, or `none` when it does not reload: `pens` are the penalties
    recorded for the rows of this call, one per position, `start` is the log position of the first of them -/
def takeBestArg {K : Type} [LT K] [DecidableRel (fun (a b : K) => a < b)] (pens : List K) (start : Nat) :
    Option Nat :=
  if pens.isEmpty then none
  else if Argmin.argmin pens + 1 = pens.length then none
  else some (Argmin.argmin pens + start)

section decision
variable {K : Type} [LT K] [DecidableRel (fun (a b : K) => a < b)]

theorem takeBestArg_nil (start : Nat) : takeBestArg ([] : List K) start = none := rfl

theorem takeBestArg_none_iff (pens : List K) (start : Nat) :
    takeBestArg pens start = none ↔ (pens = [] ∨ Argmin.argmin pens + 1 = pens.length) := by
  unfold takeBestArg
  cases pens with
  | nil => simp
  | cons x rest => simp

theorem takeBestArg_some_iff (pens : List K) (start i : Nat) :
    takeBestArg pens start = some i ↔
      (pens ≠ [] ∧ Argmin.argmin pens + 1 ≠ pens.length ∧ i = Argmin.argmin pens + start) := by
  unfold takeBestArg
  cases pens with
  | nil => simp
  | cons x rest => simp [eq_comm]

end decision

/-! ### (2) the structural halves of the two branches -/

/-- **the last row the body of `step` appended, against the state it leaves.**  `rows = sl.log.drop s.log.length` is
    not empty; either at least one iteration ran and its last row IS the container and masks of `sl`, or no iteration
    ran, the only row is the start row (container and masks read at entry) and `sl` holds its weight round trip. -/
theorem optBody_last_row (c : Cfg R) (its : List (Iter R)) (s sl : St R) (h : optBody c its s = (.ok (), sl)) :
    ∃ last, (sl.log.drop s.log.length).getLast? = some last ∧ sl.log.getLast? = some last ∧
      last.vAct = s.vAct ∧ last.tAct = s.tAct ∧ sl.vAct = last.vAct ∧ sl.tAct = last.tAct ∧
      (rowOf sl = last ∨
       (sl.log.drop s.log.length = [rowOf s] ∧ last = rowOf s ∧
        rowOf sl = ⟨roundTrip c s.vAct s.knobs, s.vAct, s.tAct⟩)) := by
  obtain ⟨s1, iterRows, ha, _, hl, hv, ht, _, _, hr, hnil, hlast, _⟩ := optBody_ok c its s sl h
  have hd : sl.log.drop s.log.length = rowOf s :: iterRows := by rw [hl]; simp
  cases hi : iterRows with
  | nil =>
    subst hi
    have hs : sl = s1 := hnil rfl
    obtain ⟨_, hv1, ht1, _, _, hk1⟩ := addPoint_ok c s s1 ha
    refine ⟨rowOf s, by rw [hd]; rfl, by rw [hl]; simp, rfl, rfl, hv, ht, Or.inr ⟨hd, rfl, ?_⟩⟩
    rw [hs]
    simp only [rowOf, hv1, ht1, hk1]
  | cons a as =>
    have hne : iterRows ≠ [] := by rw [hi]; simp
    have hl' := hlast hne
    have hmem : rowOf sl ∈ iterRows := List.mem_of_getLast? hl'
    obtain ⟨_, hv', ht'⟩ := hr _ hmem
    refine ⟨rowOf sl, ?_, ?_, hv', ht', rfl, rfl, Or.inl rfl⟩
    · rw [hd, hi, List.getLast?_cons_cons, ← hi]; exact hl'
    · rw [hl, List.getLast?_append, hi, List.getLast?_cons_cons, ← hi, hl']; rfl

/-- **the reload branch at a position of the call's rows.**  The tolerance flag is off after the loop and the index
    handed over is `k + s.log.length`: a normal return of `optStep` has reloaded the row at position `k` of
    `rows = sl.log.drop s.log.length` (there is one: `reload` raises otherwise) — masks are the row's (which are the
    entry masks), the container is the row's weight round trip, exactly one more row (a copy of it) has been
    appended, and the state is coherent. -/
theorem optStep_reload_position (c : Cfg R) (its : List (Iter R)) (s sl s' : St R) (k : Nat)
    (hb : optBody c its s = (.ok (), sl)) (hw : sl.lastWithin = false)
    (h : optStep c its (some (k + s.log.length)) s = (.ok (), s')) :
    ∃ row, (sl.log.drop s.log.length)[k]? = some row ∧ sl.log[k + s.log.length]? = some row ∧
      s'.log = sl.log ++ [row] ∧ s'.vAct = row.vAct ∧ s'.tAct = row.tAct ∧
      row.vAct = s.vAct ∧ row.tAct = s.tAct ∧
      s'.knobs = roundTrip c row.vAct row.knobs ∧
      (∀ j, s'.knobs j = row.knobs j ∨ s'.knobs j = c.mulW j (c.divW j (row.knobs j))) ∧ Coh c s' := by
  rw [optStep_of_body_some c its _ s sl hb] at h
  have hnw : ¬ sl.lastWithin = true := by rw [hw]; simp
  rw [if_neg hnw] at h
  obtain ⟨row, hrow, hl, hv, ht, coh, hkn, _⟩ := reload_ok c _ sl s' h
  have hk' : (sl.log.drop s.log.length)[k]? = some row := by
    rw [List.getElem?_drop, Nat.add_comm]; exact hrow
  have hmem : row ∈ sl.log.drop s.log.length := List.mem_of_getElem? hk'
  obtain ⟨_, _, _, _, _, _, hflags⟩ := optBody_rows_head c its s sl hb
  refine ⟨row, hk', hrow, hl, hv, ht, (hflags row hmem).1, (hflags row hmem).2, hkn, ?_, coh⟩
  intro j
  rw [hkn]
  unfold roundTrip
  by_cases hc : j < c.n ∧ row.vAct j = true
  · right; simp only [hc, and_self, if_true]
  · left; simp only [hc, if_false]

/-! ### (4) which appended row records what -/

/-- the two ways a row gets into the log -/
inductive RowKind where
  /-- `add_point_to_log` (start row, reload copy): the container READ, then an evaluation at its weight round trip -/
  | read
  /-- a loop row: the container after `set_knobs_from_x(solver.x)`, the point of the last completed evaluation -/
  | eval
deriving DecidableEq, Repr

/-- `row` of kind `kind` against `post`, the state of the execution right after the row was appended.
    * `read`: `post` is coherent and holds the round trip of the row's knobs under the row's masks — the evaluation
      that set the tolerance flag of `post` was at `roundTrip row.knobs`, not at `row.knobs`;
    * `eval`: `post` is coherent and the row IS its container and masks — the last completed evaluation was at
      `row.knobs` with target mask `row.tAct`. -/
def RowRec (c : Cfg R) : RowKind → Row R → St R → Prop
  | .read, row, post => rowOf post = ⟨roundTrip c row.vAct row.knobs, row.vAct, row.tAct⟩ ∧ Coh c post
  | .eval, row, post => rowOf post = row ∧ Coh c post

/-- what an evaluated row says: re-evaluating the user's function at the row's knobs succeeds, the ghost record of
    the last completed evaluation of `post` is the row, and the tolerance flag of `post` is the tolerance test of that
    result under the row's target mask -/
theorem RowRec.eval_spec {c : Cfg R} {row : Row R} {post : St R} (h : RowRec c .eval row post) :
    row.knobs = post.evalKnobs ∧ row.tAct = post.evalTAct ∧
    (∃ res, c.f row.knobs = some res ∧ post.lastWithin = c.within res row.tAct) ∧
    (∀ i, i < c.n → row.vAct i = true → row.knobs i = c.mulW i (post.evalX i)) := by
  obtain ⟨hr, coh⟩ := h
  subst hr
  obtain ⟨res, hf, hfl⟩ := coh.flag
  refine ⟨coh.knobs, coh.tact, ⟨res, ?_, ?_⟩, coh.img⟩
  · show c.f post.knobs = some res
    rw [coh.knobs]; exact hf
  · show post.lastWithin = c.within res post.tAct
    rw [coh.tact]; exact hfl

/-- what a read row says: the evaluation made when it was appended was at the ROUND TRIP of its knobs (same masks);
    it succeeded and the tolerance flag of `post` is the tolerance test of that result -/
theorem RowRec.read_spec {c : Cfg R} {row : Row R} {post : St R} (h : RowRec c .read row post) :
    post.evalKnobs = roundTrip c row.vAct row.knobs ∧ post.evalTAct = row.tAct ∧
    post.knobs = roundTrip c row.vAct row.knobs ∧ post.vAct = row.vAct ∧ post.tAct = row.tAct ∧
    (∃ res, c.f (roundTrip c row.vAct row.knobs) = some res ∧ post.lastWithin = c.within res row.tAct) := by
  obtain ⟨hr, coh⟩ := h
  have hk : post.knobs = roundTrip c row.vAct row.knobs := congrArg Row.knobs hr
  have hv : post.vAct = row.vAct := congrArg Row.vAct hr
  have ht : post.tAct = row.tAct := congrArg Row.tAct hr
  obtain ⟨res, hf, hfl⟩ := coh.flag
  refine ⟨by rw [← coh.knobs]; exact hk, by rw [← coh.tact]; exact ht, hk, hv, ht, res, ?_, ?_⟩
  · rw [← hk, coh.knobs]; exact hf
  · rw [← ht, coh.tact]; exact hfl

/-- the states the loop of `step` goes through: the state each EXECUTED iteration leaves, in order (the loop stops at
    the first one with the tolerance flag set, or at an exception) -/
def loopTrace (c : Cfg R) : List (Iter R) → St R → List (St R)
  | [], _ => []
  | it :: rest, s =>
    match optIter c it.resync it.early it.jac it.trials it.last it.pe s with
    | (.ok _, s1) => s1 :: (if s1.lastWithin then [] else loopTrace c rest s1)
    | (.error _, _) => []

theorem loopTrace_cons_ok (c : Cfg R) (it : Iter R) (rest : List (Iter R)) (s s1 : St R)
    (h : optIter c it.resync it.early it.jac it.trials it.last it.pe s = (.ok (), s1)) :
    loopTrace c (it :: rest) s = s1 :: (if s1.lastWithin then [] else loopTrace c rest s1) := by
  simp only [loopTrace, h]

/-- **the loop against its trace**: on normal return the rows appended are exactly the containers and masks of the
    states of the trace, in order; each of them is coherent; the loop leaves the last of them (the entry state if no
    iteration ran) -/
theorem optLoop_trace (c : Cfg R) (its : List (Iter R)) (s s' : St R)
    (h : optLoop c its s = (.ok (), s')) :
    s'.log = s.log ++ (loopTrace c its s).map rowOf ∧ (∀ t ∈ loopTrace c its s, Coh c t) ∧
    (s :: loopTrace c its s).getLast? = some s' ∧ (loopTrace c its s).length ≤ its.length := by
  induction its generalizing s with
  | nil =>
    simp only [optLoop, pure'] at h
    cases h
    simp [loopTrace]
  | cons it rest ih =>
    simp only [optLoop, bind'] at h
    cases h1 : optIter c it.resync it.early it.jac it.trials it.last it.pe s with
    | mk r1 s1 =>
      rw [h1] at h
      cases r1 with
      | error e => simp at h
      | ok u =>
        obtain ⟨l1, _, _, c1⟩ := optIter_ok c _ _ _ _ _ _ s s1 h1
        rw [loopTrace_cons_ok c it rest s s1 h1]
        simp only at h
        by_cases hw : s1.lastWithin = true
        · simp only [hw, if_true] at h
          have hs : s1 = s' := (Prod.mk.inj h).2
          subst hs
          refine ⟨by simpa [hw] using l1, ?_, by simp [hw], by simp [hw]⟩
          intro t ht
          simp only [hw, if_true, List.mem_singleton] at ht
          subst ht
          exact c1
        · simp only [hw] at h
          obtain ⟨l2, c2, g2, n2⟩ := ih s1 h
          have hw' : s1.lastWithin = false := by simpa using hw
          simp only [hw', Bool.false_eq_true, if_false]
          refine ⟨?_, ?_, ?_, by simp; omega⟩
          · rw [l2, l1]; simp
          · intro t ht
            rcases List.mem_cons.mp ht with e | hm
            · subst e; exact c1
            · exact c2 t hm
          · rw [List.getLast?_cons_cons]; exact g2

/-- the entries of the body of the call: (kind, row, state right after the row was appended).  `s` is the entry state
    and `s1` the state `add_point_to_log` leaves. -/
def callEntries (c : Cfg R) (its : List (Iter R)) (s s1 : St R) : List (RowKind × Row R × St R) :=
  (RowKind.read, rowOf s, s1) :: (loopTrace c its s1).map (fun t => (RowKind.eval, rowOf t, t))

theorem callEntries_kinds (c : Cfg R) (its : List (Iter R)) (s s1 : St R) :
    (callEntries c its s s1).map (fun e => e.1) =
      RowKind.read :: List.replicate (loopTrace c its s1).length RowKind.eval := by
  simp only [callEntries, List.map_cons, List.map_map]
  congr 1
  induction loopTrace c its s1 with
  | nil => rfl
  | cons a as ih => simp only [List.map_cons, List.length_cons, List.replicate_succ, ← ih]; rfl

theorem callEntries_posts (c : Cfg R) (its : List (Iter R)) (s s1 : St R) :
    (callEntries c its s s1).map (fun e => e.2.2) = s1 :: loopTrace c its s1 := by
  simp only [callEntries, List.map_cons, List.map_map]
  congr 1
  induction loopTrace c its s1 with
  | nil => rfl
  | cons a as ih => simp only [List.map_cons]; congr 1

/-- **the record of a normal return of `step`**, as a property of (entry state, final state): there are the state
    `s1` that `add_point_to_log` leaves at entry, the state `sl` the loop leaves and an optional reload entry `tail`
    such that the rows appended are, in order, the rows of `callEntries … ++ tail`; every entry's row is related to
    the entry's state by `RowRec` at the entry's kind; the states of the entries are the states of the execution
    (`s1`, then `loopTrace`, the last being `sl`); and `tail` is empty (no `take_best` index, or tolerance met: the
    call ends on `sl`) or is the single read entry of the reloaded row `sl.log[i]`, whose state is the final state. -/
def LogKinds (c : Cfg R) (its : List (Iter R)) (tb : Option Nat) (s s' : St R) : Prop :=
  ∃ (s1 sl : St R) (tail : List (RowKind × Row R × St R)),
    addPoint c s = (.ok (), s1) ∧ optLoop c its s1 = (.ok (), sl) ∧
    s'.log = s.log ++ (callEntries c its s s1 ++ tail).map (fun e => e.2.1) ∧
    (∀ e ∈ callEntries c its s s1 ++ tail, RowRec c e.1 e.2.1 e.2.2) ∧
    (s1 :: loopTrace c its s1).getLast? = some sl ∧
    ((tail = [] ∧ s' = sl ∧ (tb = none ∨ sl.lastWithin = true)) ∨
     (∃ i row, tb = some i ∧ sl.lastWithin = false ∧ sl.log[i]? = some row ∧
        tail = [(RowKind.read, row, s')]))

/-- **(4)** a normal return of `optStep` satisfies `LogKinds`: start row = read row (container of the entry state;
    evaluation at its round trip, leaving `s1`), then one evaluated row per executed iteration (container and masks of
    the state that iteration leaves), then — only if `take_best` reloads — a read row that is a copy of the reloaded
    row, leaving the final state. -/
theorem optStep_log_kinds (c : Cfg R) (its : List (Iter R)) (tb : Option Nat) (s s' : St R)
    (h : optStep c its tb s = (.ok (), s')) : LogKinds c its tb s s' := by
  obtain ⟨sl, _, hb, _, _, _, _, _, hcase⟩ := optStep_log_ok c its tb s s' h
  obtain ⟨s1, _, ha, hloop, _, _, _, _, _, _, _, _, _⟩ := optBody_ok c its s sl hb
  obtain ⟨l1, hv1, ht1, _, c1, hk1⟩ := addPoint_ok c s s1 ha
  obtain ⟨l2, c2, g2, _⟩ := optLoop_trace c its s1 sl hloop
  have hbody : ∀ e ∈ callEntries c its s s1, RowRec c e.1 e.2.1 e.2.2 := by
    intro e he
    simp only [callEntries, List.mem_cons, List.mem_map] at he
    rcases he with rfl | ⟨t, ht, rfl⟩
    · refine ⟨?_, c1⟩
      simp only [rowOf, hv1, ht1, hk1]
    · exact ⟨rfl, c2 t ht⟩
  have hrows : (callEntries c its s s1).map (fun e => e.2.1) = rowOf s :: (loopTrace c its s1).map rowOf := by
    simp only [callEntries, List.map_cons, List.map_map]
    congr 1
  have hsl : sl.log = s.log ++ (callEntries c its s s1).map (fun e => e.2.1) := by
    rw [hrows, l2, l1]; simp
  rcases hcase with rfl | ⟨i, row, rfl, hw, hrow, hl', _, hro⟩
  · have hend : tb = none ∨ s'.lastWithin = true := by
      cases tb with
      | none => exact Or.inl rfl
      | some i =>
        right
        rw [optStep_of_body_some c its i s s' hb] at h
        cases hw : s'.lastWithin with
        | true => rfl
        | false =>
          -- a reload would have appended a row
          have hnw : ¬ s'.lastWithin = true := by rw [hw]; simp
          rw [if_neg hnw] at h
          obtain ⟨row, _, hl', _⟩ := reload_ok c i s' s' h
          have := congrArg List.length hl'
          simp at this
    exact ⟨s1, s', [], ha, hloop, by simpa using hsl, by simpa using hbody, g2, Or.inl ⟨rfl, rfl, hend⟩⟩
  · refine ⟨s1, sl, [(RowKind.read, row, s')], ha, hloop, ?_, ?_, g2, Or.inr ⟨i, row, rfl, hw, hrow, rfl⟩⟩
    · rw [hl', hsl]; simp
    · intro e he
      rcases List.mem_append.mp he with he | he
      · exact hbody e he
      · simp only [List.mem_singleton] at he
        subst he
        exact ⟨hro, optStep_coh c its _ s s' h⟩

/-- the kinds, in order: `read`, then `eval` once per executed iteration, then `read` once more iff reloaded -/
theorem LogKinds.kinds {c : Cfg R} {its : List (Iter R)} {tb : Option Nat} {s s' : St R}
    (h : LogKinds c its tb s s') :
    ∃ (m : Nat) (reloaded : Bool) (rows : List (Row R)),
      s'.log = s.log ++ rows ∧ m ≤ its.length ∧
      rows.length = 1 + m + (if reloaded then 1 else 0) ∧ rows.head? = some (rowOf s) ∧
      (reloaded = true ↔ ∃ i, tb = some i ∧ ∃ sl, optBody c its s = (.ok (), sl) ∧ sl.lastWithin = false) := by
  obtain ⟨s1, sl, tail, ha, hloop, hlog, _, _, hcase⟩ := h
  have hb : optBody c its s = (.ok (), sl) := by
    unfold optBody
    simp only [bind', ha, hloop]
  obtain ⟨_, _, _, hlen⟩ := optLoop_trace c its s1 sl hloop
  rcases hcase with ⟨rfl, rfl, hend⟩ | ⟨i, row, rfl, hw, _, rfl⟩
  · refine ⟨(loopTrace c its s1).length, false, _, hlog, hlen, ?_, ?_, ?_⟩
    · simp [callEntries]; omega
    · simp [callEntries]
    · constructor
      · intro hf; cases hf
      · rintro ⟨i, hi, sl', hb', hw'⟩
        rw [hb] at hb'
        have : s' = sl' := (Prod.mk.inj hb').2
        subst this
        rcases hend with hn | hn
        · rw [hn] at hi; cases hi
        · rw [hn] at hw'; cases hw'
  · refine ⟨(loopTrace c its s1).length, true, _, hlog, hlen, ?_, ?_, ?_⟩
    · simp [callEntries]; omega
    · simp [callEntries]
    · exact ⟨fun _ => ⟨i, rfl, sl, hb, hw⟩, fun _ => rfl⟩

/-! ### the loophole of `Truthful`, and a log it lets through -/

/-- **the reviewer's loophole, as a theorem**: when the user's function never raises and the weights round-trip, EVERY
    row whatsoever is `Truthful` — `optStep_log_truthful` then says nothing about the content of the log.
    (`LogKinds` does: see `GarbageExample`.) -/
theorem truthful_of_total_unit (c : Cfg R) (htot : ∀ k, ∃ res, c.f k = some res)
    (hunit : ∀ j x, c.mulW j (c.divW j x) = x) (row : Row R) : Truthful c row := by
  obtain ⟨res, hf⟩ := htot row.knobs
  refine Or.inl ⟨⟨row.knobs, row.vAct, row.tAct, row.knobs, c.within res row.tAct, [],
    fun i => c.divW i (row.knobs i), row.knobs, row.tAct⟩, ⟨rfl, rfl, ⟨res, hf, rfl⟩, ?_⟩, rfl⟩
  intro i _ _
  exact (hunit i (row.knobs i)).symm

/-! ### (5) concrete runs -/
namespace BestExample

/-- run L: one iteration, to the container 8.  The rows of the call record 3, 8. -/
def itsL : List (Iter Int) := [itTo 4]
def slL : St Int := (optBody cfg itsL s0).2
theorem hbL : optBody cfg itsL s0 = (.ok (), slL) := ok_eta _ (by decide +kernel)

/-- **argmin at the last position: no reload.**  The recorded penalties `[36, 1]` have their minimum at the last
    position: the decision is `none`, the log ends `[…, 3, 8]`, the container stays at 8. -/
example : takeBestArg ([36, 1] : List Int) s0.log.length = none ∧
    isOk (optStep cfg itsL (takeBestArg ([36, 1] : List Int) s0.log.length) s0).1 = true ∧
    (optStep cfg itsL (takeBestArg ([36, 1] : List Int) s0.log.length) s0).2.log.map (fun r => r.knobs 0)
      = [100, 3, 8] ∧
    (optStep cfg itsL (takeBestArg ([36, 1] : List Int) s0.log.length) s0).2.knobs 0 = 8 := by
  decide +kernel

/-- the MODEL, given the index of that last position all the same, reloads it and appends a copy: `[…, 3, 8, 8]`.
    That is not what the code does (it tests `i_best != len - 1`), and not what `takeBestArg` passes. -/
example : (optStep cfg itsL (some (1 + s0.log.length)) s0).2.log.map (fun r => r.knobs 0) = [100, 3, 8, 8] := by
  decide +kernel

/-- **argmin earlier: reload.**  Run A (rows 3, 10, 2) with the recorded penalties `[36, 1, 49]`: first minimum at
    position 1, not the last: the decision is `some (1 + 1)`; the row recording 10 is reloaded and a copy appended. -/
example : takeBestArg ([36, 1, 49] : List Int) s0.log.length = some 2 ∧
    isOk (optStep cfg itsA (takeBestArg ([36, 1, 49] : List Int) s0.log.length) s0).1 = true ∧
    (optStep cfg itsA (takeBestArg ([36, 1, 49] : List Int) s0.log.length) s0).2.log.map (fun r => r.knobs 0)
      = [100, 3, 10, 2, 10] ∧
    (optStep cfg itsA (takeBestArg ([36, 1, 49] : List Int) s0.log.length) s0).2.knobs 0 = 10 := by
  decide +kernel

/-- **penalties are per POSITION, not per content.**  Two iterations to the same container 2: the rows record
    3, 2, 2.  With recorded penalties `[50, 49, 49]` (equal content, equal numbers) the first minimum is position 1:
    reload; with `[50, 49, 48]` (equal content, different numbers — no `pen : Row → K` produces this) it is the last
    position: no reload.  And a tie is broken towards the FIRST position. -/
example :
    (optBody cfg [itTo 1, itTo 1] s0).2.log.map (fun r => r.knobs 0) = [100, 3, 2, 2] ∧
    takeBestArg ([50, 49, 49] : List Int) s0.log.length = some 2 ∧
    takeBestArg ([50, 49, 48] : List Int) s0.log.length = none ∧
    (optStep cfg [itTo 1, itTo 1] (takeBestArg ([50, 49, 49] : List Int) s0.log.length) s0).2.log.map
      (fun r => r.knobs 0) = [100, 3, 2, 2, 2] ∧
    (optStep cfg [itTo 1, itTo 1] (takeBestArg ([50, 49, 48] : List Int) s0.log.length) s0).2.log.map
      (fun r => r.knobs 0) = [100, 3, 2, 2] := by
  decide +kernel

/-- the start row's recorded penalty belongs to its ROUND TRIP: run B (rows 3, 2).  The start row records the knob 3
    but was evaluated at `2 * (3 / 2) = 2`; an implementation whose penalty is `(k - 9)^2` records `[49, 49]`, not
    `[36, 49]`: first minimum at position 0, the start row is reloaded and the container ends at 2. -/
example : takeBestArg ([49, 49] : List Int) s0.log.length = some 1 ∧
    (optStep cfg itsB (takeBestArg ([49, 49] : List Int) s0.log.length) s0).2.log.map (fun r => r.knobs 0)
      = [100, 3, 2, 3] ∧
    (optStep cfg itsB (takeBestArg ([49, 49] : List Int) s0.log.length) s0).2.knobs 0 = 2 := by
  decide +kernel

/-- empty penalties (the driver's guard): no reload -/
example : takeBestArg ([] : List Int) 7 = none := rfl

/-- `optStep_log_kinds` on run A with reload: kinds read, eval, eval, read -/
example : LogKinds cfg itsA (some (s0.log.length + 1)) s0 endA := optStep_log_kinds cfg itsA _ s0 endA hA

example : (callEntries cfg itsA s0 (addPoint cfg s0).2).map (fun e => e.1) = [.read, .eval, .eval] ∧
    (callEntries cfg itsA s0 (addPoint cfg s0).2).map (fun e => e.2.1.knobs 0) = [3, 10, 2] ∧
    -- the container right after each row was appended: the READ row 3 leaves 2, the evaluated rows leave themselves
    (callEntries cfg itsA s0 (addPoint cfg s0).2).map (fun e => e.2.2.knobs 0) = [2, 10, 2] := by
  decide +kernel

end BestExample

/-! ### a log with a made-up row: passes `Truthful`, fails `LogKinds` -/
namespace GarbageExample
open BestExample

/-- unit weights, the user's function never raises, tolerance never met -/
def cfgU : Cfg Int where
  n := 1
  mulW := fun _ x => x
  divW := fun _ k => k
  inLimits := fun _ _ => true
  f := fun k => some k
  within := fun _ _ => false
  assertWithinTol := false
  restoreIfFail := false

def realEnd : St Int := (optStep cfgU [itTo 4] none s0).2
theorem hReal : optStep cfgU [itTo 4] none s0 = (.ok (), realEnd) := ok_eta _ (by decide +kernel)

/-- a row nobody evaluated -/
def garbageRow : Row Int := ⟨fun _ => 77, fun _ => true, fun _ => true⟩

/-- the real final state, with the loop's row replaced by the made-up one -/
def garbageEnd : St Int := { realEnd with log := s0.log ++ [rowOf s0, garbageRow] }

/-- the real run: rows 3 (read) and 4 (evaluated) -/
example : realEnd.log.map (fun r => r.knobs 0) = [100, 3, 4] ∧
    garbageEnd.log.map (fun r => r.knobs 0) = [100, 3, 77] ∧ garbageEnd.knobs 0 = 4 := by decide +kernel

/-- the real run satisfies `LogKinds` -/
example : LogKinds cfgU [itTo 4] none s0 realEnd := optStep_log_kinds cfgU [itTo 4] none s0 realEnd hReal

/-- every row of the garbage log is `Truthful` (the loophole) … -/
theorem garbage_truthful : ∃ suf, garbageEnd.log = s0.log ++ suf ∧ ∀ row ∈ suf, Truthful cfgU row :=
  ⟨[rowOf s0, garbageRow], rfl,
    fun row _ => truthful_of_total_unit cfgU (fun k => ⟨k, rfl⟩) (fun _ _ => rfl) row⟩

/-- … but the garbage log does not satisfy `LogKinds`: the second appended row is not the container of the state the
    iteration left -/
theorem garbage_not_logKinds : ¬ LogKinds cfgU [itTo 4] none s0 garbageEnd := by
  rintro ⟨s1, sl, tail, ha, _, hlog, _, _, hcase⟩
  have e1 : s1 = (addPoint cfgU s0).2 := by rw [ha]
  subst e1
  rcases hcase with ⟨rfl, _, _⟩ | ⟨i, row, hi, _⟩
  · have h2 := congrArg (List.map (fun r => r.knobs 0)) hlog
    revert h2
    decide +kernel
  · cases hi

end GarbageExample

end Opt

#print axioms Opt.takeBestArg_none_iff
#print axioms Opt.takeBestArg_some_iff
#print axioms Opt.optBody_last_row
#print axioms Opt.optStep_reload_position
#print axioms Opt.optLoop_trace
#print axioms Opt.optStep_log_kinds
#print axioms Opt.LogKinds.kinds
#print axioms Opt.truthful_of_total_unit
#print axioms Opt.GarbageExample.garbage_truthful
#print axioms Opt.GarbageExample.garbage_not_logKinds
