import XModel.TableRect
/-! Lemmas for C08: the position lists the selector functions of `XModel/Table.lean` compute are exactly
    the rows the selector denotes, in table order; and selecting twice is selecting the composition. -/
namespace TableM
open Cache

/-! ### `enumerate` + filter = the denoted positions in ascending order -/

theorem mem_enumFrom {α : Type} : ∀ (l : List α) (s i : Nat) (x : α),
    (i, x) ∈ enumFrom s l ↔ s ≤ i ∧ l[i - s]? = some x
  | [], s, i, x => by simp [enumFrom]
  | a :: l, s, i, x => by
    simp only [enumFrom, List.mem_cons, Prod.mk.injEq]
    rw [mem_enumFrom l (s + 1) i x]
    constructor
    · rintro (⟨rfl, rfl⟩ | ⟨h1, h2⟩)
      · simp
      · refine ⟨by omega, ?_⟩
        have : i - s = (i - (s + 1)) + 1 := by omega
        rw [this]; simpa using h2
    · rintro ⟨h1, h2⟩
      by_cases hi : i = s
      · subst hi
        left
        simp at h2
        exact ⟨rfl, h2.symm⟩
      · right
        refine ⟨by omega, ?_⟩
        have : i - s = (i - (s + 1)) + 1 := by omega
        rw [this] at h2; simpa using h2

theorem enumFrom_lt {α : Type} : ∀ (l : List α) (s : Nat), ∀ p ∈ enumFrom s l, s ≤ p.1
  | [], _, p, h => by simp [enumFrom] at h
  | a :: l, s, p, h => by
    simp only [enumFrom, List.mem_cons] at h
    rcases h with rfl | h
    · exact Nat.le_refl _
    · have := enumFrom_lt l (s + 1) p h; omega

theorem enumFrom_sorted {α : Type} : ∀ (l : List α) (s : Nat), (enumFrom s l).Pairwise (fun p q => p.1 < q.1)
  | [], _ => by simp [enumFrom]
  | a :: l, s => by
    simp only [enumFrom]
    refine List.pairwise_cons.mpr ⟨?_, enumFrom_sorted l (s + 1)⟩
    intro q hq
    have := enumFrom_lt l (s + 1) q hq
    show s < q.1
    omega

/-- the shape shared by the Boolean-mask selector, the regular-expression selector without count and the
    value-range selector: enumerate, keep what satisfies `q`, shift -/
def positionsWhere {α : Type} (l : List α) (q : α → Bool) (off : Int) : List Int :=
  ((enumFrom 0 l).filter (fun p => q p.2)).map (fun p => (p.1 : Int) + off)

/-- **exactly the denoted rows, in table order** -/
theorem positionsWhere_spec {α : Type} (l : List α) (q : α → Bool) (off : Int) :
    (positionsWhere l q off).Pairwise (· < ·) ∧
    ∀ j, j ∈ positionsWhere l q off ↔ ∃ (i : Nat) (x : α), l[i]? = some x ∧ q x = true ∧ j = (i : Int) + off := by
  unfold positionsWhere
  constructor
  · refine List.Pairwise.map _ ?_ ((enumFrom_sorted l 0).sublist List.filter_sublist)
    intro a b h
    have : (a.1 : Int) < (b.1 : Int) := by exact_mod_cast h
    omega
  · intro j
    simp only [List.mem_map, List.mem_filter]
    constructor
    · rintro ⟨⟨i, x⟩, ⟨hm, hq⟩, rfl⟩
      have := (mem_enumFrom l 0 i x).mp hm
      exact ⟨i, x, by simpa using this.2, hq, rfl⟩
    · rintro ⟨i, x, hx, hq, rfl⟩
      exact ⟨(i, x), ⟨(mem_enumFrom l 0 i x).mpr ⟨Nat.zero_le _, by simpa using hx⟩, hq⟩, rfl⟩

/-! ### selecting twice -/

theorem getElem?_filterMap_inrange {α : Type} (v : List α) : ∀ (ps : List Nat), (∀ j ∈ ps, j < v.length) → ∀ k : Nat,
    (ps.filterMap (fun (j : Nat) => v[j]?))[k]? = (ps[k]?).bind (fun (j : Nat) => v[j]?)
  | [], _, k => by simp
  | p :: ps, h, k => by
    have hp : p < v.length := h p (List.mem_cons_self ..)
    simp only [List.filterMap_cons, List.getElem?_eq_getElem hp]
    cases k with
    | zero => simp [List.getElem?_eq_getElem hp]
    | succ k =>
      simp only [List.getElem?_cons_succ]
      exact getElem?_filterMap_inrange v ps (fun j hj => h j (List.mem_cons_of_mem _ hj)) k

/-- the column-level composition law: rows `ps2` of rows `ps1` of `v` are rows `ps1[ps2]` of `v` -/
theorem filterMap_comp {α : Type} (v : List α) (ps1 ps2 : List Nat) (h : ∀ j ∈ ps1, j < v.length) :
    ps2.filterMap (fun k => (ps1.filterMap (fun j => v[j]?))[k]?) =
      (ps2.filterMap (fun k => ps1[k]?)).filterMap (fun j => v[j]?) := by
  rw [List.filterMap_filterMap]
  have : (fun (k : Nat) => (ps1.filterMap (fun (j : Nat) => v[j]?))[k]?) = (fun (k : Nat) => (ps1[k]?).bind (fun (j : Nat) => v[j]?)) :=
    funext (fun k => getElem?_filterMap_inrange v ps1 h k)
  rw [this]

/-- **`rows[s1].rows[s2]` on the data**: selecting positions `ps2` of the view at positions `ps1` is selecting
    the positions `ps1[ps2]` of the table (every column of full length, `ps1` inside the table) -/
theorem selectRows_comp (t : Tbl) (n : Nat) (hfull : ∀ p ∈ t.data, p.2.length = n) (ps1 ps2 : List Nat)
    (h1 : ∀ j ∈ ps1, j < n) :
    selectRows (selectRows t ps1) ps2 = selectRows t (ps2.filterMap (fun k => ps1[k]?)) := by
  unfold selectRows
  simp only [List.map_map]
  congr 1
  apply List.map_congr_left
  intro p hp
  simp only [Function.comp]
  congr 1
  exact filterMap_comp p.2 ps1 ps2 (fun j hj => by rw [hfull p hp]; exact h1 j hj)


/-! ### the `'regex::count'` path: that occurrence of every matching name -/

theorem insertSorted_mem (x y : Int) : ∀ l : List Int, y ∈ insertSorted x l ↔ y = x ∨ y ∈ l
  | [] => by simp [insertSorted]
  | z :: r => by
    simp only [insertSorted]
    split
    · simp
    · simp only [List.mem_cons, insertSorted_mem x y r]
      constructor
      · rintro (h | h | h)
        · exact Or.inr (Or.inl h)
        · exact Or.inl h
        · exact Or.inr (Or.inr h)
      · rintro (h | h | h)
        · exact Or.inr (Or.inl h)
        · exact Or.inl h
        · exact Or.inr (Or.inr h)

theorem insertSorted_sorted (x : Int) : ∀ l : List Int, l.Pairwise (· ≤ ·) → (insertSorted x l).Pairwise (· ≤ ·)
  | [], _ => by simp [insertSorted]
  | z :: r, h => by
    have hp := List.pairwise_cons.mp h
    simp only [insertSorted]
    split
    · next hxz =>
      refine List.pairwise_cons.mpr ⟨?_, h⟩
      intro a ha
      rcases List.mem_cons.mp ha with rfl | ha
      · exact hxz
      · exact Int.le_trans hxz (hp.1 a ha)
    · next hxz =>
      refine List.pairwise_cons.mpr ⟨?_, insertSorted_sorted x r hp.2⟩
      intro a ha
      rcases (insertSorted_mem x a r).mp ha with rfl | ha
      · omega
      · exact hp.1 a ha

theorem foldl_insertSorted (l : List Int) : ∀ acc : List Int, acc.Pairwise (· ≤ ·) →
    (l.foldl (fun acc x => insertSorted x acc) acc).Pairwise (· ≤ ·) ∧
    ∀ y, y ∈ l.foldl (fun acc x => insertSorted x acc) acc ↔ y ∈ l ∨ y ∈ acc := by
  induction l with
  | nil => intro acc h; exact ⟨h, by simp⟩
  | cons x l ih =>
    intro acc h
    simp only [List.foldl_cons]
    obtain ⟨h1, h2⟩ := ih (insertSorted x acc) (insertSorted_sorted x acc h)
    refine ⟨h1, fun y => ?_⟩
    rw [h2 y, insertSorted_mem]
    simp only [List.mem_cons]
    constructor
    · rintro (h | h | h)
      · exact Or.inl (Or.inr h)
      · exact Or.inl (Or.inl h)
      · exact Or.inr h
    · rintro ((h | h) | h)
      · exact Or.inr (Or.inl h)
      · exact Or.inl h
      · exact Or.inr (Or.inr h)

theorem sortInts_spec (l : List Int) : (sortInts l).Pairwise (· ≤ ·) ∧ ∀ y, y ∈ sortInts l ↔ y ∈ l := by
  obtain ⟨h1, h2⟩ := foldl_insertSorted l [] List.Pairwise.nil
  exact ⟨h1, fun y => by rw [sortInts, h2 y]; simp⟩

theorem firstOcc_fold (keep : String → Bool) (l : List String) : ∀ acc : List String,
    ∀ y, y ∈ l.foldl (fun acc x => if x ∈ acc then acc else acc ++ [x]) acc ↔ y ∈ l ∨ y ∈ acc := by
  induction l with
  | nil => intro acc y; simp
  | cons x l ih =>
    intro acc y
    simp only [List.foldl_cons]
    rw [ih]
    by_cases hx : x ∈ acc
    · simp only [hx, if_true, List.mem_cons]
      constructor
      · rintro (h | h)
        · exact Or.inl (Or.inr h)
        · exact Or.inr h
      · rintro ((rfl | h) | h)
        · exact Or.inr hx
        · exact Or.inl h
        · exact Or.inr h
    · simp only [hx, if_false, List.mem_append, List.mem_singleton, List.mem_cons, List.not_mem_nil, or_false]
      constructor
      · rintro (h | h | h)
        · exact Or.inl (Or.inr h)
        · exact Or.inr h
        · exact Or.inl (Or.inl h)
      · rintro ((h | h) | h)
        · exact Or.inr (Or.inr h)
        · exact Or.inl h
        · exact Or.inr (Or.inl h)

/-- the distinct matching names -/
theorem mem_firstOccNames (col : List String) (keep : String → Bool) (y : String) :
    y ∈ firstOccNames col keep ↔ y ∈ col ∧ keep y = true := by
  unfold firstOccNames
  rw [firstOcc_fold keep]
  simp [List.mem_filter]

/-- the loop over the matching names collects, for each, the position of its `c`-th occurrence (if any) -/
theorem regexp_loop_spec (c : Int) : ∀ (names : List String) (t : Tbl) (acc : List Int), Coherent t →
    ∃ t', (getRegexpIndices.loop c t names acc) =
      (t', .ok (acc ++ names.filterMap (fun nn => scanLookup t.indexCol nn c 0))) ∧ Keeps t t'
  | [], t, acc, h => ⟨t, by simp [getRegexpIndices.loop], Keeps.refl h⟩
  | nn :: rest, t, acc, h => by
    have hs := getRowCache_scan t h nn c 0
    have hk := getRowCache_keeps t h nn (some c) 0
    simp only [getRegexpIndices.loop]
    generalize getRowCache t nn (some c) 0 = r at hs hk
    obtain ⟨t1, x⟩ := r
    simp only at hs hk
    subst hs
    cases hsc : scanLookup t.indexCol nn c 0 with
    | none =>
      simp only
      obtain ⟨t', he, hk'⟩ := regexp_loop_spec c rest t1 acc hk.1
      refine ⟨t', ?_, hk.trans hk'⟩
      rw [he, hk.indexCol]
      simp [List.filterMap_cons, hsc]
    | some i =>
      simp only
      obtain ⟨t', he, hk'⟩ := regexp_loop_spec c rest t1 (acc ++ [i]) hk.1
      refine ⟨t', ?_, hk.trans hk'⟩
      rw [he, hk.indexCol]
      simp [List.filterMap_cons, hsc]

end TableM
