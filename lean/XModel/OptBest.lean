import XModel.Opt
/-!
# C15: where `step(take_best=True)` ends

On the control skeleton of `Optimize.step`: a call that returns normally ends either in the state the loop of
Jacobian steps left with the tolerance flag set, or — the flag being off — in the state produced by reloading the
row the caller's `take_best` index points at: the flags are that row's, each knob is that row's value (or its image
under the weight round trip).  Which index is passed is the numerics' business (`np.argmin` over the penalties logged
during the call: `Argmin.argmin_min`); the two facts are combined in `Properties.C15`.
-/
namespace Opt

variable {R : Type}

/-- the part of `step` before `take_best`: the start row, then the loop -/
def optBody (c : Cfg R) (its : List (Iter R)) : M R Unit :=
  bind' (addPoint c) (fun _ => optLoop c its)

theorem optStep_take_best (c : Cfg R) (its : List (Iter R)) (i : Nat) (s s' : St R)
    (h : optStep c its (some i) s = (.ok (), s')) :
    ∃ sl, optBody c its s = (.ok (), sl) ∧
      ((sl.lastWithin = true ∧ s' = sl) ∨
       (sl.lastWithin = false ∧ ∃ row, sl.log[i]? = some row ∧ s'.vAct = row.vAct ∧ s'.tAct = row.tAct ∧
          ∀ j, s'.knobs j = row.knobs j ∨ s'.knobs j = c.mulW j (c.divW j (row.knobs j)))) := by
  simp only [optStep, bind'] at h
  unfold optBody
  simp only [bind']
  cases ha : addPoint c s with
  | mk r1 s1 =>
    rw [ha] at h
    cases r1 with
    | error e => simp at h
    | ok u =>
      simp only at h ⊢
      cases hl : optLoop c its s1 with
      | mk r2 sl =>
        rw [hl] at h
        cases r2 with
        | error e => simp at h
        | ok u2 =>
          simp only at h
          refine ⟨sl, rfl, ?_⟩
          by_cases hw : sl.lastWithin = true
          · simp only [hw, if_true] at h
            cases h
            exact Or.inl ⟨hw, rfl⟩
          · simp only [hw] at h
            have hw' : sl.lastWithin = false := by simpa using hw
            refine Or.inr ⟨hw', ?_⟩
            cases hrow : sl.log[i]? with
            | none =>
              simp only [reload, hrow] at h
              cases h
            | some row =>
              exact ⟨row, rfl, reload_frame c i row sl (.ok ()) s' hrow h⟩

/-- without `take_best` a normal return is the state the loop left -/
theorem optStep_no_take_best (c : Cfg R) (its : List (Iter R)) (s s' : St R)
    (h : optStep c its none s = (.ok (), s')) : optBody c its s = (.ok (), s') := by
  simp only [optStep, bind'] at h
  unfold optBody
  simp only [bind']
  cases ha : addPoint c s with
  | mk r1 s1 =>
    rw [ha] at h
    cases r1 with
    | error e => simp at h
    | ok u =>
      simp only at h ⊢
      cases hl : optLoop c its s1 with
      | mk r2 sl =>
        rw [hl] at h
        cases r2 with
        | error e => simp at h
        | ok u2 => simp only at h; cases h; rfl

end Opt
