import XModel.TableRect2
import XModel.TableTuple
/-!
# C07 over histories that REPLACE the table by a derivation of itself

`history_coherent` / `getRowIndex_scan` (`XModel/TableThms.lean`) quantify over histories of `TOp` on ONE table.  A table
is also produced by deriving it from another one — `t._copy()`, `t * k`, `t + t`, `t.rows[sel]`, `t.cols[names]` — and the
look-ups that follow must resolve against the index column of the DERIVED table.  In `/repo/xdeps/table.py` every
derivation goes through the constructor (`_index_cache = None`, `_count_cache = None`); `__mul__` / `__add__` then
extend the copy's columns by writing into `_data` directly, which is harmless only because the copy has no cache yet.

**What the model's derivations do with the cache.**  All of `copyT`, `mulT`, `addT`, `selectRows`, `selectCols`
(`XModel/Table.lean`) build their result with `cache := none` — the constructor's fresh caches; none of them hands the
source's cache over (`*_cache` below, all by unfolding).  So the model did not have to be changed.

**The language.**  `DOp` = a `TOp` step, or "the table in use becomes a derivation of itself".  The fold `applyDOp` is
built from the existing model functions; a derivation that fails (`t * 0`, a column that is not there, a selector that
raises) leaves the table in use as it was — for `rows` that is the table `rowsOf` hands back alongside the error, i.e.
the same table with (possibly) its name cache built by the failed selection.  No guard is needed for coherence (unlike
`applyDeriv2`, whose guards serve rectangularity); `applyDOp_of_deriv2` says that where `applyDeriv2` succeeds the two
languages take the same step.  `re.fullmatch` is the oracle `m` (one bit per selector text and row name), fixed for the
whole history.

**Theorems.**  `dhistory_coherent`, `lookup_after_dhistory` (any `DOp` history, the index column never deleted — its
NAME is the same after every step, `applyDOp_index`), and what the CURRENT index column is after a derivation
(`copyT_indexCol`, `mulT_indexCol`, `addT_self_indexCol`, `selectCols_indexCol`; `selectRows_indexCol` is in `TableSpan`), with the
repetition corollaries `getRowIndex_mulT` (scan of the k-fold repeated column) and `getRowIndex_mulT_block` (occurrence
`j·occ + c` is occurrence `c` of block `j`).
-/
namespace TableM
open Cache

/-! ## 1. derived tables start without a cache (what the constructor does) -/

theorem copyT_cache (t : Tbl) : (copyT t).cache = none := rfl

theorem selectRows_cache (t : Tbl) (ps : List Nat) : (selectRows t ps).cache = none := rfl

theorem mulT_cache (t : Tbl) (k : Nat) (r : Tbl) (hr : mulT t k = .ok r) : r.cache = none := by
  unfold mulT at hr
  split at hr
  · cases hr
  · simp only [Except.ok.injEq] at hr
    subst hr
    rfl

theorem addT_cache (a b r : Tbl) (hr : addT a b = .ok r) : r.cache = none := by
  unfold addT at hr
  split at hr
  · simp only [Except.ok.injEq] at hr
    subst hr
    rfl
  · cases hr

theorem selectCols_cache (t : Tbl) (names : List String) (r : Tbl) (hr : selectCols t names = .ok r) :
    r.cache = none := by
  unfold selectCols at hr
  simp only at hr
  split at hr
  · cases hr
  · simp only [Except.ok.injEq] at hr
    subst hr
    rfl

/-- `rows[sel]`, any selector: the table handed out is a selection of rows of the table handed back -/
theorem rowsOf_ok_shape (t : Tbl) (m : String → Match) (s : Sel) (r : Tbl) (hr : (rowsOf t m s).2 = .ok r) :
    ∃ ps, r = selectRows (rowsOf t m s).1 ps := by
  unfold rowsOf at hr ⊢
  generalize indicesOf t m s = x at hr ⊢
  obtain ⟨t1, e⟩ := x
  cases e with
  | error e => cases hr
  | ok l =>
    simp only at hr ⊢
    cases hn : normAll t1.nrows l with
    | error e => rw [hn] at hr; cases hr
    | ok ps =>
      rw [hn] at hr
      simp only [Except.ok.injEq] at hr
      exact ⟨ps, hr.symm⟩

theorem rowsOf_cache (t : Tbl) (m : String → Match) (s : Sel) (r : Tbl) (hr : (rowsOf t m s).2 = .ok r) :
    r.cache = none := by
  obtain ⟨ps, rfl⟩ := rowsOf_ok_shape t m s r hr
  rfl

/-- the table `rows[sel]` hands back alongside its result is the source with (possibly) its cache built -/
theorem rowsOf_keeps (t : Tbl) (h : Coherent t) (m : String → Match) (s : Sel) : Keeps t (rowsOf t m s).1 := by
  rw [(views_same_table t m s).2]
  exact indicesOf_keeps t h m s

/-! ## 2. the history language -/

/-- the table API of `TOp`, and the replacement of the table in use by a derivation of itself -/
inductive DOp where
  | api (op : TOp)                       -- a column / cell assignment, new column, deletion, look-up
  | copy                                 -- `t = t._copy()`
  | mul (k : Nat)                        -- `t = t * k`
  | addSelf                              -- `t = t + t`
  | rows (sel : Sel)                     -- `t = t.rows[sel]`: position lists, slices, and every other selector form
  | cols (names : List String)           -- `t = t.cols[names]` (the index column is kept, first when not listed)

/-- One step.  The derivations are the model functions of `XModel/Table.lean` as they are; a derivation that raises
    leaves the table in use as it was (for `rows`: the table `rowsOf` hands back with the error). -/
def applyDOp (m : String → Match) (t : Tbl) : DOp → Tbl
  | .api op => applyTOp t op
  | .copy => copyT t
  | .mul k => match mulT t k with | .ok r => r | .error _ => t
  | .addSelf => match addT t t with | .ok r => r | .error _ => t
  | .rows sel => match (rowsOf t m sel).2 with | .ok r => r | .error _ => (rowsOf t m sel).1
  | .cols names => match selectCols t names with | .ok r => r | .error _ => t

/-- the derivation steps that `applyDeriv2` (C14's language) has too -/
def DOp.toDeriv2 (t : Tbl) : DOp → Option Deriv2
  | .copy => some .copy
  | .mul k => some (.mul k)
  | .addSelf => some (.add t)
  | .cols names => some (.cols names)
  | _ => none

/-- where C14's step succeeds, the two languages take the same step -/
theorem applyDOp_of_deriv2 (m : String → Match) (t : Tbl) (d : DOp) (d2 : Deriv2) (hd : d.toDeriv2 t = some d2)
    (r : Tbl) (hr : applyDeriv2 t d2 = .ok r) : applyDOp m t d = r := by
  cases d with
  | api op => cases hd
  | rows sel => cases hd
  | copy =>
    simp only [DOp.toDeriv2, Option.some.injEq] at hd; subst hd
    simp only [applyDeriv2, Except.ok.injEq] at hr
    exact hr
  | mul k =>
    simp only [DOp.toDeriv2, Option.some.injEq] at hd; subst hd
    simp only [applyDeriv2] at hr
    simp only [applyDOp, hr]
  | addSelf =>
    simp only [DOp.toDeriv2, Option.some.injEq] at hd; subst hd
    simp only [applyDeriv2] at hr
    split at hr
    · simp only [applyDOp, hr]
    · cases hr
  | cols names =>
    simp only [DOp.toDeriv2, Option.some.injEq] at hd; subst hd
    simp only [applyDeriv2] at hr
    split at hr
    · simp only [applyDOp, hr]
    · cases hr

/-! ## 3. one step: the cache stays coherent, the index column keeps its name -/

theorem applyDOp_coherent (m : String → Match) (t : Tbl) (d : DOp) (h : Coherent t)
    (hdel : ∀ n, d = .api (.delCol n) → n ≠ t.index) : Coherent (applyDOp m t d) := by
  cases d with
  | api op => exact applyTOp_coherent t op h (fun n e => hdel n (e ▸ rfl))
  | copy => exact Or.inl rfl
  | mul k =>
    simp only [applyDOp]
    cases hr : mulT t k with
    | error e => exact h
    | ok r => exact Or.inl (mulT_cache t k r hr)
  | addSelf =>
    simp only [applyDOp]
    cases hr : addT t t with
    | error e => exact h
    | ok r => exact Or.inl (addT_cache t t r hr)
  | rows sel =>
    simp only [applyDOp]
    cases hr : (rowsOf t m sel).2 with
    | error e => exact (rowsOf_keeps t h m sel).1
    | ok r => exact Or.inl (rowsOf_cache t m sel r hr)
  | cols names =>
    simp only [applyDOp]
    cases hr : selectCols t names with
    | error e => exact h
    | ok r => exact Or.inl (selectCols_cache t names r hr)

/-- the index column's *name* never changes, whatever the step -/
theorem applyDOp_index (m : String → Match) (t : Tbl) (d : DOp) (h : Coherent t) :
    (applyDOp m t d).index = t.index := by
  cases d with
  | api op => exact applyTOp_index t op h
  | copy => rfl
  | mul k =>
    simp only [applyDOp]
    cases hr : mulT t k with
    | error e => rfl
    | ok r => exact (mulT_value t k r hr).1
  | addSelf =>
    simp only [applyDOp]
    cases hr : addT t t with
    | error e => rfl
    | ok r => exact (addT_value t t r hr).1
  | rows sel =>
    have hk := rowsOf_keeps t h m sel
    simp only [applyDOp]
    cases hr : (rowsOf t m sel).2 with
    | error e => exact hk.2.2.1
    | ok r =>
      obtain ⟨ps, rfl⟩ := rowsOf_ok_shape t m sel r hr
      exact hk.2.2.1
  | cols names =>
    simp only [applyDOp]
    cases hr : selectCols t names with
    | error e => rfl
    | ok r => exact (selectCols_value t names r hr).1

/-! ## 4. every history -/

/-- **C07 over histories with derivations**: after any sequence of API calls and replacements of the table by a
    derivation of itself (the index column itself is never deleted) the cache, if present, is the one a fresh pass
    over the CURRENT index column builds -/
theorem dhistory_coherent (m : String → Match) : ∀ (ops : List DOp) (t : Tbl), Coherent t →
    (∀ n, DOp.api (.delCol n) ∈ ops → n ≠ t.index) → Coherent (ops.foldl (applyDOp m) t)
  | [], _, h, _ => h
  | d :: ops, t, h, hdel => by
    have h1 := applyDOp_coherent m t d h (fun n e => hdel n (e ▸ List.mem_cons_self ..))
    refine dhistory_coherent m ops _ h1 ?_
    intro n hn
    rw [applyDOp_index m t d h]
    exact hdel n (List.mem_cons_of_mem _ hn)

/-- the index column's name at the end of a history is the one at the start -/
theorem dhistory_index (m : String → Match) : ∀ (ops : List DOp) (t : Tbl), Coherent t →
    (∀ n, DOp.api (.delCol n) ∈ ops → n ≠ t.index) → (ops.foldl (applyDOp m) t).index = t.index
  | [], _, _, _ => rfl
  | d :: ops, t, h, hdel => by
    have h1 := applyDOp_coherent m t d h (fun n e => hdel n (e ▸ List.mem_cons_self ..))
    have hi := applyDOp_index m t d h
    show (ops.foldl (applyDOp m) (applyDOp m t d)).index = t.index
    rw [dhistory_index m ops _ h1 (fun n hn => by rw [hi]; exact hdel n (List.mem_cons_of_mem _ hn)), hi]

/-- **hence**, after any such history `rows.get_index((name, count, offset))` is the scan of the index column of the
    table in use NOW — the derived one, when the last replacement was a derivation: the count-th occurrence (negative
    counts from the last) plus the offset, `KeyError` otherwise -/
theorem lookup_after_dhistory (m : String → Match) (ops : List DOp) (t : Tbl) (h : Coherent t)
    (hdel : ∀ n, DOp.api (.delCol n) ∈ ops → n ≠ t.index) (name : String) (count : Int) (offset : Option Int) :
    (getRowIndex (ops.foldl (applyDOp m) t) (.tup name count offset)).2 =
      match scanLookup (ops.foldl (applyDOp m) t).indexCol name count (offset.getD 0) with
      | some i => .ok i
      | none => .error .keyError :=
  getRowIndex_scan _ (dhistory_coherent m ops t h hdel) name count offset

/-- a `TOp` history is a `DOp` history: the new theorems contain the old ones -/
theorem foldl_api (m : String → Match) : ∀ (ops : List TOp) (t : Tbl),
    (ops.map DOp.api).foldl (applyDOp m) t = ops.foldl applyTOp t
  | [], _ => rfl
  | op :: ops, t => by
    simp only [List.map_cons, List.foldl_cons]
    exact foldl_api m ops _

/-! ## 5. what the CURRENT index column is after a derivation -/

theorem copyT_indexCol (t : Tbl) (hidx : t.index ∈ t.colNames) : (copyT t).indexCol = t.indexCol := by
  unfold Tbl.indexCol
  rw [copyT_index, copyT_col]
  simp only [hidx, if_true]

theorem selectCols_indexCol (t : Tbl) (names : List String) (r : Tbl) (hr : selectCols t names = .ok r) :
    r.indexCol = t.indexCol := by
  obtain ⟨hi, hn, hcol, _⟩ := selectCols_value t names r hr
  have hmem : t.index ∈ r.colNames := by
    rw [hn]
    by_cases hin : t.index ∈ names <;> simp [hin]
  unfold Tbl.indexCol
  rw [hi, (hcol t.index hmem).1]

/-- **`t * k`: the index column of the product is the source's, repeated `k` times** -/
theorem mulT_indexCol (t : Tbl) (hidx : t.index ∈ t.colNames) (k : Nat) (r : Tbl) (hr : mulT t k = .ok r) :
    r.indexCol = (List.replicate k t.indexCol).flatten := by
  obtain ⟨hi, _, hcol⟩ := mulT_value t k r hr
  unfold Tbl.indexCol
  rw [hi, hcol t.index]
  cases t.col t.index with
  | none => simp
  | some v =>
    simp only [Option.map_some, hidx, if_true]
    clear hcol hr hi
    induction k with
    | zero => rfl
    | succ k ih => simp only [List.replicate_succ, List.flatten_cons, List.map_append, ih]

/-- **`t + t`: the index column twice** -/
theorem addT_self_indexCol (t : Tbl) (hidx : t.index ∈ t.colNames) (r : Tbl) (hr : addT t t = .ok r) :
    r.indexCol = t.indexCol ++ t.indexCol := by
  obtain ⟨hi, _, hcol, _⟩ := addT_value t t r hr
  unfold Tbl.indexCol
  rw [hi, hcol t.index]
  cases hv : t.col t.index with
  | none => simp
  | some v => simp only [Option.map_some, hidx, if_true, Option.getD_some, List.map_append]

/-! ## 6. occurrences in a repeated column -/

theorem occ_append (a b : List String) (name : String) : occ (a ++ b) name = occ a name + occ b name := by
  simp [occ, List.filter_append]

theorem occ_replicate_flatten (col : List String) (name : String) : ∀ k : Nat,
    occ (List.replicate k col).flatten name = k * occ col name
  | 0 => by simp [occ]
  | k+1 => by
    rw [List.replicate_succ, List.flatten_cons, occ_append, occ_replicate_flatten col name k, Nat.succ_mul, Nat.add_comm]

/-- the `c`-th occurrence in `a ++ b`: in `a` while `a` has that many, otherwise in `b`, shifted by `a`'s length -/
theorem nthOcc_append (b : List String) (name : String) : ∀ (a : List String) (c : Nat),
    nthOcc (a ++ b) name c =
      if c < occ a name then nthOcc a name c else (nthOcc b name (c - occ a name)).map (· + a.length)
  | [], c => by
    simp only [List.nil_append, occ, List.filter_nil, List.length_nil, Nat.not_lt_zero, if_false, Nat.sub_zero,
      Nat.add_zero]
    cases nthOcc b name c <;> rfl
  | y :: a, c => by
    simp only [List.cons_append, nthOcc]
    by_cases hy : y = name
    · subst hy
      simp only [if_true, occ_cons_eq]
      by_cases hc : c = 0
      · subst hc
        simp
      · simp only [hc, if_false]
        rw [nthOcc_append b y a (c - 1)]
        have e1 : (c - 1 < occ a y) ↔ (c < occ a y + 1) := by omega
        by_cases hlt : c < occ a y + 1
        · simp only [hlt, e1.mpr hlt, if_true]
        · have hlt' : ¬ (c - 1 < occ a y) := fun x => hlt (e1.mp x)
          simp only [hlt, hlt', if_false]
          have e2 : c - 1 - occ a y = c - (occ a y + 1) := by omega
          rw [e2]
          cases nthOcc b y (c - (occ a y + 1)) with
          | none => rfl
          | some i => simp only [Option.map_some, List.length_cons]; congr 1
    · simp only [hy, if_false, occ_cons_ne a y name hy]
      rw [nthOcc_append b name a c]
      by_cases hlt : c < occ a name
      · simp only [hlt, if_true]
      · simp only [hlt, if_false]
        cases nthOcc b name (c - occ a name) with
        | none => rfl
        | some i => simp only [Option.map_some, List.length_cons]; congr 1

/-- **occurrence `j·occ + c` of a name in the `k`-fold repetition is occurrence `c` of block `j`** -/
theorem nthOcc_replicate_flatten (col : List String) (name : String) (c : Nat) (hc : c < occ col name) :
    ∀ (k j : Nat), j < k →
    nthOcc (List.replicate k col).flatten name (j * occ col name + c) = (nthOcc col name c).map (· + j * col.length)
  | 0, _, hj => absurd hj (Nat.not_lt_zero _)
  | k+1, 0, _ => by
    rw [List.replicate_succ, List.flatten_cons, nthOcc_append]
    simp only [Nat.zero_mul, Nat.zero_add, hc, if_true, Nat.add_zero]
    cases nthOcc col name c <;> rfl
  | k+1, j+1, hj => by
    rw [List.replicate_succ, List.flatten_cons, nthOcc_append]
    have hge : ¬ ((j + 1) * occ col name + c < occ col name) := by
      rw [Nat.succ_mul]; omega
    have hsub : (j + 1) * occ col name + c - occ col name = j * occ col name + c := by
      rw [Nat.succ_mul]; omega
    simp only [hge, if_false, hsub]
    rw [nthOcc_replicate_flatten col name c hc k j (by omega)]
    cases nthOcc col name c with
    | none => rfl
    | some i =>
      simp only [Option.map_some, Option.some.injEq]
      rw [Nat.succ_mul]; omega

/-- a negative count that stays inside the column is the same count taken from the front -/
theorem scanLookup_neg (col : List String) (name : String) (count offset : Int) (hneg : count < 0)
    (hin : 0 ≤ count + (occ col name : Int)) :
    scanLookup col name count offset = scanLookup col name (count + (occ col name : Int)) offset := by
  unfold scanLookup
  have h2 : ¬ (count + (occ col name : Int) < 0) := by omega
  simp only [hneg, if_true, h2, if_false]

/-- **look-up in a repeated column, from the front**: count `j·occ + c` (block `j < k`, `c`-th occurrence inside the
    block) lands `j` column lengths after the `c`-th occurrence of the source column -/
theorem scanLookup_repeated (col : List String) (name : String) (k j c : Nat) (hj : j < k) (hc : c < occ col name)
    (offset : Int) :
    scanLookup (List.replicate k col).flatten name ((j * occ col name + c : Nat) : Int) offset =
      (nthOcc col name c).map (fun i => ((i + j * col.length : Nat) : Int) + offset) := by
  unfold scanLookup
  have h1 : ¬ (((j * occ col name + c : Nat) : Int) < 0) := by omega
  simp only [h1, if_false, Int.toNat_natCast]
  rw [nthOcc_replicate_flatten col name c hc k j hj]
  cases nthOcc col name c <;> rfl

/-- **… and from the back**: count `-(d+1)` is the `(occ-1-d)`-th occurrence of the LAST block for `d < occ` — the
    last occurrence of the name in `t * k` is in block `k-1`, not in the source's rows -/
theorem scanLookup_repeated_last (col : List String) (name : String) (k d : Nat) (hk : 0 < k) (hd : d < occ col name)
    (offset : Int) :
    scanLookup (List.replicate k col).flatten name (-((d : Int) + 1)) offset =
      (nthOcc col name (occ col name - 1 - d)).map (fun i => ((i + (k - 1) * col.length : Nat) : Int) + offset) := by
  have hocc := occ_replicate_flatten col name k
  have hpos : occ col name ≤ k * occ col name := Nat.le_mul_of_pos_left _ hk
  have hsplit : k * occ col name = (k - 1) * occ col name + occ col name := by
    have : k = (k - 1) + 1 := by omega
    conv => lhs; rw [this, Nat.succ_mul]
  rw [scanLookup_neg _ _ _ _ (by omega) (by rw [hocc]; omega)]
  have hcount : -((d : Int) + 1) + ((occ (List.replicate k col).flatten name : Nat) : Int) =
      (((k - 1) * occ col name + (occ col name - 1 - d) : Nat) : Int) := by
    rw [hocc]; omega
  rw [hcount]
  exact scanLookup_repeated col name k (k - 1) (occ col name - 1 - d) (by omega) (by omega) offset

/-! ## 7. look-ups in `t * k` -/

/-- **C07 for repetition**: in `t * k` the tuple `(name, count, offset)` resolves by the scan of the `k`-fold
    repeated index column of `t` — whatever cache `t` had built before -/
theorem getRowIndex_mulT (t : Tbl) (hidx : t.index ∈ t.colNames) (k : Nat) (r : Tbl) (hr : mulT t k = .ok r)
    (name : String) (count : Int) (offset : Option Int) :
    (getRowIndex r (.tup name count offset)).2 =
      match scanLookup (List.replicate k t.indexCol).flatten name count (offset.getD 0) with
      | some i => .ok i
      | none => .error .keyError := by
  rw [← mulT_indexCol t hidx k r hr]
  exact getRowIndex_scan r (Or.inl (mulT_cache t k r hr)) name count offset

/-- … in particular occurrence `j·occ + c` resolves into block `j`: `j` table lengths after the row the source table
    resolves `(name, c)` to -/
theorem getRowIndex_mulT_block (t : Tbl) (hidx : t.index ∈ t.colNames) (k : Nat) (r : Tbl) (hr : mulT t k = .ok r)
    (name : String) (j c : Nat) (hj : j < k) (hc : c < occ t.indexCol name) (i : Nat)
    (hi : nthOcc t.indexCol name c = some i) (offset : Option Int) :
    (getRowIndex r (.tup name ((j * occ t.indexCol name + c : Nat) : Int) offset)).2 =
      .ok (((i + j * t.indexCol.length : Nat) : Int) + offset.getD 0) := by
  rw [getRowIndex_mulT t hidx k r hr, scanLookup_repeated t.indexCol name k j c hj hc, hi]
  rfl

/-- the same for `t + t` -/
theorem getRowIndex_addT_self (t : Tbl) (hidx : t.index ∈ t.colNames) (r : Tbl) (hr : addT t t = .ok r)
    (name : String) (count : Int) (offset : Option Int) :
    (getRowIndex r (.tup name count offset)).2 =
      match scanLookup (t.indexCol ++ t.indexCol) name count (offset.getD 0) with
      | some i => .ok i
      | none => .error .keyError := by
  rw [← addT_self_indexCol t hidx r hr]
  exact getRowIndex_scan r (Or.inl (addT_cache t t r hr)) name count offset

/-! ## 8. a concrete instance: `'a::-1'` in `t * 2` for the index column `[a, b, a]`

The source table has its cache built (a look-up came first); the product's last `a` is row 5.  A product that kept the
source's cache would answer 2. -/

def rep3 : Tbl :=
  { index := "name", colNames := ["name", "v"],
    data := [("name", [.str "a", .str "b", .str "a"]), ("v", [.int 0, .int 1, .int 2])], cache := none }

/-- the history: a look-up (warms the cache), then `t = t * 2` -/
def rep3Hist : List DOp := [.api (.getIndex (.name "a")), .mul 2]

def noMatch : String → Match := fun _ _ => false

example : ((applyDOp noMatch rep3 (.api (.getIndex (.name "a")))).cache.isSome) = true := by decide
example : (rep3Hist.foldl (applyDOp noMatch) rep3).indexCol = ["a", "b", "a", "a", "b", "a"] := by decide
example : (rep3Hist.foldl (applyDOp noMatch) rep3).cache.isSome = false := by decide
/-- the tuple form `('a', -1)` -/
example : (getRowIndex (rep3Hist.foldl (applyDOp noMatch) rep3) (.tup "a" (-1) none)).2.toOption = some 5 := by decide
/-- the string form `'a::-1'`, through `_split_name_count_offset` -/
example : (getRowIndex (rep3Hist.foldl (applyDOp noMatch) rep3) (.name "a::-1")).2.toOption = some 5 := by decide
/-- on the source the same look-up gives 2 -/
example : (getRowIndex (applyDOp noMatch rep3 (.api (.getIndex (.name "a")))) (.tup "a" (-1) none)).2.toOption = some 2 := by decide
example : scanLookup (List.replicate 2 rep3.indexCol).flatten "a" (-1) 0 = some 5 := by decide
example : ∀ n, DOp.api (.delCol n) ∈ rep3Hist → n ≠ rep3.index := by
  intro n hn
  simp [rep3Hist] at hn

end TableM
