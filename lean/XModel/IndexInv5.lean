import XModel.IndexInv4
/-! Prototype: the statement-by-statement `register` of `Index.lean` (one record threaded through the two
    Python loops) equals the comprehension form `register'` used in the invariant proof. -/
namespace Index
variable {κ ρ : Type} [DecidableEq κ] [DecidableEq ρ]

theorem appAll_append (d : DD ρ κ) (xs ys : List (ρ × κ)) : appAll d (xs ++ ys) = appAll (appAll d xs) ys := by
  simp [appAll, List.foldl_append]

theorem foldl_modify_right (d : DD ρ κ) (a : ρ) (bs : List κ) :
    bs.foldl (fun d b => DD.modify d a (RC.append · b)) d = appAll d (bs.map fun b => (a, b)) := by
  induction bs generalizing d with
  | nil => rfl
  | cons b bs ih => simp only [List.foldl_cons, List.map_cons, appAll] at ih ⊢; exact ih _

theorem foldl_modify_left (d : DD ρ κ) (b : κ) (as : List ρ) :
    as.foldl (fun d a => DD.modify d a (RC.append · b)) d = appAll d (as.map fun a => (a, b)) := by
  induction as generalizing d with
  | nil => rfl
  | cons a as ih => simp only [List.foldl_cons, List.map_cons, appAll] at ih ⊢; exact ih _

/-- first Python loop of `register` (over the dependencies) -/
def loop1 (t : Task ρ ρ) (s : Mgr ρ ρ) : Mgr ρ ρ :=
  t.deps.foldl (fun s dep =>
    let s := { s with rdeps := t.tars.foldl (fun d tar => DD.modify d dep (RC.append · tar)) s.rdeps }
    let s := { s with deptasks := DD.modify s.deptasks dep (RC.append · t.id) }
    { s with rtasks := (RC.keys (DD.get s.tartasks dep)).foldl (fun d u => DD.modify d u (RC.append · t.id)) s.rtasks }) s

theorem loop1_eq (t : Task ρ ρ) (deps : List ρ) (s : Mgr ρ ρ) :
    deps.foldl (fun s dep =>
      let s := { s with rdeps := t.tars.foldl (fun d tar => DD.modify d dep (RC.append · tar)) s.rdeps }
      let s := { s with deptasks := DD.modify s.deptasks dep (RC.append · t.id) }
      { s with rtasks := (RC.keys (DD.get s.tartasks dep)).foldl (fun d u => DD.modify d u (RC.append · t.id)) s.rtasks }) s
    = { s with
        rdeps := appAll s.rdeps (deps.flatMap fun dep => t.tars.map fun tar => (dep, tar)),
        deptasks := appAll s.deptasks (deps.map fun dep => (dep, t.id)),
        rtasks := appAll s.rtasks (deps.flatMap fun dep => (RC.keys (DD.get s.tartasks dep)).map fun u => (u, t.id)) } := by
  induction deps generalizing s with
  | nil => simp [appAll]
  | cons dep deps ih =>
    simp only [List.foldl_cons]
    rw [ih]
    simp only [List.flatMap_cons, List.map_cons, appAll_append, foldl_modify_right, foldl_modify_left]
    congr 1

#print axioms loop1_eq
end Index
