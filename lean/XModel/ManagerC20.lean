import XModel.OrderIndep
/-!
# C20 on the executable manager: the iteration order of Python's sets does not change the result

For an assignment in scope (`Scope`, the hypotheses of C01), any two legal schedules — any two iteration
orders of the sets `find_taskids` walks, i.e. any two hash seeds — give the same container contents, the same
definitions and the same indices; and if the assignment completes under one of them it completes under the other.
-/
namespace Manager
open Store Push Index OrderIndep

theorem before_map {α β : Type} (f : α → β) {l : List α} {a b : α} (h : Dfs3.Before l a b) :
    Dfs3.Before (l.map f) (f a) (f b) := by
  obtain ⟨xs, ys, e, hb⟩ := h
  exact ⟨xs.map f, ys.map f, by simp [e], List.mem_map_of_mem hb⟩

theorem before_of_map {α β : Type} (f : α → β) {l : List α} {x y : β} (h : Dfs3.Before (l.map f) x y) :
    ∃ a b, f a = x ∧ f b = y ∧ Dfs3.Before l a b := by
  obtain ⟨xs, ys, e, hy⟩ := h
  obtain ⟨l1, l2, rfl, _, h2⟩ := List.map_eq_append_iff.mp e
  obtain ⟨a, l2', rfl, ha, h3⟩ := List.map_eq_cons_iff.mp h2
  rw [← h3] at hy
  obtain ⟨b, hb, hfb⟩ := List.mem_map.mp hy
  exact ⟨a, b, ha, hfb, ⟨l1, l2', rfl, hb⟩⟩

theorem not_before_both {α : Type} [DecidableEq α] {l : List α} (hnd : l.Nodup) {a b : α}
    (h1 : Dfs3.Before l a b) (h2 : Dfs3.Before l b a) : False := by
  obtain ⟨_, _, l1⟩ := (before_iff_pos l hnd a b).mp h1
  obtain ⟨_, _, l2⟩ := (before_iff_pos l hnd b a).mp h2
  omega

theorem nodup_of_map {α β : Type} (f : α → β) : ∀ {l : List α}, (l.map f).Nodup → l.Nodup
  | [], _ => List.nodup_nil
  | a :: l, h => by
    simp only [List.map_cons, List.nodup_cons] at h
    exact List.nodup_cons.mpr ⟨fun ha => h.1 (List.mem_map_of_mem ha), nodup_of_map f h.2⟩

theorem mapM_lookTask_ok (defs : List MTask) : ∀ (π : List Path), (∀ id ∈ π, ∃ t, lookDef defs id = some t) →
    ∃ l, π.mapM (lookTask defs) = .ok l
  | [], _ => ⟨[], rfl⟩
  | x :: π, h => by
    obtain ⟨t, ht⟩ := h x (List.mem_cons_self ..)
    obtain ⟨l, hl⟩ := mapM_lookTask_ok defs π (fun id hid => h id (List.mem_cons_of_mem _ hid))
    exact ⟨t :: l, by simp [List.mapM_cons, lookTask, ht, hl, bind, Except.bind, pure, Except.pure]⟩

/-- the converse of `runTasks_expr`: an abstract run of expression tasks is a run of `run_tasks` -/
theorem runTasks_expr_conv : ∀ (l : List MTask) (s : MState) (σf : Val), s.faultIn = none →
    (∀ t ∈ l, ∃ e, t.kind = .expr e) → runAll? (exprSys pySem) (l.map toE) s.store = some σf →
    ∃ s', runTasks s l = (s', none) ∧ s'.store = σf
  | [], s, σf, _, _, h => by
    simp only [List.map_nil, runAll?, Option.some.injEq] at h
    exact ⟨s, rfl, h⟩
  | t :: l, s, σf, hnf, hex, h => by
    obtain ⟨e, hk⟩ := hex t (List.mem_cons_self ..)
    simp only [List.map_cons, runAll?] at h
    cases hr : (exprSys pySem).run? (toE t) s.store with
    | none => simp [hr] at h
    | some σ1 =>
      simp only [hr] at h
      obtain ⟨v, hev, hset⟩ := run_eq hr
      have hev' : evalE s e = .ok v := by
        unfold evalE
        simpa [toE, hk] using hev
      have hw : writeRef s t.id v = ({ s with store := σ1, trace := s.trace ++ [(true, t.id)] }, none) := by
        unfold writeRef
        have : set s.store t.id v = .ok σ1 := hset
        simp [this, hnf]
      obtain ⟨s', hs', hst⟩ := runTasks_expr_conv l { s with store := σ1, trace := s.trace ++ [(true, t.id)] } σf hnf
        (fun u hu => hex u (List.mem_cons_of_mem _ hu)) h
      refine ⟨s', ?_, hst⟩
      simp only [runTasks, runTask, hk, hev', hw]
      exact hs'

theorem writeRef_prev (s : MState) (p : Path) (v : Val) : (writeRef s p v).1.prev = s.prev := by
  unfold writeRef
  split
  · rfl
  · split <;> rfl

theorem runTasks_expr_prev : ∀ (l : List MTask) (s : MState), (∀ t ∈ l, ∃ e, t.kind = .expr e) →
    (runTasks s l).1.prev = s.prev
  | [], _, _ => rfl
  | t :: l, s, hex => by
    obtain ⟨e, hk⟩ := hex t (List.mem_cons_self ..)
    simp only [runTasks]
    have h1 : (runTask s t).1.prev = s.prev := by
      simp only [runTask, hk]
      split
      · rfl
      · exact writeRef_prev s t.id _
    generalize runTask s t = r at h1
    obtain ⟨s1, x⟩ := r
    cases x with
    | some x => exact h1
    | none =>
      simp only at h1 ⊢
      rw [runTasks_expr_prev l s1 (fun u hu => hex u (List.mem_cons_of_mem _ hu)), h1]

/-- **order independence of `write + run_tasks`.** -/
theorem writeAndRun_sched_indep (sched1 sched2 : Sched) (s : MState) (p : Path) (v : Val) (hi : MInv s)
    (sc : Scope s p)
    (hvs1 : ValidSched (gOf s.idx) (findTaskids s.idx (chainR p)) (sched1 (findTaskids s.idx (chainR p))))
    (hvs2 : ValidSched (gOf s.idx) (findTaskids s.idx (chainR p)) (sched2 (findTaskids s.idx (chainR p))))
    (hexist : ∀ t ∈ s.defs, t.id ≠ p → ∃ w, get s.store t.id = .ok w)
    (s1 : MState) (hok : writeAndRun sched1 s p v = (s1, none)) :
    ∃ s2, writeAndRun sched2 s p v = (s2, none) ∧ s2.store = s1.store ∧ s2.defs = s1.defs ∧ s2.idx = s1.idx ∧
      s2.frozen = s1.frozen ∧ s2.prev = s1.prev ∧ s2.faultIn = s1.faultIn := by
  unfold writeAndRun at hok ⊢
  cases hw : writeRef s p v with
  | mk sw x =>
    cases x with
    | some x => simp [hw] at hok
    | none =>
      simp only [hw] at hok ⊢
      obtain ⟨hset, hnfw, hdw, hiw, hfw⟩ := writeRef_nofault s p v sc.nofault sw hw
      rw [hiw, hdw] at hok ⊢
      generalize hπ1 : sched1 (findTaskids s.idx (chainR p)) = π1 at hok hvs1
      generalize hπ2 : sched2 (findTaskids s.idx (chainR p)) = π2 at hvs2
      cases hm : List.mapM (lookTask s.defs) π1 with
      | error e => simp [hm] at hok
      | ok l1 =>
        simp only [hm] at hok
        obtain ⟨hl1map, hl1sub⟩ := mapM_lookDef s.defs _ (lookTask_ok s.defs) _ l1 hm
        have hexl : ∀ (l : List MTask), (∀ t ∈ l, t ∈ s.defs) → ∀ t ∈ l, ∃ e, t.kind = .expr e := fun l hl t ht => by
          obtain ⟨e, he, _⟩ := sc.exprs t (hl t ht); exact ⟨e, he⟩
        obtain ⟨hrun1, hnf1⟩ := runTasks_expr l1 sw s1 hnfw (hexl l1 hl1sub) hok
        have hprev1 : s1.prev = sw.prev := by
          have := runTasks_expr_prev l1 sw (hexl l1 hl1sub); rw [hok] at this; exact this
        have hg1 := runTasks_graph l1 sw
        rw [hok] at hg1
        -- the second schedule finds its tasks too
        have hfind2 : ∀ id ∈ π2, ∃ t, lookDef s.defs id = some t := by
          intro id hid
          have : id ∈ π1 := (hvs1.mem id).mpr ((hvs2.mem id).mp hid)
          rw [← hl1map] at this
          obtain ⟨t, ht, rfl⟩ := List.mem_map.mp this
          exact ⟨t, lookDef_of_mem s.defs hi.ids t (hl1sub t ht)⟩
        obtain ⟨l2, hm2⟩ := mapM_lookTask_ok s.defs π2 hfind2
        obtain ⟨hl2map, hl2sub⟩ := mapM_lookDef s.defs _ (lookTask_ok s.defs) _ l2 hm2
        simp only [hm2]
        -- membership and duplicate-freeness of the two task lists
        have nodupE : ∀ (l : List MTask) (π : List Path), l.map (·.id) = π → π.Nodup → (l.map toE).Nodup := by
          intro l π hl hnd
          have : ((l.map toE).map (·.target)).Nodup := by rw [List.map_map]; exact hl ▸ hnd
          exact nodup_of_map _ this
        have memE : ∀ x, x ∈ l1.map toE ↔ x ∈ l2.map toE := by
          have one : ∀ (la lb : List MTask) (πa πb : List Path), la.map (·.id) = πa → lb.map (·.id) = πb →
              (∀ t ∈ la, t ∈ s.defs) → (∀ t ∈ lb, t ∈ s.defs) → (∀ id, id ∈ πa → id ∈ πb) →
              ∀ x, x ∈ la.map toE → x ∈ lb.map toE := by
            intro la lb πa πb ha hb hsa hsb hsub x hx
            obtain ⟨t, ht, rfl⟩ := List.mem_map.mp hx
            have : t.id ∈ lb.map (·.id) := by rw [hb]; exact hsub _ (ha ▸ List.mem_map_of_mem ht)
            obtain ⟨u, hu, hue⟩ := List.mem_map.mp this
            have : u = t := eq_of_id_eq s.defs hi.ids u (hsb u hu) t (hsa t ht) hue
            exact List.mem_map_of_mem (this ▸ hu)
          intro x
          exact ⟨one l1 l2 π1 π2 hl1map hl2map hl1sub hl2sub (fun id h => (hvs2.mem id).mpr ((hvs1.mem id).mp h)) x,
                 one l2 l1 π2 π1 hl2map hl1map hl2sub hl1sub (fun id h => (hvs1.mem id).mpr ((hvs2.mem id).mp h)) x⟩
        -- targets exist after the user's write
        have hP : TargetsExist (s.defs.map toE) sw.store := by
          intro t' ht'
          obtain ⟨t, ht, rfl⟩ := List.mem_map.mp ht'
          by_cases hp : t.id = p
          · exact ⟨v, by show get sw.store t.id = _; rw [hp]; exact get_set_same hset⟩
          · obtain ⟨w, hw'⟩ := hexist t ht hp
            refine ⟨w, ?_⟩
            show get sw.store t.id = _
            rw [get_set_incomparable hset (sc.h2p t ht hp) sc.pathP.2 (sc.paths t ht).1.2]
            exact hw'
        have hU : ∀ x ∈ l1.map toE, UE (s.defs.map toE) x := by
          intro x hx
          obtain ⟨t, ht, rfl⟩ := List.mem_map.mp hx
          have htd := hl1sub t ht
          refine ⟨(sc.paths t htd).1.2, ?_⟩
          intro u' hu'
          obtain ⟨u, hu, rfl⟩ := List.mem_map.mp hu'
          refine ⟨(sc.paths u hu).1.2, ?_⟩
          by_cases he : u.id = t.id
          · exact Or.inl he
          · exact Or.inr (sc.h2 u hu t htd he)
        -- tasks ordered differently by the two schedules have no edge between them
        have noEdgeNI : ∀ ta ∈ s.defs, ∀ tb ∈ s.defs, ta.id ≠ tb.id → tb.id ∉ gOf s.idx ta.id →
            (exprSys pySem).NI (toE ta) (toE tb) := by
          intro ta hta tb htb hne hno
          refine ⟨(sc.paths ta hta).1.2, (sc.paths tb htb).1.2, sc.h2 tb htb ta hta (fun e => hne e.symm), ?_⟩
          intro r hr
          refine ⟨((sc.paths tb htb).2 r hr).2, Classical.byContradiction fun hc => hno ?_⟩
          exact edge_of_read s hi sc.exprs ta tb hta htb (sc.paths ta hta).1.1 r hr ((sc.paths tb htb).2 r hr).1 hc
        have hcompat : ∀ a b, a ≠ b → Dfs3.Before (l1.map toE) a b → Dfs3.Before (l2.map toE) b a →
            IndE pySem (s.defs.map toE) a b := by
          intro a b hne hb1 hb2
          obtain ⟨ta, tb, rfl, rfl, hbt1⟩ := before_of_map toE hb1
          obtain ⟨tb', ta', hb', ha', hbt2⟩ := before_of_map toE hb2
          have hta : ta ∈ l1 := by obtain ⟨xs, ys, e, _⟩ := hbt1; rw [e]; simp
          have htb : tb ∈ l1 := by obtain ⟨xs, ys, e, h⟩ := hbt1; rw [e]; simp [h]
          have hta' : ta' ∈ l2 := by obtain ⟨xs, ys, e, h⟩ := hbt2; rw [e]; simp [h]
          have htb' : tb' ∈ l2 := by obtain ⟨xs, ys, e, _⟩ := hbt2; rw [e]; simp
          have ea : ta' = ta := eq_of_id_eq s.defs hi.ids ta' (hl2sub ta' hta') ta (hl1sub ta hta) (congrArg ETask.target ha')
          have eb : tb' = tb := eq_of_id_eq s.defs hi.ids tb' (hl2sub tb' htb') tb (hl1sub tb htb) (congrArg ETask.target hb')
          subst ea; subst eb
          have hid : ta'.id ≠ tb'.id := by
            intro e
            exact hne (by rw [eq_of_id_eq s.defs hi.ids ta' (hl1sub ta' hta) tb' (hl1sub tb' htb) e])
          have hB1 : Dfs3.Before π1 ta'.id tb'.id := hl1map ▸ before_map (·.id) hbt1
          have hB2 : Dfs3.Before π2 tb'.id ta'.id := hl2map ▸ before_map (·.id) hbt2
          have hm1a : ta'.id ∈ π1 := hl1map ▸ List.mem_map_of_mem hta
          have hm1b : tb'.id ∈ π1 := hl1map ▸ List.mem_map_of_mem htb
          have hm2a : ta'.id ∈ π2 := hl2map ▸ List.mem_map_of_mem hta'
          have hm2b : tb'.id ∈ π2 := hl2map ▸ List.mem_map_of_mem htb'
          have no1 : tb'.id ∉ gOf s.idx ta'.id := fun hedge =>
            not_before_both hvs2.nodup (hvs2.order ta'.id tb'.id hm2a hm2b hedge (Ne.symm hid)) hB2
          have no2 : ta'.id ∉ gOf s.idx tb'.id := fun hedge =>
            not_before_both hvs1.nodup (hvs1.order tb'.id ta'.id hm1b hm1a hedge hid) hB1
          exact ⟨List.mem_map_of_mem (hl1sub ta' hta), List.mem_map_of_mem (hl1sub tb' htb),
            noEdgeNI ta' (hl1sub ta' hta) tb' (hl1sub tb' htb) hid no1,
            noEdgeNI tb' (hl1sub tb' htb) ta' (hl1sub ta' hta) (Ne.symm hid) no2⟩
        have hrun2 := perm_runE pySem (s.defs.map toE) (l1.map toE) (l2.map toE) sw.store s1.store
          (nodupE l1 π1 hl1map hvs1.nodup) (nodupE l2 π2 hl2map hvs2.nodup) memE hU hP hcompat hrun1
        obtain ⟨s2, hs2, hst2⟩ := runTasks_expr_conv l2 sw s1.store hnfw (hexl l2 hl2sub) hrun2
        have hg2 := runTasks_graph l2 sw
        rw [hs2] at hg2
        have hprev2 : s2.prev = sw.prev := by
          have := runTasks_expr_prev l2 sw (hexl l2 hl2sub); rw [hs2] at this; exact this
        obtain ⟨_, hnf2⟩ := runTasks_expr l2 sw s2 hnfw (hexl l2 hl2sub) hs2
        exact ⟨s2, hs2, hst2, by rw [hg2.2.1, hg1.2.1], by rw [hg2.1, hg1.1], by rw [hg2.2.2, hg1.2.2],
          by rw [hprev2, hprev1], by rw [hnf2, hnf1]⟩

/-- the definitional part of an assignment does not look at the scheduler -/
theorem setValue_split (s : MState) (p : Path) (v : Val) :
    (∃ s0 x, ∀ sched, setValue sched s p v = (s0, some x)) ∨
    (∀ sched, setValue sched s p v = writeAndRun sched (preState s p) p v) := by
  unfold setValue preState
  cases hl : lookDef s.defs p with
  | none => right; intro sched; rfl
  | some t =>
    simp only
    generalize unregister s p = r
    obtain ⟨s0, x0⟩ := r
    cases x0 with
    | some x => left; exact ⟨s0, x, fun _ => rfl⟩
    | none => right; intro sched; rfl

theorem setExpr_split (s : MState) (p : Path) (e : Expr) :
    (∃ s0 x, ∀ sched, setExpr sched s p e = (s0, some x)) ∨
    (∃ v, ∀ sched, setExpr sched s p e = writeAndRun sched (defPart s p e) p v) := by
  unfold setExpr defPart
  cases hl : lookDef s.defs p with
  | none =>
    simp only
    generalize register s (mkExprTask p e) = r
    obtain ⟨s1, x1⟩ := r
    cases x1 with
    | some x => left; exact ⟨s1, x, fun _ => rfl⟩
    | none =>
      simp only
      cases hev : evalE s1 e with
      | error x => left; exact ⟨s1, x, fun _ => rfl⟩
      | ok v => right; exact ⟨v, fun _ => rfl⟩
  | some t =>
    simp only
    generalize unregister s p = r
    obtain ⟨s0, x0⟩ := r
    cases x0 with
    | some x => left; exact ⟨s0, x, fun _ => rfl⟩
    | none =>
      simp only
      generalize register s0 (mkExprTask p e) = r
      obtain ⟨s1, x1⟩ := r
      cases x1 with
      | some x => left; exact ⟨s1, x, fun _ => rfl⟩
      | none =>
        simp only
        cases hev : evalE s1 e with
        | error x => left; exact ⟨s1, x, fun _ => rfl⟩
        | ok v => right; exact ⟨v, fun _ => rfl⟩

/-- **C20, `set_value(ref, value)`**: any two legal schedules — any two hash seeds — give the same container
    contents, definitions and indices, and the second completes whenever the first does. -/
theorem setValue_sched_indep (sched1 sched2 : Sched) (s : MState) (p : Path) (v : Val) (hi : MInv s)
    (hc : Consistent s) (sc : Scope (preState s p) p)
    (hvs1 : ValidSched (gOf (preState s p).idx) (findTaskids (preState s p).idx (chainR p))
      (sched1 (findTaskids (preState s p).idx (chainR p))))
    (hvs2 : ValidSched (gOf (preState s p).idx) (findTaskids (preState s p).idx (chainR p))
      (sched2 (findTaskids (preState s p).idx (chainR p))))
    (s1 : MState) (hok : setValue sched1 s p v = (s1, none)) :
    ∃ s2, setValue sched2 s p v = (s2, none) ∧ s2.store = s1.store ∧ s2.defs = s1.defs ∧ s2.idx = s1.idx ∧
      s2.frozen = s1.frozen ∧ s2.prev = s1.prev ∧ s2.faultIn = s1.faultIn := by
  rcases setValue_split s p v with ⟨s0, x, hx⟩ | hsplit
  · rw [hx sched1] at hok; cases hok
  · rw [hsplit sched1] at hok
    rw [hsplit sched2]
    have hf : lookDef s.defs p ≠ none → s.frozen = false := by
      intro hne
      cases hl : lookDef s.defs p with
      | none => exact absurd hl hne
      | some t =>
        cases hfz : s.frozen with
        | false => rfl
        | true =>
          have := hsplit sched1
          rw [setValue_frozen_defined sched1 s p v t hfz hl] at this
          rw [← this] at hok
          cases hok
    obtain ⟨hi0, hst, _, _, _, hsub⟩ := preState_facts s p hi hf
    exact writeAndRun_sched_indep sched1 sched2 (preState s p) p v hi0 sc hvs1 hvs2
      (fun t ht _ => by
        obtain ⟨w, _, hw⟩ := hc t (hsub t ht).1
        exact ⟨w, by rw [hst]; exact hw⟩) s1 hok

/-- **C20, `set_value(ref, expression)`.** -/
theorem setExpr_sched_indep (sched1 sched2 : Sched) (s : MState) (p : Path) (e : Expr) (hi : MInv s)
    (hc : Consistent s) (sc : Scope (defPart s p e) p)
    (hvs1 : ValidSched (gOf (defPart s p e).idx) (findTaskids (defPart s p e).idx (chainR p))
      (sched1 (findTaskids (defPart s p e).idx (chainR p))))
    (hvs2 : ValidSched (gOf (defPart s p e).idx) (findTaskids (defPart s p e).idx (chainR p))
      (sched2 (findTaskids (defPart s p e).idx (chainR p))))
    (s1 : MState) (hok : setExpr sched1 s p e = (s1, none)) :
    ∃ s2, setExpr sched2 s p e = (s2, none) ∧ s2.store = s1.store ∧ s2.defs = s1.defs ∧ s2.idx = s1.idx ∧
      s2.frozen = s1.frozen ∧ s2.prev = s1.prev ∧ s2.faultIn = s1.faultIn := by
  have hf : s.frozen = false := by
    cases hfz : s.frozen with
    | false => rfl
    | true =>
      rw [setExpr_frozen sched1 s p e hfz] at hok
      cases hok
  rcases setExpr_split s p e with ⟨s0, x, hx⟩ | ⟨v, hsplit⟩
  · rw [hx sched1] at hok; cases hok
  · rw [hsplit sched1] at hok
    rw [hsplit sched2]
    obtain ⟨hi0, hst, hsub⟩ := defPart_facts s p e hi hf
    refine writeAndRun_sched_indep sched1 sched2 (defPart s p e) p v hi0 sc hvs1 hvs2 ?_ s1 hok
    intro t ht hne
    rcases hsub t ht with ⟨h1, _⟩ | h
    · obtain ⟨w, _, hw⟩ := hc t h1
      exact ⟨w, by rw [hst]; exact hw⟩
    · exact absurd (by rw [h]; rfl) hne

/-! ### histories: every hash seed gives the same sequence of states -/

/-- the event log is per call (the driver clears it before each operation) -/
def resetT (s : MState) : MState := { s with trace := [] }

def applyAllR (sched : Sched) : MState → List Call → MState
  | s, [] => s
  | s, c :: cs => applyAllR sched (resetT (apply sched s c).1) cs

theorem resetT_eq {a b : MState} (h1 : a.store = b.store) (h2 : a.defs = b.defs) (h3 : a.idx = b.idx)
    (h4 : a.frozen = b.frozen) (h5 : a.prev = b.prev) (h6 : a.faultIn = b.faultIn) : resetT a = resetT b := by
  cases a; cases b
  simp only [resetT] at *
  simp [h1, h2, h3, h4, h5, h6]

theorem MInv_resetT {s : MState} (h : MInv s) : MInv (resetT s) :=
  MInv_of_sameGraph (s := s) ⟨rfl, rfl, rfl⟩ h

theorem Consistent_resetT {s : MState} (h : Consistent s) : Consistent (resetT s) := h

/-- a history in which every assignment is in scope, both schedulers are legal at every step, and the
    assignment completes under the first one -/
def GoodRun2 (sched1 sched2 : Sched) : MState → List Call → Prop
  | _, [] => True
  | s, .setValue p v :: cs =>
    Scope (preState s p) p ∧
    ValidSched (gOf (preState s p).idx) (findTaskids (preState s p).idx (chainR p))
      (sched1 (findTaskids (preState s p).idx (chainR p))) ∧
    ValidSched (gOf (preState s p).idx) (findTaskids (preState s p).idx (chainR p))
      (sched2 (findTaskids (preState s p).idx (chainR p))) ∧
    (setValue sched1 s p v).2 = none ∧ GoodRun2 sched1 sched2 (resetT (setValue sched1 s p v).1) cs
  | s, .setExpr p e :: cs =>
    Scope (defPart s p e) p ∧
    ValidSched (gOf (defPart s p e).idx) (findTaskids (defPart s p e).idx (chainR p))
      (sched1 (findTaskids (defPart s p e).idx (chainR p))) ∧
    ValidSched (gOf (defPart s p e).idx) (findTaskids (defPart s p e).idx (chainR p))
      (sched2 (findTaskids (defPart s p e).idx (chainR p))) ∧
    (setExpr sched1 s p e).2 = none ∧ GoodRun2 sched1 sched2 (resetT (setExpr sched1 s p e).1) cs
  | s, .unregister id :: cs => GoodRun2 sched1 sched2 (resetT (unregister s id).1) cs
  | s, .cleanup :: cs => GoodRun2 sched1 sched2 (resetT (cleanup s)) cs
  | s, .verify :: cs => GoodRun2 sched1 sched2 (resetT (verify s).1) cs
  | s, .refresh :: cs => GoodRun2 sched1 sched2 (resetT (refresh s).1) cs
  | _, _ :: _ => False

/-- **C20 over histories**: the two schedulers — two hash seeds — lead through the same states. -/
theorem history_sched_indep (sched1 sched2 : Sched) : ∀ (cs : List Call) (s : MState), MInv s → Consistent s →
    GoodRun2 sched1 sched2 s cs → applyAllR sched2 s cs = applyAllR sched1 s cs
  | [], _, _, _, _ => rfl
  | .setValue p v :: cs, s, hi, hc, hg => by
    obtain ⟨sc, hv1, hv2, hok, hrest⟩ := hg
    have hok' : setValue sched1 s p v = ((setValue sched1 s p v).1, none) := by rw [← hok]
    obtain ⟨s2, h2, e1, e2, e3, e4, e5, e6⟩ := setValue_sched_indep sched1 sched2 s p v hi hc sc hv1 hv2 _ hok'
    obtain ⟨hc', hi', _⟩ := setValue_consistent sched1 s p v hi hc sc hv1 _ hok'
    simp only [applyAllR, apply]
    have : resetT (setValue sched2 s p v).1 = resetT (setValue sched1 s p v).1 := by
      rw [h2]; exact resetT_eq e1 e2 e3 e4 e5 e6
    rw [this]
    exact history_sched_indep sched1 sched2 cs _ (MInv_resetT hi') (Consistent_resetT hc') hrest
  | .setExpr p e :: cs, s, hi, hc, hg => by
    obtain ⟨sc, hv1, hv2, hok, hrest⟩ := hg
    have hok' : setExpr sched1 s p e = ((setExpr sched1 s p e).1, none) := by rw [← hok]
    obtain ⟨s2, h2, e1, e2, e3, e4, e5, e6⟩ := setExpr_sched_indep sched1 sched2 s p e hi hc sc hv1 hv2 _ hok'
    obtain ⟨hc', hi', _⟩ := setExpr_consistent sched1 s p e hi hc sc hv1 _ hok'
    simp only [applyAllR, apply]
    have : resetT (setExpr sched2 s p e).1 = resetT (setExpr sched1 s p e).1 := by
      rw [h2]; exact resetT_eq e1 e2 e3 e4 e5 e6
    rw [this]
    exact history_sched_indep sched1 sched2 cs _ (MInv_resetT hi') (Consistent_resetT hc') hrest
  | .unregister id :: cs, s, hi, hc, hg => by
    obtain ⟨hc', hi'⟩ := unregister_consistent s id hi hc
    simp only [applyAllR, apply]
    exact history_sched_indep sched1 sched2 cs _ (MInv_resetT hi') (Consistent_resetT hc') hg
  | .cleanup :: cs, s, hi, hc, hg => by
    have hd := cleanup_defs s
    have hc' : Consistent (cleanup s) := by
      intro t ht; rw [hd.1] at ht; rw [hd.2.1]; exact hc t ht
    simp only [applyAllR, apply]
    exact history_sched_indep sched1 sched2 cs _ (MInv_resetT (cleanup_MInv s hi)) (Consistent_resetT hc') hg
  | .verify :: cs, s, hi, hc, hg => by
    have hd := verify_defs s
    have hc' : Consistent (verify s).1 := by
      intro t ht; rw [hd.1] at ht; rw [hd.2.1]; exact hc t ht
    simp only [applyAllR, apply]
    exact history_sched_indep sched1 sched2 cs _ (MInv_resetT (verify_MInv s hi)) (Consistent_resetT hc') hg
  | .refresh :: cs, s, hi, hc, hg => by
    have hd := refresh_defs s
    have hc' : Consistent (refresh s).1 := by
      intro t ht; rw [hd.1] at ht; rw [hd.2]; exact hc t ht
    simp only [applyAllR, apply]
    exact history_sched_indep sched1 sched2 cs _ (MInv_resetT (refresh_MInv s hi)) (Consistent_resetT hc') hg
  | .inplace _ _ _ :: _, _, _, _, hg => by simp [GoodRun2] at hg
  | .register _ :: _, _, _, _, hg => by simp [GoodRun2] at hg
  | .load _ _ :: _, _, _, _, hg => by simp [GoodRun2] at hg

end Manager
