import XModel.TableThms
/-! Lemmas for C14: every derivation of `XModel/Table.lean` maps rectangular tables to rectangular tables
    (index column listed, every listed column present with the table's length). -/
namespace TableM
open Cache

theorem lookupA_mapKV {κ ν μ : Type} [DecidableEq κ] (d : List (κ × ν)) (F : κ → ν → μ) (k : κ) :
    lookupA (d.map (fun p => (p.1, F p.1 p.2))) k = (lookupA d k).map (F k) := by
  induction d with
  | nil => simp [lookupA]
  | cons p r ih =>
    obtain ⟨k0, v0⟩ := p
    simp only [List.map_cons, lookupA]
    split
    · next h => subst h; rfl
    · exact ih

theorem lookupA_filterMap_names {ν : Type} (names : List String) (f : String → Option ν) (c : String) :
    lookupA (names.filterMap (fun n => (f n).map (fun v => (n, v)))) c = if c ∈ names then f c else none := by
  induction names with
  | nil => simp [lookupA]
  | cons n rest ih =>
    simp only [List.filterMap_cons]
    cases hf : f n with
    | none =>
      simp only [Option.map_none]
      rw [ih]
      by_cases hc : c = n
      · subst hc; simp [hf]
      · have : c ∈ n :: rest ↔ c ∈ rest := by simp [hc]
        simp only [this]
    | some v =>
      simp only [Option.map_some, lookupA]
      by_cases hc : n = c
      · subst hc; simp [hf]
      · have hc' : c ≠ n := fun e => hc e.symm
        simp only [hc, if_false, ih, List.mem_cons, hc', false_or]

theorem nrows_eq (t : Tbl) (h : Rect t) (c : String) (hc : c ∈ t.colNames) (v : List Cell) (hv : t.col c = some v) :
    v.length = t.nrows := by
  obtain ⟨v', hv', hl⟩ := h.2 c hc
  rw [hv] at hv'
  cases hv'
  exact hl

/-- the table's length is the length of any listed column -/
theorem nrows_of_head (names : List String) (data : List (String × List Cell)) (idx : String) (cache : Option (Dct × Cnt))
    (sc sp sn : String) (n : Nat) (hne : names ≠ [])
    (hall : ∀ c ∈ names, ∃ v, lookupA data c = some v ∧ v.length = n) :
    (⟨idx, names, data, cache, sc, sp, sn⟩ : Tbl).nrows = n := by
  unfold Tbl.nrows Tbl.col
  cases names with
  | nil => exact absurd rfl hne
  | cons k rest =>
    obtain ⟨v, hv, hl⟩ := hall k (List.mem_cons_self ..)
    simp only [hv, hl]

/-- building a table from listed names and data with all listed columns of length `n` gives a rectangle -/
theorem rect_mk (names : List String) (data : List (String × List Cell)) (idx : String) (cache : Option (Dct × Cnt))
    (sc sp sn : String) (n : Nat) (hidx : idx ∈ names)
    (hall : ∀ c ∈ names, ∃ v, lookupA data c = some v ∧ v.length = n) :
    Rect (⟨idx, names, data, cache, sc, sp, sn⟩ : Tbl) ∧ (⟨idx, names, data, cache, sc, sp, sn⟩ : Tbl).nrows = n := by
  have hne : names ≠ [] := fun e => by rw [e] at hidx; cases hidx
  have hn := nrows_of_head names data idx cache sc sp sn n hne hall
  refine ⟨⟨hidx, ?_⟩, hn⟩
  intro c hc
  obtain ⟨v, hv, hl⟩ := hall c hc
  exact ⟨v, hv, by rw [hn]; exact hl⟩

/-- `_copy()` -/
theorem copyT_rect (t : Tbl) (h : Rect t) : Rect (copyT t) ∧ (copyT t).nrows = t.nrows := by
  unfold copyT
  refine rect_mk _ _ _ _ _ _ _ t.nrows h.1 ?_
  intro c hc
  obtain ⟨v, hv, hl⟩ := h.2 c hc
  refine ⟨v, ?_, hl⟩
  rw [lookupA_filterMap_names t.colNames t.col c]
  simp [hc, hv]

/-- `t * k` -/
theorem mulT_rect (t : Tbl) (h : Rect t) (k : Nat) (r : Tbl) (hr : mulT t k = .ok r) :
    Rect r ∧ r.nrows = k * t.nrows := by
  unfold mulT at hr
  split at hr
  · cases hr
  · simp only [Except.ok.injEq] at hr
    subst hr
    refine rect_mk _ _ _ _ _ _ _ (k * t.nrows) h.1 ?_
    intro c hc
    obtain ⟨v, hv, hl⟩ := h.2 c hc
    have hform : (t.data.map (fun p => if p.1 ∈ t.colNames then (p.1, (List.replicate k p.2).flatten) else p)) =
        t.data.map (fun p => (p.1, (fun (n : String) (x : List Cell) => if n ∈ t.colNames then (List.replicate k x).flatten else x) p.1 p.2)) := by
      apply List.map_congr_left
      intro p _
      by_cases hp : p.1 ∈ t.colNames <;> simp [hp]
    have key := lookupA_mapKV t.data
      (fun (n : String) (x : List Cell) => if n ∈ t.colNames then (List.replicate k x).flatten else x) c
    rw [hform]
    refine ⟨_, by rw [key, show lookupA t.data c = some v from hv]; rfl, ?_⟩
    simp [hc, hl]

/-- `a + b` for tables listing the same columns -/
theorem addT_rect (a b : Tbl) (ha : Rect a) (hb : Rect b) (hsame : ∀ c ∈ a.colNames, c ∈ b.colNames)
    (r : Tbl) (hr : addT a b = .ok r) : Rect r ∧ r.nrows = a.nrows + b.nrows := by
  unfold addT at hr
  split at hr
  · simp only [Except.ok.injEq] at hr
    subst hr
    refine rect_mk _ _ _ _ _ _ _ (a.nrows + b.nrows) ha.1 ?_
    intro c hc
    obtain ⟨v, hv, hl⟩ := ha.2 c hc
    obtain ⟨w, hw, hlw⟩ := hb.2 c (hsame c hc)
    have hform : (a.data.map (fun p => if p.1 ∈ b.colNames then (p.1, p.2 ++ ((b.col p.1).getD [])) else p)) =
        a.data.map (fun p => (p.1, (fun (n : String) (x : List Cell) => if n ∈ b.colNames then x ++ ((b.col n).getD []) else x) p.1 p.2)) := by
      apply List.map_congr_left
      intro p _
      by_cases hp : p.1 ∈ b.colNames <;> simp [hp]
    have key := lookupA_mapKV a.data
      (fun (n : String) (x : List Cell) => if n ∈ b.colNames then x ++ ((b.col n).getD []) else x) c
    rw [hform]
    refine ⟨_, by rw [key, show lookupA a.data c = some v from hv]; rfl, ?_⟩
    simp [hsame c hc, hw, hl, hlw]
  · cases hr

/-- every pair produced by the successful `mapM` of `selectCols` -/
theorem mapM_cols (t : Tbl) : ∀ (names : List String) (cols : List (String × List Cell)),
    names.mapM (fun c => (t.col c).map (fun v => (c, v))) = some cols →
    ∀ c ∈ names, lookupA cols c = t.col c ∧ (t.col c).isSome
  | [], cols, h, c, hc => by cases hc
  | n :: rest, cols, h, c, hc => by
    simp only [List.mapM_cons, Option.bind_eq_bind] at h
    cases hn : t.col n with
    | none => simp [hn] at h
    | some v =>
      simp only [hn, Option.map_some, Option.bind_some] at h
      cases hr : rest.mapM (fun c => (t.col c).map (fun v => (c, v))) with
      | none => simp [hr] at h
      | some cols' =>
        simp only [hr, Option.bind_some, Option.pure_def, Option.some.injEq] at h
        subst h
        by_cases hcn : n = c
        · subst hcn
          simp [lookupA, hn]
        · have hc' : c ∈ rest := by
            rcases List.mem_cons.mp hc with e | e
            · exact absurd e.symm hcn
            · exact e
          simp only [lookupA, hcn, if_false]
          exact mapM_cols t rest cols' hr c hc'

/-- `cols[names]` for listed names -/
theorem selectCols_rect (t : Tbl) (h : Rect t) (names : List String) (hn : ∀ c ∈ names, c ∈ t.colNames)
    (r : Tbl) (hr : selectCols t names = .ok r) : Rect r ∧ r.nrows = t.nrows := by
  unfold selectCols at hr
  simp only at hr
  split at hr
  · cases hr
  · next cols hm =>
    simp only [Except.ok.injEq] at hr
    subst hr
    have hn' : ∀ c ∈ (if t.index ∈ names then names else t.index :: names), c ∈ t.colNames := by
      intro c hc
      by_cases hi : t.index ∈ names
      · simp only [hi, if_true] at hc; exact hn c hc
      · simp only [hi, if_false, List.mem_cons] at hc
        rcases hc with rfl | hc
        · exact h.1
        · exact hn c hc
    refine rect_mk _ _ _ _ _ _ _ t.nrows ?_ ?_
    · by_cases hi : t.index ∈ names <;> simp [hi]
    · intro c hc
      obtain ⟨v, hv, hl⟩ := h.2 c (hn' c hc)
      obtain ⟨h1, _⟩ := mapM_cols t _ cols hm c hc
      exact ⟨v, by rw [h1, hv], hl⟩


/-! ### transposition and concatenation -/

theorem lookupA_some_of_mem {ν : Type} : ∀ (d : List (String × ν)) (k : String), k ∈ d.map (·.1) →
    ∃ v, lookupA d k = some v ∧ (k, v) ∈ d
  | [], _, h => by cases h
  | (k0, v0) :: r, k, h => by
    simp only [lookupA]
    by_cases hk : k0 = k
    · subst hk; exact ⟨v0, by simp, by simp⟩
    · simp only [hk, if_false]
      have : k ∈ r.map (·.1) := by
        rcases List.mem_cons.mp h with e | e
        · exact absurd e.symm hk
        · exact e
      obtain ⟨v, hv, hm⟩ := lookupA_some_of_mem r k this
      exact ⟨v, hv, List.mem_cons_of_mem _ hm⟩

/-- `_t`: rectangular, one row per column of the source -/
theorem transposeT_rect (t : Tbl) : Rect (transposeT t) ∧ (transposeT t).nrows = t.colNames.length := by
  unfold transposeT
  refine rect_mk _ _ _ _ _ _ _ t.colNames.length (by simp) ?_
  intro c hc
  have hkeys : c ∈ (("columns", t.colNames.map Cell.str) ::
      (List.range t.nrows).map (fun k => ("row" ++ toString k,
        t.colNames.map (fun c => match (t.col c).bind (fun v => v[k]?) with
          | some x => Cell.str (cellStr x) | none => Cell.str "")))).map (·.1) := by
    simpa [List.map_map, Function.comp] using hc
  obtain ⟨v, hv, hm⟩ := lookupA_some_of_mem _ c hkeys
  refine ⟨v, hv, ?_⟩
  rcases List.mem_cons.mp hm with e | e
  · cases e; simp
  · obtain ⟨k, _, hk⟩ := List.mem_map.mp e
    cases hk
    simp

theorem mapM_flatten_lookup (G : String → Option (List (List Cell))) : ∀ (names : List String) (data : List (String × List Cell)),
    names.mapM (fun c => (G c).map (fun cols => (c, cols.flatten))) = some data →
    ∀ c ∈ names, ∃ cols, G c = some cols ∧ lookupA data c = some cols.flatten
  | [], _, _, c, hc => by cases hc
  | n :: ns, data, h, c, hc => by
    simp only [List.mapM_cons, Option.bind_eq_bind] at h
    cases hn : G n with
    | none => simp [hn] at h
    | some cols =>
      simp only [hn, Option.map_some, Option.bind_some] at h
      cases hr : ns.mapM (fun c => (G c).map (fun cols => (c, cols.flatten))) with
      | none => simp [hr] at h
      | some d' =>
        simp only [hr, Option.bind_some, Option.pure_def, Option.some.injEq] at h
        subst h
        by_cases hcn : n = c
        · subst hcn
          exact ⟨cols, hn, by simp [lookupA]⟩
        · have hc' : c ∈ ns := by
            rcases List.mem_cons.mp hc with e | e
            · exact absurd e.symm hcn
            · exact e
          obtain ⟨cols', h1, h2⟩ := mapM_flatten_lookup G ns d' hr c hc'
          exact ⟨cols', h1, by simp [lookupA, hcn, h2]⟩

/-- the rows of a concatenation: the lengths add -/
theorem concatT_rect : ∀ (ts : List Tbl) (r : Tbl), (∀ t ∈ ts, Rect t) → concatT ts = .ok r →
    Rect r ∧ r.nrows = (ts.map (·.nrows)).sum := by
  intro ts r hrect hr
  unfold concatT at hr
  cases ts with
  | nil => cases hr
  | cons t0 rest =>
    simp only at hr
    split at hr
    · next hname =>
      split at hr
      · cases hr
      · next data hm =>
        simp only [Except.ok.injEq] at hr
        subst hr
        refine rect_mk _ _ _ _ _ _ _ _ hname ?_
        intro c hc
        -- the pair the mapM produced for c
        obtain ⟨cols, hcols, hl⟩ := mapM_flatten_lookup (fun c => (t0 :: rest).mapM (fun (t : Tbl) => t.col c)) _ data hm c hc
        refine ⟨cols.flatten, hl, ?_⟩
        -- each table lists c and holds it with its own length
        have hcin : ∀ t ∈ t0 :: rest, c ∈ t.colNames := by
          intro t ht
          have hf := List.mem_filter.mp hc
          rcases List.mem_cons.mp ht with rfl | ht
          · exact hf.1
          · have := List.all_eq_true.mp hf.2 t ht
            simpa using this
        have hlen : ∀ (l : List Tbl) (cs : List (List Cell)), (∀ t ∈ l, Rect t ∧ c ∈ t.colNames) →
            l.mapM (fun (t : Tbl) => t.col c) = some cs → cs.flatten.length = (l.map (·.nrows)).sum := by
          intro l
          induction l with
          | nil => intro cs _ h; simp only [List.mapM_nil, Option.pure_def, Option.some.injEq] at h; subst h; rfl
          | cons t l ih =>
            intro cs hall h
            simp only [List.mapM_cons, Option.bind_eq_bind] at h
            cases ht : t.col c with
            | none => simp [ht] at h
            | some v =>
              simp only [ht, Option.bind_some] at h
              cases hl' : l.mapM (fun (t : Tbl) => t.col c) with
              | none => simp [hl'] at h
              | some cs' =>
                simp only [hl', Option.bind_some, Option.pure_def, Option.some.injEq] at h
                subst h
                obtain ⟨hr, hcc⟩ := hall t (List.mem_cons_self ..)
                have := nrows_eq t hr c hcc v ht
                simp only [List.flatten_cons, List.length_append, List.map_cons, List.sum_cons, this]
                rw [ih cs' (fun u hu => hall u (List.mem_cons_of_mem _ hu)) hl']
        exact hlen (t0 :: rest) cols (fun t ht => ⟨hrect t ht, hcin t ht⟩) hcols
    · cases hr

end TableM
