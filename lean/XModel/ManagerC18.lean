import XModel.ManagerC01
/-!
# C18 on the executable manager: a failed update is recoverable

If an assignment fails in the middle (an injected fault at any container write, an evaluation error, a failing
write), the definitions and indices are those of the completed definitional part (C18, `ManagerFrame`), every
definition *outside* the triggered list still holds, and repeating the assignment — any legal schedule — when it
completes leaves every definition holding again.
-/
namespace Manager
open Store Push Index

/-! ### what a run can touch, faults included -/

theorem writeRef_store (s : MState) (p : Path) (v : Val) :
    (writeRef s p v).1.store = s.store ∨ set s.store p v = .ok (writeRef s p v).1.store := by
  unfold writeRef
  cases hs : set s.store p v with
  | error e => left; rfl
  | ok σ' =>
    simp only
    cases hf : s.faultIn with
    | none => right; rfl
    | some k =>
      cases k with
      | zero => left; rfl
      | succ k => right; rfl

theorem writeRef_frame (s : MState) (p q : Path) (v : Val) (hi : Incomparable p q) (hp : canonPath p)
    (hq : canonPath q) : get (writeRef s p v).1.store q = get s.store q := by
  rcases writeRef_store s p v with h | h
  · rw [h]
  · exact get_set_incomparable h hi hp hq

theorem runTask_frame (s : MState) (t : MTask) (e : Expr) (hk : t.kind = .expr e) (q : Path)
    (hi : Incomparable t.id q) (hp : canonPath t.id) (hq : canonPath q) :
    get (runTask s t).1.store q = get s.store q := by
  simp only [runTask, hk]
  split
  · rfl
  · exact writeRef_frame s t.id q _ hi hp hq

/-- a run of expression tasks — completed or not, with or without injected faults — leaves every location
    that is prefix-incomparable with all their targets as it was -/
theorem runTasks_frame : ∀ (l : List MTask) (s : MState) (q : Path), canonPath q →
    (∀ t ∈ l, (∃ e, t.kind = .expr e) ∧ canonPath t.id ∧ Incomparable t.id q) →
    get (runTasks s l).1.store q = get s.store q
  | [], _, _, _, _ => rfl
  | t :: l, s, q, hq, h => by
    obtain ⟨⟨e, hk⟩, hc, hi⟩ := h t (List.mem_cons_self ..)
    have h1 := runTask_frame s t e hk q hi hc hq
    simp only [runTasks]
    generalize runTask s t = r at h1
    obtain ⟨s1, x⟩ := r
    cases x with
    | some x => exact h1
    | none =>
      simp only at h1 ⊢
      rw [runTasks_frame l s1 q hq (fun u hu => h u (List.mem_cons_of_mem _ hu)), h1]

/-- a definition none of whose reads, nor its target, can be touched keeps holding -/
theorem Q_of_frame (u : ETask) (σ σ' : Val) (hq : (exprSys pySem).Q u σ)
    (hreads : ∀ r ∈ leafRefs u.expr, get σ' r = get σ r) (htar : get σ' u.target = get σ u.target) :
    (exprSys pySem).Q u σ' := by
  obtain ⟨w, hev, hget⟩ := hq
  exact ⟨w, by rw [← hev]; exact eval_frame pySem _ _ _ hreads, by rw [htar]; exact hget⟩

/-! ### the state after a failed `write + run_tasks` -/

/-- After `write + run_tasks` in scope — whatever happens: completion, a fault at any write, an evaluation
    error — every definition outside the triggered list still holds, and the graph is untouched. -/
theorem writeAndRun_outside (sched : Sched) (s : MState) (p : Path) (v : Val) (hi : MInv s)
    (sc : Scope { s with faultIn := none } p)
    (hvs : ValidSched (gOf s.idx) (findTaskids s.idx (chainR p)) (sched (findTaskids s.idx (chainR p))))
    (hbefore : ∀ t ∈ s.defs, t.id ≠ p → (exprSys pySem).Q (toE t) s.store) :
    ∀ t ∈ s.defs, t.id ≠ p → t.id ∉ sched (findTaskids s.idx (chainR p)) →
      (exprSys pySem).Q (toE t) (writeAndRun sched s p v).1.store := by
  intro u hu hup hnot
  have hi' : MInv { s with faultIn := none } := MInv_of_sameGraph (s := s) ⟨rfl, rfl, rfl⟩ hi
  obtain ⟨_, hmem⟩ := findTaskids_once_exact s hi (chainR p)
  have memπ : ∀ x, x ∈ sched (findTaskids s.idx (chainR p)) ↔
      ∃ s0 ∈ startOf s.idx (chainR p), Dfs3.Reach (gOf s.idx) s0 x := fun x => (hvs.mem x).trans (hmem x)
  obtain ⟨hpu, hpr⟩ := sc.paths u hu
  -- the user's write cannot touch u
  have hreads_p : ∀ r ∈ leafRefs (toE u).expr, Incomparable p r := by
    intro r hr
    refine Classical.byContradiction fun hc => hnot ?_
    have := start_of_read { s with faultIn := none } hi' sc.exprs p u hu sc.pathP.1 r hr (hpr r hr).1 hc
    exact (memπ u.id).mpr ⟨u.id, this, Dfs3.Reach.refl _⟩
  -- nor can any triggered task
  have hreads_t : ∀ t ∈ s.defs, t.id ∈ sched (findTaskids s.idx (chainR p)) →
      ∀ r ∈ leafRefs (toE u).expr, Incomparable t.id r := by
    intro t ht htπ r hr
    refine Classical.byContradiction fun hc => hnot ?_
    have he := edge_of_read { s with faultIn := none } hi' sc.exprs t u ht hu (sc.paths t ht).1.1 r hr (hpr r hr).1 hc
    obtain ⟨s0, hs0, hreach⟩ := (memπ t.id).mp htπ
    exact (memπ u.id).mpr ⟨s0, hs0, hreach.tail he⟩
  unfold writeAndRun
  -- the write
  have hw_reads : ∀ r ∈ leafRefs (toE u).expr, get (writeRef s p v).1.store r = get s.store r :=
    fun r hr => writeRef_frame s p r v (hreads_p r hr) sc.pathP.2 (hpr r hr).2
  have hw_tar : get (writeRef s p v).1.store u.id = get s.store u.id :=
    writeRef_frame s p u.id v (sc.h2p u hu hup) sc.pathP.2 hpu.2
  have hQw : (exprSys pySem).Q (toE u) (writeRef s p v).1.store :=
    Q_of_frame (toE u) s.store _ (hbefore u hu hup) hw_reads hw_tar
  have hgw := writeRef_graph s p v
  generalize writeRef s p v = r at hQw hgw
  obtain ⟨sw, x⟩ := r
  cases x with
  | some x => exact hQw
  | none =>
    simp only at hQw hgw ⊢
    obtain ⟨hiw, hdw, _⟩ := hgw
    rw [hiw, hdw]
    generalize hm : List.mapM (lookTask s.defs) (sched (findTaskids s.idx (chainR p))) = res
    cases res with
    | error e => exact hQw
    | ok l =>
      simp only
      obtain ⟨hlmap, hlsub⟩ := mapM_lookDef s.defs _ (lookTask_ok s.defs) _ l hm
      have hlπ : ∀ t ∈ l, t.id ∈ sched (findTaskids s.idx (chainR p)) := fun t ht => by
        rw [← hlmap]; exact List.mem_map_of_mem ht
      have frame : ∀ q, canonPath q → (∀ t ∈ l, Incomparable t.id q) →
          get (runTasks sw l).1.store q = get sw.store q := by
        intro q hq hinc
        refine runTasks_frame l sw q hq (fun t ht => ⟨?_, (sc.paths t (hlsub t ht)).1.2, hinc t ht⟩)
        obtain ⟨e, he, _⟩ := sc.exprs t (hlsub t ht)
        exact ⟨e, he⟩
      refine Q_of_frame (toE u) sw.store _ hQw ?_ ?_
      · intro r hr
        exact frame r (hpr r hr).2 (fun t ht => hreads_t t (hlsub t ht) (hlπ t ht) r hr)
      · refine frame u.id hpu.2 (fun t ht => ?_)
        have hne : u.id ≠ t.id := fun e => hnot (e ▸ hlπ t ht)
        exact sc.h2 u hu t (hlsub t ht) hne

/-- `Scope` only looks at the definitions, the indices and the fault flag -/
theorem Scope_congr {s s' : MState} {p : Path} (h : Scope s p) (hd : s'.defs = s.defs) (hi : s'.idx = s.idx)
    (hf : s'.faultIn = none) : Scope s' p :=
  { exprs := by rw [ExprDefs, hd]; exact h.exprs
    pathP := h.pathP
    paths := by rw [hd]; exact h.paths
    acyclic := by rw [hi]; exact h.acyclic
    h2 := by rw [hd]; exact h.h2
    h2p := by rw [hd]; exact h.h2p
    h3 := by rw [hd]; exact h.h3
    nofault := hf }

/-- **C18, recovery of `write + run_tasks`.**  Whatever the first attempt did (fault at the k-th write, or none),
    a completed second attempt without fault leaves every definition holding. -/
theorem writeAndRun_recover (sched : Sched) (s : MState) (p : Path) (v : Val) (k : Option Nat) (hi : MInv s)
    (sc : Scope s p)
    (hvs : ValidSched (gOf s.idx) (findTaskids s.idx (chainR p)) (sched (findTaskids s.idx (chainR p))))
    (hnodef : lookDef s.defs p = none)
    (hbefore : ∀ t ∈ s.defs, (exprSys pySem).Q (toE t) s.store)
    (s' : MState)
    (hok : writeAndRun sched { (writeAndRun sched { s with faultIn := k } p v).1 with faultIn := none } p v = (s', none)) :
    Consistent s' := by
  -- the state after the first attempt
  have hi1 : MInv { s with faultIn := k } := MInv_of_sameGraph (s := s) ⟨rfl, rfl, rfl⟩ hi
  have hnop : ∀ t ∈ s.defs, t.id ≠ p := by
    intro t ht e
    have := lookDef_of_mem s.defs hi.ids t ht
    rw [e, hnodef] at this
    cases this
  have hout := writeAndRun_outside sched { s with faultIn := k } p v hi1
    (Scope_congr sc rfl rfl rfl) hvs (fun t ht _ => hbefore t ht)
  have hg := writeAndRun_graph sched { s with faultIn := k } p v
  generalize (writeAndRun sched { s with faultIn := k } p v).1 = sf at hout hg hok
  obtain ⟨hgi, hgd, hgf⟩ := hg
  have hgi' : sf.idx = s.idx := hgi
  have hgd' : sf.defs = s.defs := hgd
  have hgf' : sf.frozen = s.frozen := hgf
  have hi2 : MInv { sf with faultIn := none } :=
    MInv_of_sameGraph (s := s) ⟨hgi', hgd', hgf'⟩ hi
  have sc2 : Scope { sf with faultIn := none } p := Scope_congr sc hgd' hgi' rfl
  have hvs2 : ValidSched (gOf sf.idx) (findTaskids sf.idx (chainR p)) (sched (findTaskids sf.idx (chainR p))) := by
    rw [hgi']; exact hvs
  refine (writeAndRun_consistent sched { sf with faultIn := none } p v hi2 sc2 hvs2 ?_ ?_ s' hok).1
  · intro t ht hne hnot
    have ht' : t ∈ s.defs := by rw [← hgd']; exact ht
    exact hout t ht' hne (by rw [← hgi']; exact hnot)
  · intro t ht he
    have ht' : t ∈ s.defs := by rw [← hgd']; exact ht
    exact absurd he (hnop t ht')

theorem unregister_fault (s : MState) (id : Path) (k : Option Nat) :
    unregister { s with faultIn := k } id = ({ (unregister s id).1 with faultIn := k }, (unregister s id).2) := by
  unfold unregister
  simp only
  split
  · rfl
  · split <;> rfl

theorem setValue_fault_unfold (sched : Sched) (s : MState) (p : Path) (v : Val) (k : Option Nat)
    (hfz : lookDef s.defs p ≠ none → s.frozen = false) :
    setValue sched { s with faultIn := k } p v = writeAndRun sched { preState s p with faultIn := k } p v := by
  unfold setValue preState
  cases hl : lookDef s.defs p with
  | none => simp only [hl]
  | some t =>
    have hf := hfz (by simp [hl])
    simp only [hl]
    rw [unregister_fault]
    obtain ⟨hnone, _⟩ := unregister_present_eq s p t hf hl
    generalize unregister s p = r at hnone
    obtain ⟨s0, x0⟩ := r
    simp only at hnone
    subst hnone
    rfl

/-- **C18, recovery of `set_value(ref, value)` on the executable manager**: after a first attempt that may have
    failed at any point (fault at the k-th container write; `k = none`: no fault), repeating the assignment —
    when it completes — leaves every expression-defined location equal to its definition again. -/
theorem setValue_recover (sched : Sched) (s : MState) (p : Path) (v : Val) (k : Option Nat) (hi : MInv s)
    (hc : Consistent s) (hfz : lookDef s.defs p ≠ none → s.frozen = false)
    (sc : Scope (preState s p) p)
    (hvs : ValidSched (gOf (preState s p).idx) (findTaskids (preState s p).idx (chainR p))
      (sched (findTaskids (preState s p).idx (chainR p))))
    (s' : MState)
    (hok : setValue sched { (setValue sched { s with faultIn := k } p v).1 with faultIn := none } p v = (s', none)) :
    Consistent s' := by
  obtain ⟨hi0, hst, _, _, hfree, hsub⟩ := preState_facts s p hi hfz
  rw [setValue_fault_unfold sched s p v k hfz] at hok
  -- the second call finds no definition at `p`: it is `write + run_tasks` directly
  have hg := writeAndRun_graph sched { preState s p with faultIn := k } p v
  have hd : (writeAndRun sched { preState s p with faultIn := k } p v).1.defs = (preState s p).defs := hg.2.1
  have h2 : ∀ sf : MState, sf.defs = (preState s p).defs →
      setValue sched { sf with faultIn := none } p v = writeAndRun sched { sf with faultIn := none } p v := by
    intro sf hsf
    unfold setValue
    have : lookDef ({ sf with faultIn := none } : MState).defs p = none := by
      show lookDef sf.defs p = none
      rw [hsf]; exact hfree
    simp only [this]
  rw [h2 _ hd] at hok
  exact writeAndRun_recover sched (preState s p) p v k hi0 sc hvs hfree
    (fun t ht => by rw [hst]; exact hc t (hsub t ht).1) s' hok

end Manager
