import XModel.ManagerC03b
/-!
# C11, second sentence: a dump loaded into a fresh manager reacts identically

`dump()` lists the expression tasks in table order; `load` registers them one by one.  Loaded into a fresh manager
(empty task table, empty indices) over the same containers, the result has the *same task table* — only the four
indices are rebuilt, possibly in another insertion order.  By `reindex_same_behaviour` (the general form of C03's
`refresh_same_behaviour`, a consequence of the order independence C20) every later assignment to a plain location
has the same outcome on both managers, whatever legal schedules the two use.

The textual half of `load` (printing and re-parsing each pair) is `Parse.parse_print`; here the pairs are already
structure.
-/
namespace Manager
open Store Push Index

/-! ### registering an expression under a fresh id touches the task table and the indices only -/

theorem register_expr_fresh (s : MState) (p : Path) (e : Expr) (hi : MInv s) (hf : s.frozen = false)
    (hfresh : lookDef s.defs p = none) :
    register s (mkExprTask p e) =
      ({ s with defs := s.defs ++ [mkExprTask p e], idx := register' s.idx (mkExprTask p e).toIdx }, none) := by
  have hid : (mkExprTask p e).id = p := rfl
  have hlook : look s.idx.tasks p = none := by
    rw [hi.link, look_map_toIdx, hfresh]; rfl
  have hfilt := filter_fresh s.idx.tasks p hlook
  have hidx : ({ s.idx with tasks := s.idx.tasks.filter (fun x => !decide (x.id = p)) } : Mgr Path Path) = s.idx := by
    cases hm : s.idx; simp only [hm] at hfilt ⊢; simp [hfilt]
  unfold register
  simp only [hf, Bool.false_eq_true, if_false, hid, hfresh, hidx]
  rfl

theorem lookDef_append_none (defs : List MTask) (t : MTask) (q : Path) (h : lookDef defs q = none) (hne : t.id ≠ q) :
    lookDef (defs ++ [t]) q = none := by
  unfold lookDef at *
  rw [List.find?_append, h]
  simp [List.find?, hne]

/-- loading pairs with distinct, so far undefined targets: every pair is registered, in order -/
theorem load_fresh (ow : Bool) : ∀ (pairs : List (Path × Expr)) (s : MState), MInv s → s.frozen = false →
    (pairs.map (·.1)).Nodup → (∀ pe ∈ pairs, lookDef s.defs pe.1 = none) →
    ∃ m, load s ow pairs = ({ s with defs := s.defs ++ pairs.map (fun pe => mkExprTask pe.1 pe.2), idx := m }, none)
  | [], s, _, _, _, _ => ⟨s.idx, by simp [load]⟩
  | (p, e) :: rest, s, hi, hf, hnd, hnone => by
    have hp : lookDef s.defs p = none := hnone (p, e) (List.mem_cons_self ..)
    have hreg := register_expr_fresh s p e hi hf hp
    simp only [load, hp, hreg]
    have hnd' : p ∉ rest.map (·.1) ∧ (rest.map (·.1)).Nodup := by
      simpa [List.nodup_cons] using hnd
    -- the state after the registration
    have hi2 : MInv (register s (mkExprTask p e)).1 :=
      register_MInv s (mkExprTask p e) hi hf (by simpa [mkExprTask] using hp)
        (mkExprTask_nodup p e).1 (mkExprTask_nodup p e).2
    rw [hreg] at hi2
    obtain ⟨m, hm⟩ := load_fresh ow rest _ hi2 hf hnd'.2 (by
      intro pe hpe
      refine lookDef_append_none s.defs _ pe.1 (hnone pe (List.mem_cons_of_mem _ hpe)) ?_
      intro h
      exact hnd'.1 (by rw [show (mkExprTask p e).id = p from rfl] at h; rw [h]; exact List.mem_map_of_mem hpe))
    refine ⟨m, ?_⟩
    rw [hm]
    simp [List.append_assoc]

/-! ### what `dump()` lists is the task table -/

theorem dump_tasks : ∀ (defs : List MTask) (s : MState), s.defs = defs → ExprDefs defs →
    (dump s).map (fun pe => mkExprTask pe.1 pe.2) = defs
  | [], s, h, _ => by unfold dump; rw [h]; rfl
  | t :: rest, s, h, hex => by
    obtain ⟨e, hk, hd, ht⟩ := hex t (List.mem_cons_self ..)
    have ih := dump_tasks rest { s with defs := rest } rfl (fun u hu => hex u (List.mem_cons_of_mem _ hu))
    unfold dump at ih ⊢
    simp only at ih
    rw [h, List.filterMap_cons]
    simp only [hk, List.map_cons, ih]
    congr 1
    cases t with
    | mk id kind deps tars =>
      simp only at hk hd ht
      simp only [mkExprTask, hk, hd, ht]

theorem dump_ids : ∀ (defs : List MTask) (s : MState), s.defs = defs → ExprDefs defs →
    (dump s).map (·.1) = defs.map (·.id)
  | [], s, h, _ => by unfold dump; rw [h]; rfl
  | t :: rest, s, h, hex => by
    obtain ⟨e, hk, _, _⟩ := hex t (List.mem_cons_self ..)
    have ih := dump_ids rest { s with defs := rest } rfl (fun u hu => hex u (List.mem_cons_of_mem _ hu))
    unfold dump at ih ⊢
    simp only at ih
    rw [h, List.filterMap_cons]
    simp only [hk, List.map_cons, ih]

/-- the fresh manager over the same containers -/
def freshOver (s : MState) : MState := { s with defs := [], idx := Mgr.empty }

theorem freshOver_MInv (s : MState) : MInv (freshOver s) :=
  ⟨inv_empty, rfl, by simp [freshOver], by simp [freshOver, Mgr.empty, DD.rows], by simp [freshOver, Mgr.empty, DD.rows],
   by simp [freshOver, Mgr.empty, DD.rows], by simp [freshOver, Mgr.empty, DD.rows]⟩

/-- **load(dump()) into a fresh manager rebuilds the task table**: the result is the original state with other
    (re-derived) indices, and it satisfies the index invariant -/
theorem load_dump_fresh (s : MState) (ow : Bool) (hi : MInv s) (hfz : s.frozen = false) (hex : ExprDefs s.defs) :
    ∃ m, load (freshOver s) ow (dump s) = ({ s with idx := m }, none) ∧ MInv { s with idx := m } := by
  have hnd : ((dump s).map (·.1)).Nodup := by
    rw [dump_ids s.defs s rfl hex]; exact hi.ids
  obtain ⟨m, hm⟩ := load_fresh ow (dump s) (freshOver s) (freshOver_MInv s) hfz hnd (by intro pe _; rfl)
  have hdefs : (freshOver s).defs ++ (dump s).map (fun pe => mkExprTask pe.1 pe.2) = s.defs := by
    rw [dump_tasks s.defs s rfl hex]; rfl
  rw [hdefs] at hm
  have hst : ({ freshOver s with defs := s.defs, idx := m } : MState) = { s with idx := m } := rfl
  rw [hst] at hm
  refine ⟨m, hm, ?_⟩
  have := load_MInv ow (dump s) (freshOver s) (freshOver_MInv s)
  rw [hm] at this
  exact this

/-! ### two managers with the same task table over the same containers react identically -/

/-- the general form of `refresh_same_behaviour`: replace the indices by *any* index state that satisfies the
    invariant for the same task table; an assignment to a plain location has the same outcome under any legal
    schedules on either side -/
theorem reindex_same_behaviour (sched1 sched2 : Sched) (s : MState) (m : Mgr Path Path) (p : Path) (v : Val)
    (hi : MInv s) (hi' : MInv { s with idx := m })
    (hc : Consistent s) (hnodef : lookDef s.defs p = none) (sc : Scope s p)
    (hvs1 : ValidSched (gOf s.idx) (findTaskids s.idx (chainR p)) (sched1 (findTaskids s.idx (chainR p))))
    (hvs2 : ValidSched (gOf m) (findTaskids m (chainR p)) (sched2 (findTaskids m (chainR p))))
    (s1 : MState) (hok : setValue sched1 s p v = (s1, none)) :
    ∃ s2, setValue sched2 { s with idx := m } p v = (s2, none) ∧ s2.store = s1.store ∧ s2.defs = s1.defs := by
  have hex : ∀ t ∈ s.defs, ∃ e, t.kind = .expr e := fun t ht => by
    obtain ⟨e, he, _⟩ := sc.exprs t ht; exact ⟨e, he⟩
  have hvs2' := validSched_transfer s { s with idx := m } hi hi' rfl (chainR p) _ hvs2
  have hpre : preState s p = s := by unfold preState; rw [hnodef]
  obtain ⟨s2', h2', e1, e2, _, _, _, _⟩ := setValue_sched_indep sched1
    (fun _ => sched2 (findTaskids m (chainR p))) s p v hi hc (by rw [hpre]; exact sc)
    (by rw [hpre]; exact hvs1) (by rw [hpre]; exact hvs2') s1 hok
  have hsv : ∀ (sch : Sched) (st : MState), lookDef st.defs p = none → setValue sch st p v = writeAndRun sch st p v := by
    intro sch st h
    unfold setValue
    simp only [h]
  rw [hsv _ s hnodef, writeAndRun_eq_runList] at h2'
  rw [hsv _ { s with idx := m } hnodef, writeAndRun_eq_runList]
  rw [runList_idx s _ p v _ hex]
  simp only at h2' ⊢
  rw [h2']
  exact ⟨_, rfl, e1, e2⟩

/-- **C11 on the manager model**: load the dump of `s` into a fresh manager over the same containers; the new
    manager has the same definitions, and every assignment to a plain location in C01's scope ends with the same
    container contents and definitions on both, whatever legal schedules the two managers use -/
theorem load_dump_reacts_identically (s : MState) (ow : Bool) (hi : MInv s) (hfz : s.frozen = false)
    (hex : ExprDefs s.defs) (hc : Consistent s) :
    ∃ s', load (freshOver s) ow (dump s) = (s', none) ∧ s'.defs = s.defs ∧ s'.store = s.store ∧ MInv s' ∧
      ∀ (sched1 sched2 : Sched) (p : Path) (v : Val), lookDef s.defs p = none → Scope s p →
        ValidSched (gOf s.idx) (findTaskids s.idx (chainR p)) (sched1 (findTaskids s.idx (chainR p))) →
        ValidSched (gOf s'.idx) (findTaskids s'.idx (chainR p)) (sched2 (findTaskids s'.idx (chainR p))) →
        ∀ s1, setValue sched1 s p v = (s1, none) →
          ∃ s2, setValue sched2 s' p v = (s2, none) ∧ s2.store = s1.store ∧ s2.defs = s1.defs := by
  obtain ⟨m, hm, hi'⟩ := load_dump_fresh s ow hi hfz hex
  refine ⟨_, hm, rfl, rfl, hi', ?_⟩
  intro sched1 sched2 p v hnodef sc hvs1 hvs2 s1 hok
  exact reindex_same_behaviour sched1 sched2 s m p v hi hi' hc hnodef sc hvs1 hvs2 s1 hok

end Manager
