import XModel.ManagerTrace
/-!
# C02 on the execution, ALL task kinds (expression, function, linear knob), and cyclic graphs

`ManagerTrace.C02_execution` is stated for managers whose tasks are all expression tasks and for an assigned
location without a definition.  Here the all-kinds trace lemma (`setValue_trace` / `setValue_trace_defined`) is
composed with the list-level facts about `find_taskids`:

* `setValue_execution_all_kinds` — completed `set_value(ref, value)`, ANY manager state reachable through the API,
  any legal schedule: what the call appended to the trace is the write of the assigned location followed by one BLOCK
  of events per element of a list `π` (`BlockOf`: expression task → the write of its target; function task → ONE
  action-call event; linear knob → one write per (weight, target) pair, in order); `π` has no duplicates (each task
  once); its elements are exactly the tasks reachable along DECLARED edges from a task that declares a dependency on
  the assigned location or an enclosing container; a consumer never runs before a triggered producer.
  The task table / graph are those of `preState s p`: the state after `set_value` has removed a definition AT the
  assigned location, if there was one (`preState_defs_of_ok`: the table minus that task; `preState s p = s` when the
  location has no definition — corollary `setValue_execution_all_kinds_plain`).
* `setValue_execution_once_exact` — the same WITHOUT any acyclicity / order hypothesis on the schedule: for a
  scheduler that returns the triggered tasks once each in some order (`OnceExact`), the trace is the assigned write
  followed by one block per triggered task, each task once, exactly the reachable ones.  The model's own `find_taskids`
  (`sched = id`) and the depth-first sort run on ANY iteration order of the sets are such schedulers on EVERY graph,
  cyclic ones included (`findTaskids_onceExact`, `toposort_any_order_once_exact`): `setValue_execution_cyclic`,
  `setValue_execution_cyclic_any_order`.  Termination: the model's functions are total and the fuel of the depth-first
  sort is never exhausted (that is what exactness says: nothing reachable is missing).
* `action_events_once` — the action of a function task is called at most once per assignment: its event occurs in the
  appended part exactly once if the task is triggered, not at all otherwise.
-/
namespace Manager
open Store Push Index

/-! ### blocks -/

/-- the block of trace events contributed by the task registered under `x`: the task is in the table under that id
    and, by kind, the block is the write of its target / one action-call event / the writes of the knob's targets -/
structure BlockOf (defs : List MTask) (x : Path) (t : MTask) : Prop where
  mem : t ∈ defs
  id : t.id = x
  look : lookDef defs x = some t
  evs : evsAt defs x = evsOf t
  expr : ∀ e, t.kind = .expr e → evsAt defs x = [(true, x)]
  func : ∀ body, t.kind = .func body → evsAt defs x = [(false, x)]
  knob : ∀ src ws tars, t.kind = .knob src ws tars →
    evsAt defs x = (ws.zip tars).map (fun wt => ((true, wt.2) : Bool × Path))

theorem blockOf_of_lookDef {defs : List MTask} {x : Path} {t : MTask} (h : lookDef defs x = some t) :
    BlockOf defs x t where
  mem := lookDef_mem h
  id := lookDef_id h
  look := h
  evs := evsAt_of_lookDef h
  expr := fun e hk => by rw [evsAt_of_lookDef h, evsOf_expr hk, lookDef_id h]
  func := fun body hk => by rw [evsAt_of_lookDef h, evsOf_func hk, lookDef_id h]
  knob := fun src ws tars hk => by rw [evsAt_of_lookDef h, evsOf_knob hk]

/-- a scheduler output that lists the triggered tasks once each, in some order (no order condition) -/
structure OnceExact (L π : List Path) : Prop where
  nodup : π.Nodup
  mem : ∀ x, x ∈ π ↔ x ∈ L

theorem ValidSched.onceExact {g : Path → List Path} {L π : List Path} (h : ValidSched g L π) : OnceExact L π :=
  ⟨h.nodup, h.mem⟩

/-- the model's own list, on every graph -/
theorem findTaskids_onceExact (s : MState) (hi : MInv s) (D : List Path) :
    OnceExact (findTaskids s.idx D) (findTaskids s.idx D) :=
  ⟨(findTaskids_once_exact s hi D).1, fun _ => Iff.rfl⟩

/-- **every iteration order, every graph (cyclic ones included)**: the depth-first sort run on ANY start list with the
    same elements as the model's start set and ANY adjacency function with the same neighbour sets lists each task
    reachable from the start set once, and nothing else -/
theorem toposort_any_order_once_exact (s : MState) (hi : MInv s) (D : List Path)
    (g' : Path → List Path) (start' : List Path) (fuel : Nat)
    (hg : ∀ u w, w ∈ g' u ↔ w ∈ gOf s.idx u)
    (hst : ∀ k, k ∈ start' ↔ k ∈ startOf s.idx D)
    (hfuel : fuel ≥ s.defs.length) :
    OnceExact (findTaskids s.idx D) (Dfs3.toposort g' fuel start') := by
  have hfuel' : fuel ≥ (s.defs.map (·.id)).length := by
    simp only [List.length_map]
    exact hfuel
  have hstart : ∀ k ∈ start', k ∈ s.defs.map (·.id) := fun k hk => startOf_sub s hi D k ((hst k).mp hk)
  have hclosed : ∀ u ∈ s.defs.map (·.id), ∀ w ∈ g' u, w ∈ s.defs.map (·.id) :=
    fun u _ w hw => gOf_closed s hi u w ((hg u w).mp hw)
  have to : ∀ {a b}, Dfs3.Reach g' a b → Dfs3.Reach (gOf s.idx) a b := fun r => reach_congr _ _ hg r
  have from_ : ∀ {a b}, Dfs3.Reach (gOf s.idx) a b → Dfs3.Reach g' a b :=
    fun r => reach_congr _ _ (fun u w => (hg u w).symm) r
  obtain ⟨_, hm⟩ := findTaskids_once_exact s hi D
  have hmem' := Dfs3.toposort_mem_iff' g' _ start' fuel hfuel' hstart hclosed
  refine ⟨Dfs3.toposort_nodup' g' _ start' fuel hfuel' hstart hclosed, ?_⟩
  intro x
  rw [hmem' x, hm x]
  constructor
  · rintro ⟨s0, hs0, r⟩
    exact ⟨s0, (hst s0).mp hs0, to r⟩
  · rintro ⟨s0, hs0, r⟩
    exact ⟨s0, (hst s0).mpr hs0, from_ r⟩

theorem toposort_perm_once_exact (s : MState) (hi : MInv s) (D : List Path)
    (g' : Path → List Path) (start' : List Path)
    (hg : ∀ u w, w ∈ g' u ↔ w ∈ gOf s.idx u)
    (hperm : start'.Perm (startOf s.idx D)) :
    OnceExact (findTaskids s.idx D) (Dfs3.toposort g' (fuelOf s.idx) start') :=
  toposort_any_order_once_exact s hi D g' start' (fuelOf s.idx) hg (fun _ => hperm.mem_iff)
    (by have := fuelOf_ge s hi; simpa using this)

/-! ### the state `set_value` writes in -/

/-- a completed `set_value` on a location with a definition was made on an unfrozen manager -/
theorem setValue_ok_unfrozen (sched : Sched) (s : MState) (p : Path) (v : Val) (s' : MState)
    (hok : setValue sched s p v = (s', none)) : lookDef s.defs p ≠ none → s.frozen = false := by
  intro hne
  cases hl : lookDef s.defs p with
  | none => exact absurd hl hne
  | some t =>
    cases hfz : s.frozen with
    | false => rfl
    | true =>
      rw [setValue_frozen_defined sched s p v t hfz hl] at hok
      cases hok

theorem filter_id_ne_self : ∀ (defs : List MTask) (p : Path), (∀ t ∈ defs, t.id ≠ p) →
    defs.filter (fun x => !decide (x.id = p)) = defs
  | [], _, _ => rfl
  | a :: defs, p, h => by
    have ha : a.id ≠ p := h a (List.mem_cons_self ..)
    simp only [List.filter_cons, ha, decide_false, Bool.not_false, if_true]
    rw [filter_id_ne_self defs p (fun t ht => h t (List.mem_cons_of_mem _ ht))]

/-- the task table `set_value` runs on: the table of the call state without the definition AT the assigned location -/
theorem preState_defs_of_ok (sched : Sched) (s : MState) (hi : MInv s) (p : Path) (v : Val) (s' : MState)
    (hok : setValue sched s p v = (s', none)) :
    (preState s p).defs = s.defs.filter (fun x => !decide (x.id = p)) := by
  have hf := setValue_ok_unfrozen sched s p v s' hok
  unfold preState
  cases hl : lookDef s.defs p with
  | none =>
    simp only
    refine (filter_id_ne_self s.defs p ?_).symm
    intro t ht e
    have := lookDef_of_mem s.defs hi.ids t ht
    rw [e, hl] at this
    cases this
  | some t0 =>
    simp only
    exact (unregister_present_eq s p t0 (hf (by simp [hl])) hl).2.1

theorem preState_of_nodef (s : MState) (p : Path) (hnodef : lookDef s.defs p = none) : preState s p = s := by
  unfold preState
  rw [hnodef]

/-! ### the execution theorems -/

/-- **C02 on the execution, all task kinds, every graph** (no acyclicity, no order condition on the scheduler): a
    completed `set_value(ref, value)` appended to the trace exactly the write of the assigned location followed by one
    block per element of `π`, in order; `π` lists each triggered task once; its elements are registered tasks with the
    block of their kind; and they are exactly the tasks at the end of a chain of declared edges from a task that
    declares a dependency on the assigned location or a container enclosing it (equivalently: reachable in the graph
    the code reads from its indices). -/
theorem setValue_execution_once_exact (sched : Sched) (s : MState) (hi : MInv s) (p : Path) (v : Val)
    (hoe : OnceExact (findTaskids (preState s p).idx (chainR p)) (sched (findTaskids (preState s p).idx (chainR p))))
    (s' : MState) (hok : setValue sched s p v = (s', none)) :
    ∃ π : List Path,
      s'.trace = s.trace ++ (true, p) :: π.flatMap (evsAt (preState s p).defs) ∧
      π.Nodup ∧
      (∀ x ∈ π, ∃ t, BlockOf (preState s p).defs x t) ∧
      (∀ x, x ∈ π ↔ ∃ t ∈ (preState s p).defs, (∃ d ∈ t.deps, 2 ≤ d.length ∧ d <+: p) ∧
        DeclChain (preState s p).defs t.id x) ∧
      (∀ x, x ∈ π ↔ ∃ s0 ∈ startOf (preState s p).idx (chainR p), Dfs3.Reach (gOf (preState s p).idx) s0 x) := by
  obtain ⟨hi0, _⟩ := preState_facts s p hi (setValue_ok_unfrozen sched s p v s' hok)
  have hw := setValue_eq sched s p v s' hok
  obtain ⟨l, hm⟩ := writeAndRun_ok_lookup sched (preState s p) p v s' hw
  refine ⟨sched (findTaskids (preState s p).idx (chainR p)), setValue_trace_defined sched s p v s' hok, hoe.nodup,
    ?_, ?_, ?_⟩
  · intro x hx
    obtain ⟨t, ht⟩ := mapM_lookTask_all (preState s p).defs _ l hm x hx
    exact ⟨t, blockOf_of_lookDef ht⟩
  · intro x
    rw [hoe.mem x]
    exact findTaskids_assign_iff (preState s p) hi0 p x
  · intro x
    rw [hoe.mem x]
    exact (findTaskids_once_exact (preState s p) hi0 (chainR p)).2 x

/-- **C02 on the execution, all task kinds, legal schedule**: as above, and a task never runs before a triggered task
    that produces one of its inputs (`declEdge u w`: a declared target of `u` is a declared dependency of `w`). -/
theorem setValue_execution_all_kinds (sched : Sched) (s : MState) (hi : MInv s) (p : Path) (v : Val)
    (hvs : ValidSched (gOf (preState s p).idx) (findTaskids (preState s p).idx (chainR p))
      (sched (findTaskids (preState s p).idx (chainR p))))
    (s' : MState) (hok : setValue sched s p v = (s', none)) :
    ∃ π : List Path,
      s'.trace = s.trace ++ (true, p) :: π.flatMap (evsAt (preState s p).defs) ∧
      π.Nodup ∧
      (∀ x ∈ π, ∃ t, BlockOf (preState s p).defs x t) ∧
      (∀ x, x ∈ π ↔ ∃ t ∈ (preState s p).defs, (∃ d ∈ t.deps, 2 ≤ d.length ∧ d <+: p) ∧
        DeclChain (preState s p).defs t.id x) ∧
      (∀ u w, u ∈ π → w ∈ π → declEdge (preState s p).defs u w → w ≠ u → Dfs3.Before π u w) := by
  obtain ⟨hi0, _⟩ := preState_facts s p hi (setValue_ok_unfrozen sched s p v s' hok)
  have hw := setValue_eq sched s p v s' hok
  obtain ⟨l, hm⟩ := writeAndRun_ok_lookup sched (preState s p) p v s' hw
  refine ⟨sched (findTaskids (preState s p).idx (chainR p)), setValue_trace_defined sched s p v s' hok, hvs.nodup,
    ?_, ?_, ?_⟩
  · intro x hx
    obtain ⟨t, ht⟩ := mapM_lookTask_all (preState s p).defs _ l hm x hx
    exact ⟨t, blockOf_of_lookDef ht⟩
  · intro x
    rw [hvs.mem x]
    exact findTaskids_assign_iff (preState s p) hi0 p x
  · intro u w hu hw' he hne
    exact hvs.order u w hu hw' ((gOf_iff_declEdge (preState s p) hi0 u w).mpr he) hne

/-- the location has no definition: everything in terms of the call state itself -/
theorem setValue_execution_all_kinds_plain (sched : Sched) (s : MState) (hi : MInv s) (p : Path) (v : Val)
    (hnodef : lookDef s.defs p = none)
    (hvs : ValidSched (gOf s.idx) (findTaskids s.idx (chainR p)) (sched (findTaskids s.idx (chainR p))))
    (s' : MState) (hok : setValue sched s p v = (s', none)) :
    ∃ π : List Path,
      s'.trace = s.trace ++ (true, p) :: π.flatMap (evsAt s.defs) ∧
      π.Nodup ∧
      (∀ x ∈ π, ∃ t, BlockOf s.defs x t) ∧
      (∀ x, x ∈ π ↔ ∃ t ∈ s.defs, (∃ d ∈ t.deps, 2 ≤ d.length ∧ d <+: p) ∧ DeclChain s.defs t.id x) ∧
      (∀ u w, u ∈ π → w ∈ π → declEdge s.defs u w → w ≠ u → Dfs3.Before π u w) := by
  have h := setValue_execution_all_kinds sched s hi p v (by rw [preState_of_nodef s p hnodef]; exact hvs) s' hok
  rw [preState_of_nodef s p hnodef] at h
  exact h

/-- **whatever the iteration order of the sets** (acyclic triggered subgraph): the scheduler is the depth-first sort
    run on an arbitrary permutation of the start set and arbitrary orderings of the neighbour sets -/
theorem setValue_execution_all_kinds_any_order (s : MState) (hi : MInv s) (p : Path) (v : Val)
    (hnodef : lookDef s.defs p = none)
    (g' : Path → List Path) (start' : List Path)
    (hg : ∀ u w, w ∈ g' u ↔ w ∈ gOf s.idx u)
    (hperm : start'.Perm (startOf s.idx (chainR p)))
    (hac : ∀ a b, (∃ s0 ∈ startOf s.idx (chainR p), Dfs3.Reach (gOf s.idx) s0 a) → a ≠ b →
      Dfs3.Reach (gOf s.idx) a b → Dfs3.Reach (gOf s.idx) b a → False)
    (s' : MState)
    (hok : setValue (fun _ => Dfs3.toposort g' (fuelOf s.idx) start') s p v = (s', none)) :
    ∃ π : List Path,
      s'.trace = s.trace ++ (true, p) :: π.flatMap (evsAt s.defs) ∧
      π.Nodup ∧
      (∀ x ∈ π, ∃ t, BlockOf s.defs x t) ∧
      (∀ x, x ∈ π ↔ ∃ t ∈ s.defs, (∃ d ∈ t.deps, 2 ≤ d.length ∧ d <+: p) ∧ DeclChain s.defs t.id x) ∧
      (∀ u w, u ∈ π → w ∈ π → declEdge s.defs u w → w ≠ u → Dfs3.Before π u w) :=
  setValue_execution_all_kinds_plain _ s hi p v hnodef (toposort_perm_valid s hi (chainR p) g' start' hg hperm hac) s' hok

/-- **cyclic graphs, the model's own order**: NO hypothesis on the graph.  The call terminates (the model is total),
    and if it completes, each triggered task ran once — its block occurs once, in the position of `π` — and exactly
    the reachable tasks ran. -/
theorem setValue_execution_cyclic (s : MState) (hi : MInv s) (p : Path) (v : Val)
    (s' : MState) (hok : setValue id s p v = (s', none)) :
    ∃ π : List Path,
      s'.trace = s.trace ++ (true, p) :: π.flatMap (evsAt (preState s p).defs) ∧
      π.Nodup ∧
      (∀ x ∈ π, ∃ t, BlockOf (preState s p).defs x t) ∧
      (∀ x, x ∈ π ↔ ∃ t ∈ (preState s p).defs, (∃ d ∈ t.deps, 2 ≤ d.length ∧ d <+: p) ∧
        DeclChain (preState s p).defs t.id x) ∧
      (∀ x, x ∈ π ↔ ∃ s0 ∈ startOf (preState s p).idx (chainR p), Dfs3.Reach (gOf (preState s p).idx) s0 x) := by
  obtain ⟨hi0, _⟩ := preState_facts s p hi (setValue_ok_unfrozen id s p v s' hok)
  exact setValue_execution_once_exact id s hi p v (findTaskids_onceExact (preState s p) hi0 (chainR p)) s' hok

/-- **cyclic graphs, any iteration order of the sets**: NO hypothesis on the graph -/
theorem setValue_execution_cyclic_any_order (s : MState) (hi : MInv s) (p : Path) (v : Val)
    (hnodef : lookDef s.defs p = none)
    (g' : Path → List Path) (start' : List Path)
    (hg : ∀ u w, w ∈ g' u ↔ w ∈ gOf s.idx u)
    (hperm : start'.Perm (startOf s.idx (chainR p)))
    (s' : MState)
    (hok : setValue (fun _ => Dfs3.toposort g' (fuelOf s.idx) start') s p v = (s', none)) :
    ∃ π : List Path,
      s'.trace = s.trace ++ (true, p) :: π.flatMap (evsAt s.defs) ∧
      π.Nodup ∧
      (∀ x ∈ π, ∃ t, BlockOf s.defs x t) ∧
      (∀ x, x ∈ π ↔ ∃ t ∈ s.defs, (∃ d ∈ t.deps, 2 ≤ d.length ∧ d <+: p) ∧ DeclChain s.defs t.id x) ∧
      (∀ x, x ∈ π ↔ ∃ s0 ∈ startOf s.idx (chainR p), Dfs3.Reach (gOf s.idx) s0 x) := by
  have h := setValue_execution_once_exact (fun _ => Dfs3.toposort g' (fuelOf s.idx) start') s hi p v
    (by rw [preState_of_nodef s p hnodef]; exact toposort_perm_once_exact s hi (chainR p) g' start' hg hperm) s' hok
  rw [preState_of_nodef s p hnodef] at h
  exact h

/-! ### the action of a function task is called at most once -/

theorem count_flatMap_indicator {α β : Type} [BEq α] [LawfulBEq α] [BEq β] [LawfulBEq β] (f : α → List β) (b : β)
    (a : α) (h1 : (f a).count b = 1) (h0 : ∀ x, x ≠ a → (f x).count b = 0) :
    ∀ π : List α, (π.flatMap f).count b = π.count a
  | [] => rfl
  | x :: π => by
    simp only [List.flatMap_cons, List.count_append, List.count_cons]
    rw [count_flatMap_indicator f b a h1 h0 π]
    cases hxa : x == a with
    | true =>
      have hx : x = a := by simpa using hxa
      subst hx; simp [h1]; omega
    | false =>
      have hx : x ≠ a := by simpa using hxa
      simp [h0 x hx]

theorem count_of_nodup_mem {α : Type} [BEq α] [LawfulBEq α] : ∀ (l : List α) (a : α), l.Nodup → a ∈ l → l.count a = 1
  | [], _, _, h => by cases h
  | x :: l, a, hnd, h => by
    obtain ⟨hx, hl⟩ := List.nodup_cons.mp hnd
    rw [List.count_cons]
    rcases List.mem_cons.mp h with rfl | h
    · simp [List.count_eq_zero_of_not_mem hx]
    · have hne : (x == a) = false := by
        cases hxa : x == a with
        | false => rfl
        | true =>
          have : x = a := by simpa using hxa
          subst this
          exact absurd h hx
      simp [count_of_nodup_mem l a hl h, hne]

/-- the action-call event of function task `F` occurs in the events of a schedule as often as `F` occurs in the
    schedule -/
theorem action_events_count (defs : List MTask) (F : MTask) (body : List (Path × Expr)) (hF : lookDef defs F.id = some F)
    (hk : F.kind = .func body) (π : List Path) :
    (π.flatMap (evsAt defs)).count (false, F.id) = π.count F.id := by
  refine count_flatMap_indicator (evsAt defs) (false, F.id) F.id ?_ ?_ π
  · rw [evsAt_of_lookDef hF, evsOf_func hk]; simp
  · intro x hx
    unfold evsAt
    cases hl : lookDef defs x with
    | none => simp
    | some t =>
      simp only
      unfold evsOf
      cases hkt : t.kind with
      | expr e => simp
      | func b =>
        have : t.id = x := lookDef_id hl
        simp only [List.count_cons, List.count_nil, beq_iff_eq, Prod.mk.injEq, true_and, this]
        simp [hx]
      | knob src ws tars =>
        simp only [List.count_eq_zero, List.mem_map, not_exists, not_and]
        intro wt _ h
        cases h

/-- **at most once**: after a completed assignment (any graph, any scheduler that lists the triggered tasks once each)
    the action-call event of a function task was appended once if the task is triggered, never otherwise -/
theorem action_events_once (sched : Sched) (s : MState) (p : Path) (v : Val)
    (hnd : (sched (findTaskids (preState s p).idx (chainR p))).Nodup)
    (F : MTask) (body : List (Path × Expr)) (hF : lookDef (preState s p).defs F.id = some F) (hk : F.kind = .func body)
    (s' : MState) (hok : setValue sched s p v = (s', none)) :
    ∃ ext, s'.trace = s.trace ++ (true, p) :: ext ∧
      ext.count (false, F.id) = if F.id ∈ sched (findTaskids (preState s p).idx (chainR p)) then 1 else 0 := by
  refine ⟨_, setValue_trace_defined sched s p v s' hok, ?_⟩
  rw [action_events_count (preState s p).defs F body hF hk]
  split
  · next h => exact count_of_nodup_mem _ _ hnd h
  · next h => exact List.count_eq_zero_of_not_mem h

/-! ### all three kinds triggered by one assignment

`d = {x: 1, a: 10, b: 20, c: None, e: None, f: None}`; linear knob `#K` (source `d.x`, weights `[2, -1]`, targets `d.a`,
`d.b`); expression task `d.c := d.a + d.b`; function task `#F : d.e := d.c * 2 ; d.f := d.x + 1` (declared dependencies
`d.c`, `d.x`).  The assignment `d.x := 5` triggers all three; the declared graph has `#K → d.c → #F`. -/
namespace Trace2Example

def d (a : String) : Path := [.item (.str "d"), .item (.str a)]
def store0 : Val :=
  .dict [(.str "d", .dict [(.str "x", .int 1), (.str "a", .int 10), (.str "b", .int 20), (.str "c", .none),
    (.str "e", .none), (.str "f", .none)])]
def K : MTask := ⟨[.item (.str "#K")], .knob (d "x") [2, -1] [d "a", d "b"], [d "x"], [d "a", d "b"]⟩
def F : MTask :=
  ⟨[.item (.str "#F")], .func [(d "e", .bin "Mul" (.ref (d "c")) (.lit (.int 2))), (d "f", .bin "Add" (.ref (d "x")) (.lit (.int 1)))],
    [d "c", d "x"], [d "e", d "f"]⟩
def s0 : MState := { MState.init with store := store0 }
def s1 : MState := (register s0 K).1
def s2 : MState := (setExpr id s1 (d "c") (.bin "Add" (.ref (d "a")) (.ref (d "b")))).1
def s3 : MState := (register s2 F).1

theorem s0_inv : MInv s0 := MInv_of_sameGraph (s := MState.init) ⟨rfl, rfl, rfl⟩ MInv.init
theorem s1_inv : MInv s1 := register_MInv s0 K s0_inv rfl rfl (by decide) (by decide)
theorem s2_inv : MInv s2 := setExpr_MInv id s1 _ _ s1_inv
theorem s3_inv : MInv s3 := register_MInv s2 F s2_inv rfl (by decide) (by decide) (by decide)

theorem s3_hyps : lookDef s3.defs (d "x") = none ∧
    validSchedule s3.idx (chainR (d "x")) (findTaskids s3.idx (chainR (d "x"))) = true ∧
    acyclicFrom s3.idx (startOf s3.idx (chainR (d "x"))) = true := by decide

/-- the model's order, and the run: the assigned write, the knob's two target writes, the expression's write, ONE
    action event (the two container writes of the action are not logged) -/
example : findTaskids s3.idx (chainR (d "x")) = [K.id, d "c", F.id] := by decide
example : (setValue id s3 (d "x") (.int 5)).2 = none ∧
    (setValue id s3 (d "x") (.int 5)).1.trace =
      s3.trace ++ [(true, d "x"), (true, d "a"), (true, d "b"), (true, d "c"), (false, F.id)] := by decide

/-- the theorem applies to this state, for every value and every completed call -/
example (v : Val) (s' : MState) (hok : setValue id s3 (d "x") v = (s', none)) :
    ∃ π : List Path,
      s'.trace = s3.trace ++ (true, d "x") :: π.flatMap (evsAt s3.defs) ∧ π.Nodup ∧
      (∀ x ∈ π, ∃ t, BlockOf s3.defs x t) ∧
      (∀ x, x ∈ π ↔ ∃ t ∈ s3.defs, (∃ dd ∈ t.deps, 2 ≤ dd.length ∧ dd <+: d "x") ∧ DeclChain s3.defs t.id x) ∧
      (∀ u w, u ∈ π → w ∈ π → declEdge s3.defs u w → w ≠ u → Dfs3.Before π u w) :=
  setValue_execution_all_kinds_plain id s3 s3_inv (d "x") v s3_hyps.1
    (validSchedule_sound _ _ _ s3_hyps.2.1 s3_hyps.2.2) s' hok

/-- the three blocks -/
example : evsAt s3.defs K.id = [(true, d "a"), (true, d "b")] ∧ evsAt s3.defs (d "c") = [(true, d "c")] ∧
    evsAt s3.defs F.id = [(false, F.id)] := by decide

/-- the order clause has content: `#K → d.c` and `d.c → #F` are declared edges -/
example : declEdge s3.defs K.id (d "c") ∧ declEdge s3.defs (d "c") F.id :=
  ⟨(gOf_iff_declEdge s3 s3_inv _ _).mp (by decide), (gOf_iff_declEdge s3 s3_inv _ _).mp (by decide)⟩

/-- the action of `#F` is called exactly once by this assignment -/
example (v : Val) (s' : MState) (hok : setValue id s3 (d "x") v = (s', none)) :
    ∃ ext, s'.trace = s3.trace ++ (true, d "x") :: ext ∧ ext.count (false, F.id) = 1 := by
  have hpre : preState s3 (d "x") = s3 := preState_of_nodef s3 (d "x") s3_hyps.1
  obtain ⟨ext, h1, h2⟩ := action_events_once id s3 (d "x") v
    (by rw [hpre]; exact (findTaskids_once_exact s3 s3_inv _).1) F _ (by rw [hpre]; rfl) rfl s' hok
  refine ⟨ext, h1, ?_⟩
  rw [h2, hpre]
  decide

/-- assigning a plain value AT the expression's target `d.c`: `set_value` removes the definition first; the table the
    call runs on (`preState`) no longer has it, and only `#F` is triggered -/
example : lookDef s3.defs (d "c") ≠ none ∧ (preState s3 (d "c")).defs.length = 2 ∧
    findTaskids (preState s3 (d "c")).idx (chainR (d "c")) = [F.id] ∧
    (setValue id s3 (d "c") (.int 7)).2 = none ∧
    (setValue id s3 (d "c") (.int 7)).1.trace = s3.trace ++ [(true, d "c"), (false, F.id)] := by decide

example (v : Val) (s' : MState) (hok : setValue id s3 (d "c") v = (s', none)) :
    ∃ π : List Path,
      s'.trace = s3.trace ++ (true, d "c") :: π.flatMap (evsAt (preState s3 (d "c")).defs) ∧ π.Nodup ∧
      (∀ x ∈ π, ∃ t, BlockOf (preState s3 (d "c")).defs x t) ∧
      (∀ x, x ∈ π ↔ ∃ t ∈ (preState s3 (d "c")).defs, (∃ dd ∈ t.deps, 2 ≤ dd.length ∧ dd <+: d "c") ∧
        DeclChain (preState s3 (d "c")).defs t.id x) ∧
      (∀ x, x ∈ π ↔ ∃ s0 ∈ startOf (preState s3 (d "c")).idx (chainR (d "c")),
        Dfs3.Reach (gOf (preState s3 (d "c")).idx) s0 x) :=
  setValue_execution_cyclic s3 s3_inv (d "c") v s' hok

end Trace2Example

/-! ### a cyclic graph: `c = e + a`, `e = c + a`

Registering the second definition closes a cycle `d.c → d.e → d.c` in the declared graph.  What the MODEL does (and the
code: `toposort` marks visited vertices): the assignment `d.a := 5` runs each of the two tasks ONCE and stops; the
result is not a fixed point (`c = e + a` does not hold afterwards) — C01 needs acyclicity, C02's once/exact part does
not. -/
namespace Trace2Cyclic

def d (a : String) : Path := [.item (.str "d"), .item (.str a)]
def s0 : MState :=
  { MState.init with store := .dict [(.str "d", .dict [(.str "a", .int 1), (.str "c", .int 0), (.str "e", .int 0)])] }
def hist : List Call :=
  [.setExpr (d "c") (.bin "Add" (.ref (d "e")) (.ref (d "a"))), .setExpr (d "e") (.bin "Add" (.ref (d "c")) (.ref (d "a")))]
def sC : MState := applyAll id s0 hist

theorem s0_inv : MInv s0 := MInv_of_sameGraph (s := MState.init) ⟨rfl, rfl, rfl⟩ MInv.init
theorem sC_inv : MInv sC := applyAll_MInv id hist s0 s0_inv (by simp [hist, WFHist, WFCall])

/-- the triggered subgraph is cyclic: the Boolean acyclicity test fails, each task is adjacent to the other -/
example : acyclicFrom sC.idx (startOf sC.idx (chainR (d "a"))) = false ∧
    gOf sC.idx (d "c") = [d "e"] ∧ gOf sC.idx (d "e") = [d "c"] := by decide

example : findTaskids sC.idx (chainR (d "a")) = [d "c", d "e"] ∧ lookDef sC.defs (d "a") = none := by decide

/-- each task ran once: before `c = 3`, `e = 4`; afterwards `c = e_old + a = 9`, `e = c + a = 14`, and `c ≠ e + a` -/
example : (setValue id sC (d "a") (.int 5)).2 = none ∧
    (setValue id sC (d "a") (.int 5)).1.trace = sC.trace ++ [(true, d "a"), (true, d "c"), (true, d "e")] := by decide
example : get sC.store (d "c") = .ok (.int 3) ∧ get sC.store (d "e") = .ok (.int 4) ∧
    get (setValue id sC (d "a") (.int 5)).1.store (d "c") = .ok (.int 9) ∧
    get (setValue id sC (d "a") (.int 5)).1.store (d "e") = .ok (.int 14) := ⟨rfl, rfl, rfl, rfl⟩

example (v : Val) (s' : MState) (hok : setValue id sC (d "a") v = (s', none)) :
    ∃ π : List Path,
      s'.trace = sC.trace ++ (true, d "a") :: π.flatMap (evsAt sC.defs) ∧ π.Nodup ∧
      (∀ x ∈ π, ∃ t, BlockOf sC.defs x t) ∧
      (∀ x, x ∈ π ↔ ∃ t ∈ sC.defs, (∃ dd ∈ t.deps, 2 ≤ dd.length ∧ dd <+: d "a") ∧ DeclChain sC.defs t.id x) ∧
      (∀ x, x ∈ π ↔ ∃ s0 ∈ startOf sC.idx (chainR (d "a")), Dfs3.Reach (gOf sC.idx) s0 x) := by
  have h := setValue_execution_cyclic sC sC_inv (d "a") v s' hok
  rw [preState_of_nodef sC (d "a") (by decide)] at h
  exact h

/-- another iteration order of the start set: the other task first, again each once -/
example : Dfs3.toposort (gOf sC.idx) (fuelOf sC.idx) (startOf sC.idx (chainR (d "a"))).reverse = [d "e", d "c"] := by
  decide

example (v : Val) (s' : MState)
    (hok : setValue (fun _ => Dfs3.toposort (gOf sC.idx) (fuelOf sC.idx) (startOf sC.idx (chainR (d "a"))).reverse)
      sC (d "a") v = (s', none)) :
    ∃ π : List Path,
      s'.trace = sC.trace ++ (true, d "a") :: π.flatMap (evsAt sC.defs) ∧ π.Nodup ∧
      (∀ x ∈ π, ∃ t, BlockOf sC.defs x t) ∧
      (∀ x, x ∈ π ↔ ∃ t ∈ sC.defs, (∃ dd ∈ t.deps, 2 ≤ dd.length ∧ dd <+: d "a") ∧ DeclChain sC.defs t.id x) ∧
      (∀ x, x ∈ π ↔ ∃ s0 ∈ startOf sC.idx (chainR (d "a")), Dfs3.Reach (gOf sC.idx) s0 x) :=
  setValue_execution_cyclic_any_order sC sC_inv (d "a") v (by decide) (gOf sC.idx) _ (fun _ _ => Iff.rfl)
    (List.reverse_perm _) s' hok

end Trace2Cyclic

#print axioms setValue_execution_once_exact
#print axioms setValue_execution_all_kinds
#print axioms setValue_execution_all_kinds_plain
#print axioms setValue_execution_all_kinds_any_order
#print axioms setValue_execution_cyclic
#print axioms setValue_execution_cyclic_any_order
#print axioms action_events_once
#print axioms toposort_any_order_once_exact

end Manager
