import XModel.ManagerC18Multi
import XModel.ManagerTrace
import XModel.ManagerBisim2
/-!
# C18 on the executable manager: a failed EXPRESSION assignment is recoverable

`ManagerC18` / `ManagerC18Fn` / `ManagerC18Multi` treat faults during `set_value(ref, value)` with a plain value.
Here the assignment is `set_value(ref, expr)`: `tasks.py::Manager.set_value` unregisters the old task of the target,
registers the new `ExprTask`, evaluates the expression, writes the target and runs the dependants.  A fault at the
k-th container write (k = 0: the write of the new task's own target) leaves

* the DEFINITION committed: task table and indices are those of the fault-free call (`defPart`), whatever `k`
  (`setExpr_fault_graph`);
* every definition outside the triggered list holding (`setExpr_outside`);
* exactly a prefix of the schedule run (`setExpr_fail_prefix`);
* and a completed fault-free REPEAT of `p := e` (`recover_exec_setExpr_repeat`), or a completed plain-value assignment to any
  location `q` the new expression reads (`recover_exec_setExpr_by_value`), re-establishes EVERY definition;
* `recover_exec_setExpr` gathers the four clauses in one statement.

The repeat unregisters and re-registers the task of `p`; the indices it ends with have the same rows *as sets* but not
necessarily in the same insertion order, so the schedule of the repeat is asked to be legal for the re-registered
indices (`defPart (defPart s p e) p e`), and the several-faults form (`setExpr_recover_multi*`) asks each schedule to
be legal for every index state of the same task table (`LegalFor`; `id` and every constant legal list are).

No hypothesis beyond those of the fault-free theorem `setExpr_consistent` (= `C01_set_expr`) is needed: `Scope` at the
committed state (which contains: the new expression does not read a location comparable with its own target, the new
target is incomparable with every other target) and a legal schedule.
-/
namespace Manager
open Store Push Index

/-! ### the fault counter does not influence the definitional part -/

theorem register_fault (s : MState) (t : MTask) (k : Option Nat) :
    register { s with faultIn := k } t = ({ (register s t).1 with faultIn := k }, (register s t).2) := by
  unfold register
  simp only
  split <;> rfl

/-- `set_value(ref, expr)` with a fault counter: the committed state `defPart`, then evaluation, then
    `write + run_tasks` under the counter -/
theorem setExpr_fault_unfold (sched : Sched) (s : MState) (p : Path) (e : Expr) (k : Option Nat)
    (hf : s.frozen = false) :
    setExpr sched { s with faultIn := k } p e =
      match evalE (defPart s p e) e with
      | .error x => ({ defPart s p e with faultIn := k }, some x)
      | .ok v => writeAndRun sched { defPart s p e with faultIn := k } p v := by
  unfold setExpr defPart
  cases hl : lookDef s.defs p with
  | none =>
    simp only
    rw [register_fault]
    have hr : (register s (mkExprTask p e)).2 = none := by simp [register, hf]
    generalize register s (mkExprTask p e) = r at hr
    obtain ⟨s1, x1⟩ := r
    simp only at hr
    subst hr
    rfl
  | some t =>
    simp only
    rw [unregister_fault]
    obtain ⟨hnone, _, _, hfz, _⟩ := unregister_present_eq s p t hf hl
    generalize unregister s p = r at hnone hfz
    obtain ⟨s0, x0⟩ := r
    simp only at hnone hfz
    subst hnone
    simp only
    rw [register_fault]
    have hr : (register s0 (mkExprTask p e)).2 = none := by simp [register, hfz]
    generalize register s0 (mkExprTask p e) = r at hr
    obtain ⟨s1, x1⟩ := r
    simp only at hr
    subst hr
    rfl

/-- **(i) the definition is committed**: task table, indices and flag after the call are those of the committed state,
    whichever write fails (or none) -/
theorem setExpr_fault_graph (sched : Sched) (s : MState) (p : Path) (e : Expr) (k : Option Nat) (hf : s.frozen = false) :
    SameGraph (defPart s p e) (setExpr sched { s with faultIn := k } p e).1 :=
  (defPart_fault_independent s p e k).trans (setExpr_graph sched { s with faultIn := k } p e hf)

/-! ### the committed state -/

theorem filter_ne_self (defs : List MTask) (p : Path) (h : lookDef defs p = none) :
    defs.filter (fun x => !decide (x.id = p)) = defs := by
  rw [List.filter_eq_self]
  intro x hx
  have := List.find?_eq_none.mp h x hx
  simpa using this

/-- the task table of the committed state: the old task of `p` removed, the new one appended -/
theorem defPart_table (s : MState) (p : Path) (e : Expr) (hi : MInv s) (hf : s.frozen = false) :
    (defPart s p e).defs = s.defs.filter (fun x => !decide (x.id = p)) ++ [mkExprTask p e] ∧
    (defPart s p e).frozen = false ∧ (defPart s p e).faultIn = s.faultIn := by
  unfold defPart
  cases hl : lookDef s.defs p with
  | none =>
    simp only
    obtain ⟨_, hd, _, hfz⟩ := register_fresh_eq s (mkExprTask p e) hi hf (by simpa [mkExprTask] using hl)
    exact ⟨by rw [hd, filter_ne_self s.defs p hl], hfz, (register_store _ _).2⟩
  | some t =>
    simp only
    obtain ⟨_, hdu, _, hfzu, _⟩ := unregister_present_eq s p t hf hl
    have hiu := unregister_MInv s p t hi hf hl
    have hfresh := lookDef_after_unregister s p t hf hl
    obtain ⟨_, hd, _, hfz⟩ := register_fresh_eq (unregister s p).1 (mkExprTask p e) hiu hfzu
      (by simpa [mkExprTask] using hfresh)
    exact ⟨by rw [hd, hdu], hfz, ((register_store _ _).2).trans (unregister_store s p).2⟩

/-- A state in which `p := e` is committed: reachable (`MInv`), not frozen, in C01's scope for an assignment to `p`,
    and the task of `p` is `ExprTask(p, e)`, the last entry of the task table. -/
structure Committed (d : MState) (p : Path) (e : Expr) : Prop where
  inv : MInv d
  frozen : d.frozen = false
  sc : Scope d p
  table : d.defs.filter (fun x => !decide (x.id = p)) ++ [mkExprTask p e] = d.defs

theorem committed_defPart (s : MState) (p : Path) (e : Expr) (hi : MInv s) (hf : s.frozen = false)
    (sc : Scope (defPart s p e) p) : Committed (defPart s p e) p e := by
  obtain ⟨hd, hfz, _⟩ := defPart_table s p e hi hf
  refine ⟨(defPart_facts s p e hi hf).1, hfz, sc, ?_⟩
  rw [hd, List.filter_append, List.filter_filter]
  have h1 : [mkExprTask p e].filter (fun x => !decide (x.id = p)) = [] := by simp [mkExprTask]
  rw [h1, List.append_nil]
  congr 1
  simp

theorem Committed.mem_mk {d : MState} {p : Path} {e : Expr} (h : Committed d p e) : mkExprTask p e ∈ d.defs := by
  rw [← h.table]; simp

/-- re-committing the same definition on any state with the same task table gives the same task table -/
theorem Committed.redef {d : MState} {p : Path} {e : Expr} (h : Committed d p e) (st : MState) (hi : MInv st)
    (hf : st.frozen = false) (hd : st.defs = d.defs) : (defPart st p e).defs = d.defs := by
  rw [(defPart_table st p e hi hf).1, hd, h.table]

/-! ### two index states of the same task table -/

theorem findTaskids_mem_transfer (s s' : MState) (hi : MInv s) (hi' : MInv s') (hd : s'.defs = s.defs)
    (D : List Path) (x : Path) : x ∈ findTaskids s'.idx D ↔ x ∈ findTaskids s.idx D := by
  rw [(findTaskids_iff_declChain s' hi' D).2 x, (findTaskids_iff_declChain s hi D).2 x, hd]

theorem register_graph_of (s s' : MState) (t : MTask) (hi : s'.idx = s.idx) (hd : s'.defs = s.defs)
    (hf : s'.frozen = s.frozen) : SameGraph (register s t).1 (register s' t).1 := by
  unfold register
  rw [hf, hd, hi]
  split
  · exact ⟨hi, hd, hf⟩
  · exact ⟨rfl, rfl, rfl⟩

/-- the committed state depends only on the task table, the indices and the flag -/
theorem defPart_congr (a b : MState) (p : Path) (e : Expr) (h : SameGraph a b) :
    SameGraph (defPart a p e) (defPart b p e) := by
  obtain ⟨hi, hd, hf⟩ := h
  unfold defPart
  simp only
  rw [hd]
  cases lookDef a.defs p with
  | none => exact register_graph_of a b _ hi hd hf
  | some t =>
    have hu := unregister_graph_of a b p hi hd hf
    exact register_graph_of _ _ _ hu.1 hu.2.1 hu.2.2

/-! ### what a failed run can damage -/

/-- pointwise form of `writeAndRun_outside`: a definition outside the triggered list that held before
    `write + run_tasks` holds afterwards — completion, fault at any write, evaluation error alike; the other
    definitions need not hold beforehand -/
theorem writeAndRun_outside1 (sched : Sched) (s : MState) (p : Path) (v : Val) (hi : MInv s)
    (sc : Scope { s with faultIn := none } p)
    (hmemS : ∀ x, x ∈ sched (findTaskids s.idx (chainR p)) ↔ x ∈ findTaskids s.idx (chainR p))
    (u : MTask) (hu : u ∈ s.defs) (hup : u.id ≠ p) (hnot : u.id ∉ sched (findTaskids s.idx (chainR p)))
    (hQ : (exprSys pySem).Q (toE u) s.store) :
    (exprSys pySem).Q (toE u) (writeAndRun sched s p v).1.store := by
  have hi' : MInv { s with faultIn := none } := MInv_of_sameGraph (s := s) ⟨rfl, rfl, rfl⟩ hi
  obtain ⟨_, hmem⟩ := findTaskids_once_exact s hi (chainR p)
  have memπ : ∀ x, x ∈ sched (findTaskids s.idx (chainR p)) ↔
      ∃ s0 ∈ startOf s.idx (chainR p), Dfs3.Reach (gOf s.idx) s0 x := fun x => (hmemS x).trans (hmem x)
  obtain ⟨hpu, hpr⟩ := sc.paths u hu
  have hreads_p : ∀ r ∈ leafRefs (toE u).expr, Incomparable p r := by
    intro r hr
    refine Classical.byContradiction fun hc => hnot ?_
    have := start_of_read { s with faultIn := none } hi' sc.exprs p u hu sc.pathP.1 r hr (hpr r hr).1 hc
    exact (memπ u.id).mpr ⟨u.id, this, Dfs3.Reach.refl _⟩
  have hreads_t : ∀ t ∈ s.defs, t.id ∈ sched (findTaskids s.idx (chainR p)) →
      ∀ r ∈ leafRefs (toE u).expr, Incomparable t.id r := by
    intro t ht htπ r hr
    refine Classical.byContradiction fun hc => hnot ?_
    have he := edge_of_read { s with faultIn := none } hi' sc.exprs t u ht hu (sc.paths t ht).1.1 r hr (hpr r hr).1 hc
    obtain ⟨s0, hs0, hreach⟩ := (memπ t.id).mp htπ
    exact (memπ u.id).mpr ⟨s0, hs0, hreach.tail he⟩
  unfold writeAndRun
  have hw_reads : ∀ r ∈ leafRefs (toE u).expr, get (writeRef s p v).1.store r = get s.store r :=
    fun r hr => writeRef_frame s p r v (hreads_p r hr) sc.pathP.2 (hpr r hr).2
  have hw_tar : get (writeRef s p v).1.store u.id = get s.store u.id :=
    writeRef_frame s p u.id v (sc.h2p u hu hup) sc.pathP.2 hpu.2
  have hQw : (exprSys pySem).Q (toE u) (writeRef s p v).1.store :=
    Q_of_frame (toE u) s.store _ hQ hw_reads hw_tar
  have hgw := writeRef_graph s p v
  generalize writeRef s p v = r at hQw hgw
  obtain ⟨sw, x⟩ := r
  cases x with
  | some x => exact hQw
  | none =>
    simp only at hQw hgw ⊢
    obtain ⟨hiw, hdw, _⟩ := hgw
    rw [hiw, hdw]
    generalize hm : List.mapM (lookTask s.defs) (sched (findTaskids s.idx (chainR p))) = res
    cases res with
    | error e => exact hQw
    | ok l =>
      simp only
      obtain ⟨hlmap, hlsub⟩ := mapM_lookDef s.defs _ (lookTask_ok s.defs) _ l hm
      have hlπ : ∀ t ∈ l, t.id ∈ sched (findTaskids s.idx (chainR p)) := fun t ht => by
        rw [← hlmap]; exact List.mem_map_of_mem ht
      have frame : ∀ q, canonPath q → (∀ t ∈ l, Incomparable t.id q) →
          get (runTasks sw l).1.store q = get sw.store q := by
        intro q hq hinc
        refine runTasks_frame l sw q hq (fun t ht => ⟨?_, (sc.paths t (hlsub t ht)).1.2, hinc t ht⟩)
        obtain ⟨e, he, _⟩ := sc.exprs t (hlsub t ht)
        exact ⟨e, he⟩
      refine Q_of_frame (toE u) sw.store _ hQw ?_ ?_
      · intro r hr
        exact frame r (hpr r hr).2 (fun t ht => hreads_t t (hlsub t ht) (hlπ t ht) r hr)
      · refine frame u.id hpu.2 (fun t ht => ?_)
        have hne : u.id ≠ t.id := fun e => hnot (e ▸ hlπ t ht)
        exact sc.h2 u hu t (hlsub t ht) hne

/-- the same for an expression assignment cut anywhere: a definition other than the new one, outside the list the
    assignment triggers, that held before the call holds after it -/
theorem setExpr_outside1 (sched : Sched) (st : MState) (p : Path) (e : Expr) (k : Option Nat) (hi : MInv st)
    (hf : st.frozen = false) (sc : Scope { defPart st p e with faultIn := none } p)
    (hmemS : ∀ x, x ∈ sched (findTaskids (defPart st p e).idx (chainR p)) ↔
      x ∈ findTaskids (defPart st p e).idx (chainR p))
    (u : MTask) (hu : u ∈ (defPart st p e).defs) (hup : u.id ≠ p)
    (hnot : u.id ∉ sched (findTaskids (defPart st p e).idx (chainR p)))
    (hQ : (exprSys pySem).Q (toE u) st.store) :
    (exprSys pySem).Q (toE u) (setExpr sched { st with faultIn := k } p e).1.store := by
  obtain ⟨hi0, hst, _⟩ := defPart_facts st p e hi hf
  have hQ0 : (exprSys pySem).Q (toE u) (defPart st p e).store := by rw [hst]; exact hQ
  rw [setExpr_fault_unfold sched st p e k hf]
  cases hev : evalE (defPart st p e) e with
  | error x => exact hQ0
  | ok v =>
    have hi1 : MInv { defPart st p e with faultIn := k } :=
      MInv_of_sameGraph (s := defPart st p e) ⟨rfl, rfl, rfl⟩ hi0
    exact writeAndRun_outside1 sched { defPart st p e with faultIn := k } p v hi1 sc hmemS u hu hup hnot hQ0

/-! ### the invariant carried through the attempts -/

/-- the ids an attempt of `p := e` can leave damaged: the new task itself and everything it triggers -/
def trigE (d : MState) (p : Path) (x : Path) : Prop := x = p ∨ x ∈ findTaskids d.idx (chainR p)

/-- What is known of a state `st` reached from a state with `p := e` committed (`d`) by attempts, failed or not: the
    task table is that of `d`, the index invariant holds (the indices themselves may have been re-registered), the
    manager is not frozen, and every definition whose id is outside the damage set `T` holds.  Nothing is said of the
    tasks in `T`, the trace or the fault counter. -/
structure RecE (d : MState) (T : Path → Prop) (st : MState) : Prop where
  defs : st.defs = d.defs
  inv : MInv st
  frozen : st.frozen = false
  outside : ∀ t ∈ d.defs, ¬ T t.id → (exprSys pySem).Q (toE t) st.store

theorem RecE.mono {d st : MState} {T T' : Path → Prop} (h : RecE d T st) (hT : ∀ x, T x → T' x) : RecE d T' st :=
  ⟨h.defs, h.inv, h.frozen, fun t ht hn => h.outside t ht (fun hx => hn (hT _ hx))⟩

/-- **the first attempt** (it commits the definition): from a consistent state, `p := e` cut at any write (or not cut)
    leaves the committed task table and every definition outside `trigE` holding -/
theorem RecE.first (sched : Sched) (s : MState) (p : Path) (e : Expr) (k : Option Nat) (hi : MInv s)
    (hc : Consistent s) (hf : s.frozen = false) (sc : Scope (defPart s p e) p)
    (hmemS : ∀ x, x ∈ sched (findTaskids (defPart s p e).idx (chainR p)) ↔
      x ∈ findTaskids (defPart s p e).idx (chainR p)) :
    RecE (defPart s p e) (trigE (defPart s p e) p) (setExpr sched { s with faultIn := k } p e).1 := by
  obtain ⟨hg1, hg2, hg3⟩ := setExpr_fault_graph sched s p e k hf
  obtain ⟨hi0, _, hsub⟩ := defPart_facts s p e hi hf
  refine ⟨hg2, MInv_of_sameGraph ⟨hg1, hg2, hg3⟩ hi0, hg3.trans (defPart_table s p e hi hf).2.1, ?_⟩
  intro t ht hn
  have hne : t.id ≠ p := fun h => hn (Or.inl h)
  have hnot : t.id ∉ sched (findTaskids (defPart s p e).idx (chainR p)) := fun h => hn (Or.inr ((hmemS _).mp h))
  refine setExpr_outside1 sched s p e k hi hf (Scope_congr sc rfl rfl rfl) hmemS t ht hne hnot ?_
  rcases hsub t ht with ⟨h1, _⟩ | h
  · exact hc t h1
  · exact absurd (by rw [h]; rfl) hne

/-- **one more attempt of `p := e`** keeps the invariant, whatever it does -/
theorem RecE.stepExpr {d st : MState} {T : Path → Prop} {p : Path} {e : Expr} (hd : Committed d p e)
    (hT : ∀ x, trigE d p x → T x) (h : RecE d T st) (sched : Sched)
    (hmemS : ∀ x, x ∈ sched (findTaskids (defPart st p e).idx (chainR p)) ↔
      x ∈ findTaskids (defPart st p e).idx (chainR p)) (k : Option Nat) :
    RecE d T (setExpr sched { st with faultIn := k } p e).1 := by
  obtain ⟨hg1, hg2, hg3⟩ := setExpr_fault_graph sched st p e k h.frozen
  obtain ⟨hi0, _, _⟩ := defPart_facts st p e h.inv h.frozen
  have hdd : (defPart st p e).defs = d.defs := hd.redef st h.inv h.frozen h.defs
  have hfz : (defPart st p e).frozen = false := (defPart_table st p e h.inv h.frozen).2.1
  have hi0' : MInv { defPart st p e with faultIn := none } :=
    MInv_of_sameGraph (s := defPart st p e) ⟨rfl, rfl, rfl⟩ hi0
  have sc' : Scope { defPart st p e with faultIn := none } p :=
    scope_transfer d _ hd.inv hi0' hdd hd.sc.nofault.symm p hd.sc
  refine ⟨hg2.trans hdd, MInv_of_sameGraph ⟨hg1, hg2, hg3⟩ hi0, hg3.trans hfz, ?_⟩
  intro t ht hn
  have hne : t.id ≠ p := fun hx => hn (hT _ (Or.inl hx))
  have hnot : t.id ∉ sched (findTaskids (defPart st p e).idx (chainR p)) := by
    intro hx
    refine hn (hT _ (Or.inr ?_))
    exact (findTaskids_mem_transfer d (defPart st p e) hd.inv hi0 hdd (chainR p) t.id).mp ((hmemS _).mp hx)
  exact setExpr_outside1 sched st p e k h.inv h.frozen sc' hmemS t (by rw [hdd]; exact ht) hne hnot
    (h.outside t ht hn)

/-- **one more attempt of a plain-value assignment `q := w`** keeps the invariant, whatever it does, when the damage
    set contains what an assignment to `q` triggers -/
theorem RecE.stepVal {d st : MState} {T : Path → Prop} {q : Path} (hid : MInv d) (scq : Scope d q)
    (hq : lookDef d.defs q = none) (hT : ∀ x, x ∈ findTaskids d.idx (chainR q) → T x) (h : RecE d T st)
    (sched : Sched)
    (hmemS : ∀ x, x ∈ sched (findTaskids st.idx (chainR q)) ↔ x ∈ findTaskids st.idx (chainR q))
    (k : Option Nat) (w : Val) :
    RecE d T (setValue sched { st with faultIn := k } q w).1 := by
  have hnd : lookDef ({ st with faultIn := k } : MState).defs q = none := by
    show lookDef st.defs q = none
    rw [h.defs]; exact hq
  rw [setValue_plain_unfold sched { st with faultIn := k } q w hnd]
  have hi1 : MInv { st with faultIn := k } := MInv_of_sameGraph (s := st) ⟨rfl, rfl, rfl⟩ h.inv
  have hi0 : MInv { st with faultIn := none } := MInv_of_sameGraph (s := st) ⟨rfl, rfl, rfl⟩ h.inv
  have sc' : Scope { st with faultIn := none } q :=
    scope_transfer d _ hid hi0 h.defs scq.nofault.symm q scq
  obtain ⟨hg1, hg2, hg3⟩ := writeAndRun_graph sched { st with faultIn := k } q w
  refine ⟨hg2.trans h.defs, MInv_of_sameGraph ⟨hg1, hg2, hg3⟩ hi1, hg3.trans h.frozen, ?_⟩
  intro t ht hn
  have hne : t.id ≠ q := ne_of_lookDef_none hid hq t ht
  have hnot : t.id ∉ sched (findTaskids st.idx (chainR q)) := by
    intro hx
    exact hn (hT _ ((findTaskids_mem_transfer d st hid h.inv h.defs (chainR q) t.id).mp ((hmemS _).mp hx)))
  exact writeAndRun_outside1 sched { st with faultIn := k } q w hi1 sc' hmemS t
    (by show t ∈ st.defs; rw [h.defs]; exact ht) hne hnot (h.outside t ht hn)

/-- **a completed fault-free repeat of `p := e`** from a state whose damage is confined to `trigE` leaves every
    definition holding -/
theorem RecE.finishExpr {d st : MState} {p : Path} {e : Expr} (hd : Committed d p e) (h : RecE d (trigE d p) st)
    (sched : Sched)
    (hvs : ValidSched (gOf (defPart { st with faultIn := none } p e).idx)
      (findTaskids (defPart { st with faultIn := none } p e).idx (chainR p))
      (sched (findTaskids (defPart { st with faultIn := none } p e).idx (chainR p))))
    (s' : MState) (hok : setExpr sched { st with faultIn := none } p e = (s', none)) :
    Consistent s' ∧ s'.defs = d.defs ∧ MInv s' ∧ s'.frozen = false ∧ s'.faultIn = none := by
  have hi0 : MInv { st with faultIn := none } := MInv_of_sameGraph (s := st) ⟨rfl, rfl, rfl⟩ h.inv
  have hf0 : ({ st with faultIn := none } : MState).frozen = false := h.frozen
  obtain ⟨hi2, hst, hsub⟩ := defPart_facts { st with faultIn := none } p e hi0 hf0
  obtain ⟨_, hfz2, hnf2⟩ := defPart_table { st with faultIn := none } p e hi0 hf0
  have hdd : (defPart { st with faultIn := none } p e).defs = d.defs := hd.redef _ hi0 hf0 h.defs
  have sc2 : Scope (defPart { st with faultIn := none } p e) p :=
    scope_transfer d _ hd.inv hi2 hdd (hnf2.trans hd.sc.nofault.symm) p hd.sc
  obtain ⟨v, hev, hw⟩ := setExpr_eq sched { st with faultIn := none } p e s' hf0 hok
  obtain ⟨hcons, h2, _, hnf, h5⟩ := writeAndRun_consistent sched (defPart { st with faultIn := none } p e) p v hi2 sc2 hvs
    (by
      intro t ht hne hnot
      rw [hst]
      refine h.outside t (by rw [← hdd]; exact ht) ?_
      rintro (hx | hx)
      · exact hne hx
      · exact hnot ((hvs.mem _).mpr ((findTaskids_mem_transfer d _ hd.inv hi2 hdd (chainR p) t.id).mpr hx)))
    (by
      intro t ht he
      rcases hsub t ht with ⟨_, hne⟩ | hx
      · exact absurd he hne
      · rw [hx]; exact hev)
    s' hw
  refine ⟨hcons, h2.trans hdd, ?_, h5.trans hfz2, hnf⟩
  have := setExpr_MInv sched { st with faultIn := none } p e hi0
  rw [hok] at this
  exact this

/-- **a completed fault-free plain-value assignment `q := w`** from a state whose damage is confined to what an
    assignment to `q` triggers leaves every definition holding -/
theorem RecE.finishVal {d st : MState} {T : Path → Prop} {q : Path} (hid : MInv d) (scq : Scope d q)
    (hq : lookDef d.defs q = none) (hT : ∀ x, T x → x ∈ findTaskids d.idx (chainR q)) (h : RecE d T st)
    (sched : Sched)
    (hvs : ValidSched (gOf st.idx) (findTaskids st.idx (chainR q)) (sched (findTaskids st.idx (chainR q))))
    (w : Val) (s' : MState) (hok : setValue sched { st with faultIn := none } q w = (s', none)) :
    Consistent s' ∧ s'.defs = d.defs ∧ s'.idx = st.idx ∧ MInv s' ∧ s'.frozen = false ∧ s'.faultIn = none := by
  have hnd : lookDef ({ st with faultIn := none } : MState).defs q = none := by
    show lookDef st.defs q = none
    rw [h.defs]; exact hq
  rw [setValue_plain_unfold sched { st with faultIn := none } q w hnd] at hok
  have hi0 : MInv { st with faultIn := none } := MInv_of_sameGraph (s := st) ⟨rfl, rfl, rfl⟩ h.inv
  have sc' : Scope { st with faultIn := none } q :=
    scope_transfer d _ hid hi0 h.defs scq.nofault.symm q scq
  obtain ⟨hcons, h2, h3, hnf, h5⟩ := writeAndRun_consistent sched { st with faultIn := none } q w hi0 sc' hvs
    (by
      intro t ht _ hnot
      have ht' : t ∈ d.defs := by rw [← h.defs]; exact ht
      refine h.outside t ht' (fun hx => hnot ((hvs.mem _).mpr ?_))
      exact (findTaskids_mem_transfer d st hid h.inv h.defs (chainR q) t.id).mpr (hT _ hx))
    (by
      intro t ht he
      have ht' : t ∈ d.defs := by rw [← h.defs]; exact ht
      exact absurd he (ne_of_lookDef_none hid hq t ht'))
    s' hok
  exact ⟨hcons, h2.trans h.defs, h3, MInv_of_sameGraph (s := { st with faultIn := none }) ⟨h3, h2, h5⟩ hi0,
    h5.trans h.frozen, hnf⟩

/-- an assignment to a location `q` the committed expression reads triggers the task of `p` and everything an
    assignment to `p` triggers -/
theorem trigE_sub {d : MState} {p : Path} {e : Expr} (hd : Committed d p e) (q : Path) (hq : q ∈ leafRefs e)
    (hqok : PathOK q) : ∀ x, trigE d p x → x ∈ findTaskids d.idx (chainR q) := by
  have hmk := hd.mem_mk
  have hstart : p ∈ startOf d.idx (chainR q) :=
    start_of_read d hd.inv hd.sc.exprs q (mkExprTask p e) hmk hqok.1 q hq hqok.1 (not_incomparable_self q)
  obtain ⟨_, hm⟩ := findTaskids_once_exact d hd.inv (chainR q)
  obtain ⟨_, hmp⟩ := findTaskids_once_exact d hd.inv (chainR p)
  intro x hx
  rw [hm x]
  rcases hx with rfl | hx
  · exact ⟨_, hstart, Dfs3.Reach.refl _⟩
  · obtain ⟨s0, hs0, r⟩ := (hmp x).mp hx
    obtain ⟨t, ht, hid, dd, hdd1, hdd2⟩ := (startOf_iff_declStart d hd.inv (chainR p) s0).mp hs0
    have hedge : s0 ∈ gOf d.idx p :=
      (gOf_iff_declEdge d hd.inv p s0).mpr ⟨mkExprTask p e, hmk, t, ht, rfl, hid, dd, hdd1, hdd2⟩
    exact ⟨p, hstart, Dfs3.Reach.step hedge r⟩

/-! ### one faulty expression assignment -/

/-- **(ii) the definitions outside the triggered list still hold** after `p := e` was cut at any container write
    (`k = some 0`: the write of `p` itself), met an evaluation error, or completed -/
theorem setExpr_outside (sched : Sched) (s : MState) (p : Path) (e : Expr) (k : Option Nat) (hi : MInv s)
    (hc : Consistent s) (hf : s.frozen = false) (sc : Scope (defPart s p e) p)
    (hvs : ValidSched (gOf (defPart s p e).idx) (findTaskids (defPart s p e).idx (chainR p))
      (sched (findTaskids (defPart s p e).idx (chainR p)))) :
    ∀ t ∈ (defPart s p e).defs, t.id ≠ p → t.id ∉ sched (findTaskids (defPart s p e).idx (chainR p)) →
      (exprSys pySem).Q (toE t) (setExpr sched { s with faultIn := k } p e).1.store := by
  intro t ht hne hnot
  refine (RecE.first sched s p e k hi hc hf sc hvs.mem).outside t ht ?_
  rintro (hx | hx)
  · exact hne hx
  · exact hnot ((hvs.mem _).mpr hx)

theorem writeRef_fail_store (s : MState) (p : Path) (v : Val) (s' : MState) (x : Err)
    (h : writeRef s p v = (s', some x)) : s'.store = s.store := by
  unfold writeRef at h
  cases hs : set s.store p v with
  | error y =>
    simp only [hs, Prod.mk.injEq] at h
    rw [← h.1]
  | ok σ' =>
    simp only [hs] at h
    cases hk : s.faultIn with
    | none => simp [hk] at h
    | some n =>
      cases n with
      | zero =>
        simp only [hk, Prod.mk.injEq] at h
        rw [← h.1]
      | succ n => simp [hk] at h

/-- **(iii) the exception reaches the caller and exactly a prefix has run.**  When `p := e` under a fault counter
    raises `x`, then either the evaluation of the new expression raised it (nothing was written), or the write of `p`
    itself did (position 0: the containers are untouched), or a triggered task `t` did after every task scheduled
    before it (`pre`) completed — and no task scheduled after it (`post`) ran.  In every case the state returned is
    the one the failing step left. -/
theorem setExpr_fail_prefix (sched : Sched) (s : MState) (p : Path) (e : Expr) (k : Option Nat) (hi : MInv s)
    (hf : s.frozen = false)
    (hsub : ∀ id ∈ sched (findTaskids (defPart s p e).idx (chainR p)), id ∈ findTaskids (defPart s p e).idx (chainR p))
    (sf : MState) (x : Err) (h : setExpr sched { s with faultIn := k } p e = (sf, some x)) :
    (evalE (defPart s p e) e = .error x ∧ sf = { defPart s p e with faultIn := k }) ∨
    ∃ v, evalE (defPart s p e) e = .ok v ∧
      ((writeRef { defPart s p e with faultIn := k } p v = (sf, some x) ∧ sf.store = s.store) ∨
       ∃ sw pre t post sm, writeRef { defPart s p e with faultIn := k } p v = (sw, none) ∧
         t ∈ (defPart s p e).defs ∧ t.id ∈ findTaskids (defPart s p e).idx (chainR p) ∧
         (pre ++ t :: post).map (·.id) = sched (findTaskids (defPart s p e).idx (chainR p)) ∧
         runTasks sw pre = (sm, none) ∧ runTask sm t = (sf, some x)) := by
  obtain ⟨hi0, hst, _⟩ := defPart_facts s p e hi hf
  rw [setExpr_fault_unfold sched s p e k hf] at h
  cases hev : evalE (defPart s p e) e with
  | error y =>
    simp only [hev, Prod.mk.injEq, Option.some.injEq] at h
    left
    exact ⟨by rw [h.2], h.1.symm⟩
  | ok v =>
    simp only [hev] at h
    right
    refine ⟨v, rfl, ?_⟩
    have hi1 : MInv { defPart s p e with faultIn := k } :=
      MInv_of_sameGraph (s := defPart s p e) ⟨rfl, rfl, rfl⟩ hi0
    rcases writeAndRun_error_source_inv sched { defPart s p e with faultIn := k } p v hi1 hsub sf x h with
      h1 | ⟨sw, pre, t, post, sm, hw, htr, hl, hpre, hfail⟩
    · left
      refine ⟨h1, ?_⟩
      rw [writeRef_fail_store _ p v sf x h1]
      exact hst
    · right
      exact ⟨sw, pre, t, post, sm, hw, htr.1, htr.2, hl, hpre, hfail⟩

/-- **(iv) recovery by repeating the expression assignment.**  From a consistent reachable state in C01's scope for
    `p := e`: whatever a first attempt did — failed at the k-th container write (`k = some 0`: the write of `p`
    itself), met an evaluation error, or completed — a fault-free repeat of `p := e`, under any schedule legal for the
    indices the repeat re-registers, when it completes leaves EVERY definition holding; the task table is the
    committed one. -/
theorem recover_exec_setExpr_repeat (sched sched' : Sched) (s : MState) (p : Path) (e : Expr) (k : Option Nat) (hi : MInv s)
    (hc : Consistent s) (hf : s.frozen = false) (sc : Scope (defPart s p e) p)
    (hvs : ValidSched (gOf (defPart s p e).idx) (findTaskids (defPart s p e).idx (chainR p))
      (sched (findTaskids (defPart s p e).idx (chainR p))))
    (hvs' : ValidSched (gOf (defPart (defPart s p e) p e).idx)
      (findTaskids (defPart (defPart s p e) p e).idx (chainR p))
      (sched' (findTaskids (defPart (defPart s p e) p e).idx (chainR p))))
    (s' : MState)
    (hok : setExpr sched' { (setExpr sched { s with faultIn := k } p e).1 with faultIn := none } p e = (s', none)) :
    Consistent s' ∧ s'.defs = (defPart s p e).defs ∧ MInv s' ∧ s'.frozen = false ∧ s'.faultIn = none := by
  have hd := committed_defPart s p e hi hf sc
  have h := RecE.first sched s p e k hi hc hf sc hvs.mem
  obtain ⟨g1, g2, g3⟩ := setExpr_fault_graph sched s p e k hf
  have hcg := defPart_congr (defPart s p e)
    { (setExpr sched { s with faultIn := k } p e).1 with faultIn := none } p e ⟨g1, g2, g3⟩
  refine h.finishExpr hd sched' ?_ s' hok
  rw [hcg.1]
  exact hvs'

/-- **(iv) recovery by a plain-value assignment to a location the new expression reads.**  After the same first
    attempt, a completed fault-free `q := w` for any plain location `q` that `e` reads (in C01's scope for an
    assignment to `q`, any legal schedule) leaves EVERY definition holding: it triggers the task of `p` and everything
    the failed assignment had triggered. -/
theorem recover_exec_setExpr_by_value (sched sched' : Sched) (s : MState) (p : Path) (e : Expr) (k : Option Nat)
    (hi : MInv s) (hc : Consistent s) (hf : s.frozen = false) (sc : Scope (defPart s p e) p)
    (hvs : ValidSched (gOf (defPart s p e).idx) (findTaskids (defPart s p e).idx (chainR p))
      (sched (findTaskids (defPart s p e).idx (chainR p))))
    (q : Path) (w : Val) (hq : q ∈ leafRefs e) (hqd : lookDef (defPart s p e).defs q = none)
    (scq : Scope (defPart s p e) q)
    (hvs' : ValidSched (gOf (defPart s p e).idx) (findTaskids (defPart s p e).idx (chainR q))
      (sched' (findTaskids (defPart s p e).idx (chainR q))))
    (s' : MState)
    (hok : setValue sched' { (setExpr sched { s with faultIn := k } p e).1 with faultIn := none } q w = (s', none)) :
    Consistent s' ∧ s'.defs = (defPart s p e).defs ∧ s'.idx = (defPart s p e).idx ∧ MInv s' ∧ s'.frozen = false ∧
      s'.faultIn = none := by
  have hd := committed_defPart s p e hi hf sc
  have h := RecE.first sched s p e k hi hc hf sc hvs.mem
  obtain ⟨g1, _, _⟩ := setExpr_fault_graph sched s p e k hf
  have hsub := trigE_sub hd q hq scq.pathP
  obtain ⟨h1, h2, h3, h4⟩ := (h.mono hsub).finishVal hd.inv scq hqd (fun _ hx => hx) sched'
    (by rw [g1]; exact hvs') w s' hok
  exact ⟨h1, h2, h3.trans g1, h4⟩

/-- **C18 for one expression assignment, all clauses.**  From a consistent reachable unfrozen state in C01's scope for
    `p := e`, with a legal schedule: run `p := e` with the k-th container write raising (`k = some 0`: the write of `p`
    itself; `none`: no fault).  Then
    (i) the task table, the four indices and the flag are those of the committed state `defPart s p e` — the definition
        is committed and nothing touches the graph while tasks run;
    (ii) every definition other than the new one and outside the triggered list still holds;
    (iii) if the call raised `x`: the evaluation of `e` raised it and nothing was written, or the write of `p` did and the
        containers are untouched, or a triggered task did after exactly the tasks scheduled before it, none after it;
    (iv) a completed fault-free repeat of `p := e` (any schedule legal for the re-registered indices) leaves EVERY
        definition holding, and so does a completed fault-free plain-value assignment to any plain location `q` that
        `e` reads (in C01's scope for `q`, any legal schedule). -/
theorem recover_exec_setExpr (sched : Sched) (s : MState) (p : Path) (e : Expr) (k : Option Nat) (hi : MInv s)
    (hc : Consistent s) (hf : s.frozen = false) (sc : Scope (defPart s p e) p)
    (hvs : ValidSched (gOf (defPart s p e).idx) (findTaskids (defPart s p e).idx (chainR p))
      (sched (findTaskids (defPart s p e).idx (chainR p)))) :
    SameGraph (defPart s p e) (setExpr sched { s with faultIn := k } p e).1 ∧
    (∀ t ∈ (defPart s p e).defs, t.id ≠ p → t.id ∉ sched (findTaskids (defPart s p e).idx (chainR p)) →
      (exprSys pySem).Q (toE t) (setExpr sched { s with faultIn := k } p e).1.store) ∧
    (∀ (sf : MState) (x : Err), setExpr sched { s with faultIn := k } p e = (sf, some x) →
      (evalE (defPart s p e) e = .error x ∧ sf = { defPart s p e with faultIn := k }) ∨
      ∃ v, evalE (defPart s p e) e = .ok v ∧
        ((writeRef { defPart s p e with faultIn := k } p v = (sf, some x) ∧ sf.store = s.store) ∨
         ∃ sw pre t post sm, writeRef { defPart s p e with faultIn := k } p v = (sw, none) ∧
           t ∈ (defPart s p e).defs ∧ t.id ∈ findTaskids (defPart s p e).idx (chainR p) ∧
           (pre ++ t :: post).map (·.id) = sched (findTaskids (defPart s p e).idx (chainR p)) ∧
           runTasks sw pre = (sm, none) ∧ runTask sm t = (sf, some x))) ∧
    (∀ (sched' : Sched) (s' : MState),
      ValidSched (gOf (defPart (defPart s p e) p e).idx) (findTaskids (defPart (defPart s p e) p e).idx (chainR p))
        (sched' (findTaskids (defPart (defPart s p e) p e).idx (chainR p))) →
      setExpr sched' { (setExpr sched { s with faultIn := k } p e).1 with faultIn := none } p e = (s', none) →
      Consistent s' ∧ s'.defs = (defPart s p e).defs ∧ MInv s') ∧
    (∀ (sched' : Sched) (q : Path) (w : Val) (s' : MState), q ∈ leafRefs e →
      lookDef (defPart s p e).defs q = none → Scope (defPart s p e) q →
      ValidSched (gOf (defPart s p e).idx) (findTaskids (defPart s p e).idx (chainR q))
        (sched' (findTaskids (defPart s p e).idx (chainR q))) →
      setValue sched' { (setExpr sched { s with faultIn := k } p e).1 with faultIn := none } q w = (s', none) →
      Consistent s' ∧ s'.defs = (defPart s p e).defs ∧ s'.idx = (defPart s p e).idx ∧ MInv s') := by
  refine ⟨setExpr_fault_graph sched s p e k hf, setExpr_outside sched s p e k hi hc hf sc hvs, ?_, ?_, ?_⟩
  · intro sf x h
    exact setExpr_fail_prefix sched s p e k hi hf (fun id hid => (hvs.mem id).mp hid) sf x h
  · intro sched' s' hvs' hok
    obtain ⟨h1, h2, h3, _⟩ := recover_exec_setExpr_repeat sched sched' s p e k hi hc hf sc hvs hvs' s' hok
    exact ⟨h1, h2, h3⟩
  · intro sched' q w s' hq hqd scq hvs' hok
    obtain ⟨h1, h2, h3, h4, _⟩ :=
      recover_exec_setExpr_by_value sched sched' s p e k hi hc hf sc hvs q w hq hqd scq hvs' s' hok
    exact ⟨h1, h2, h3, h4⟩

/-! ### any number of faulty attempts -/

/-- `sched` returns a legal execution list for an assignment to `p` on EVERY index state that satisfies the invariant
    for the task table `defs` (a retry of an expression assignment re-registers the task; the indices keep their rows
    as sets but may change their insertion order, and with it the list `find_taskids` hands to the scheduler) -/
def LegalFor (defs : List MTask) (p : Path) (sched : Sched) : Prop :=
  ∀ st : MState, MInv st → st.defs = defs →
    ValidSched (gOf st.idx) (findTaskids st.idx (chainR p)) (sched (findTaskids st.idx (chainR p)))

/-- the order `find_taskids` computes is legal for every index state (when the graph is acyclic below the start set) -/
theorem legalFor_id {d : MState} {p : Path} (hid : MInv d) (sc : Scope d p) : LegalFor d.defs p id := by
  intro st hi hd
  have hi0 : MInv { st with faultIn := d.faultIn } := MInv_of_sameGraph (s := st) ⟨rfl, rfl, rfl⟩ hi
  have sc' : Scope { st with faultIn := d.faultIn } p := scope_transfer d _ hid hi0 hd rfl p sc
  obtain ⟨hnd, _, hord⟩ := findTaskids_spec st hi (chainR p) sc'.acyclic
  exact ⟨hnd, fun _ => Iff.rfl, fun u w hu _ hw hne => hord u w hu hw hne⟩

/-- a fixed list that is a legal schedule for one index state is legal for all of them: this is the scheduler the
    driver plugs in (the order the implementation used) -/
theorem legalFor_const {d : MState} {p : Path} (hid : MInv d) (π : List Path)
    (h : ValidSched (gOf d.idx) (findTaskids d.idx (chainR p)) π) : LegalFor d.defs p (fun _ => π) := by
  intro st hi hd
  exact validSched_transfer st d hi hid hd.symm (chainR p) π h

/-- one attempt after the definition is committed: a retry of `p := e`, or a plain-value assignment to the location
    `q`; each with its own schedule and fault point (`none`: no fault injected), the value attempts with their own
    value -/
inductive EAttempt where
  | expr (sched : Sched) (k : Option Nat)
  | val (sched : Sched) (k : Option Nat) (w : Val)

def EAttempt.isExpr : EAttempt → Bool
  | .expr _ _ => true
  | .val _ _ _ => false

/-- the schedule of the attempt is legal for the assignment it makes -/
def EAttempt.Legal (defs : List MTask) (p q : Path) : EAttempt → Prop
  | .expr sched _ => LegalFor defs p sched
  | .val sched _ _ => LegalFor defs q sched

/-- the state after one attempt; its outcome (completed / raised) is ignored, a leftover fault counter is overwritten
    by the next attempt's -/
def attemptE (p : Path) (e : Expr) (q : Path) (st : MState) : EAttempt → MState
  | .expr sched k => (setExpr sched { st with faultIn := k } p e).1
  | .val sched k w => (setValue sched { st with faultIn := k } q w).1

def attemptsE (p : Path) (e : Expr) (q : Path) (s : MState) (l : List EAttempt) : MState :=
  l.foldl (attemptE p e q) s

theorem attemptsE_cons (p : Path) (e : Expr) (q : Path) (s : MState) (a : EAttempt) (l : List EAttempt) :
    attemptsE p e q s (a :: l) = attemptsE p e q (attemptE p e q s a) l := rfl

theorem attemptsE_append (p : Path) (e : Expr) (q : Path) (s : MState) (l1 l2 : List EAttempt) :
    attemptsE p e q s (l1 ++ l2) = attemptsE p e q (attemptsE p e q s l1) l2 := by
  unfold attemptsE; rw [List.foldl_append]

/-- retries of `p := e` alone keep the damage inside `T ⊇ trigE` -/
theorem RecE.attemptsExpr {d : MState} {T : Path → Prop} {p : Path} {e : Expr} (q : Path) (hd : Committed d p e)
    (hT : ∀ x, trigE d p x → T x) : ∀ (l : List EAttempt), (∀ a ∈ l, a.isExpr = true) →
    (∀ a ∈ l, a.Legal d.defs p q) → ∀ st, RecE d T st → RecE d T (attemptsE p e q st l)
  | [], _, _, _, h => h
  | a :: l, hex, hl, st, h => by
    rw [attemptsE_cons]
    refine RecE.attemptsExpr q hd hT l (fun b hb => hex b (List.mem_cons_of_mem _ hb))
      (fun b hb => hl b (List.mem_cons_of_mem _ hb)) _ ?_
    cases a with
    | val sched k w => exact absurd (hex _ (List.mem_cons_self ..)) (by simp [EAttempt.isExpr])
    | expr sched k =>
      have hleg : LegalFor d.defs p sched := hl _ (List.mem_cons_self ..)
      have hi0 := (defPart_facts st p e h.inv h.frozen).1
      exact h.stepExpr hd hT sched (hleg _ hi0 (hd.redef st h.inv h.frozen h.defs)).mem k

/-- retries of `p := e` mixed with value assignments to `q` keep the damage inside what an assignment to `q` triggers -/
theorem RecE.attemptsMixed {d : MState} {p : Path} {e : Expr} {q : Path} (hd : Committed d p e) (scq : Scope d q)
    (hq : lookDef d.defs q = none) (hsub : ∀ x, trigE d p x → x ∈ findTaskids d.idx (chainR q)) :
    ∀ (l : List EAttempt), (∀ a ∈ l, a.Legal d.defs p q) →
    ∀ st, RecE d (fun x => x ∈ findTaskids d.idx (chainR q)) st →
      RecE d (fun x => x ∈ findTaskids d.idx (chainR q)) (attemptsE p e q st l)
  | [], _, _, h => h
  | a :: l, hl, st, h => by
    rw [attemptsE_cons]
    refine RecE.attemptsMixed hd scq hq hsub l (fun b hb => hl b (List.mem_cons_of_mem _ hb)) _ ?_
    cases a with
    | val sched k w =>
      have hleg : LegalFor d.defs q sched := hl _ (List.mem_cons_self ..)
      exact h.stepVal hd.inv scq hq (fun _ hx => hx) sched (hleg st h.inv h.defs).mem k w
    | expr sched k =>
      have hleg : LegalFor d.defs p sched := hl _ (List.mem_cons_self ..)
      have hi0 := (defPart_facts st p e h.inv h.frozen).1
      exact h.stepExpr hd hsub sched (hleg _ hi0 (hd.redef st h.inv h.frozen h.defs)).mem k

/-- **C18, expression assignment, any number of faulty attempts, repaired by the repeat.**  The first attempt of
    `p := e` (legal schedule `sched0`, cut at `k0` or not) commits the definition; then any number of retries of
    `p := e`, each with its own legal schedule and fault point; then a fault-free repeat of `p := e` under a legal
    schedule.  When the repeat completes, every definition holds and the task table is the committed one. -/
theorem setExpr_recover_multi (s : MState) (p : Path) (e : Expr) (sched0 : Sched) (k0 : Option Nat)
    (l : List EAttempt) (sched' : Sched) (q : Path) (hi : MInv s) (hc : Consistent s) (hf : s.frozen = false)
    (sc : Scope (defPart s p e) p)
    (hvs0 : ValidSched (gOf (defPart s p e).idx) (findTaskids (defPart s p e).idx (chainR p))
      (sched0 (findTaskids (defPart s p e).idx (chainR p))))
    (hex : ∀ a ∈ l, a.isExpr = true) (hl : ∀ a ∈ l, a.Legal (defPart s p e).defs p q)
    (hl' : LegalFor (defPart s p e).defs p sched') (s' : MState)
    (hok : setExpr sched'
      { attemptsE p e q (setExpr sched0 { s with faultIn := k0 } p e).1 l with faultIn := none } p e = (s', none)) :
    Consistent s' ∧ s'.defs = (defPart s p e).defs ∧ MInv s' ∧ s'.frozen = false ∧ s'.faultIn = none := by
  have hd := committed_defPart s p e hi hf sc
  have h := RecE.attemptsExpr q hd (fun _ hx => hx) l hex hl _ (RecE.first sched0 s p e k0 hi hc hf sc hvs0.mem)
  have hi0 : MInv { attemptsE p e q (setExpr sched0 { s with faultIn := k0 } p e).1 l with faultIn := none } :=
    MInv_of_sameGraph (s := attemptsE p e q (setExpr sched0 { s with faultIn := k0 } p e).1 l) ⟨rfl, rfl, rfl⟩ h.inv
  exact h.finishExpr hd sched'
    (hl' _ (defPart_facts _ p e hi0 h.frozen).1 (hd.redef _ hi0 h.frozen h.defs)) s' hok

/-- **C18, expression assignment, any number of faulty attempts of expression AND value assignments, repaired by a
    value assignment.**  The first attempt of `p := e` commits the definition; then any number of attempts, each either
    a retry of `p := e` or a plain-value assignment `q := w_i` to a location `q` that `e` reads, each with its own legal
    schedule, fault point and value; then a fault-free `q := w`.  When it completes, every definition holds. -/
theorem setExpr_recover_multi_by_value (s : MState) (p : Path) (e : Expr) (sched0 : Sched) (k0 : Option Nat)
    (l : List EAttempt) (sched' : Sched) (q : Path) (w : Val) (hi : MInv s) (hc : Consistent s)
    (hf : s.frozen = false) (sc : Scope (defPart s p e) p)
    (hvs0 : ValidSched (gOf (defPart s p e).idx) (findTaskids (defPart s p e).idx (chainR p))
      (sched0 (findTaskids (defPart s p e).idx (chainR p))))
    (hq : q ∈ leafRefs e) (hqd : lookDef (defPart s p e).defs q = none) (scq : Scope (defPart s p e) q)
    (hl : ∀ a ∈ l, a.Legal (defPart s p e).defs p q)
    (hl' : LegalFor (defPart s p e).defs q sched') (s' : MState)
    (hok : setValue sched'
      { attemptsE p e q (setExpr sched0 { s with faultIn := k0 } p e).1 l with faultIn := none } q w = (s', none)) :
    Consistent s' ∧ s'.defs = (defPart s p e).defs ∧ MInv s' ∧ s'.frozen = false ∧ s'.faultIn = none := by
  have hd := committed_defPart s p e hi hf sc
  have hsub := trigE_sub hd q hq scq.pathP
  have h := RecE.attemptsMixed hd scq hqd hsub l hl _
    ((RecE.first sched0 s p e k0 hi hc hf sc hvs0.mem).mono hsub)
  obtain ⟨h1, h2, _, h4⟩ := h.finishVal hd.inv scq hqd (fun _ hx => hx) sched' (hl' _ h.inv h.defs) w s' hok
  exact ⟨h1, h2, h4⟩

/-- after the attempts alone (no repeat yet): the task table is the committed one, the index invariant holds, and every
    definition that an assignment to `q` does not trigger still holds — the damage is confined -/
theorem attemptsE_recoverable (s : MState) (p : Path) (e : Expr) (sched0 : Sched) (k0 : Option Nat)
    (l : List EAttempt) (q : Path) (hi : MInv s) (hc : Consistent s) (hf : s.frozen = false)
    (sc : Scope (defPart s p e) p)
    (hvs0 : ValidSched (gOf (defPart s p e).idx) (findTaskids (defPart s p e).idx (chainR p))
      (sched0 (findTaskids (defPart s p e).idx (chainR p))))
    (hq : q ∈ leafRefs e) (hqd : lookDef (defPart s p e).defs q = none) (scq : Scope (defPart s p e) q)
    (hl : ∀ a ∈ l, a.Legal (defPart s p e).defs p q) :
    RecE (defPart s p e) (fun x => x ∈ findTaskids (defPart s p e).idx (chainR q))
      (attemptsE p e q (setExpr sched0 { s with faultIn := k0 } p e).1 l) := by
  have hd := committed_defPart s p e hi hf sc
  have hsub := trigE_sub hd q hq scq.pathP
  exact RecE.attemptsMixed hd scq hqd hsub l hl _ ((RecE.first sched0 s p e k0 hi hc hf sc hvs0.mem).mono hsub)

/-! ### decided: every hypothesis a Boolean test -/

/-- the decidable hypotheses of `recover_exec_setExpr` about the first (possibly faulty) attempt of `p := e`, as the
    driver evaluates them on the line of the attempt (`scope_e18`): not frozen, every definition holds beforehand,
    C01's scope at the committed state, the schedule is legal.  The fault counter of `s` is ignored (the driver's
    state carries the armed fault). -/
def exprFaultScopeB (sched : Sched) (s : MState) (p : Path) (e : Expr) : Bool :=
  !s.frozen && consistentB { s with faultIn := none } &&
    scopeB (defPart { s with faultIn := none } p e) p &&
    validSchedule (defPart { s with faultIn := none } p e).idx (chainR p)
      (sched (findTaskids (defPart { s with faultIn := none } p e).idx (chainR p)))

theorem exprFaultScopeB_sound (sched : Sched) (s : MState) (p : Path) (e : Expr) (hi : MInv s)
    (h : exprFaultScopeB sched s p e = true) :
    MInv { s with faultIn := none } ∧ Consistent { s with faultIn := none } ∧
    ({ s with faultIn := none } : MState).frozen = false ∧ Scope (defPart { s with faultIn := none } p e) p ∧
    ValidSched (gOf (defPart { s with faultIn := none } p e).idx)
      (findTaskids (defPart { s with faultIn := none } p e).idx (chainR p))
      (sched (findTaskids (defPart { s with faultIn := none } p e).idx (chainR p))) := by
  unfold exprFaultScopeB at h
  simp only [Bool.and_eq_true, Bool.not_eq_true'] at h
  obtain ⟨⟨⟨hf, hc⟩, hsc⟩, hv⟩ := h
  have hi0 : MInv { s with faultIn := none } := MInv_of_sameGraph (s := s) ⟨rfl, rfl, rfl⟩ hi
  have hid := (defPart_facts { s with faultIn := none } p e hi0 hf).1
  exact ⟨hi0, consistentB_sound _ hc, hf, scopeB_sound _ hid p hsc,
    validSchedule_sound _ (chainR p) _ hv (scopeB_acyclic _ p hsc)⟩

/-- **recovery of an expression assignment, all hypotheses as Boolean tests**: the first attempt's line passes
    `exprFaultScopeB`; the repeat's line passes the ordinary scope test of an expression assignment (`scopeB` and
    `validSchedule` at the state it re-registers) -/
theorem recover_exec_setExpr_decided (sched sched' : Sched) (s : MState) (p : Path) (e : Expr) (k : Option Nat)
    (hi : MInv s) (h : exprFaultScopeB sched s p e = true)
    (hsc' : scopeB (defPart (defPart { s with faultIn := none } p e) p e) p = true)
    (hv' : validSchedule (defPart (defPart { s with faultIn := none } p e) p e).idx (chainR p)
      (sched' (findTaskids (defPart (defPart { s with faultIn := none } p e) p e).idx (chainR p))) = true)
    (s' : MState)
    (hok : setExpr sched' { (setExpr sched { s with faultIn := k } p e).1 with faultIn := none } p e = (s', none)) :
    Consistent s' ∧ s'.defs = (defPart { s with faultIn := none } p e).defs ∧ MInv s' ∧ s'.frozen = false ∧
      s'.faultIn = none := by
  obtain ⟨hi0, hc, hf, sc, hvs⟩ := exprFaultScopeB_sound sched s p e hi h
  exact recover_exec_setExpr_repeat sched sched' { s with faultIn := none } p e k hi0 hc hf sc hvs
    (validSchedule_sound _ (chainR p) _ hv' (scopeB_acyclic _ p hsc')) s' hok

/-- the same for the recovery by a plain-value assignment to a location the expression reads -/
theorem recover_exec_setExpr_by_value_decided (sched sched' : Sched) (s : MState) (p : Path) (e : Expr)
    (k : Option Nat) (hi : MInv s) (h : exprFaultScopeB sched s p e = true) (q : Path) (w : Val)
    (hq : q ∈ leafRefs e) (hqd : lookDef (defPart { s with faultIn := none } p e).defs q = none)
    (hscq : scopeB (defPart { s with faultIn := none } p e) q = true)
    (hv' : validSchedule (defPart { s with faultIn := none } p e).idx (chainR q)
      (sched' (findTaskids (defPart { s with faultIn := none } p e).idx (chainR q))) = true)
    (s' : MState)
    (hok : setValue sched' { (setExpr sched { s with faultIn := k } p e).1 with faultIn := none } q w = (s', none)) :
    Consistent s' ∧ s'.defs = (defPart { s with faultIn := none } p e).defs ∧
      s'.idx = (defPart { s with faultIn := none } p e).idx ∧ MInv s' ∧ s'.frozen = false ∧ s'.faultIn = none := by
  obtain ⟨hi0, hc, hf, sc, hvs⟩ := exprFaultScopeB_sound sched s p e hi h
  have hid := (defPart_facts { s with faultIn := none } p e hi0 hf).1
  exact recover_exec_setExpr_by_value sched sched' { s with faultIn := none } p e k hi0 hc hf sc hvs q w hq hqd
    (scopeB_sound _ hid q hscq) (validSchedule_sound _ (chainR q) _ hv' (scopeB_acyclic _ q hscq)) s' hok

/-! ### non-vacuity
The state `C18MultiExample.sE`: `d = {a: 5, b: 2, c: 7, e: 14}` with `c = a + b`, `e = c * 2`.  The assignment
`d.c := a * b` replaces the definition of `c`; it writes `c` (position 0) and then `e` (position 1). -/
namespace C18ExprExample
open C18FnExample C18MultiExample

def eNew : Expr := .bin "Mul" (.ref da) (.ref db)
/-- the committed state: `c = a * b`, `e = c * 2`, data untouched -/
def dE : MState := defPart sE dc eNew

/-- every hypothesis of `recover_exec_setExpr_decided` / `_by_value_decided` holds -/
theorem sE_expr_hyps : exprFaultScopeB id sE dc eNew = true ∧
    scopeB (defPart dE dc eNew) dc = true ∧
    validSchedule (defPart dE dc eNew).idx (chainR dc) (id (findTaskids (defPart dE dc eNew).idx (chainR dc))) = true ∧
    da ∈ leafRefs eNew ∧ lookDef dE.defs da = none ∧ scopeB dE da = true ∧
    validSchedule dE.idx (chainR da) (id (findTaskids dE.idx (chainR da))) = true := by decide

/-- fault at position 1 (the write of `e`): the call raises, the definition `c = a * b` is committed, `c = 10` is new,
    `e = 14` is stale -/
def failed1 : MState := (setExpr id { sE with faultIn := some 1 } dc eNew).1
example : (setExpr id { sE with faultIn := some 1 } dc eNew).2 = some .fault := rfl
example : exprOf failed1 dc = some eNew ∧ failed1.defs = dE.defs ∧ failed1.idx = dE.idx := ⟨rfl, rfl, rfl⟩
example : get failed1.store dc = .ok (.int 10) ∧ get failed1.store de = .ok (.int 14) ∧ consistentB failed1 = false :=
  ⟨rfl, rfl, by decide⟩

/-- fault at position 0 (the write of `c` itself): the definition is committed all the same, no data changed, and
    `c = 7` no longer is what its definition says -/
def failed0 : MState := (setExpr id { sE with faultIn := some 0 } dc eNew).1
example : (setExpr id { sE with faultIn := some 0 } dc eNew).2 = some .fault := rfl
example : exprOf failed0 dc = some eNew ∧ failed0.defs = dE.defs ∧ failed0.store = sE.store ∧
    consistentB failed0 = false := ⟨rfl, rfl, rfl, by decide⟩

/-- the fault-free repeat completes: `c = 10`, `e = 20` -/
example : (setExpr id { failed1 with faultIn := none } dc eNew).2 = none ∧
    get (setExpr id { failed1 with faultIn := none } dc eNew).1.store dc = .ok (.int 10) ∧
    get (setExpr id { failed1 with faultIn := none } dc eNew).1.store de = .ok (.int 20) := ⟨rfl, rfl, rfl⟩

/-- the theorem applied, fault at ANY position `k`: the hypotheses hold, and the premise is satisfiable (`k = some 1`) -/
example (k : Option Nat) (s' : MState)
    (hok : setExpr id { (setExpr id { sE with faultIn := k } dc eNew).1 with faultIn := none } dc eNew = (s', none)) :
    Consistent s' :=
  (recover_exec_setExpr_decided id id sE dc eNew k sE_inv sE_expr_hyps.1 sE_expr_hyps.2.1 sE_expr_hyps.2.2.1 s' hok).1

theorem failed1_recovered : Consistent (setExpr id { failed1 with faultIn := none } dc eNew).1 :=
  (recover_exec_setExpr_decided id id sE dc eNew (some 1) sE_inv sE_expr_hyps.1 sE_expr_hyps.2.1 sE_expr_hyps.2.2.1 _
    (Prod.ext rfl rfl)).1

theorem failed0_recovered : Consistent (setExpr id { failed0 with faultIn := none } dc eNew).1 :=
  (recover_exec_setExpr_decided id id sE dc eNew (some 0) sE_inv sE_expr_hyps.1 sE_expr_hyps.2.1 sE_expr_hyps.2.2.1 _
    (Prod.ext rfl rfl)).1

/-- recovery by a value assignment to `a`, which the new expression reads: `a := 3` gives `c = 6`, `e = 12` -/
theorem failed1_recovered_by_value : Consistent (setValue id { failed1 with faultIn := none } da (.int 3)).1 :=
  (recover_exec_setExpr_by_value_decided id id sE dc eNew (some 1) sE_inv sE_expr_hyps.1 da (.int 3)
    sE_expr_hyps.2.2.2.1 sE_expr_hyps.2.2.2.2.1 sE_expr_hyps.2.2.2.2.2.1 sE_expr_hyps.2.2.2.2.2.2 _ (Prod.ext rfl rfl)).1

example : (setValue id { failed1 with faultIn := none } da (.int 3)).2 = none ∧
    get (setValue id { failed1 with faultIn := none } da (.int 3)).1.store dc = .ok (.int 6) ∧
    get (setValue id { failed1 with faultIn := none } da (.int 3)).1.store de = .ok (.int 12) := ⟨rfl, rfl, rfl⟩

/-- the prefix clause on the example: fault at position 1 — the write of `c` went through, the triggered list is
    `[e]`, nothing ran before `e`, the task of `e` raised -/
example : ∃ v, evalE dE eNew = .ok v ∧ ∃ sw t, writeRef { dE with faultIn := some 1 } dc v = (sw, none) ∧
    t ∈ dE.defs ∧ [t].map (·.id) = id (findTaskids dE.idx (chainR dc)) ∧ runTask sw t = (failed1, some .fault) :=
  ⟨.int 10, rfl, _, mkExprTask de (.bin "Mul" (.ref dc) (.lit (.int 2))), rfl, lookDef_mem (id := de) rfl, rfl, rfl⟩

/-! #### several faulty attempts: the first attempt cut at the write of `e`, a retry cut at the write of `c`, a value
    assignment `a := 3` cut at the write of `c`, a retry that completes, a value assignment `a := 4` cut at its very
    first write; then the fault-free `a := 6` -/
def mixedE : List EAttempt :=
  [.expr id (some 0), .val id (some 1) (.int 3), .expr id none, .val id (some 0) (.int 4)]

def afterMixed : MState := attemptsE dc eNew da failed1 mixedE

example : (setExpr id { failed1 with faultIn := some 0 } dc eNew).2 = some .fault ∧
    (setValue id { attemptsE dc eNew da failed1 (mixedE.take 1) with faultIn := some 1 } da (.int 3)).2 = some .fault ∧
    (setExpr id { attemptsE dc eNew da failed1 (mixedE.take 2) with faultIn := none } dc eNew).2 = none ∧
    (setValue id { attemptsE dc eNew da failed1 (mixedE.take 3) with faultIn := some 0 } da (.int 4)).2 = some .fault :=
  ⟨rfl, rfl, rfl, rfl⟩

theorem dE_committed : Committed dE dc eNew :=
  committed_defPart sE dc eNew sE_inv rfl
    (exprFaultScopeB_sound id sE dc eNew sE_inv sE_expr_hyps.1).2.2.2.1

theorem mixedE_legal : ∀ a ∈ mixedE, a.Legal dE.defs dc da := by
  have hp : LegalFor dE.defs dc id := legalFor_id dE_committed.inv dE_committed.sc
  have hq : LegalFor dE.defs da id :=
    legalFor_id dE_committed.inv (scopeB_sound dE dE_committed.inv da sE_expr_hyps.2.2.2.2.2.1)
  intro a ha
  simp only [mixedE, List.mem_cons, List.not_mem_nil, or_false] at ha
  rcases ha with rfl | rfl | rfl | rfl
  · exact hp
  · exact hq
  · exact hp
  · exact hq

theorem mixed_recovered : Consistent (setValue id { afterMixed with faultIn := none } da (.int 6)).1 :=
  (setExpr_recover_multi_by_value sE dc eNew id (some 1) mixedE id da (.int 6) sE_inv
    (exprFaultScopeB_sound id sE dc eNew sE_inv sE_expr_hyps.1).2.1 rfl dE_committed.sc
    (exprFaultScopeB_sound id sE dc eNew sE_inv sE_expr_hyps.1).2.2.2.2
    sE_expr_hyps.2.2.2.1 sE_expr_hyps.2.2.2.2.1 (scopeB_sound dE dE_committed.inv da sE_expr_hyps.2.2.2.2.2.1)
    mixedE_legal (legalFor_id dE_committed.inv (scopeB_sound dE dE_committed.inv da sE_expr_hyps.2.2.2.2.2.1))
    _ (Prod.ext rfl rfl)).1

example : (setValue id { afterMixed with faultIn := none } da (.int 6)).2 = none ∧
    get (setValue id { afterMixed with faultIn := none } da (.int 6)).1.store dc = .ok (.int 12) ∧
    get (setValue id { afterMixed with faultIn := none } da (.int 6)).1.store de = .ok (.int 24) := ⟨rfl, rfl, rfl⟩

/-- retries only, repaired by the repeat of the expression assignment -/
def retries : List EAttempt := [.expr id (some 0), .expr id (some 1), .expr id (some 0)]

theorem retries_recovered :
    Consistent (setExpr id { attemptsE dc eNew da failed1 retries with faultIn := none } dc eNew).1 :=
  (setExpr_recover_multi sE dc eNew id (some 1) retries id da sE_inv
    (exprFaultScopeB_sound id sE dc eNew sE_inv sE_expr_hyps.1).2.1 rfl dE_committed.sc
    (exprFaultScopeB_sound id sE dc eNew sE_inv sE_expr_hyps.1).2.2.2.2
    (by intro a ha
        simp only [retries, List.mem_cons, List.not_mem_nil, or_false] at ha
        rcases ha with rfl | rfl | rfl <;> rfl)
    (by intro a ha
        simp only [retries, List.mem_cons, List.not_mem_nil, or_false] at ha
        rcases ha with rfl | rfl | rfl <;> exact legalFor_id dE_committed.inv dE_committed.sc)
    (legalFor_id dE_committed.inv dE_committed.sc) _ (Prod.ext rfl rfl)).1

/-! #### outside the scope: a new expression that reads its own target.
`d.c := c + a` violates H3 of `Scope` (`scopeB` rejects it).  `set_value` evaluates `7 + 5 = 12`, writes it, and then runs
the new task again because it depends on the location just written: the FAULT-FREE call ends with `c = 17`, `e = 34`.
With the second write of `c` cut and the assignment repeated, `c = 22`, `e = 44`: the repeat does not bring the state the
fault-free call would have produced, and the definition `c = c + a` holds in neither (no theorem above applies;
`C01_set_expr` does not either). -/
def eSelf : Expr := .bin "Add" (.ref dc) (.ref da)

theorem self_read_outside_scope : scopeB (defPart sE dc eSelf) dc = false ∧
    exprFaultScopeB id sE dc eSelf = false := by decide

theorem self_read_recovery_fails :
    (setExpr id sE dc eSelf).2 = none ∧
    get (setExpr id sE dc eSelf).1.store dc = .ok (.int 17) ∧ get (setExpr id sE dc eSelf).1.store de = .ok (.int 34) ∧
    (setExpr id { sE with faultIn := some 1 } dc eSelf).2 = some .fault ∧
    get (setExpr id { sE with faultIn := some 1 } dc eSelf).1.store dc = .ok (.int 12) ∧
    (setExpr id { (setExpr id { sE with faultIn := some 1 } dc eSelf).1 with faultIn := none } dc eSelf).2 = none ∧
    get (setExpr id { (setExpr id { sE with faultIn := some 1 } dc eSelf).1 with faultIn := none } dc eSelf).1.store dc
      = .ok (.int 22) ∧
    get (setExpr id { (setExpr id { sE with faultIn := some 1 } dc eSelf).1 with faultIn := none } dc eSelf).1.store de
      = .ok (.int 44) ∧
    consistentB (setExpr id { (setExpr id { sE with faultIn := some 1 } dc eSelf).1 with faultIn := none } dc eSelf).1
      = false :=
  ⟨rfl, rfl, rfl, rfl, rfl, rfl, rfl, rfl, by decide⟩

end C18ExprExample

#print axioms setExpr_fault_unfold
#print axioms setExpr_fault_graph
#print axioms writeAndRun_outside1
#print axioms setExpr_outside1
#print axioms RecE.first
#print axioms RecE.stepExpr
#print axioms RecE.stepVal
#print axioms RecE.finishExpr
#print axioms RecE.finishVal
#print axioms trigE_sub
#print axioms setExpr_outside
#print axioms setExpr_fail_prefix
#print axioms recover_exec_setExpr_repeat
#print axioms recover_exec_setExpr
#print axioms recover_exec_setExpr_by_value
#print axioms legalFor_id
#print axioms legalFor_const
#print axioms setExpr_recover_multi
#print axioms setExpr_recover_multi_by_value
#print axioms attemptsE_recoverable
#print axioms recover_exec_setExpr_decided
#print axioms recover_exec_setExpr_by_value_decided
#print axioms C18ExprExample.failed1_recovered
#print axioms C18ExprExample.mixed_recovered
#print axioms C18ExprExample.retries_recovered
#print axioms C18ExprExample.self_read_recovery_fails

end Manager
