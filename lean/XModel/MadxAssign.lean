import XModel.MadxThms
import XModel.MadxParen
import XModel.MadxPrec
/-!
# C19, the assignment statement: `start: sum | NAME "=" sum -> assign_var`

`MadxEval.assign_var(name, value)` stores `value` under `name` in the evaluator's `variables` and returns it.

* IMMEDIATE (`variables` is a plain mapping): `value` is a number; `n = e` evaluates `e` on the current variables and
  stores the number (`stepImm`, `runImm`).
* DEFERRED (`variables` is the reference `v` of a `Manager`): `value` is the expression the callbacks built over
  `v[...]`, and `v[n] = value` DEFINES `n`: the manager registers the task `v[n] := value`, runs it, and from then on
  re-runs it whenever something it reads changes (push model; C01).  The model keeps the deferred state as
  `(plain values, ordered definition list)`; `define` replaces an earlier definition of the same name; the values
  the variables hold are `settle`: the definitions re-evaluated in list order on top of the plain values.

  List order is the manager's dependency order exactly when every definition reads only names that are plain or defined
  EARLIER in the list (`OrderedDefs`; for statement lists `WellOrdered`): then `settle` returns the one environment in
  which every defined variable holds the value of its tree (`settle_consistent`, `consistent_unique` — the push-model
  specification, what C01 proves of the manager), and it fails to outside (`not_consistent_outside`).

Variables live in an environment `Env V := String → Option V` laid over the value algebra `ops` of `Madx.lean`
(`Ops.withEnv`: a name the environment does not hold falls through to `ops.var`, which is where `MadxEnv`'s
`defaultdict(lambda: 0)` or the `KeyError` of a plain dict live).

An expression statement evaluated deferred is modelled as PULLED (`madexpr(s)._get_value()`, the property's observable):
Python itself only builds the expression and raises nothing until its value is asked for.

Main results: `deferred_eq_immediate`, `deferred_follows_updates(_list)`, `parseStmt_assign_fullParen`.
-/
namespace Madx

/-! ### statements and their parser -/

inductive Stmt where
  | assign (n : String) (t : MTree)
  | expr (t : MTree)

/-- `start: sum | NAME "=" sum`: two tokens of look-ahead decide (a `sum` never contains `=`) -/
def parseStmt : List Tok → Option Stmt
  | .name n :: .assign :: rest => (parse rest).map (Stmt.assign n)
  | toks => (parse toks).map Stmt.expr

/-! ### environments -/

abbrev Env (V : Type) := String → Option V

def Env.set {V : Type} (env : Env V) (n : String) (v : V) : Env V :=
  fun y => if y = n then some v else env y

/-- the value algebra with the variables taken from `env` first -/
def Ops.withEnv {V : Type} (ops : Ops V) (env : Env V) : Ops V :=
  { ops with var := fun n => match env n with
                             | some v => .ok v
                             | none => ops.var n }

mutual
/-- the variable names a tree reads -/
def reads : MTree → List String
  | .number _ => []
  | .var n => [n]
  | .getitem _ _ => []
  | .neg a => reads a
  | .pos a => reads a
  | .call _ args => readsArgs args
  | .add l r => reads l ++ reads r
  | .sub l r => reads l ++ reads r
  | .mul l r => reads l ++ reads r
  | .div l r => reads l ++ reads r
  | .pow l r => reads l ++ reads r
def readsArgs : List MTree → List String
  | [] => []
  | a :: rest => reads a ++ readsArgs rest
end

/-! ### immediate semantics -/

def stepImm {V : Type} (ops : Ops V) (env : Env V) : Stmt → Except MErr (Env V)
  | .assign n t => (evalI (ops.withEnv env) false t).bind (fun v => .ok (env.set n v))
  | .expr t => (evalI (ops.withEnv env) false t).bind (fun _ => .ok env)

def runImm {V : Type} (ops : Ops V) : Env V → List Stmt → Except MErr (Env V)
  | env, [] => .ok env
  | env, s :: ss => (stepImm ops env s).bind (fun env' => runImm ops env' ss)

/-! ### deferred semantics -/

structure DState (V : Type) where
  plain : Env V
  defs : List (String × MTree)

def names (ds : List (String × MTree)) : List String := ds.map (·.1)

/-- re-evaluate the definitions in list order on top of `env` (the deferred evaluator: guarded division) -/
def settle {V : Type} (ops : Ops V) : Env V → List (String × MTree) → Except MErr (Env V)
  | env, [] => .ok env
  | env, (n, t) :: ds => (evalI (ops.withEnv env) true t).bind (fun v => settle ops (env.set n v) ds)

/-- the values the variables hold in a deferred state -/
def DState.env {V : Type} (ops : Ops V) (st : DState V) : Except MErr (Env V) := settle ops st.plain st.defs

/-- `v[n] = expression`: an earlier definition of `n` is dropped, the new one is the youngest -/
def define (ds : List (String × MTree)) (n : String) (t : MTree) : List (String × MTree) :=
  ds.filter (fun d => d.1 != n) ++ [(n, t)]

def stepDef {V : Type} (ops : Ops V) (st : DState V) : Stmt → Except MErr (DState V)
  | .assign n t =>
    let st' : DState V := { st with defs := define st.defs n t }
    (st'.env ops).bind (fun _ => .ok st')
  | .expr t => (st.env ops).bind (fun env => (evalI (ops.withEnv env) true t).bind (fun _ => .ok st))

def runDef {V : Type} (ops : Ops V) : DState V → List Stmt → Except MErr (DState V)
  | st, [] => .ok st
  | st, s :: ss => (stepDef ops st s).bind (fun st' => runDef ops st' ss)

/-- `v[x] = number` later on: a definition of `x` is dropped, the plain value stored; what the variables then hold is
    `(st.update x v).env` -/
def DState.update {V : Type} (st : DState V) (x : String) (v : V) : DState V :=
  { plain := st.plain.set x v, defs := st.defs.filter (fun d => d.1 != x) }

def DState.updates {V : Type} (st : DState V) : List (String × V) → DState V
  | [] => st
  | (x, v) :: us => (st.update x v).updates us

def Env.sets {V : Type} (env : Env V) : List (String × V) → Env V
  | [] => env
  | (x, v) :: us => (env.set x v).sets us

/-! ### the scope -/

def defsOf : List Stmt → List (String × MTree)
  | [] => []
  | .assign n t :: ss => (n, t) :: defsOf ss
  | .expr _ :: ss => defsOf ss

/-- the names a statement list assigns -/
def assigned (ss : List Stmt) : List String := names (defsOf ss)

/-- every definition reads only names that are not defined at or after it, and no name is defined twice -/
def OrderedDefs : List (String × MTree) → Bool
  | [] => true
  | (n, t) :: ds =>
    decide (n ∉ names ds) && decide (∀ r ∈ reads t, r ≠ n ∧ r ∉ names ds) && OrderedDefs ds

/-- every assignment reads only variables that are plain (never assigned) or assigned EARLIER, no variable is assigned
    twice, none is assigned after (or while) being read by an assignment -/
def WellOrdered (ss : List Stmt) : Bool := OrderedDefs (defsOf ss)

/-- the push-model specification of a deferred state: undefined variables hold their plain values, every defined
    variable holds the value of its tree ON THIS environment -/
structure Consistent {V : Type} (ops : Ops V) (plain : Env V) (ds : List (String × MTree)) (env : Env V) : Prop where
  plain : ∀ x, x ∉ names ds → env x = plain x
  defined : ∀ n t, (n, t) ∈ ds → ∃ v, evalI (ops.withEnv env) true t = .ok v ∧ env n = some v

/-! ## lemmas -/

variable {V : Type}

theorem Env.set_same (env : Env V) (n : String) (v : V) : env.set n v n = some v := by simp [Env.set]

theorem Env.set_other (env : Env V) {n y : String} (v : V) (h : y ≠ n) : env.set n v y = env y := by
  simp [Env.set, h]

theorem divOnly_withEnv (ops : Ops V) (hd : DivOnly ops) (env : Env V) : DivOnly (ops.withEnv env) where
  add := hd.add
  sub := hd.sub
  mul := hd.mul
  pow := hd.pow
  neg := hd.neg
  pos := hd.pos
  getitem := hd.getitem
  call := hd.call
  var := fun n => by
    show (match env n with | some v => Except.ok v | none => ops.var n) ≠ _
    cases env n with
    | none => exact hd.var n
    | some v => simp

/-- the value of a tree depends on the environment only through the names the tree reads -/
theorem var_congr (ops : Ops V) (e1 e2 : Env V) (n : String) (h : e1 n = e2 n) :
    (ops.withEnv e1).var n = (ops.withEnv e2).var n := by
  show (match e1 n with | some v => Except.ok v | none => ops.var n)
     = (match e2 n with | some v => Except.ok v | none => ops.var n)
  rw [h]

mutual
theorem evalI_congr (ops : Ops V) (g : Bool) (e1 e2 : Env V) :
    ∀ t : MTree, (∀ r ∈ reads t, e1 r = e2 r) → evalI (ops.withEnv e1) g t = evalI (ops.withEnv e2) g t
  | .number _, _ => rfl
  | .getitem _ _, _ => rfl
  | .var n, h => by
    simp only [evalI]
    exact var_congr ops e1 e2 n (h n (by simp [reads]))
  | .neg a, h => by
    simp only [evalI]
    rw [evalI_congr ops g e1 e2 a (by simpa [reads] using h)]; rfl
  | .pos a, h => by
    simp only [evalI]
    rw [evalI_congr ops g e1 e2 a (by simpa [reads] using h)]; rfl
  | .call f args, h => by
    simp only [evalI]
    rw [evalArgs_congr ops g e1 e2 args (by simpa [reads] using h)]; rfl
  | .add l r, h => by
    simp only [evalI]
    rw [evalI_congr ops g e1 e2 l (fun x hx => h x (by simp [reads, hx])),
      evalI_congr ops g e1 e2 r (fun x hx => h x (by simp [reads, hx]))]; rfl
  | .sub l r, h => by
    simp only [evalI]
    rw [evalI_congr ops g e1 e2 l (fun x hx => h x (by simp [reads, hx])),
      evalI_congr ops g e1 e2 r (fun x hx => h x (by simp [reads, hx]))]; rfl
  | .mul l r, h => by
    simp only [evalI]
    rw [evalI_congr ops g e1 e2 l (fun x hx => h x (by simp [reads, hx])),
      evalI_congr ops g e1 e2 r (fun x hx => h x (by simp [reads, hx]))]; rfl
  | .div l r, h => by
    simp only [evalI]
    rw [evalI_congr ops g e1 e2 l (fun x hx => h x (by simp [reads, hx])),
      evalI_congr ops g e1 e2 r (fun x hx => h x (by simp [reads, hx]))]; rfl
  | .pow l r, h => by
    simp only [evalI]
    rw [evalI_congr ops g e1 e2 l (fun x hx => h x (by simp [reads, hx])),
      evalI_congr ops g e1 e2 r (fun x hx => h x (by simp [reads, hx]))]; rfl
theorem evalArgs_congr (ops : Ops V) (g : Bool) (e1 e2 : Env V) :
    ∀ args : List MTree, (∀ r ∈ readsArgs args, e1 r = e2 r) →
      evalArgs (ops.withEnv e1) g args = evalArgs (ops.withEnv e2) g args
  | [], _ => rfl
  | a :: rest, h => by
    simp only [evalArgs]
    rw [evalI_congr ops g e1 e2 a (fun x hx => h x (by simp [readsArgs, hx])),
      evalArgs_congr ops g e1 e2 rest (fun x hx => h x (by simp [readsArgs, hx]))]
end

/-! ### `settle`, `define`, `update` -/

theorem settle_append (ops : Ops V) (n : String) (t : MTree) :
    ∀ (ds : List (String × MTree)) (env : Env V),
      settle ops env (ds ++ [(n, t)]) =
        (settle ops env ds).bind (fun e => (evalI (ops.withEnv e) true t).bind (fun v => .ok (e.set n v)))
  | [], env => by
    simp only [List.nil_append, settle, Except.bind]
  | (m, u) :: ds, env => by
    simp only [List.cons_append, settle]
    cases evalI (ops.withEnv env) true u with
    | error e => rfl
    | ok w => exact settle_append ops n t ds (env.set m w)

theorem filter_ne_of_not_mem {n : String} :
    ∀ {ds : List (String × MTree)}, n ∉ names ds → ds.filter (fun d => d.1 != n) = ds
  | [], _ => rfl
  | (m, u) :: ds, h => by
    have h1 : m ≠ n := fun e => h (by simp [names, e])
    have h2 : n ∉ names ds := fun e => h (by simp only [names, List.map_cons, List.mem_cons]; exact Or.inr e)
    simp [bne_iff_ne, h1, filter_ne_of_not_mem h2]

theorem define_fresh {ds : List (String × MTree)} {n : String} (t : MTree) (h : n ∉ names ds) :
    define ds n t = ds ++ [(n, t)] := by
  simp [define, filter_ne_of_not_mem h]

theorem names_append (ds : List (String × MTree)) (n : String) (t : MTree) :
    names (ds ++ [(n, t)]) = names ds ++ [n] := by simp [names]

theorem update_fresh (st : DState V) {x : String} (v : V) (h : x ∉ names st.defs) :
    st.update x v = ⟨st.plain.set x v, st.defs⟩ := by
  simp [DState.update, filter_ne_of_not_mem h]

theorem updates_fresh : ∀ (us : List (String × V)) (st : DState V), (∀ u ∈ us, u.1 ∉ names st.defs) →
    st.updates us = ⟨st.plain.sets us, st.defs⟩
  | [], _, _ => rfl
  | (x, v) :: us, st, h => by
    simp only [DState.updates, Env.sets]
    rw [update_fresh st v (h (x, v) (by simp))]
    exact updates_fresh us ⟨st.plain.set x v, st.defs⟩ (fun u hu => h u (by simp [hu]))

/-! ### the scope, unfolded -/

theorem wellOrdered_expr (t : MTree) (ss : List Stmt) : WellOrdered (.expr t :: ss) = WellOrdered ss := rfl

theorem orderedDefs_cons {n : String} {t : MTree} {ds : List (String × MTree)} (h : OrderedDefs ((n, t) :: ds) = true) :
    n ∉ names ds ∧ (∀ r ∈ reads t, r ≠ n ∧ r ∉ names ds) ∧ OrderedDefs ds = true := by
  simp only [OrderedDefs, Bool.and_eq_true, decide_eq_true_eq] at h
  exact ⟨h.1.1, h.1.2, h.2⟩

theorem wellOrdered_assign {n : String} {t : MTree} {ss : List Stmt} (h : WellOrdered (.assign n t :: ss) = true) :
    n ∉ assigned ss ∧ (∀ r ∈ reads t, r ≠ n ∧ r ∉ assigned ss) ∧ WellOrdered ss = true :=
  orderedDefs_cons h

theorem assigned_assign (n : String) (t : MTree) (ss : List Stmt) :
    assigned (.assign n t :: ss) = n :: assigned ss := rfl

theorem assigned_expr (t : MTree) (ss : List Stmt) : assigned (.expr t :: ss) = assigned ss := rfl

/-! ### the deferred run against the immediate run -/

/-- one deferred assignment on a state whose variables hold `envI`, the name being new -/
theorem stepDef_assign_env (ops : Ops V) (st : DState V) (envI : Env V) (hst : st.env ops = .ok envI)
    {n : String} (t : MTree) (hn : n ∉ names st.defs) :
    (DState.env ops { st with defs := define st.defs n t }) =
      (evalI (ops.withEnv envI) true t).bind (fun v => .ok (envI.set n v)) := by
  have hst' : settle ops st.plain st.defs = .ok envI := hst
  show settle ops st.plain (define st.defs n t) = _
  rw [define_fresh t hn, settle_append, hst']
  rfl

/-- the general step lemma behind `deferred_eq_immediate`: from any deferred state whose variables hold `envI` -/
theorem runDef_eq_runImm (ops : Ops V) (hd : DivOnly ops) :
    ∀ (ss : List Stmt) (st : DState V) (envI : Env V), st.env ops = .ok envI →
      WellOrdered ss = true → (∀ m ∈ assigned ss, m ∉ names st.defs) →
      runImm ops envI ss ≠ .error .zeroDiv →
      (runDef ops st ss).bind (fun st' => st'.env ops) = runImm ops envI ss
  | [], st, envI, hst, _, _, _ => hst
  | .expr t :: ss, st, envI, hst, hw, hf, h => by
    have hne : evalI (ops.withEnv envI) false t ≠ .error .zeroDiv := by
      intro hz; apply h; simp [runImm, stepImm, hz, Except.bind]
    have hag := agree _ (divOnly_withEnv ops hd envI) t hne
    cases hv : evalI (ops.withEnv envI) false t with
    | error e => simp only [runDef, runImm, stepDef, stepImm, hst, Except.bind, hag, hv]
    | ok v =>
      simp only [runDef, runImm, stepDef, stepImm, hst, Except.bind, hag, hv] at h ⊢
      exact runDef_eq_runImm ops hd ss st envI hst hw hf h
  | .assign n t :: ss, st, envI, hst, hw, hf, h => by
    obtain ⟨hn, _, hw'⟩ := wellOrdered_assign hw
    have hnst : n ∉ names st.defs := hf n (by simp [assigned_assign])
    have hne : evalI (ops.withEnv envI) false t ≠ .error .zeroDiv := by
      intro hz; apply h; simp [runImm, stepImm, hz, Except.bind]
    have hag := agree _ (divOnly_withEnv ops hd envI) t hne
    have henv := stepDef_assign_env ops st envI hst t hnst
    rw [hag] at henv
    cases hv : evalI (ops.withEnv envI) false t with
    | error e => simp only [runDef, runImm, stepDef, stepImm, henv, Except.bind, hv]
    | ok v =>
      simp only [hv, Except.bind] at henv
      simp only [runDef, runImm, stepDef, stepImm, henv, Except.bind, hv] at h ⊢
      refine runDef_eq_runImm ops hd ss _ (envI.set n v) henv hw' ?_ h
      intro m hm
      show m ∉ names (define st.defs n t)
      rw [define_fresh t hnst, names_append]
      intro hmem
      rcases List.mem_append.1 hmem with h1 | h1
      · exact hf m (by simp [assigned_assign, hm]) h1
      · have : m = n := by simpa using h1
        exact hn (this ▸ hm)

/-- a deferred run that succeeds leaves the plain values alone and has appended exactly the definitions of the list -/
theorem runDef_defs (ops : Ops V) :
    ∀ (ss : List Stmt) (st st' : DState V), WellOrdered ss = true → (∀ m ∈ assigned ss, m ∉ names st.defs) →
      runDef ops st ss = .ok st' → st'.plain = st.plain ∧ st'.defs = st.defs ++ defsOf ss
  | [], st, st', _, _, h => by
    simp only [runDef] at h; cases h; simp [defsOf]
  | .expr t :: ss, st, st', hw, hf, h => by
    simp only [runDef, stepDef] at h
    cases he : st.env ops with
    | error e => simp [he, Except.bind] at h
    | ok env =>
      cases hv : evalI (ops.withEnv env) true t with
      | error e => simp [he, hv, Except.bind] at h
      | ok v =>
        simp only [he, hv, Except.bind] at h
        exact runDef_defs ops ss st st' hw hf h
  | .assign n t :: ss, st, st', hw, hf, h => by
    obtain ⟨hn, _, hw'⟩ := wellOrdered_assign hw
    have hnst : n ∉ names st.defs := hf n (by simp [assigned_assign])
    simp only [runDef, stepDef] at h
    cases he : DState.env ops { st with defs := define st.defs n t } with
    | error e => simp [he, Except.bind] at h
    | ok env =>
      simp only [he, Except.bind] at h
      have hfresh : ∀ m ∈ assigned ss, m ∉ names (define st.defs n t) := by
        intro m hm
        rw [define_fresh t hnst, names_append]
        intro hmem
        rcases List.mem_append.1 hmem with h1 | h1
        · exact hf m (by simp [assigned_assign, hm]) h1
        · have : m = n := by simpa using h1
          exact hn (this ▸ hm)
      obtain ⟨hp, hds⟩ := runDef_defs ops ss { st with defs := define st.defs n t } st' hw' hfresh h
      refine ⟨hp, ?_⟩
      rw [hds]
      show define st.defs n t ++ defsOf ss = st.defs ++ defsOf (.assign n t :: ss)
      rw [define_fresh t hnst]
      simp [defsOf]

/-- re-running the statements immediately on ANY plain values is settling their definitions on those values -/
theorem settle_of_runImm_ok (ops : Ops V) (hd : DivOnly ops) :
    ∀ (ss : List Stmt) (env0 envI : Env V), runImm ops env0 ss = .ok envI → settle ops env0 (defsOf ss) = .ok envI
  | [], env0, envI, h => h
  | .expr t :: ss, env0, envI, h => by
    simp only [runImm, stepImm] at h
    cases hv : evalI (ops.withEnv env0) false t with
    | error e => simp [hv, Except.bind] at h
    | ok v =>
      simp only [hv, Except.bind] at h
      exact settle_of_runImm_ok ops hd ss env0 envI h
  | .assign n t :: ss, env0, envI, h => by
    simp only [runImm, stepImm] at h
    cases hv : evalI (ops.withEnv env0) false t with
    | error e => simp [hv, Except.bind] at h
    | ok v =>
      simp only [hv, Except.bind] at h
      have hag := agree _ (divOnly_withEnv ops hd env0) t (by rw [hv]; simp)
      simp only [defsOf, settle, hag, hv, Except.bind]
      exact settle_of_runImm_ok ops hd ss (env0.set n v) envI h

/-- without expression statements, and unless a division by zero occurs, the two are the same computation, errors
    included -/
theorem settle_eq_runImm (ops : Ops V) (hd : DivOnly ops) :
    ∀ (ds : List (String × MTree)) (env0 : Env V),
      runImm ops env0 (ds.map (fun d => Stmt.assign d.1 d.2)) ≠ .error .zeroDiv →
      settle ops env0 ds = runImm ops env0 (ds.map (fun d => Stmt.assign d.1 d.2))
  | [], _, _ => rfl
  | (n, t) :: ds, env0, h => by
    have hne : evalI (ops.withEnv env0) false t ≠ .error .zeroDiv := by
      intro hz; apply h; simp [runImm, stepImm, hz, Except.bind]
    have hag := agree _ (divOnly_withEnv ops hd env0) t hne
    cases hv : evalI (ops.withEnv env0) false t with
    | error e => simp only [List.map_cons, settle, runImm, stepImm, hag, hv, Except.bind]
    | ok v =>
      simp only [List.map_cons, settle, runImm, stepImm, hag, hv, Except.bind] at h ⊢
      exact settle_eq_runImm ops hd ds (env0.set n v) h

/-! ### `settle` in list order against the push-model specification -/

/-- names that are not defined keep the value they had -/
theorem settle_frame (ops : Ops V) :
    ∀ (ds : List (String × MTree)) (env0 envF : Env V), settle ops env0 ds = .ok envF →
      ∀ x, x ∉ names ds → envF x = env0 x
  | [], env0, envF, h, x, _ => by simp only [settle] at h; cases h; rfl
  | (n, t) :: ds, env0, envF, h, x, hx => by
    simp only [settle] at h
    cases hv : evalI (ops.withEnv env0) true t with
    | error e => simp [hv, Except.bind] at h
    | ok v =>
      simp only [hv, Except.bind] at h
      have hxn : x ≠ n := fun e => hx (by simp [names, e])
      have hxd : x ∉ names ds := fun e => hx (by simp only [names, List.map_cons, List.mem_cons]; exact Or.inr e)
      rw [settle_frame ops ds _ envF h x hxd, Env.set_other _ _ hxn]

/-- **list order is a dependency order on `OrderedDefs`**: the settled environment satisfies the push-model
    specification — every defined variable holds the value of its tree on the settled environment itself -/
theorem settle_consistent (ops : Ops V) :
    ∀ (ds : List (String × MTree)) (env0 envF : Env V), OrderedDefs ds = true → settle ops env0 ds = .ok envF →
      Consistent ops env0 ds envF
  | [], env0, envF, _, h => by
    simp only [settle] at h; cases h
    exact ⟨fun _ _ => rfl, fun n t hm => by cases hm⟩
  | (n, t) :: ds, env0, envF, ho, h => by
    obtain ⟨hn, hr, ho'⟩ := orderedDefs_cons ho
    have hfr := settle_frame ops _ env0 envF h
    simp only [settle] at h
    cases hv : evalI (ops.withEnv env0) true t with
    | error e => simp [hv, Except.bind] at h
    | ok v =>
      simp only [hv, Except.bind] at h
      have ih := settle_consistent ops ds (env0.set n v) envF ho' h
      refine ⟨hfr, ?_⟩
      intro m u hm
      rcases List.mem_cons.1 hm with heq | hm'
      · cases heq
        refine ⟨v, ?_, ?_⟩
        · rw [← hv]
          apply evalI_congr
          intro r hrr
          have h1 := ih.plain r (hr r hrr).2
          rw [h1, Env.set_other _ _ (hr r hrr).1]
        · rw [ih.plain n hn, Env.set_same]
      · exact ih.defined m u hm'

/-- on `OrderedDefs` the specification has at most one solution -/
theorem consistent_unique_aux (ops : Ops V) :
    ∀ (ds : List (String × MTree)), OrderedDefs ds = true → ∀ (e1 e2 : Env V),
      (∀ x, x ∉ names ds → e1 x = e2 x) →
      (∀ n t, (n, t) ∈ ds → ∃ v, evalI (ops.withEnv e1) true t = .ok v ∧ e1 n = some v) →
      (∀ n t, (n, t) ∈ ds → ∃ v, evalI (ops.withEnv e2) true t = .ok v ∧ e2 n = some v) →
      ∀ x, e1 x = e2 x
  | [], _, e1, e2, h, _, _, x => h x (by simp [names])
  | (n, t) :: ds, ho, e1, e2, h, h1, h2, x => by
    obtain ⟨hn, hr, ho'⟩ := orderedDefs_cons ho
    have hcong : evalI (ops.withEnv e1) true t = evalI (ops.withEnv e2) true t := by
      apply evalI_congr
      intro r hrr
      apply h
      intro hmem
      rcases List.mem_cons.1 (by simpa [names] using hmem : r ∈ n :: names ds) with e | e
      · exact (hr r hrr).1 e
      · exact (hr r hrr).2 e
    obtain ⟨v1, hv1, hn1⟩ := h1 n t (by simp)
    obtain ⟨v2, hv2, hn2⟩ := h2 n t (by simp)
    have hv : v1 = v2 := by
      rw [hcong, hv2] at hv1; cases hv1; rfl
    have hnn : e1 n = e2 n := by rw [hn1, hn2, hv]
    refine consistent_unique_aux ops ds ho' e1 e2 ?_ (fun m u hm => h1 m u (by simp [hm]))
      (fun m u hm => h2 m u (by simp [hm])) x
    intro y hy
    by_cases hyn : y = n
    · rw [hyn]; exact hnn
    · apply h
      intro hmem
      rcases List.mem_cons.1 (by simpa [names] using hmem : y ∈ n :: names ds) with e | e
      · exact hyn e
      · exact hy e

theorem consistent_unique (ops : Ops V) (plain : Env V) (ds : List (String × MTree)) (ho : OrderedDefs ds = true)
    (e1 e2 : Env V) (h1 : Consistent ops plain ds e1) (h2 : Consistent ops plain ds e2) : ∀ x, e1 x = e2 x :=
  consistent_unique_aux ops ds ho e1 e2 (fun x hx => by rw [h1.plain x hx, h2.plain x hx]) h1.defined h2.defined

/-! ## the three results -/

/-- **(a)** for a `WellOrdered` statement list, unless a division by zero occurs (the hypothesis of `agree`, on the
    whole immediate run), running the statements deferred and reading the variables gives what running them
    immediately gives: the same environment — in particular the same value for every assigned variable — or the same
    exception -/
theorem deferred_eq_immediate (ops : Ops V) (hd : DivOnly ops) (plain : Env V) (ss : List Stmt)
    (hw : WellOrdered ss = true) (h : runImm ops plain ss ≠ .error .zeroDiv) :
    (runDef ops ⟨plain, []⟩ ss).bind (fun st => st.env ops) = runImm ops plain ss :=
  runDef_eq_runImm ops hd ss ⟨plain, []⟩ plain rfl hw (fun _ _ => by simp [names]) h

/-- the same for a successful immediate run, with the deferred state spelled out: the plain values untouched, the
    definitions of the list in order, the variables holding the immediate environment, which satisfies the push-model
    specification of that state -/
theorem deferred_eq_immediate_ok (ops : Ops V) (hd : DivOnly ops) (plain : Env V) (ss : List Stmt)
    (hw : WellOrdered ss = true) (envI : Env V) (hI : runImm ops plain ss = .ok envI) :
    ∃ st, runDef ops ⟨plain, []⟩ ss = .ok st ∧ st.plain = plain ∧ st.defs = defsOf ss ∧ st.env ops = .ok envI ∧
      Consistent ops plain (defsOf ss) envI := by
  have h := deferred_eq_immediate ops hd plain ss hw (by rw [hI]; simp)
  rw [hI] at h
  cases hr : runDef ops ⟨plain, []⟩ ss with
  | error e => simp [hr, Except.bind] at h
  | ok st =>
    simp only [hr, Except.bind] at h
    obtain ⟨hp, hds⟩ := runDef_defs ops ss ⟨plain, []⟩ st hw (fun _ _ => by simp [names]) hr
    simp only [List.nil_append] at hp hds
    refine ⟨st, rfl, hp, hds, h, ?_⟩
    have h' : settle ops st.plain st.defs = .ok envI := h
    rw [hp, hds] at h'
    exact settle_consistent ops _ plain envI hw h'

/-- **(b)** after later plain updates of variables the statements do not assign, the deferred variables hold what the
    statements give when run immediately FROM SCRATCH on the updated plain values (and that environment is the
    solution of the push-model specification of the updated state) -/
theorem deferred_follows_updates_list (ops : Ops V) (hd : DivOnly ops) (plain : Env V) (ss : List Stmt)
    (hw : WellOrdered ss = true) (st : DState V) (hrun : runDef ops ⟨plain, []⟩ ss = .ok st)
    (us : List (String × V)) (hus : ∀ u ∈ us, u.1 ∉ assigned ss)
    (envI : Env V) (hI : runImm ops (plain.sets us) ss = .ok envI) :
    (st.updates us).env ops = .ok envI ∧ Consistent ops (plain.sets us) (defsOf ss) envI := by
  obtain ⟨hp, hds⟩ := runDef_defs ops ss ⟨plain, []⟩ st hw (fun _ _ => by simp [names]) hrun
  simp only [List.nil_append] at hp hds
  have hs := settle_of_runImm_ok ops hd ss _ envI hI
  refine ⟨?_, settle_consistent ops _ _ envI hw hs⟩
  rw [updates_fresh us st (by rw [hds]; exact hus), hp, hds]
  exact hs

theorem deferred_follows_updates (ops : Ops V) (hd : DivOnly ops) (plain : Env V) (ss : List Stmt)
    (hw : WellOrdered ss = true) (st : DState V) (hrun : runDef ops ⟨plain, []⟩ ss = .ok st)
    (x : String) (v : V) (hx : x ∉ assigned ss)
    (envI : Env V) (hI : runImm ops (plain.set x v) ss = .ok envI) :
    (st.update x v).env ops = .ok envI :=
  (deferred_follows_updates_list ops hd plain ss hw st hrun [(x, v)] (fun u hu => by simp at hu; rw [hu]; exact hx)
    envI hI).1

/-- (b) as an equation, errors included, for lists of assignments only (an expression statement raises when the list
    is re-run immediately but is no part of the deferred state) -/
theorem deferred_follows_updates_eq (ops : Ops V) (hd : DivOnly ops) (plain : Env V) (ds : List (String × MTree))
    (hw : OrderedDefs ds = true) (st : DState V)
    (hrun : runDef ops ⟨plain, []⟩ (ds.map (fun d => Stmt.assign d.1 d.2)) = .ok st)
    (us : List (String × V)) (hus : ∀ u ∈ us, u.1 ∉ names ds)
    (h : runImm ops (plain.sets us) (ds.map (fun d => Stmt.assign d.1 d.2)) ≠ .error .zeroDiv) :
    (st.updates us).env ops = runImm ops (plain.sets us) (ds.map (fun d => Stmt.assign d.1 d.2)) := by
  have hdefs : ∀ ds : List (String × MTree), defsOf (ds.map (fun d => Stmt.assign d.1 d.2)) = ds := by
    intro ds; induction ds with
    | nil => rfl
    | cons d ds ih => simp [defsOf, ih]
  have hw' : WellOrdered (ds.map (fun d => Stmt.assign d.1 d.2)) = true := by
    show OrderedDefs _ = true; rw [hdefs]; exact hw
  obtain ⟨hp, hds⟩ := runDef_defs ops _ ⟨plain, []⟩ st hw' (fun _ _ => by simp [names]) hrun
  simp only [List.nil_append, hdefs] at hp hds
  rw [updates_fresh us st (by rw [hds]; exact hus), hp, hds]
  exact settle_eq_runImm ops hd ds _ h

/-! ### (c) the statement-level parser -/

theorem parseStmt_assign (n : String) (rest : List Tok) :
    parseStmt (.name n :: .assign :: rest) = (parse rest).map (Stmt.assign n) := rfl

/-- `name = <fully parenthesised tree>` is the assignment of that tree -/
theorem parseStmt_assign_fullParen (n : String) (t : MTree) (h : WFTree t) :
    parseStmt (.name n :: .assign :: fullParen t) = some (.assign n t) := by
  rw [parseStmt_assign, parse_fullParen t h]; rfl

/-- `name = <tree printed with minimal parentheses>` as well -/
theorem parseStmt_assign_render (n : String) (t : MTree) (h : WFTree t) :
    parseStmt (.name n :: .assign :: render t) = some (.assign n t) := by
  rw [parseStmt_assign, parse_render t h]; rfl

theorem fullParen_not_assign (t : MTree) (n : String) (rest : List Tok) : fullParen t ≠ .name n :: .assign :: rest := by
  cases t <;> simp [fullParen]

/-- a fully parenthesised tree alone is an expression statement -/
theorem parseStmt_expr_fullParen (t : MTree) (h : WFTree t) : parseStmt (fullParen t) = some (.expr t) := by
  unfold parseStmt
  split
  · rename_i n rest heq
    exact absurd heq (fullParen_not_assign t n rest)
  · rw [parse_fullParen t h]; rfl

/-- the parser yields an assignment only from `NAME "=" …` -/
theorem parseStmt_assign_iff (toks : List Tok) (n : String) (t : MTree) :
    parseStmt toks = some (.assign n t) ↔ ∃ rest, toks = .name n :: .assign :: rest ∧ parse rest = some t := by
  constructor
  · intro h
    unfold parseStmt at h
    split at h
    · rename_i m rest
      cases hp : parse rest with
      | none => simp [hp] at h
      | some u =>
        simp only [hp, Option.map_some, Option.some.injEq, Stmt.assign.injEq] at h
        exact ⟨rest, by rw [h.1], by rw [← h.2]; exact hp⟩
    · cases hp : parse toks with
      | none => simp [hp] at h
      | some u => simp [hp] at h
  · rintro ⟨rest, rfl, hp⟩
    rw [parseStmt_assign, hp]; rfl

/-! ## concrete instances (non-vacuity, and the witnesses for the hypotheses) -/

/-- a small value algebra over `Int`; a name no environment holds reads `0` (`MadxEnv`'s `defaultdict`) -/
def demoOps : Ops Int where
  number := fun s => if s = "1" then 1 else if s = "2" then 2 else if s = "3" then 3 else 0
  add := fun a b => .ok (a + b)
  sub := fun a b => .ok (a - b)
  mul := fun a b => .ok (a * b)
  div := fun a b => if b = 0 then .error .zeroDiv else .ok (a / b)
  pow := fun a b => .ok (a ^ b.toNat)
  neg := fun a => .ok (-a)
  pos := fun a => .ok a
  var := fun _ => .ok 0
  getitem := fun _ _ => .error (.other "name")
  call := fun _ _ => .error (.other "name")
  nan := -1

theorem demoOps_divOnly : DivOnly demoOps where
  add := fun _ _ => nofun
  sub := fun _ _ => nofun
  mul := fun _ _ => nofun
  pow := fun _ _ => nofun
  neg := fun _ => nofun
  pos := fun _ => nofun
  var := fun _ => nofun
  getitem := fun _ _ => nofun
  call := fun _ _ => nofun

/-- `a = 2, b = 3` -/
def demoPlain : Env Int := fun y => if y = "a" then some 2 else if y = "b" then some 3 else none

/-- `t = a*2; x = t + b` -/
def demoStmts : List Stmt :=
  [.assign "t" (.mul (.var "a") (.number "2")), .assign "x" (.add (.var "t") (.var "b"))]

theorem demo_wellOrdered : WellOrdered demoStmts = true := by decide

theorem demo_imm : runImm demoOps demoPlain demoStmts = .ok ((demoPlain.set "t" 4).set "x" 7) := rfl

theorem demo_def : runDef demoOps ⟨demoPlain, []⟩ demoStmts = .ok ⟨demoPlain, defsOf demoStmts⟩ := rfl

/-- re-run from scratch with `a = 5` -/
theorem demo_imm_updated :
    runImm demoOps (demoPlain.set "a" 5) demoStmts = .ok (((demoPlain.set "a" 5).set "t" 10).set "x" 13) := rfl

/-- (a) on the instance: `t = 4`, `x = 7` under both semantics -/
example : (runDef demoOps ⟨demoPlain, []⟩ demoStmts).bind (fun st => st.env demoOps)
    = .ok ((demoPlain.set "t" 4).set "x" 7) := by
  rw [deferred_eq_immediate demoOps demoOps_divOnly demoPlain demoStmts demo_wellOrdered (by rw [demo_imm]; nofun)]
  exact demo_imm

/-- (b) on the instance `t = a*2; x = t + b; a := 5`: the deferred variables follow (`t = 10`, `x = 13`) … -/
example : (DState.update ⟨demoPlain, defsOf demoStmts⟩ "a" 5).env demoOps
    = .ok (((demoPlain.set "a" 5).set "t" 10).set "x" 13) :=
  deferred_follows_updates demoOps demoOps_divOnly demoPlain demoStmts demo_wellOrdered _ demo_def "a" 5 (by decide)
    _ demo_imm_updated

/-- … while the immediate environment, with the same update made to it, stays stale: `t` still `4`, `x` still `7` -/
theorem immediate_stale_witness :
    (((demoPlain.set "t" 4).set "x" 7).set "a" 5) "t" = some 4 ∧
    (((demoPlain.set "t" 4).set "x" 7).set "a" 5) "x" = some 7 ∧
    (((demoPlain.set "a" 5).set "t" 10).set "x" 13) "t" = some 10 ∧
    (((demoPlain.set "a" 5).set "t" 10).set "x" 13) "x" = some 13 := by decide

/-- `x = t + 1; t = a*2`: a statement reads a variable that is assigned LATER -/
def demoLate : List Stmt :=
  [.assign "x" (.add (.var "t") (.number "1")), .assign "t" (.mul (.var "a") (.number "2"))]

/-- outside `WellOrdered` list order is not a dependency order: settling `x = t + 1; t = a*2` in list order leaves
    `x = 1` next to `t = 4`, which is not a solution of the push-model specification (the manager pushes `x = 5`, the
    immediate run gives `x = 1`: there the two semantics really differ, and the model is not the manager) -/
theorem not_consistent_outside :
    WellOrdered demoLate = false ∧
    settle demoOps demoPlain (defsOf demoLate) = .ok ((demoPlain.set "x" 1).set "t" 4) ∧
    ¬ Consistent demoOps demoPlain (defsOf demoLate) ((demoPlain.set "x" 1).set "t" 4) := by
  refine ⟨by decide, rfl, ?_⟩
  intro hc
  obtain ⟨v, h1, h2⟩ := hc.defined "x" (.add (.var "t") (.number "1")) (List.mem_cons_self ..)
  have h3 : evalI (demoOps.withEnv ((demoPlain.set "x" 1).set "t" 4)) true (.add (.var "t") (.number "1")) = .ok 5 := rfl
  rw [h3] at h1
  cases h1
  exact absurd h2 (by decide)

/-- `t = a; u = t; t = 3`: a variable assigned twice, read in between.  Immediately `u = 2`; the deferred state keeps
    only the second definition of `t`, and `u` is settled before it (in the model: `u = 0`; through the manager `u = 3`) -/
def demoTwice : List Stmt := [.assign "t" (.var "a"), .assign "u" (.var "t"), .assign "t" (.number "3")]

theorem redefinition_witness :
    WellOrdered demoTwice = false ∧
    (match runImm demoOps demoPlain demoTwice with | .ok e => e "u" | _ => none) = some 2 ∧
    (match (runDef demoOps ⟨demoPlain, []⟩ demoTwice).bind (fun st => st.env demoOps) with
      | .ok e => e "u" | _ => none) = some 0 := by decide

/-- the division guard is the one intended deviation: `t = a/(b-3)` raises immediately and holds NaN deferred -/
theorem zero_division_witness :
    runImm demoOps demoPlain [.assign "t" (.div (.var "a") (.sub (.var "b") (.number "3")))] = .error .zeroDiv ∧
    (runDef demoOps ⟨demoPlain, []⟩ [.assign "t" (.div (.var "a") (.sub (.var "b") (.number "3")))]).bind
      (fun st => st.env demoOps) = .ok (demoPlain.set "t" demoOps.nan) := ⟨rfl, rfl⟩

/-- (c) on an instance: the tokens of `t = a*2` and of `t = (a*2)` -/
example : parseStmt [.name "t", .assign, .name "a", .star, .num "2"]
    = some (.assign "t" (.mul (.var "a") (.number "2"))) :=
  parseStmt_assign_render "t" (.mul (.var "a") (.number "2")) ⟨trivial, trivial⟩
example : parseStmt [.name "t", .assign, .lpar, .name "a", .star, .num "2", .rpar]
    = some (.assign "t" (.mul (.var "a") (.number "2"))) :=
  parseStmt_assign_fullParen "t" (.mul (.var "a") (.number "2")) ⟨trivial, trivial⟩
example : parseStmt [.lpar, .name "a", .star, .num "2", .rpar] = some (.expr (.mul (.var "a") (.number "2"))) :=
  parseStmt_expr_fullParen (.mul (.var "a") (.number "2")) ⟨trivial, trivial⟩

end Madx
