import XModel.ManagerKnob
import XModel.ManagerC18Fn
/-!
# C01 for a MIXED triggered set: linear knobs together with expression / function tasks

`ManagerFn` / `ManagerFnHist` prove C01 ("after any completed assignment every expression-defined location equals its
definition evaluated on the current data") for states that hold expression and function tasks only; `ManagerKnob`
proves what a `LinearKnob` prescribes in a scene where every triggered task is a knob.  This file closes the gap: ONE
assignment `set_value(p, v)` to a plain location whose triggered set MIXES knobs with expression / function tasks —
e.g. knob `k` drives `a`, `b` from `x`, and `c := a + b` reads both knob targets — and any number of such assignments.

* `Sys2`, `runAll2_Q`       — the scheduling lemma of `Push` with a pre-invariant: a knob run turns `KnobInv` (needed
                               BEFORE the run, kept by the tasks that do not interfere) into `KnobAt`;
* `runTask_frameM`, `runTask_prevM`, `runTasks_frameM`, `runTasks_prevM`
                             — what a run of ANY task can touch, whatever its outcome: only its leaf targets in the
                               container tree and only its own remembered value;
* `mixSys`                   — expression tasks, function tasks and knobs as one `Sys2` on `MState`
                               (`ReadyM` / `HoldsM` / `Untouched` / `KnobUntouched` / `GoodM`);
* `KnobDecl`, `DeclM`, `edge_of_write_read`
                             — a soundly declared knob lists the owner chains of its source (dependencies) and of its
                               targets (targets); with the index invariant `MInv` this puts the edge knob → reader into
                               the ordering graph, so every legal schedule (`ValidSched`) runs the knob first;
* `ScopeM`                   — the hypotheses on the task table (the analogue of `ScopeF`): sound declarations, proper
                               canonical paths, the locations written by different tasks (knob targets included) and
                               the assigned location pairwise prefix-incomparable, no item reads what it writes, body
                               lines in order, and every knob source is PLAIN — nothing any task writes is comparable
                               with it — and is `p` itself or incomparable with `p`;
* **`writeAndRun_mixed`, `setValue_mixed`** — the one-step theorem; conclusion `MixedPost`: every expression / function
                               item holds (triggered: recomputed, untriggered: frame), every knob on `p` is settled at
                               `v` (target `i` holds `b_i + w_i * v`, the SAME bases), a triggered knob on another source
                               is settled at that source's unchanged value, an untriggered settled knob stays settled,
                               every knob keeps `KnobInv` and an integer source, the frame of the whole call, and
                               definitions / indices / freeze flag / fault flag unchanged;
* `ConsistentM`, `MixedPost.consistentM`, `MixedRun`, **`mixedRun_consistent`**, `mixedRun_last`
                             — the state predicate (all items hold, all knobs settled) is kept by every assignment, hence
                               by any series of assignments to plain locations;
* `intSafeB`, `IntWorld`, `IntTask`, `runTask_total`, `runTasks_total`, **`writeAndRun_mixed_total`,
  `setValue_mixed_total`, `mixedAssignAll_total`, `mixedAssignAll_total_last`**
                             — COMPLETION is a hypothesis of the theorems above (C01 speaks about completed
                               assignments; an expression can raise).  On integer data with `+ - *` expressions it is a
                               theorem: the call completes, whatever the integer assigned;
* `mixedScopeB`, `consistentMB`, `mixedRunB`, `mixedStaticB`, `intWorldB`, … with soundness lemmas, `C01M_decided`,
  `C01M_total_decided`       — every hypothesis as a Boolean test (the driver evaluates `mixedScopeB` per assignment line);
* `MixedExample`             — knob `#K` (source `d.x`, weights `[2, -1]`, targets `d.a`, `d.b`), `d.c := d.a + d.b`,
                               `d.x := 5`: hypotheses and final store by `decide` / `rfl`, the theorems instantiated, the
                               universally quantified `example_any_history`, and three witnesses of what the MODEL does
                               outside the hypotheses (wrong order, undeclared source, over-declared dependency).

What is NOT covered: a knob whose source is written by a task (an expression-defined or knob-driven source — `ScopeM.ksrc`
excludes it); non-integer values assigned to a knob source (NaN propagates silently through a knob run); assignments of
expressions (`set_value(ref, expr)`) or to a location that has a definition, and `register` / `unregister`, in the same
history as knobs (`MixedRun` is a series of plain integer assignments); failed runs (recovery, C18) with knobs.
-/
namespace Manager
open Store Push Index

/-! ### the scheduling lemma with a pre-invariant

`Push.Sys` / `Push.runAll_Q` is for tasks that establish their own quiescence from scratch (`target := expr`).  A
linear knob is different: its run turns the invariant `KnobInv` (which must hold *before* the run) into the settled
form `KnobAt`.  `Sys2` therefore has a second predicate `P` ("ready"), preserved by the tasks that do not interfere
(`NIP`), next to `Q` ("settled", preserved by `NI`). -/

structure Sys2 (S T : Type) where
  run? : T → S → Option S
  P : T → S → Prop
  Q : T → S → Prop
  NI : T → T → Prop
  NIP : T → T → Prop
  good : T → Prop
  q_run : ∀ t σ σ', good t → P t σ → run? t σ = some σ' → Q t σ'
  q_ni : ∀ u t σ σ', NI u t → Q t σ → run? u σ = some σ' → Q t σ'
  p_ni : ∀ u t σ σ', NIP u t → P t σ → run? u σ = some σ' → P t σ'

def runAll2 {S T : Type} (sys : Sys2 S T) : List T → S → Option S
  | [], σ => some σ
  | t :: l, σ => match sys.run? t σ with | some σ' => runAll2 sys l σ' | none => none

/-- Run a list in which no later task disturbs what an earlier one has established (`NI`), and no earlier task
    disturbs what a later one needs (`NIP`): if every listed task is ready at the start, every listed task is settled
    at the end, and so is every kept task that none of them disturbs. -/
theorem runAll2_Q {S T : Type} (sys : Sys2 S T) (l : List T) (σ σf : S) (keep : T → Prop)
    (hrun : runAll2 sys l σ = some σf)
    (hgood : ∀ t ∈ l, sys.good t)
    (hpre : ∀ t ∈ l, sys.P t σ)
    (hkeep : ∀ t, keep t → sys.Q t σ)
    (hsafe : ∀ t, keep t → ∀ u ∈ l, sys.NI u t)
    (hord : List.Pairwise (fun t u => sys.NI u t ∧ sys.NIP t u) l) :
    (∀ t, keep t → sys.Q t σf) ∧ (∀ t ∈ l, sys.Q t σf) := by
  induction l generalizing σ keep with
  | nil =>
    simp only [runAll2, Option.some.injEq] at hrun
    subst hrun
    exact ⟨hkeep, by simp⟩
  | cons a l ih =>
    have hp := List.pairwise_cons.mp hord
    simp only [runAll2] at hrun
    cases ha : sys.run? a σ with
    | none => simp [ha] at hrun
    | some σ1 =>
      simp only [ha] at hrun
      have := ih σ1 (fun t => keep t ∨ t = a) hrun
        (fun t ht => hgood t (List.mem_cons_of_mem _ ht))
        (fun t ht => sys.p_ni a t σ σ1 (hp.1 t ht).2 (hpre t (List.mem_cons_of_mem _ ht)) ha)
        (by
          intro t ht
          rcases ht with ht | rfl
          · exact sys.q_ni a t σ σ1 (hsafe t ht a (List.mem_cons_self ..)) (hkeep t ht) ha
          · exact sys.q_run t σ σ1 (hgood t (List.mem_cons_self ..)) (hpre t (List.mem_cons_self ..)) ha)
        (by
          intro t ht u hu
          rcases ht with ht | rfl
          · exact hsafe t ht u (List.mem_cons_of_mem _ hu)
          · exact (hp.1 u hu).1)
        hp.2
      refine ⟨fun t ht => this.1 t (Or.inl ht), fun t ht => ?_⟩
      rcases List.mem_cons.mp ht with rfl | ht
      · exact this.1 t (Or.inr rfl)
      · exact this.2 t ht

/-! ### kinds -/

/-- the task is a linear knob -/
def IsKnob (t : MTask) : Prop := ∃ src ws tars, t.kind = .knob src ws tars

theorem itemsOf_knob {t : MTask} (h : IsKnob t) : itemsOf t = [] := by
  obtain ⟨src, ws, tars, hk⟩ := h
  simp [itemsOf, hk]

theorem kind_of_not_knob {t : MTask} (h : ¬ IsKnob t) : (∃ e, t.kind = .expr e) ∨ ∃ body, t.kind = .func body := by
  cases hk : t.kind with
  | expr e => exact Or.inl ⟨e, rfl⟩
  | func b => exact Or.inr ⟨b, rfl⟩
  | knob a b c => exact absurd ⟨a, b, c, hk⟩ h

theorem not_knob_of_kind {t : MTask} (h : (∃ e, t.kind = .expr e) ∨ ∃ body, t.kind = .func body) : ¬ IsKnob t := by
  rintro ⟨a, b, c, hk⟩
  rcases h with ⟨e, he⟩ | ⟨body, hb⟩
  · rw [hk] at he; cases he
  · rw [hk] at hb; cases hb

theorem knobLocs_not_knob {t : MTask} (h : ¬ IsKnob t) : knobLocs t = [] := by
  rcases kind_of_not_knob h with ⟨e, hk⟩ | ⟨b, hk⟩ <;> simp [knobLocs, hk]

/-- for expression and function tasks the leaf targets are the targets of the items -/
theorem leafTargets_items {t : MTask} (h : ¬ IsKnob t) : leafTargets t = (itemsOf t).map (·.target) := by
  rcases kind_of_not_knob h with ⟨e, hk⟩ | ⟨b, hk⟩
  · simp [leafTargets, itemsOf, hk]
  · simp [leafTargets, itemsOf, hk, List.map_map, Function.comp_def]

theorem item_target_mem_leafTargets {t : MTask} {it : ETask} (hit : it ∈ itemsOf t) : it.target ∈ leafTargets t := by
  by_cases hk : IsKnob t
  · rw [itemsOf_knob hk] at hit; cases hit
  · rw [leafTargets_items hk]; exact List.mem_map_of_mem hit

/-! ### what one run of ANY task can touch (outcome-agnostic) -/

theorem runBody_prev : ∀ (body : List (Path × Expr)) (s : MState), (runBody s body).1.prev = s.prev
  | [], _ => rfl
  | (p, e) :: rest, s => by
    simp only [runBody]
    cases hev : evalE s e with
    | error x => rfl
    | ok v =>
      simp only
      have h1 := writeRef_prev s p v
      generalize writeRef s p v = r at h1 ⊢
      obtain ⟨s1, x⟩ := r
      cases x with
      | some x => exact h1
      | none =>
        simp only at h1 ⊢
        rw [runBody_prev rest s1, h1]

theorem runKnobLoop_prev (delta : Val) : ∀ (l : List (Int × Path)) (s : MState),
    (runKnobLoop s delta l).1.prev = s.prev
  | [], _ => rfl
  | (w, t) :: rest, s => by
    simp only [runKnobLoop]
    split
    · rfl
    · split
      · rfl
      · split
        · rfl
        · next nv _ =>
          have h1 := writeRef_prev s t nv
          generalize writeRef s t nv = r at h1 ⊢
          obtain ⟨s1, x⟩ := r
          cases x with
          | some x => exact h1
          | none =>
            simp only at h1 ⊢
            rw [runKnobLoop_prev delta rest s1, h1]

theorem runKnobLoop_frame (delta : Val) : ∀ (l : List (Int × Path)) (s : MState) (q : Path), canonPath q →
    (∀ wt ∈ l, canonPath wt.2 ∧ Incomparable wt.2 q) → get (runKnobLoop s delta l).1.store q = get s.store q
  | [], _, _, _, _ => rfl
  | (w, t) :: rest, s, q, hq, h => by
    obtain ⟨hc, hi⟩ := h (w, t) (List.mem_cons_self ..)
    simp only [runKnobLoop]
    split
    · rfl
    · split
      · rfl
      · split
        · rfl
        · next nv _ =>
          have h1 := writeRef_frame s t q nv hi hc hq
          generalize writeRef s t nv = r at h1 ⊢
          obtain ⟨s1, x⟩ := r
          cases x with
          | some x => exact h1
          | none =>
            simp only at h1 ⊢
            rw [runKnobLoop_frame delta rest s1 q hq (fun b hb => h b (List.mem_cons_of_mem _ hb)), h1]

/-- ONE RUN, ANY KIND, ANY OUTCOME: a location that is prefix-incomparable with every leaf target of the task keeps
    its value -/
theorem runTask_frameM (s : MState) (t : MTask) (q : Path) (hq : canonPath q)
    (h : ∀ a ∈ leafTargets t, canonPath a ∧ Incomparable a q) : get (runTask s t).1.store q = get s.store q := by
  by_cases hk : IsKnob t
  · obtain ⟨src, ws, tars, hk⟩ := hk
    rw [leafTargets_knob hk] at h
    simp only [runTask, hk]
    split
    · rfl
    · split
      · rfl
      · next delta _ =>
        have h1 := runKnobLoop_frame delta (ws.zip tars) s q hq (fun wt hwt => h wt.2 (List.of_mem_zip hwt).2)
        generalize runKnobLoop s delta (ws.zip tars) = r at h1 ⊢
        obtain ⟨s1, x⟩ := r
        cases x with
        | some x => exact h1
        | none => exact h1
  · refine runTaskF_frame s t (kind_of_not_knob hk) q hq (fun it hit => h it.target ?_)
    exact item_target_mem_leafTargets hit

/-- ONE RUN, ANY KIND, ANY OUTCOME: the remembered values of the other tasks are untouched -/
theorem runTask_prevM (s : MState) (t : MTask) (id : Path) (hne : id ≠ t.id) :
    lookPrev (runTask s t).1.prev id = lookPrev s.prev id := by
  cases hk : t.kind with
  | expr e =>
    simp only [runTask, hk]
    split
    · rfl
    · rw [writeRef_prev]
  | func body =>
    simp only [runTask, hk]
    have h1 := runBody_prev body { s with trace := s.trace ++ [(false, t.id)] }
    generalize runBody { s with trace := s.trace ++ [(false, t.id)] } body = r at h1 ⊢
    obtain ⟨s1, x⟩ := r
    simp only at h1 ⊢
    rw [h1]
  | knob src ws tars =>
    simp only [runTask, hk]
    split
    · rfl
    · split
      · rfl
      · next value _ delta _ =>
        have h1 := runKnobLoop_prev delta (ws.zip tars) s
        generalize runKnobLoop s delta (ws.zip tars) = r at h1 ⊢
        obtain ⟨s1, x⟩ := r
        cases x with
        | some x => simp only at h1 ⊢; rw [h1]
        | none =>
          simp only at h1 ⊢
          rw [lookPrev_setPrev_other _ _ _ _ hne, h1]

theorem runTasks_frameM : ∀ (l : List MTask) (s : MState) (q : Path), canonPath q →
    (∀ t ∈ l, ∀ a ∈ leafTargets t, canonPath a ∧ Incomparable a q) →
    get (runTasks s l).1.store q = get s.store q
  | [], _, _, _, _ => rfl
  | t :: l, s, q, hq, h => by
    have h1 := runTask_frameM s t q hq (h t (List.mem_cons_self ..))
    simp only [runTasks]
    generalize runTask s t = r at h1
    obtain ⟨s1, x⟩ := r
    cases x with
    | some x => exact h1
    | none =>
      simp only at h1 ⊢
      rw [runTasks_frameM l s1 q hq (fun u hu => h u (List.mem_cons_of_mem _ hu)), h1]

theorem runTasks_prevM : ∀ (l : List MTask) (s : MState) (id : Path), (∀ t ∈ l, id ≠ t.id) →
    lookPrev (runTasks s l).1.prev id = lookPrev s.prev id
  | [], _, _, _ => rfl
  | t :: l, s, id, h => by
    have h1 := runTask_prevM s t id (h t (List.mem_cons_self ..))
    simp only [runTasks]
    generalize runTask s t = r at h1
    obtain ⟨s1, x⟩ := r
    cases x with
    | some x => exact h1
    | none =>
      simp only at h1 ⊢
      rw [runTasks_prevM l s1 id (fun u hu => h u (List.mem_cons_of_mem _ hu)), h1]

/-! ### a completed run without an armed fault leaves no fault armed -/

theorem runKnobLoop_nofault (delta : Val) : ∀ (l : List (Int × Path)) (s s' : MState), s.faultIn = none →
    runKnobLoop s delta l = (s', none) → s'.faultIn = none
  | [], s, s', hnf, h => by
    simp only [runKnobLoop] at h
    have := (Prod.mk.inj h).1
    subst this
    exact hnf
  | (w, t) :: rest, s, s', hnf, h => by
    simp only [runKnobLoop] at h
    split at h
    · simp at h
    · split at h
      · simp at h
      · split at h
        · simp at h
        · next nv _ =>
          cases hw : writeRef s t nv with
          | mk s1 x =>
            rw [hw] at h
            cases x with
            | some x => simp at h
            | none =>
              simp only at h
              exact runKnobLoop_nofault delta rest s1 s' (writeRef_nofault s t nv hnf s1 hw).2.1 h

theorem runTask_nofaultM (s s' : MState) (t : MTask) (hnf : s.faultIn = none) (h : runTask s t = (s', none)) :
    s'.faultIn = none := by
  by_cases hk : IsKnob t
  · obtain ⟨src, ws, tars, hk⟩ := hk
    simp only [runTask, hk] at h
    split at h
    · simp at h
    · split at h
      · simp at h
      · next delta _ =>
        cases hl : runKnobLoop s delta (ws.zip tars) with
        | mk s1 x =>
          rw [hl] at h
          cases x with
          | some x => simp at h
          | none =>
            simp only [Prod.mk.injEq, and_true] at h
            subst h
            exact runKnobLoop_nofault delta _ s s1 hnf hl
  · exact (runTask_items s s' t hnf (kind_of_not_knob hk) h).2

/-! ### the system of mixed tasks -/

/-- a run that completes, started without an armed fault -/
def runOk (s : MState) (t : MTask) : Option MState :=
  if s.faultIn.isNone && (runTask s t).2.isNone then some (runTask s t).1 else none

theorem runOk_eq_some {s s' : MState} {t : MTask} :
    runOk s t = some s' ↔ s.faultIn = none ∧ runTask s t = (s', none) := by
  unfold runOk
  cases hf : s.faultIn with
  | some k => simp
  | none =>
    cases hr : runTask s t with
    | mk s1 x =>
      cases x with
      | some x => simp
      | none => simp

/-- `u` is another task than `t` and writes nothing the knob predicates of `t` look at (source, targets) -/
structure KnobUntouched (u t : MTask) : Prop where
  ne : u.id ≠ t.id
  canon : ∀ a ∈ leafTargets u, canonPath a
  locs : ∀ b ∈ knobLocs t, canonPath b ∧ ∀ a ∈ leafTargets u, Incomparable a b

/-- … and nothing the items of `t` read or write -/
structure Untouched (u t : MTask) : Prop where
  knob : KnobUntouched u t
  items : ∀ it ∈ itemsOf t, (canonPath it.target ∧ ∀ a ∈ leafTargets u, Incomparable a it.target) ∧
      ∀ r ∈ leafRefs it.expr, canonPath r ∧ ∀ a ∈ leafTargets u, Incomparable a r

theorem KnobUntouched.frame {u t : MTask} (h : KnobUntouched u t) (s : MState) :
    (∀ q ∈ knobLocs t, get (runTask s u).1.store q = get s.store q) ∧
    lookPrev (runTask s u).1.prev t.id = lookPrev s.prev t.id :=
  ⟨fun q hq => runTask_frameM s u q (h.locs q hq).1 (fun a ha => ⟨h.canon a ha, (h.locs q hq).2 a ha⟩),
    runTask_prevM s u t.id (fun e => h.ne e.symm)⟩

/-- static conditions on one task: its items are well-formed (canonical paths, no item reads what it writes, a later
    body line does not disturb an earlier one); a knob is well-formed -/
structure GoodM (t : MTask) : Prop where
  items : ∀ it ∈ itemsOf t, (exprSys pySem).good it
  body : (itemsOf t).Pairwise (fun a b => (exprSys pySem).NI b a)
  knob : IsKnob t → TaskKnobWF t

/-- what a task needs before it runs: a knob needs its invariant (bases `B id`) and an integer source -/
def ReadyM (B : Path → List Int) (t : MTask) (s : MState) : Prop :=
  IsKnob t → KnobInv t (B t.id) s ∧ KnobSrcInt t s

/-- what a task prescribes: every item holds; a knob is settled at the current value of its source -/
def HoldsM (B : Path → List Int) (t : MTask) (s : MState) : Prop :=
  (∀ it ∈ itemsOf t, (exprSys pySem).Q it s.store) ∧ (IsKnob t → ∃ x, KnobAt t (B t.id) x s)

theorem holdsM_of_frame {B : Path → List Int} {t : MTask} {s s' : MState} (h : HoldsM B t s)
    (hitems : ∀ it ∈ itemsOf t, get s'.store it.target = get s.store it.target ∧
      ∀ r ∈ leafRefs it.expr, get s'.store r = get s.store r)
    (hloc : ∀ q ∈ knobLocs t, get s'.store q = get s.store q)
    (hprev : lookPrev s'.prev t.id = lookPrev s.prev t.id) : HoldsM B t s' := by
  refine ⟨fun it hit => Q_of_frame it s.store s'.store (h.1 it hit) (hitems it hit).2 (hitems it hit).1, fun hk => ?_⟩
  obtain ⟨x, hx⟩ := h.2 hk
  exact ⟨x, (knob_transfer hloc hprev).2.1 _ _ hx⟩

theorem readyM_of_frame {B : Path → List Int} {t : MTask} {s s' : MState} (h : ReadyM B t s)
    (hloc : ∀ q ∈ knobLocs t, get s'.store q = get s.store q)
    (hprev : lookPrev s'.prev t.id = lookPrev s.prev t.id) : ReadyM B t s' := by
  intro hk
  obtain ⟨h1, h2⟩ := h hk
  obtain ⟨t1, _, t3⟩ := knob_transfer hloc hprev
  exact ⟨t1 _ h1, t3 h2⟩

/-- expression tasks, function tasks and linear knobs as one system -/
def mixSys (B : Path → List Int) : Sys2 MState MTask where
  run? t s := runOk s t
  P := ReadyM B
  Q := HoldsM B
  NI := Untouched
  NIP := KnobUntouched
  good := GoodM
  q_run := by
    intro t s s' hg hp hrun
    obtain ⟨hnf, hrun⟩ := runOk_eq_some.mp hrun
    by_cases hk : IsKnob t
    · obtain ⟨hinv, src0, ws0, tars0, x0, hk0, hs0⟩ := hp hk
      obtain ⟨s1, hrun1, hat, _⟩ := runTask_knob_inv s t (B t.id) x0 (hg.knob hk) hnf hinv (by
        intro src ws tars hk'
        obtain ⟨rfl, rfl, rfl⟩ := knob_inj hk' hk0
        exact hs0)
      rw [hrun] at hrun1
      have : s' = s1 := (Prod.mk.inj hrun1).1
      subst this
      refine ⟨?_, fun _ => ⟨x0, hat⟩⟩
      rw [itemsOf_knob hk]
      intro it hit; cases hit
    · obtain ⟨hitems, _⟩ := runTask_items s s' t hnf (kind_of_not_knob hk) hrun
      have := runAll_Q (exprSys pySem) (itemsOf t) s.store s'.store (fun _ => False) hitems hg.items
        (fun _ h => h.elim) (fun _ h => h.elim) hg.body
      exact ⟨this.2, fun h => absurd h hk⟩
  q_ni := by
    intro u t s s' hni hq hrun
    obtain ⟨_, hrun⟩ := runOk_eq_some.mp hrun
    have hs' : s' = (runTask s u).1 := by rw [hrun]
    subst hs'
    obtain ⟨hloc, hprev⟩ := hni.knob.frame s
    refine holdsM_of_frame hq (fun it hit => ?_) hloc hprev
    obtain ⟨⟨hct, hit'⟩, hr⟩ := hni.items it hit
    exact ⟨runTask_frameM s u _ hct (fun a ha => ⟨hni.knob.canon a ha, hit' a ha⟩),
      fun r hr' => runTask_frameM s u r (hr r hr').1 (fun a ha => ⟨hni.knob.canon a ha, (hr r hr').2 a ha⟩)⟩
  p_ni := by
    intro u t s s' hni hp hrun
    obtain ⟨_, hrun⟩ := runOk_eq_some.mp hrun
    have hs' : s' = (runTask s u).1 := by rw [hrun]
    subst hs'
    obtain ⟨hloc, hprev⟩ := hni.frame s
    exact readyM_of_frame hp hloc hprev

/-- a completed `run_tasks` without an armed fault is a run of the system -/
theorem runTasks_runAll2 (B : Path → List Int) : ∀ (l : List MTask) (s s' : MState), s.faultIn = none →
    runTasks s l = (s', none) → runAll2 (mixSys B) l s = some s' ∧ s'.faultIn = none
  | [], s, s', hnf, h => by
    simp only [runTasks] at h
    have := (Prod.mk.inj h).1
    subst this
    exact ⟨rfl, hnf⟩
  | t :: l, s, s', hnf, h => by
    simp only [runTasks] at h
    cases hrt : runTask s t with
    | mk s1 x =>
      cases x with
      | some x => simp [hrt] at h
      | none =>
        simp only [hrt] at h
        have hnf1 := runTask_nofaultM s s1 t hnf hrt
        obtain ⟨ih, hnf'⟩ := runTasks_runAll2 B l s1 s' hnf1 h
        refine ⟨?_, hnf'⟩
        have : (mixSys B).run? t s = some s1 := runOk_eq_some.mpr ⟨hnf, hrt⟩
        simp only [runAll2, this]
        exact ih

/-! ### declarations -/

/-- a knob as it is registered: well-formed; source and targets are refs to locations (not to whole containers); the
    declared dependencies list the owner chain of the source and the declared targets the owner chain of every target
    (this is what puts the edges knob → reader into the ordering graph and the knob itself into the start set) -/
def KnobDecl (t : MTask) : Prop :=
  ∃ src ws tars, t.kind = .knob src ws tars ∧ KnobWF src ws tars ∧ PathOK src ∧ (∀ a ∈ tars, PathOK a) ∧
    (∀ d ∈ chainR src, d ∈ t.deps) ∧ (∀ a ∈ tars, ∀ d ∈ chainR a, d ∈ t.tars)

/-- a soundly declared expression / function task (`DeclOK`) or a soundly declared knob -/
def DeclM (t : MTask) : Prop := DeclOK t ∨ KnobDecl t

theorem declM_knob {t : MTask} (h : DeclM t) (hk : IsKnob t) : KnobDecl t := by
  rcases h with h | h
  · exact absurd hk (not_knob_of_kind (declOK_kind h))
  · exact h

theorem declM_not_knob {t : MTask} (h : DeclM t) (hk : ¬ IsKnob t) : DeclOK t := by
  rcases h with h | ⟨src, ws, tars, hk', _⟩
  · exact h
  · exact absurd ⟨src, ws, tars, hk'⟩ hk

/-- the declared targets cover the owner chain of every location the task writes -/
theorem declM_tars {t : MTask} (h : DeclM t) : ∀ a ∈ leafTargets t, ∀ d ∈ chainR a, d ∈ t.tars := by
  intro a ha
  rcases h with h | ⟨src, ws, tars, hk, _, _, _, _, htars⟩
  · rw [leafTargets_items (not_knob_of_kind (declOK_kind h))] at ha
    obtain ⟨it, hit, rfl⟩ := List.mem_map.mp ha
    exact declOK_tars h it hit
  · rw [leafTargets_knob hk] at ha
    exact htars a ha

/-- the declared dependencies cover the owner chain of every location an item reads -/
theorem declM_deps {t : MTask} (h : DeclM t) (it : ETask) (hit : it ∈ itemsOf t) (r : Path)
    (hr : r ∈ leafRefs it.expr) : ∀ d ∈ chainR r, d ∈ t.deps := by
  rcases h with h | ⟨src, ws, tars, hk, _⟩
  · exact declOK_deps h it hit r hr
  · rw [itemsOf_knob ⟨src, ws, tars, hk⟩] at hit; cases hit

/-! ### the declared graph has the data-flow edges (from the index invariant) -/

theorem edge_of_decl (s : MState) (hi : MInv s) (u t : MTask) (hu : u ∈ s.defs) (ht : t ∈ s.defs) (d : Path)
    (hd1 : d ∈ u.tars) (hd2 : d ∈ t.deps) : t.id ∈ gOf s.idx u.id := by
  unfold gOf
  rw [RC.mem_keys_iff _ (hi.inv.wf2 u.id)]
  show DD.cnt2 s.idx.rtasks u.id t.id ≥ 1
  rw [hi.inv.rt, hi.link]
  exact sRt_pos _ u.id t.id u.toIdx t.toIdx (look_of_mem s.defs hi.ids u hu) (look_of_mem s.defs hi.ids t ht) d hd1 hd2

theorem start_of_decl (s : MState) (hi : MInv s) (p : Path) (t : MTask) (ht : t ∈ s.defs) (d : Path)
    (hd1 : d ∈ chainR p) (hd2 : d ∈ t.deps) : t.id ∈ startOf s.idx (chainR p) := by
  unfold startOf
  rw [mem_uniq]
  refine List.mem_flatMap.mpr ⟨d, hd1, ?_⟩
  rw [RC.mem_keys_iff _ (hi.inv.wf3 d)]
  show DD.cnt2 s.idx.deptasks d t.id ≥ 1
  rw [hi.inv.dept, hi.link]
  exact sDep_pos _ t.id t.toIdx (look_of_mem s.defs hi.ids t ht) d hd2

/-- THE EDGE knob → reader (more generally writer → reader, any kinds): if some item of `t` reads a location that is
    prefix-comparable with a location `u` writes, then `t` is a declared successor of `u` — so every legal schedule
    runs `u` first. -/
theorem edge_of_write_read (s : MState) (hi : MInv s) (u t : MTask) (hu : u ∈ s.defs) (ht : t ∈ s.defs)
    (hdu : DeclM u) (hdt : DeclM t) (a : Path) (ha : a ∈ leafTargets u) (hal : 2 ≤ a.length)
    (it : ETask) (hit : it ∈ itemsOf t) (r : Path) (hr : r ∈ leafRefs it.expr) (hrl : 2 ≤ r.length)
    (hc : ¬ Incomparable a r) : t.id ∈ gOf s.idx u.id := by
  obtain ⟨d, hd1, hd2⟩ := common_of_not_incomparable a r hal hrl hc
  exact edge_of_decl s hi u t hu ht d (declM_tars hdu a ha d hd1) (declM_deps hdt it hit r hr d hd2)

/-! ### the scope -/

/-- The hypotheses of C01 for an assignment to the plain location `p` in a state that holds expression tasks, function
    tasks and linear knobs. -/
structure ScopeM (s : MState) (p : Path) : Prop where
  decl : ∀ t ∈ s.defs, DeclM t
  pathP : PathOK p
  paths : ∀ t ∈ s.defs, ∀ it ∈ itemsOf t, PathOK it.target ∧ ∀ r ∈ leafRefs it.expr, PathOK r
  /-- the locations written by different tasks (knob targets included) are incomparable -/
  h2 : ∀ t ∈ s.defs, ∀ u ∈ s.defs, t.id ≠ u.id → ∀ a ∈ leafTargets t, ∀ b ∈ leafTargets u, Incomparable b a
  /-- … and so is the assigned one -/
  h2p : ∀ t ∈ s.defs, ∀ a ∈ leafTargets t, Incomparable p a
  /-- no item reads what it writes -/
  h3 : ∀ t ∈ s.defs, ∀ it ∈ itemsOf t, ∀ r ∈ leafRefs it.expr, Incomparable it.target r
  /-- within one body a later line does not disturb an earlier one -/
  body : ∀ t ∈ s.defs, (itemsOf t).Pairwise (fun a b => Incomparable b.target a.target ∧
      ∀ r ∈ leafRefs a.expr, Incomparable b.target r)
  /-- the source of a knob is a PLAIN location: no task writes anything comparable with it; and it is the assigned
      location itself or incomparable with it -/
  ksrc : ∀ k ∈ s.defs, ∀ src ws tars, k.kind = .knob src ws tars →
      (src = p ∨ Incomparable p src) ∧ ∀ u ∈ s.defs, ∀ a ∈ leafTargets u, Incomparable a src
  nofault : s.faultIn = none

theorem ScopeM.tarsOK {s : MState} {p : Path} (sc : ScopeM s p) {t : MTask} (ht : t ∈ s.defs) :
    ∀ a ∈ leafTargets t, PathOK a := by
  intro a ha
  by_cases hk : IsKnob t
  · obtain ⟨src, ws, tars, hk', _, _, htars, _⟩ := declM_knob (sc.decl t ht) hk
    rw [leafTargets_knob hk'] at ha
    exact htars a ha
  · rw [leafTargets_items hk] at ha
    obtain ⟨it, hit, rfl⟩ := List.mem_map.mp ha
    exact (sc.paths t ht it hit).1

theorem ScopeM.locsOK {s : MState} {p : Path} (sc : ScopeM s p) {t : MTask} (ht : t ∈ s.defs) :
    ∀ b ∈ knobLocs t, PathOK b := by
  intro b hb
  by_cases hk : IsKnob t
  · obtain ⟨src, ws, tars, hk', _, hsrc, htars, _⟩ := declM_knob (sc.decl t ht) hk
    rw [knobLocs_knob hk'] at hb
    rcases List.mem_cons.mp hb with rfl | hb
    · exact hsrc
    · exact htars b hb
  · rw [knobLocs_not_knob hk] at hb; cases hb

theorem ScopeM.good {s : MState} {p : Path} (sc : ScopeM s p) {t : MTask} (ht : t ∈ s.defs) : GoodM t where
  items := fun it hit => ⟨(sc.paths t ht it hit).1.2, fun r hr => ⟨((sc.paths t ht it hit).2 r hr).2, sc.h3 t ht it hit r hr⟩⟩
  body := by
    refine (sc.body t ht).imp_of_mem ?_
    intro a b ha hb hab
    exact ⟨(sc.paths t ht b hb).1.2, (sc.paths t ht a ha).1.2, hab.1,
      fun r hr => ⟨((sc.paths t ht a ha).2 r hr).2, hab.2 r hr⟩⟩
  knob := fun hk => by
    obtain ⟨src, ws, tars, hk', hwf, _⟩ := declM_knob (sc.decl t ht) hk
    exact ⟨src, ws, tars, hk', hwf⟩

/-- no task writes what the knob predicates of another task look at -/
theorem ScopeM.knobUntouched {s : MState} {p : Path} (sc : ScopeM s p) {u t : MTask} (hu : u ∈ s.defs)
    (ht : t ∈ s.defs) (hne : u.id ≠ t.id) : KnobUntouched u t where
  ne := hne
  canon := fun a ha => (sc.tarsOK hu a ha).2
  locs := by
    intro b hb
    refine ⟨(sc.locsOK ht b hb).2, fun a ha => ?_⟩
    by_cases hk : IsKnob t
    · obtain ⟨src, ws, tars, hk'⟩ := hk
      rw [knobLocs_knob hk'] at hb
      rcases List.mem_cons.mp hb with rfl | hb
      · exact (sc.ksrc t ht b ws tars hk').2 u hu a ha
      · exact sc.h2 t ht u hu (fun e => hne e.symm) b (by rw [leafTargets_knob hk']; exact hb) a ha
    · rw [knobLocs_not_knob hk] at hb; cases hb

/-- non-interference from the absence of an edge: a task that is not a declared successor of `u` is not disturbed by
    `u` -/
theorem ScopeM.untouched {s : MState} {p : Path} (sc : ScopeM s p) (hi : MInv s) {u t : MTask} (hu : u ∈ s.defs)
    (ht : t ∈ s.defs) (hne : u.id ≠ t.id) (hno : t.id ∉ gOf s.idx u.id) : Untouched u t where
  knob := sc.knobUntouched hu ht hne
  items := by
    intro it hit
    refine ⟨⟨(sc.paths t ht it hit).1.2, fun a ha => ?_⟩, fun r hr => ⟨((sc.paths t ht it hit).2 r hr).2, fun a ha => ?_⟩⟩
    · exact sc.h2 t ht u hu (fun e => hne e.symm) it.target (item_target_mem_leafTargets hit) a ha
    · refine Classical.byContradiction fun hc => hno ?_
      exact edge_of_write_read s hi u t hu ht (sc.decl u hu) (sc.decl t ht) a ha (sc.tarsOK hu a ha).1 it hit r hr
        ((sc.paths t ht it hit).2 r hr).1 hc

/-- a task one of whose items reads the assigned location, and a knob whose source it is, are in the start set -/
theorem ScopeM.start_of_src {s : MState} {p : Path} (sc : ScopeM s p) (hi : MInv s) {t : MTask} (ht : t ∈ s.defs)
    {ws : List Int} {tars : List Path} (hk : t.kind = .knob p ws tars) : t.id ∈ startOf s.idx (chainR p) := by
  obtain ⟨src, ws', tars', hk', _, _, _, hdeps, _⟩ := declM_knob (sc.decl t ht) ⟨p, ws, tars, hk⟩
  obtain ⟨rfl, rfl, rfl⟩ := knob_inj hk hk'
  obtain ⟨d, hd1, _⟩ := common_of_not_incomparable p p sc.pathP.1 sc.pathP.1 (knob_not_incomparable_self p)
  exact start_of_decl s hi p t ht d hd1 (hdeps d hd1)

theorem ScopeM.start_of_item {s : MState} {p : Path} (sc : ScopeM s p) (hi : MInv s) {t : MTask} (ht : t ∈ s.defs)
    {it : ETask} (hit : it ∈ itemsOf t) {r : Path} (hr : r ∈ leafRefs it.expr) (hc : ¬ Incomparable p r) :
    t.id ∈ startOf s.idx (chainR p) := by
  obtain ⟨d, hd1, hd2⟩ := common_of_not_incomparable p r sc.pathP.1 ((sc.paths t ht it hit).2 r hr).1 hc
  exact start_of_decl s hi p t ht d hd1 (declM_deps (sc.decl t ht) it hit r hr d hd2)

/-- the user's write of an integer to `p` leaves every knob ready: targets and remembered values are untouched, and a
    source is `p` itself (now the integer `v`) or away from `p` -/
theorem ScopeM.ready_after_write {s s1 : MState} {p : Path} {v : Int} {B : Path → List Int} (sc : ScopeM s p)
    (hset : set s.store p (.int v) = .ok s1.store) (hprev : s1.prev = s.prev) (hk : ∀ t ∈ s.defs, ReadyM B t s) :
    ∀ t ∈ s.defs, ReadyM B t s1 := by
  have hcp := sc.pathP.2
  have wframe : ∀ q, canonPath q → Incomparable p q → get s1.store q = get s.store q :=
    fun q hq hi' => get_set_incomparable hset hi' hcp hq
  intro t ht hkn
  obtain ⟨hinv, src, ws, tars, x, hkk, hsx⟩ := hk t ht hkn
  refine ⟨KnobInv_transfer (fun a ha => wframe a (sc.tarsOK ht a ha).2 (sc.h2p t ht a ha)) (by rw [hprev]) hinv, ?_⟩
  rcases (sc.ksrc t ht src ws tars hkk).1 with rfl | hinc
  · exact ⟨src, ws, tars, v, hkk, get_set_same hset⟩
  · refine ⟨src, ws, tars, x, hkk, ?_⟩
    rw [wframe src (sc.locsOK ht src (by rw [knobLocs_knob hkk]; exact List.mem_cons_self ..)).2 hinc]
    exact hsx

/-! ### one assignment -/

/-- a settled knob is settled at whatever integer its source holds -/
theorem KnobAt.at_val {t : MTask} {bs : List Int} {x x' : Int} {s : MState} (h : KnobAt t bs x' s)
    {src : Path} {ws : List Int} {tars : List Path} (hk : t.kind = .knob src ws tars)
    (hv : get s.store src = .ok (.int x)) : KnobAt t bs x s := by
  obtain ⟨hs, _, _⟩ := h.index hk
  rw [hv] at hs
  cases hs
  exact h

/-- what holds after a completed assignment `p := v` that triggered the tasks with ids `π` (state before: `s`,
    after: `s'`) -/
structure MixedPost (B : Path → List Int) (π : List Path) (p : Path) (v : Int) (s s' : MState) : Prop where
  /-- every item of every expression / function task holds (triggered: recomputed; untriggered: frame) -/
  items : ConsistentF s'
  /-- every knob on the assigned location is settled at the assigned value: target `i` holds `b_i + w_i * v` -/
  onP : ∀ t ∈ s.defs, ∀ ws tars, t.kind = .knob p ws tars → KnobAt t (B t.id) v s'
  /-- a triggered knob on another source is settled at the (unchanged) value of that source -/
  trig : ∀ t ∈ s.defs, t.id ∈ π → ∀ src ws tars x, t.kind = .knob src ws tars → src ≠ p →
      get s.store src = .ok (.int x) → KnobAt t (B t.id) x s'
  /-- an untriggered knob that was settled is still settled, at the same value -/
  settled : ∀ t ∈ s.defs, t.id ∉ π → ∀ x, KnobAt t (B t.id) x s → KnobAt t (B t.id) x s'
  /-- every knob, triggered or not, has its invariant with the bases it had, and an integer source -/
  inv : ∀ t ∈ s.defs, ReadyM B t s'
  /-- the assigned location holds the assigned value -/
  val : get s'.store p = .ok (.int v)
  /-- frame: a location that is incomparable with `p` and with every location a triggered task writes is unchanged -/
  frame : ∀ q, canonPath q → Incomparable p q →
      (∀ t ∈ s.defs, t.id ∈ π → ∀ a ∈ leafTargets t, Incomparable a q) → get s'.store q = get s.store q
  defs : s'.defs = s.defs
  idx : s'.idx = s.idx
  nofault : s'.faultIn = none
  frozen : s'.frozen = s.frozen

/-- **C01, mixed triggered set, after the graph part of `set_value`.**  `s` is reachable through the API (`MInv`) and
    in scope (`ScopeM`); the scheduler returns a legal order; the items of the *untriggered* expression / function tasks
    hold; every knob has its invariant (bases `B id`) and an integer source.  Then after a completed
    `write + run_tasks` of the integer `v` to `p` everything in `MixedPost` holds. -/
theorem writeAndRun_mixed (sched : Sched) (B : Path → List Int) (s : MState) (p : Path) (v : Int) (hi : MInv s)
    (sc : ScopeM s p)
    (hvs : ValidSched (gOf s.idx) (findTaskids s.idx (chainR p)) (sched (findTaskids s.idx (chainR p))))
    (hc : ∀ t ∈ s.defs, t.id ∉ sched (findTaskids s.idx (chainR p)) → ∀ it ∈ itemsOf t, (exprSys pySem).Q it s.store)
    (hk : ∀ t ∈ s.defs, ReadyM B t s)
    (s' : MState) (hok : writeAndRun sched s p (.int v) = (s', none)) :
    MixedPost B (sched (findTaskids s.idx (chainR p))) p v s s' := by
  unfold writeAndRun at hok
  cases hw : writeRef s p (.int v) with
  | mk s1 x =>
    cases x with
    | some x => simp [hw] at hok
    | none =>
      simp only [hw] at hok
      obtain ⟨hset, hnf1, hd1, hi1, hf1⟩ := writeRef_nofault s p (.int v) sc.nofault s1 hw
      have hpv1 : s1.prev = s.prev := by
        have := writeRef_prev s p (.int v)
        rw [hw] at this
        exact this
      rw [hi1, hd1] at hok
      generalize hm : List.mapM (lookTask s.defs) (sched (findTaskids s.idx (chainR p))) = res at hok
      cases res with
      | error e => simp at hok
      | ok l =>
        simp only at hok
        obtain ⟨hlmap, hlsub⟩ := mapM_lookDef s.defs _ (lookTask_ok s.defs) _ l hm
        obtain ⟨hrun, hnf'⟩ := runTasks_runAll2 B l s1 s' hnf1 hok
        have hg := runTasks_graph l s1
        rw [hok] at hg
        obtain ⟨hgi, hgd, hgf⟩ := hg
        obtain ⟨_, hmem⟩ := findTaskids_once_exact s hi (chainR p)
        generalize hπ : sched (findTaskids s.idx (chainR p)) = π at hvs hlmap hc ⊢
        have memπ : ∀ x, x ∈ π ↔ ∃ s0 ∈ startOf s.idx (chainR p), Dfs3.Reach (gOf s.idx) s0 x :=
          fun x => (hvs.mem x).trans (hmem x)
        have hlπ : ∀ t ∈ l, t.id ∈ π := fun t ht => by rw [← hlmap]; exact List.mem_map_of_mem ht
        have hlnd : (l.map (·.id)).Nodup := by rw [hlmap]; exact hvs.nodup
        have inl : ∀ t ∈ s.defs, t.id ∈ π → t ∈ l := by
          intro t ht hin
          have : t.id ∈ l.map (·.id) := by rw [hlmap]; exact hin
          obtain ⟨t', ht', hte⟩ := List.mem_map.mp this
          have : t' = t := eq_of_id_eq s.defs hi.ids t' (hlsub t' ht') t ht hte
          exact this ▸ ht'
        have closed : ∀ u ∈ l, ∀ t : MTask, t.id ∈ gOf s.idx u.id → t.id ∈ π := by
          intro u hu t hedge
          obtain ⟨s0, hs0, hreach⟩ := (memπ u.id).mp (hlπ u hu)
          exact (memπ t.id).mpr ⟨s0, hs0, hreach.tail hedge⟩
        have instart : ∀ t : MTask, t.id ∈ startOf s.idx (chainR p) → t.id ∈ π :=
          fun t h => (memπ t.id).mpr ⟨t.id, h, Dfs3.Reach.refl _⟩
        -- the user's write
        have hcp := sc.pathP.2
        have hpv : get s1.store p = .ok (.int v) := get_set_same hset
        have wframe : ∀ q, canonPath q → Incomparable p q → get s1.store q = get s.store q :=
          fun q hq hi' => get_set_incomparable hset hi' hcp hq
        have wtars : ∀ t ∈ s.defs, ∀ a ∈ leafTargets t, get s1.store a = get s.store a :=
          fun t ht a ha => wframe a (sc.tarsOK ht a ha).2 (sc.h2p t ht a ha)
        have wprev : ∀ id, lookPrev s1.prev id = lookPrev s.prev id := fun id => by rw [hpv1]
        have ready1 : ∀ t ∈ s.defs, ReadyM B t s1 := sc.ready_after_write hset hpv1 hk
        -- the scheduling lemma
        have key : (∀ t, (t ∈ s.defs ∧ t.id ∉ π ∧ ¬ IsKnob t) → HoldsM B t s') ∧ (∀ t ∈ l, HoldsM B t s') :=
          runAll2_Q (mixSys B) l s1 s' (fun t => t ∈ s.defs ∧ t.id ∉ π ∧ ¬ IsKnob t) hrun
            (fun t ht => sc.good (hlsub t ht))
            (fun t ht => ready1 t (hlsub t ht))
            (by
              -- items of untriggered tasks still hold after the user's write
              rintro t ⟨ht, hnot, hnk⟩
              refine ⟨fun it hit => ?_, fun h => absurd h hnk⟩
              obtain ⟨hpt, hpr⟩ := sc.paths t ht it hit
              refine Capstone.Q_after_set pySem it s.store s1.store p (.int v) (hc t ht hnot it hit) hset hcp hpt.2
                (sc.h2p t ht it.target (item_target_mem_leafTargets hit)) ?_
              intro r hr
              refine ⟨(hpr r hr).2, Classical.byContradiction fun hcmp => hnot ?_⟩
              exact instart t (sc.start_of_item hi ht hit hr hcmp))
            (by
              -- and no triggered task disturbs them
              rintro t ⟨ht, hnot, _⟩ u hu
              have hne : u.id ≠ t.id := fun e => hnot (e ▸ hlπ u hu)
              exact sc.untouched hi (hlsub u hu) ht hne (fun hedge => hnot (closed u hu t hedge)))
            (by
              -- the schedule is in dependency order
              apply Capstone.pairwise_of_before (·.id) _ l hlnd
              intro T hT U hU hne hnot
              rw [hlmap]
              have hedge : T.id ∈ gOf s.idx U.id := by
                refine Classical.byContradiction fun hno => hnot ⟨?_, ?_⟩
                · exact sc.untouched hi (hlsub U hU) (hlsub T hT) (fun e => hne e.symm) hno
                · exact sc.knobUntouched (hlsub T hT) (hlsub U hU) hne
              exact hvs.order U.id T.id (hlπ U hU) (hlπ T hT) hedge hne)
        -- what the run as a whole leaves alone
        have rframe : ∀ q, canonPath q → (∀ t ∈ l, ∀ a ∈ leafTargets t, Incomparable a q) →
            get s'.store q = get s1.store q := by
          intro q hq h
          have := runTasks_frameM l s1 q hq (fun t ht a ha => ⟨(sc.tarsOK (hlsub t ht) a ha).2, h t ht a ha⟩)
          rw [hok] at this
          exact this
        have rprev : ∀ id, id ∉ π → lookPrev s'.prev id = lookPrev s1.prev id := by
          intro id hid
          have := runTasks_prevM l s1 id (fun t ht e => hid (e ▸ hlπ t ht))
          rw [hok] at this
          exact this
        have srcframe : ∀ t ∈ s.defs, ∀ src ws tars, t.kind = .knob src ws tars →
            get s'.store src = get s1.store src := by
          intro t ht src ws tars hkk
          exact rframe src (sc.locsOK ht src (by rw [knobLocs_knob hkk]; exact List.mem_cons_self ..)).2
            (fun u hu a ha => (sc.ksrc t ht src ws tars hkk).2 u (hlsub u hu) a ha)
        have rlocs : ∀ t ∈ s.defs, t.id ∉ π → ∀ q ∈ knobLocs t, get s'.store q = get s1.store q := by
          intro t ht hnot q hq
          refine rframe q (sc.locsOK ht q hq).2 (fun u hu a ha => ?_)
          have hne : u.id ≠ t.id := fun e => hnot (e ▸ hlπ u hu)
          exact ((sc.knobUntouched (hlsub u hu) ht hne).locs q hq).2 a ha
        have hpf : get s'.store p = .ok (.int v) := by
          rw [rframe p hcp (fun t ht a ha => Capstone.incomparable_symm (sc.h2p t (hlsub t ht) a ha))]
          exact hpv
        have trigAt : ∀ t ∈ s.defs, t.id ∈ π → ∀ src ws tars x, t.kind = .knob src ws tars →
            get s1.store src = .ok (.int x) → KnobAt t (B t.id) x s' := by
          intro t ht hin src ws tars x hkk hsx
          obtain ⟨x', hx'⟩ := (key.2 t (inl t ht hin)).2 ⟨src, ws, tars, hkk⟩
          refine hx'.at_val hkk ?_
          rw [srcframe t ht src ws tars hkk]
          exact hsx
        refine
          { items := ?_, onP := ?_, trig := ?_, settled := ?_, inv := ?_, val := hpf, frame := ?_,
            defs := by rw [hgd, hd1], idx := by rw [hgi, hi1], nofault := hnf', frozen := by rw [hgf, hf1] }
        · intro t ht it hit
          rw [hgd, hd1] at ht
          by_cases hin : t.id ∈ π
          · exact (key.2 t (inl t ht hin)).1 it hit
          · by_cases hkn : IsKnob t
            · rw [itemsOf_knob hkn] at hit; cases hit
            · exact (key.1 t ⟨ht, hin, hkn⟩).1 it hit
        · intro t ht ws tars hkk
          exact trigAt t ht (instart t (sc.start_of_src hi ht hkk)) p ws tars v hkk hpv
        · intro t ht hin src ws tars x hkk hne hsx
          refine trigAt t ht hin src ws tars x hkk ?_
          rcases (sc.ksrc t ht src ws tars hkk).1 with e | hinc
          · exact absurd e hne
          · rw [wframe src (sc.locsOK ht src (by rw [knobLocs_knob hkk]; exact List.mem_cons_self ..)).2 hinc]
            exact hsx
        · intro t ht hnot x hat
          have hat0 := hat
          obtain ⟨src, ws, tars, hkk, _⟩ := hat0
          have hloc1 : ∀ q ∈ knobLocs t, get s1.store q = get s.store q := by
            intro q hq
            have hq' := hq
            rw [knobLocs_knob hkk] at hq'
            rcases List.mem_cons.mp hq' with rfl | hq'
            · rcases (sc.ksrc t ht q ws tars hkk).1 with rfl | hinc
              · exact absurd (instart t (sc.start_of_src hi ht hkk)) hnot
              · exact wframe q (sc.locsOK ht q hq).2 hinc
            · exact wtars t ht q (by rw [leafTargets_knob hkk]; exact hq')
          have h1 := (knob_transfer (s := s) (s' := s1) hloc1 (wprev t.id)).2.1 _ _ hat
          exact (knob_transfer (rlocs t ht hnot) (rprev t.id hnot)).2.1 _ _ h1
        · intro t ht
          by_cases hin : t.id ∈ π
          · intro hkn
            obtain ⟨x, hx⟩ := (key.2 t (inl t ht hin)).2 hkn
            exact ⟨hx.inv, hx.srcInt⟩
          · exact readyM_of_frame (ready1 t ht) (rlocs t ht hin) (rprev t.id hin)
        · intro q hq hpq hall
          rw [rframe q hq (fun t ht a ha => hall t (hlsub t ht) (hlπ t ht) a ha)]
          exact wframe q hq hpq

/-- **C01, mixed triggered set, `set_value(ref, value)` on a plain location.** -/
theorem setValue_mixed (sched : Sched) (B : Path → List Int) (s : MState) (p : Path) (v : Int) (hi : MInv s)
    (hnodef : lookDef s.defs p = none) (sc : ScopeM s p)
    (hvs : ValidSched (gOf s.idx) (findTaskids s.idx (chainR p)) (sched (findTaskids s.idx (chainR p))))
    (hc : ∀ t ∈ s.defs, t.id ∉ sched (findTaskids s.idx (chainR p)) → ∀ it ∈ itemsOf t, (exprSys pySem).Q it s.store)
    (hk : ∀ t ∈ s.defs, ReadyM B t s)
    (s' : MState) (hok : setValue sched s p (.int v) = (s', none)) :
    MixedPost B (sched (findTaskids s.idx (chainR p))) p v s s' := by
  have : setValue sched s p (.int v) = writeAndRun sched s p (.int v) := by
    unfold setValue; simp only [hnodef]
  rw [this] at hok
  exact writeAndRun_mixed sched B s p v hi sc hvs hc hk s' hok

/-! ### the state predicate, and any number of assignments -/

/-- C01's state predicate with knobs: every item of every expression / function task holds, and every knob is settled
    — its targets hold `b_i + w_i * value(source)` for the bases `B id` -/
def ConsistentM (B : Path → List Int) (s : MState) : Prop :=
  ConsistentF s ∧ ∀ t ∈ s.defs, IsKnob t → ∃ x, KnobAt t (B t.id) x s

theorem ConsistentM.ready {B : Path → List Int} {s : MState} (h : ConsistentM B s) : ∀ t ∈ s.defs, ReadyM B t s := by
  intro t ht hkn
  obtain ⟨x, hx⟩ := h.2 t ht hkn
  exact ⟨hx.inv, hx.srcInt⟩

/-- a consistent state stays consistent, with the same bases -/
theorem MixedPost.consistentM {B : Path → List Int} {π : List Path} {p : Path} {v : Int} {s s' : MState}
    (h : MixedPost B π p v s s') (hc : ConsistentM B s) : ConsistentM B s' := by
  refine ⟨h.items, fun t ht hkn => ?_⟩
  rw [h.defs] at ht
  obtain ⟨x, hx⟩ := hc.2 t ht hkn
  obtain ⟨src, ws, tars, hkk⟩ := hkn
  by_cases hsp : src = p
  · subst hsp
    exact ⟨v, h.onP t ht ws tars hkk⟩
  · by_cases hin : t.id ∈ π
    · exact ⟨x, h.trig t ht hin src ws tars x hkk hsp (hx.index hkk).1⟩
    · exact ⟨x, h.settled t ht hin x hx⟩

/-- a series of assignments of integers to (plain) locations -/
def mixedAssignAll (sched : Sched) (s : MState) : List (Path × Int) → MState
  | [] => s
  | (p, v) :: rest => mixedAssignAll sched (setValue sched s p (.int v)).1 rest

theorem mixedAssignAll_eq_applyAll (sched : Sched) : ∀ (as : List (Path × Int)) (s : MState),
    mixedAssignAll sched s as = applyAll sched s (as.map (fun a => Call.setValue a.1 (.int a.2)))
  | [], _ => rfl
  | (p, v) :: rest, s => by
    simp only [mixedAssignAll, List.map_cons, applyAll, apply]
    exact mixedAssignAll_eq_applyAll sched rest _

theorem mixedAssignAll_append (sched : Sched) : ∀ (as : List (Path × Int)) (s : MState) (p : Path) (v : Int),
    mixedAssignAll sched s (as ++ [(p, v)]) = (setValue sched (mixedAssignAll sched s as) p (.int v)).1
  | [], _, _, _ => rfl
  | (q, w) :: as, s, p, v => by
    simp only [List.cons_append, mixedAssignAll]
    exact mixedAssignAll_append sched as _ p v

/-- every assignment of the series is to a plain location, is in scope, gets a legal schedule and completes -/
def MixedRun (sched : Sched) : MState → List (Path × Int) → Prop
  | _, [] => True
  | s, (p, v) :: rest =>
    lookDef s.defs p = none ∧ ScopeM s p ∧
    ValidSched (gOf s.idx) (findTaskids s.idx (chainR p)) (sched (findTaskids s.idx (chainR p))) ∧
    (setValue sched s p (.int v)).2 = none ∧ MixedRun sched (setValue sched s p (.int v)).1 rest

theorem mixedRun_step {sched : Sched} {B : Path → List Int} {s : MState} {p : Path} {v : Int} (hi : MInv s)
    (hc : ConsistentM B s) (hnodef : lookDef s.defs p = none) (sc : ScopeM s p)
    (hvs : ValidSched (gOf s.idx) (findTaskids s.idx (chainR p)) (sched (findTaskids s.idx (chainR p))))
    (hok : (setValue sched s p (.int v)).2 = none) :
    MixedPost B (sched (findTaskids s.idx (chainR p))) p v s (setValue sched s p (.int v)).1 := by
  have hok' : setValue sched s p (.int v) = ((setValue sched s p (.int v)).1, none) := by rw [← hok]
  exact setValue_mixed sched B s p v hi hnodef sc hvs (fun t ht _ => hc.1 t ht) hc.ready _ hok'

/-- **C01 with knobs over a series of assignments.**  From a state reachable through the API in which everything is
    consistent, after any `MixedRun` everything is consistent again — every expression / function item holds and every
    knob target holds `b_i + w_i * value(source)` with the bases it started with; the graph is untouched. -/
theorem mixedRun_consistent (sched : Sched) (B : Path → List Int) : ∀ (as : List (Path × Int)) (s : MState), MInv s →
    ConsistentM B s → MixedRun sched s as →
    ConsistentM B (mixedAssignAll sched s as) ∧ MInv (mixedAssignAll sched s as) ∧
      SameGraph s (mixedAssignAll sched s as)
  | [], s, hi, hc, _ => ⟨hc, hi, SameGraph.refl s⟩
  | (p, v) :: rest, s, hi, hc, hr => by
    obtain ⟨hnodef, sc, hvs, hok, hrest⟩ := hr
    have hpost := mixedRun_step (B := B) hi hc hnodef sc hvs hok
    have hi' := setValue_MInv sched s p (.int v) hi
    obtain ⟨h1, h2, h3⟩ := mixedRun_consistent sched B rest _ hi' (hpost.consistentM hc) hrest
    exact ⟨h1, h2, SameGraph.trans ⟨hpost.idx, hpost.defs, hpost.frozen⟩ h3⟩

/-- … and after a last assignment `p := v` the location holds `v` and every knob on `p` is settled at `v` -/
theorem mixedRun_last (sched : Sched) (B : Path → List Int) (as : List (Path × Int)) (p : Path) (v : Int) (s : MState)
    (hi : MInv s) (hc : ConsistentM B s) (hr : MixedRun sched s as)
    (hlast : MixedRun sched (mixedAssignAll sched s as) [(p, v)]) :
    get (mixedAssignAll sched s (as ++ [(p, v)])).store p = .ok (.int v) ∧
    ∀ t ∈ s.defs, ∀ ws tars, t.kind = .knob p ws tars →
      KnobAt t (B t.id) v (mixedAssignAll sched s (as ++ [(p, v)])) := by
  obtain ⟨hc', hi', hg⟩ := mixedRun_consistent sched B as s hi hc hr
  obtain ⟨hnodef, sc, hvs, hok, _⟩ := hlast
  have hpost := mixedRun_step (B := B) hi' hc' hnodef sc hvs hok
  rw [mixedAssignAll_append]
  refine ⟨hpost.val, fun t ht ws tars hkk => hpost.onP t ?_ ws tars hkk⟩
  rw [hg.2.1]
  exact ht

theorem mixedRun_append (sched : Sched) : ∀ (as bs : List (Path × Int)) (s : MState),
    MixedRun sched s (as ++ bs) ↔ MixedRun sched s as ∧ MixedRun sched (mixedAssignAll sched s as) bs
  | [], bs, s => by simp [MixedRun, mixedAssignAll]
  | (p, v) :: as, bs, s => by
    simp only [List.cons_append, MixedRun, mixedAssignAll, mixedRun_append sched as bs]
    constructor
    · rintro ⟨h1, h2, h3, h4, h5, h6⟩
      exact ⟨⟨h1, h2, h3, h4, h5⟩, h6⟩
    · rintro ⟨⟨h1, h2, h3, h4, h5⟩, h6⟩
      exact ⟨h1, h2, h3, h4, h5, h6⟩

/-- `ScopeM` only looks at the task table and the fault flag, which a plain assignment leaves alone -/
theorem ScopeM_congr {s s' : MState} {p : Path} (h : ScopeM s p) (hd : s'.defs = s.defs) (hf : s'.faultIn = none) :
    ScopeM s' p :=
  { decl := by rw [hd]; exact h.decl
    pathP := h.pathP
    paths := by rw [hd]; exact h.paths
    h2 := by rw [hd]; exact h.h2
    h2p := by rw [hd]; exact h.h2p
    h3 := by rw [hd]; exact h.h3
    body := by rw [hd]; exact h.body
    ksrc := by rw [hd]; exact h.ksrc
    nofault := hf }

/-! ### the run completes (integer data)

C01 speaks about *completed* assignments, and the theorems above take completion as a hypothesis — an expression may
raise (a `TypeError` on a container, an `OverflowError` when NaN meets a huge int, …).  On integer data and with
expressions built from `+`, `-`, `*`, unary `±`, integer literals and refs nothing can raise: every location the run
looks at (`R`) holds an integer before, during and after the run.  Knob runs never raise on integer data whatever
the weights (`runTask_knob_inv`). -/

/-- expressions over `+`, `-`, `*`, unary `-` / `+`, integer literals and refs -/
def intSafeB : Expr → Bool
  | .lit (.int _) => true
  | .lit _ => false
  | .ref _ => true
  | .bin op l r => (op == "Add" || op == "Sub" || op == "Mul") && intSafeB l && intSafeB r
  | .un op a => (op == "Neg" || op == "Pos") && intSafeB a

theorem eval_intSafe (σ : Val) : ∀ (e : Expr), intSafeB e = true →
    (∀ r ∈ leafRefs e, ∃ i, get σ r = .ok (.int i)) → ∃ i, eval pySem σ e = .ok (.int i)
  | .lit v, h, _ => by
    cases v with
    | int i => exact ⟨i, rfl⟩
    | none => simp [intSafeB] at h
    | nan => simp [intSafeB] at h
    | dict _ => simp [intSafeB] at h
    | list _ => simp [intSafeB] at h
    | obj _ => simp [intSafeB] at h
  | .ref p, _, hr => hr p (by simp [leafRefs])
  | .bin op l r, h, hr => by
    simp only [intSafeB, Bool.and_eq_true, Bool.or_eq_true, beq_iff_eq] at h
    obtain ⟨⟨hop, hl⟩, hr'⟩ := h
    obtain ⟨a, ha⟩ := eval_intSafe σ l hl (fun q hq => hr q (by simp [leafRefs, hq]))
    obtain ⟨b, hb⟩ := eval_intSafe σ r hr' (fun q hq => hr q (by simp [leafRefs, hq]))
    simp only [eval, ha, hb, bind, Except.bind]
    rcases hop with (rfl | rfl) | rfl
    · exact ⟨a + b, rfl⟩
    · exact ⟨a - b, rfl⟩
    · exact ⟨a * b, rfl⟩
  | .un op a, h, hr => by
    simp only [intSafeB, Bool.and_eq_true, Bool.or_eq_true, beq_iff_eq] at h
    obtain ⟨hop, ha⟩ := h
    obtain ⟨x, hx⟩ := eval_intSafe σ a ha (fun q hq => hr q (by simpa [leafRefs] using hq))
    simp only [eval, hx, bind, Except.bind]
    rcases hop with rfl | rfl
    · exact ⟨-x, rfl⟩
    · exact ⟨x, rfl⟩

/-- every location of `R` holds an integer -/
def IntWorld (R : List Path) (σ : Val) : Prop := ∀ q ∈ R, ∃ i, get σ q = .ok (.int i)

/-- two locations that both hold integers are the same location or prefix-incomparable (an integer has no parts) -/
theorem int_locs_eq_or_incomparable : ∀ (a q : Path) (σ : Val) (i j : Int), get σ a = .ok (.int i) →
    get σ q = .ok (.int j) → a = q ∨ Incomparable a q
  | [], [], _, _, _, _, _ => Or.inl rfl
  | [], t :: q, σ, i, j, ha, hq => by
    simp only [Store.get, Except.ok.injEq] at ha
    subst ha
    cases t <;> simp [Store.get, getStep, bind, Except.bind] at hq
  | s :: a, [], σ, i, j, ha, hq => by
    simp only [Store.get, Except.ok.injEq] at hq
    subst hq
    cases s <;> simp [Store.get, getStep, bind, Except.bind] at ha
  | s :: a, t :: q, σ, i, j, ha, hq => by
    by_cases hst : s = t
    · subst hst
      simp only [Store.get, bind, Except.bind] at ha hq
      cases hc : getStep σ s with
      | error e => simp [hc] at ha
      | ok c =>
        simp only [hc] at ha hq
        rcases int_locs_eq_or_incomparable a q c i j ha hq with h | h
        · exact Or.inl (by rw [h])
        · exact Or.inr (Or.inr h)
    · exact Or.inr (Or.inl hst)

theorem IntWorld.set {R : List Path} {σ σ' : Val} {a : Path} {i : Int} (hR : ∀ q ∈ R, canonPath q)
    (hw : IntWorld R σ) (ha : a ∈ R) (hset : set σ a (.int i) = .ok σ') : IntWorld R σ' := by
  intro q hq
  obtain ⟨j, hj⟩ := hw q hq
  obtain ⟨k, hk⟩ := hw a ha
  rcases int_locs_eq_or_incomparable a q σ k j hk hj with rfl | hinc
  · exact ⟨i, get_set_same hset⟩
  · exact ⟨j, by rw [get_set_incomparable hset hinc (hR a ha) (hR q hq)]; exact hj⟩

theorem writeRef_int_total {R : List Path} (hR : ∀ q ∈ R, canonPath q) (s : MState) (a : Path) (i : Int)
    (hnf : s.faultIn = none) (hw : IntWorld R s.store) (ha : a ∈ R) (hne : a ≠ []) :
    ∃ s1, writeRef s a (.int i) = (s1, none) ∧ s1.faultIn = none ∧ IntWorld R s1.store := by
  obtain ⟨k, hk⟩ := hw a ha
  obtain ⟨σ1, hset⟩ := set_ok_of_get a s.store _ (.int i) hne hk
  exact ⟨_, writeRef_ok s a (.int i) σ1 hnf hset, hnf, IntWorld.set hR hw ha hset⟩

/-- the task only looks at locations of `R`, its expressions are `intSafeB`, its targets are proper paths -/
structure IntTask (R : List Path) (t : MTask) : Prop where
  items : ∀ it ∈ itemsOf t, intSafeB it.expr = true ∧ it.target ∈ R ∧ it.target ≠ [] ∧ ∀ r ∈ leafRefs it.expr, r ∈ R
  tars : ∀ a ∈ leafTargets t, a ∈ R

theorem runBody_total {R : List Path} (hR : ∀ q ∈ R, canonPath q) : ∀ (body : List (Path × Expr)) (s : MState),
    s.faultIn = none → IntWorld R s.store →
    (∀ b ∈ body, intSafeB b.2 = true ∧ b.1 ∈ R ∧ b.1 ≠ [] ∧ ∀ r ∈ leafRefs b.2, r ∈ R) →
    ∃ s', runBody s body = (s', none) ∧ s'.faultIn = none ∧ IntWorld R s'.store
  | [], s, hnf, hw, _ => ⟨s, rfl, hnf, hw⟩
  | (a, e) :: rest, s, hnf, hw, h => by
    obtain ⟨hsafe, haR, hne, hrefs⟩ := h (a, e) (List.mem_cons_self ..)
    obtain ⟨i, hi⟩ := eval_intSafe s.store e hsafe (fun r hr => hw r (hrefs r hr))
    obtain ⟨s1, hw1, hnf1, hiw1⟩ := writeRef_int_total hR s a i hnf hw haR hne
    obtain ⟨s', hrun, hnf', hiw'⟩ := runBody_total hR rest s1 hnf1 hiw1 (fun b hb => h b (List.mem_cons_of_mem _ hb))
    refine ⟨s', ?_, hnf', hiw'⟩
    have hev : evalE s e = .ok (.int i) := hi
    simp only [runBody, hev, hw1, hrun]

theorem HoldInts.mem {σ : Val} : ∀ {ts : List Path} {as : List Int}, HoldInts σ ts as →
    ∀ t ∈ ts, ∃ i, get σ t = .ok (.int i)
  | [], [], _, _, ht => by cases ht
  | t :: ts, a :: as, h, u, hu => by
    rcases List.mem_cons.mp hu with rfl | hu
    · exact ⟨a, h.1⟩
    · exact HoldInts.mem h.2 u hu
  | [], _ :: _, h, _, _ => by simp [HoldInts] at h
  | _ :: _, [], h, _, _ => by simp [HoldInts] at h

/-- ONE RUN COMPLETES: a ready, well-formed task that only looks at `R`, in a world of integers, without an armed
    fault — and the world of integers is kept -/
theorem runTask_total {R : List Path} (hR : ∀ q ∈ R, canonPath q) (B : Path → List Int) (s : MState) (t : MTask)
    (hnf : s.faultIn = none) (hw : IntWorld R s.store) (hg : GoodM t) (hit : IntTask R t) (hready : ReadyM B t s) :
    ∃ s', runTask s t = (s', none) ∧ s'.faultIn = none ∧ IntWorld R s'.store := by
  cases hk : t.kind with
  | expr e =>
    obtain ⟨hsafe, haR, hne, hrefs⟩ := hit.items ⟨t.id, e⟩ (by simp [itemsOf, hk])
    obtain ⟨i, hi⟩ := eval_intSafe s.store e hsafe (fun r hr => hw r (hrefs r hr))
    obtain ⟨s1, hw1, hnf1, hiw1⟩ := writeRef_int_total hR s t.id i hnf hw haR hne
    have hev : evalE s e = .ok (.int i) := hi
    exact ⟨s1, by simp only [runTask, hk, hev, hw1], hnf1, hiw1⟩
  | func body =>
    obtain ⟨s1, hrun, hnf1, hiw1⟩ := runBody_total hR body { s with trace := s.trace ++ [(false, t.id)] } hnf hw
      (fun b hb => hit.items ⟨b.1, b.2⟩ (by
        simp only [itemsOf, hk]
        exact List.mem_map.mpr ⟨b, hb, rfl⟩))
    exact ⟨{ s1 with trace := s.trace ++ [(false, t.id)] }, by simp only [runTask, hk, hrun], hnf1, hiw1⟩
  | knob src ws tars =>
    have hkn : IsKnob t := ⟨src, ws, tars, hk⟩
    obtain ⟨hinv, src0, ws0, tars0, x0, hk0, hs0⟩ := hready hkn
    obtain ⟨s1, hrun1, hat, _, hfr, _, _, _, hnf1⟩ := runTask_knob_inv s t (B t.id) x0 (hg.knob hkn) hnf hinv (by
      intro src' ws' tars' hk'
      obtain ⟨rfl, rfl, rfl⟩ := knob_inj hk' hk0
      exact hs0)
    refine ⟨s1, hrun1, hnf1, fun q hq => ?_⟩
    obtain ⟨src1, ws1, tars1, p0, hk1, _, hh0⟩ := hinv
    obtain ⟨src2, ws2, tars2, hk2, _, _, hh1⟩ := hat
    obtain ⟨rfl, rfl, rfl⟩ := knob_inj hk hk1
    obtain ⟨rfl, rfl, rfl⟩ := knob_inj hk hk2
    by_cases hqt : q ∈ tars
    · exact hh1.mem q hqt
    · obtain ⟨j, hj⟩ := hw q hq
      refine ⟨j, ?_⟩
      rw [hfr q (hR q hq) (fun a ha => ?_)]
      · exact hj
      · rw [leafTargets_knob hk] at ha
        obtain ⟨k, hka⟩ := hh0.mem a ha
        rcases int_locs_eq_or_incomparable a q s.store k j hka hj with rfl | hinc
        · exact absurd ha hqt
        · exact hinc

/-- A SCHEDULED LIST COMPLETES. -/
theorem runTasks_total {R : List Path} (hR : ∀ q ∈ R, canonPath q) (B : Path → List Int) : ∀ (l : List MTask)
    (s : MState), s.faultIn = none → IntWorld R s.store → (∀ t ∈ l, GoodM t) → (∀ t ∈ l, IntTask R t) →
    (∀ t ∈ l, ReadyM B t s) → l.Pairwise KnobUntouched →
    ∃ s', runTasks s l = (s', none) ∧ s'.faultIn = none ∧ IntWorld R s'.store
  | [], s, hnf, hw, _, _, _, _ => ⟨s, rfl, hnf, hw⟩
  | t :: l, s, hnf, hw, hg, hit, hready, hpw => by
    obtain ⟨hap, hpw'⟩ := List.pairwise_cons.mp hpw
    obtain ⟨s1, hrun1, hnf1, hw1⟩ := runTask_total hR B s t hnf hw (hg t (List.mem_cons_self ..))
      (hit t (List.mem_cons_self ..)) (hready t (List.mem_cons_self ..))
    have hs1 : s1 = (runTask s t).1 := by rw [hrun1]
    obtain ⟨s', hrun', hnf', hw'⟩ := runTasks_total hR B l s1 hnf1 hw1 (fun u hu => hg u (List.mem_cons_of_mem _ hu))
      (fun u hu => hit u (List.mem_cons_of_mem _ hu))
      (fun u hu => by
        obtain ⟨hloc, hprev⟩ := (hap u hu).frame s
        rw [hs1]
        exact readyM_of_frame (hready u (List.mem_cons_of_mem _ hu)) hloc hprev)
      hpw'
    exact ⟨s', by simp only [runTasks, hrun1, hrun'], hnf', hw'⟩

theorem reach_closed {g : Path → List Path} {L : List Path} (hcl : ∀ u w, w ∈ g u → w ∈ L) {a b : Path}
    (h : Dfs3.Reach g a b) (ha : a ∈ L) : b ∈ L := by
  induction h with
  | refl => exact ha
  | step hab _ ih => exact ih (hcl _ _ hab)

/-- **THE ASSIGNMENT COMPLETES.**  In scope, with a legal schedule, every knob ready, `p` and everything the triggered
    tasks look at in a world of integers `R`: `write + run_tasks` of an integer completes and `R` is still a world of
    integers. -/
theorem writeAndRun_mixed_total (sched : Sched) (B : Path → List Int) (R : List Path) (hR : ∀ q ∈ R, canonPath q)
    (s : MState) (p : Path) (v : Int) (hi : MInv s) (sc : ScopeM s p)
    (hvs : ValidSched (gOf s.idx) (findTaskids s.idx (chainR p)) (sched (findTaskids s.idx (chainR p))))
    (hk : ∀ t ∈ s.defs, ReadyM B t s) (hpR : p ∈ R) (hw : IntWorld R s.store)
    (hint : ∀ t ∈ s.defs, t.id ∈ sched (findTaskids s.idx (chainR p)) → IntTask R t) :
    ∃ s', writeAndRun sched s p (.int v) = (s', none) ∧ IntWorld R s'.store := by
  have hpne : p ≠ [] := by
    intro e
    have := sc.pathP.1
    rw [e] at this
    simp at this
  obtain ⟨s1, hw1, hnf1, hiw1⟩ := writeRef_int_total hR s p v sc.nofault hw hpR hpne
  obtain ⟨hset, _, hd1, hi1, _⟩ := writeRef_nofault s p (.int v) sc.nofault s1 hw1
  have hpv1 : s1.prev = s.prev := by
    have := writeRef_prev s p (.int v)
    rw [hw1] at this
    exact this
  obtain ⟨_, hmem⟩ := findTaskids_once_exact s hi (chainR p)
  have hfind : ∀ id ∈ sched (findTaskids s.idx (chainR p)), ∃ t, lookDef s.defs id = some t := by
    intro id hid
    obtain ⟨s0, hs0, hreach⟩ := (hmem id).mp ((hvs.mem id).mp hid)
    have : id ∈ s.defs.map (·.id) :=
      reach_closed (fun u w hw' => gOf_closed s hi u w hw') hreach (startOf_sub s hi _ s0 hs0)
    obtain ⟨t, ht, rfl⟩ := List.mem_map.mp this
    exact ⟨t, lookDef_of_mem s.defs hi.ids t ht⟩
  obtain ⟨l, hm⟩ := mapM_lookTask_ok s.defs _ hfind
  obtain ⟨hlmap, hlsub⟩ := mapM_lookDef s.defs _ (lookTask_ok s.defs) _ l hm
  have hlπ : ∀ t ∈ l, t.id ∈ sched (findTaskids s.idx (chainR p)) := fun t ht => by
    rw [← hlmap]; exact List.mem_map_of_mem ht
  have hlnd : (l.map (·.id)).Nodup := by rw [hlmap]; exact hvs.nodup
  have hpw : l.Pairwise KnobUntouched := by
    have h1 : l.Pairwise (fun a b => a.id ≠ b.id) := List.pairwise_map.mp hlnd
    exact h1.imp_of_mem (fun ha hb hne => sc.knobUntouched (hlsub _ ha) (hlsub _ hb) hne)
  obtain ⟨s', hrun, _, hw'⟩ := runTasks_total hR B l s1 hnf1 hiw1 (fun t ht => sc.good (hlsub t ht))
    (fun t ht => hint t (hlsub t ht) (hlπ t ht))
    (fun t ht => sc.ready_after_write hset hpv1 hk t (hlsub t ht)) hpw
  refine ⟨s', ?_, hw'⟩
  simp only [writeAndRun, hw1, hi1, hd1, hm, hrun]

/-- **C01, mixed triggered set, total form**: the assignment completes and everything in `MixedPost` holds. -/
theorem setValue_mixed_total (sched : Sched) (B : Path → List Int) (R : List Path) (hR : ∀ q ∈ R, canonPath q)
    (s : MState) (p : Path) (v : Int) (hi : MInv s) (hnodef : lookDef s.defs p = none) (sc : ScopeM s p)
    (hvs : ValidSched (gOf s.idx) (findTaskids s.idx (chainR p)) (sched (findTaskids s.idx (chainR p))))
    (hc : ∀ t ∈ s.defs, t.id ∉ sched (findTaskids s.idx (chainR p)) → ∀ it ∈ itemsOf t, (exprSys pySem).Q it s.store)
    (hk : ∀ t ∈ s.defs, ReadyM B t s) (hpR : p ∈ R) (hw : IntWorld R s.store)
    (hint : ∀ t ∈ s.defs, t.id ∈ sched (findTaskids s.idx (chainR p)) → IntTask R t) :
    ∃ s', setValue sched s p (.int v) = (s', none) ∧
      MixedPost B (sched (findTaskids s.idx (chainR p))) p v s s' ∧ IntWorld R s'.store := by
  obtain ⟨s', hok, hw'⟩ := writeAndRun_mixed_total sched B R hR s p v hi sc hvs hk hpR hw hint
  have : setValue sched s p (.int v) = writeAndRun sched s p (.int v) := by
    unfold setValue; simp only [hnodef]
  rw [this]
  exact ⟨s', hok, writeAndRun_mixed sched B s p v hi sc hvs hc hk s' hok, hw'⟩

/-! ### any number of assignments, total form -/

/-- what has to be checked ONCE per assigned location (a plain assignment changes neither the task table nor the
    indices): plain, in scope, legally scheduled, and the triggered tasks only look at the integer world `R` -/
structure MixedStatic (sched : Sched) (R : List Path) (s : MState) (p : Path) : Prop where
  nodef : lookDef s.defs p = none
  scope : ScopeM s p
  legal : ValidSched (gOf s.idx) (findTaskids s.idx (chainR p)) (sched (findTaskids s.idx (chainR p)))
  pR : p ∈ R
  ints : ∀ t ∈ s.defs, t.id ∈ sched (findTaskids s.idx (chainR p)) → IntTask R t

theorem MixedStatic.congr {sched : Sched} {R : List Path} {s s' : MState} {p : Path} (h : MixedStatic sched R s p)
    (hd : s'.defs = s.defs) (hi : s'.idx = s.idx) (hf : s'.faultIn = none) : MixedStatic sched R s' p :=
  { nodef := by rw [hd]; exact h.nodef
    scope := ScopeM_congr h.scope hd hf
    legal := by rw [hi]; exact h.legal
    pR := h.pR
    ints := by rw [hd, hi]; exact h.ints }

/-- **C01 with knobs over a series of assignments, total form.**  From a consistent state in a world of integers, any
    series of integer assignments to statically checked locations: every call completes (`MixedRun`), the final state
    is consistent with the same bases, `R` still holds integers, the graph is untouched. -/
theorem mixedAssignAll_total (sched : Sched) (B : Path → List Int) (R : List Path) (hR : ∀ q ∈ R, canonPath q) :
    ∀ (as : List (Path × Int)) (s : MState), MInv s → ConsistentM B s → IntWorld R s.store →
    (∀ a ∈ as, MixedStatic sched R s a.1) →
    MixedRun sched s as ∧ ConsistentM B (mixedAssignAll sched s as) ∧ IntWorld R (mixedAssignAll sched s as).store ∧
      SameGraph s (mixedAssignAll sched s as)
  | [], s, _, hc, hw, _ => ⟨trivial, hc, hw, SameGraph.refl s⟩
  | (p, v) :: rest, s, hi, hc, hw, hst => by
    have st := hst (p, v) (List.mem_cons_self ..)
    obtain ⟨s', hok, hpost, hw'⟩ := setValue_mixed_total sched B R hR s p v hi st.nodef st.scope st.legal
      (fun t ht _ => hc.1 t ht) hc.ready st.pR hw st.ints
    have hi' : MInv s' := by
      have := setValue_MInv sched s p (.int v) hi
      rw [hok] at this
      exact this
    obtain ⟨h1, h2, h3, h4⟩ := mixedAssignAll_total sched B R hR rest s' hi' (hpost.consistentM hc) hw'
      (fun a ha => (hst a (List.mem_cons_of_mem _ ha)).congr hpost.defs hpost.idx hpost.nofault)
    simp only [MixedRun, mixedAssignAll, hok]
    exact ⟨⟨st.nodef, st.scope, st.legal, trivial, h1⟩, h2, h3,
      SameGraph.trans ⟨hpost.idx, hpost.defs, hpost.frozen⟩ h4⟩

/-- … and after a last assignment `p := v` the location holds `v` and every knob on `p` is settled at `v` -/
theorem mixedAssignAll_total_last (sched : Sched) (B : Path → List Int) (R : List Path) (hR : ∀ q ∈ R, canonPath q)
    (as : List (Path × Int)) (p : Path) (v : Int) (s : MState) (hi : MInv s) (hc : ConsistentM B s)
    (hw : IntWorld R s.store) (hst : ∀ a ∈ as ++ [(p, v)], MixedStatic sched R s a.1) :
    MixedRun sched s (as ++ [(p, v)]) ∧ ConsistentM B (mixedAssignAll sched s (as ++ [(p, v)])) ∧
    get (mixedAssignAll sched s (as ++ [(p, v)])).store p = .ok (.int v) ∧
    ∀ t ∈ s.defs, ∀ ws tars, t.kind = .knob p ws tars →
      KnobAt t (B t.id) v (mixedAssignAll sched s (as ++ [(p, v)])) := by
  obtain ⟨hrun, hcons, _, _⟩ := mixedAssignAll_total sched B R hR (as ++ [(p, v)]) s hi hc hw hst
  obtain ⟨h1, h2⟩ := (mixedRun_append sched as [(p, v)] s).mp hrun
  obtain ⟨h3, h4⟩ := mixedRun_last sched B as p v s hi hc h1 h2
  exact ⟨hrun, hcons, h3, h4⟩

/-! ### decidable tests of the hypotheses -/

def isKnobB (t : MTask) : Bool :=
  match t.kind with
  | .knob _ _ _ => true
  | _ => false

theorem isKnobB_iff {t : MTask} : isKnobB t = true ↔ IsKnob t := by
  unfold isKnobB
  cases hk : t.kind with
  | expr e => simp only [Bool.false_eq_true, false_iff]; rintro ⟨a, b, c, h⟩; rw [hk] at h; cases h
  | func b => simp only [Bool.false_eq_true, false_iff]; rintro ⟨a, b, c, h⟩; rw [hk] at h; cases h
  | knob a b c => simp only [true_iff]; exact ⟨a, b, c, hk⟩

def knobDeclB (t : MTask) : Bool :=
  match t.kind with
  | .knob src ws tars =>
    knobWFb src ws tars && pathOKB src && tars.all pathOKB &&
    (chainR src).all (fun d => decide (d ∈ t.deps)) &&
    tars.all (fun a => (chainR a).all (fun d => decide (d ∈ t.tars)))
  | _ => false

theorem knobDeclB_sound {t : MTask} (h : knobDeclB t = true) : KnobDecl t := by
  unfold knobDeclB at h
  split at h
  · next src ws tars hk =>
    simp only [Bool.and_eq_true, List.all_eq_true, decide_eq_true_eq] at h
    obtain ⟨⟨⟨⟨h1, h2⟩, h3⟩, h4⟩, h5⟩ := h
    exact ⟨src, ws, tars, hk, knobWFb_sound h1, pathOKB_sound _ h2, fun a ha => pathOKB_sound _ (h3 a ha), h4, h5⟩
  · cases h

/-- the source of the knob is plain: nothing any task writes is comparable with it; and it is `p` or away from `p` -/
def knobSrcPlainB (defs : List MTask) (p : Path) (k : MTask) : Bool :=
  match k.kind with
  | .knob src _ _ =>
    (decide (src = p) || !(comparable p src)) &&
    defs.all (fun u => (leafTargets u).all (fun a => !(comparable a src)))
  | _ => true

/-- `ScopeM` as a Boolean test — evaluated by the driver on every `set` line, field `scope_m` — (plus H1, acyclicity below the start set, which is what makes
    `validSchedule` a sound test of `ValidSched`) -/
def mixedScopeB (s : MState) (p : Path) : Bool :=
  s.defs.all (fun t => declOKB t || knobDeclB t) && pathOKB p &&
  s.defs.all (fun t => (itemsOf t).all (fun it => pathOKB it.target && (leafRefs it.expr).all pathOKB)) &&
  acyclicFrom s.idx (startOf s.idx (chainR p)) &&
  s.defs.all (fun t => s.defs.all (fun u => decide (t.id = u.id) ||
    (leafTargets t).all (fun a => (leafTargets u).all (fun b => !(comparable b a))))) &&
  s.defs.all (fun t => (leafTargets t).all (fun a => !(comparable p a))) &&
  s.defs.all (fun t => (itemsOf t).all (fun it => (leafRefs it.expr).all (fun r => !(comparable it.target r)))) &&
  s.defs.all (fun t => bodyOKB (itemsOf t)) &&
  s.defs.all (knobSrcPlainB s.defs p) &&
  s.faultIn.isNone

theorem mixedScopeB_sound (s : MState) (p : Path) (h : mixedScopeB s p = true) : ScopeM s p := by
  unfold mixedScopeB at h
  simp only [Bool.and_eq_true, List.all_eq_true, Bool.or_eq_true, decide_eq_true_eq, Bool.not_eq_eq_eq_not,
    Bool.not_true] at h
  obtain ⟨⟨⟨⟨⟨⟨⟨⟨⟨hdecl, hp⟩, hpaths⟩, _⟩, h2⟩, h2p⟩, h3⟩, hbody⟩, hksrc⟩, hnf⟩ := h
  exact
    { decl := fun t ht => (hdecl t ht).imp (declOKB_sound t) knobDeclB_sound
      pathP := pathOKB_sound p hp
      paths := fun t ht it hit => ⟨pathOKB_sound _ (hpaths t ht it hit).1,
        fun r hr => pathOKB_sound r ((hpaths t ht it hit).2 r hr)⟩
      h2 := by
        intro t ht u hu hne a ha b hb
        rcases h2 t ht u hu with h | h
        · exact absurd h hne
        · exact incomparable_of_not_comparable _ _ (h a ha b hb)
      h2p := fun t ht a ha => incomparable_of_not_comparable _ _ (h2p t ht a ha)
      h3 := fun t ht it hit r hr => incomparable_of_not_comparable _ _ (h3 t ht it hit r hr)
      body := fun t ht => bodyOKB_sound _ (hbody t ht)
      ksrc := by
        intro k hk src ws tars hkk
        have := hksrc k hk
        simp only [knobSrcPlainB, hkk, Bool.and_eq_true, Bool.or_eq_true, decide_eq_true_eq, Bool.not_eq_eq_eq_not,
          Bool.not_true, List.all_eq_true] at this
        refine ⟨this.1.imp id (incomparable_of_not_comparable _ _), fun u hu a ha => ?_⟩
        exact incomparable_of_not_comparable _ _ (this.2 u hu a ha)
      nofault := by
        cases hf : s.faultIn with
        | none => rfl
        | some k => simp [hf] at hnf }

theorem mixedScopeB_acyclic (s : MState) (p : Path) (h : mixedScopeB s p = true) :
    acyclicFrom s.idx (startOf s.idx (chainR p)) = true := by
  unfold mixedScopeB at h
  simp only [Bool.and_eq_true] at h
  exact h.1.1.1.1.1.1.2

/-- the knob is settled: the remembered value is the integer its source holds, and the targets hold the prescribed
    values for the bases `bs` -/
def knobSettledB (t : MTask) (bs : List Int) (s : MState) : Bool :=
  match t.kind with
  | .knob src ws tars =>
    (match lookPrev s.prev t.id, get s.store src with
     | .int p, .ok (.int x) => decide (p = x) && decide (readInts s.store tars = some (knobVals bs ws x))
     | _, _ => false)
  | _ => false

theorem knobSettledB_sound {t : MTask} {bs : List Int} {s : MState} (h : knobSettledB t bs s = true) :
    ∃ x, KnobAt t bs x s := by
  unfold knobSettledB at h
  split at h
  · next src ws tars hk =>
    split at h
    · next p x hp hs =>
      simp only [Bool.and_eq_true, decide_eq_true_eq] at h
      obtain ⟨rfl, hr⟩ := h
      exact ⟨p, src, ws, tars, hk, hs, hp, readInts_sound hr⟩
    · cases h
  · cases h

/-- `ConsistentM`, decided (sufficient) -/
def consistentMB (B : Path → List Int) (s : MState) : Bool :=
  s.defs.all (fun t => itemsHoldB s.store t && (!isKnobB t || knobSettledB t (B t.id) s))

theorem consistentMB_sound {B : Path → List Int} {s : MState} (h : consistentMB B s = true) : ConsistentM B s := by
  unfold consistentMB at h
  simp only [List.all_eq_true, Bool.and_eq_true, Bool.or_eq_true, Bool.not_eq_eq_eq_not, Bool.not_true] at h
  refine ⟨fun t ht => itemsHoldB_sound s.store t (h t ht).1, fun t ht hkn => ?_⟩
  rcases (h t ht).2 with h1 | h1
  · rw [isKnobB_iff.mpr hkn] at h1; cases h1
  · exact knobSettledB_sound h1

/-- the executable form of `MixedRun` (not run by the driver, which evaluates `mixedScopeB` line by line) -/
def mixedRunB (sched : Sched) : MState → List (Path × Int) → Bool
  | _, [] => true
  | s, (p, v) :: rest =>
    (lookDef s.defs p).isNone && mixedScopeB s p &&
    validSchedule s.idx (chainR p) (sched (findTaskids s.idx (chainR p))) &&
    (setValue sched s p (.int v)).2.isNone && mixedRunB sched (setValue sched s p (.int v)).1 rest

theorem mixedRunB_sound (sched : Sched) : ∀ (as : List (Path × Int)) (s : MState), mixedRunB sched s as = true →
    MixedRun sched s as
  | [], _, _ => trivial
  | (p, v) :: rest, s, h => by
    simp only [mixedRunB, Bool.and_eq_true] at h
    obtain ⟨⟨⟨⟨h1, h2⟩, h3⟩, h4⟩, h5⟩ := h
    exact ⟨isNone_eq _ h1, mixedScopeB_sound s p h2, validSchedule_sound _ _ _ h3 (mixedScopeB_acyclic s p h2),
      isNone_eq _ h4, mixedRunB_sound sched rest _ h5⟩

/-- **C01 with knobs, every hypothesis decided**: from a state reachable through the API that passes `consistentMB`,
    a series of assignments accepted one by one by `mixedRunB` ends in a consistent state. -/
theorem C01M_decided (sched : Sched) (B : Path → List Int) (as : List (Path × Int)) (s : MState) (hi : MInv s)
    (hc : consistentMB B s = true) (h : mixedRunB sched s as = true) : ConsistentM B (mixedAssignAll sched s as) :=
  (mixedRun_consistent sched B as s hi (consistentMB_sound hc) (mixedRunB_sound sched as s h)).1

def intWorldB (R : List Path) (σ : Val) : Bool := R.all (holdsIntB σ)

theorem intWorldB_sound {R : List Path} {σ : Val} (h : intWorldB R σ = true) : IntWorld R σ := by
  intro q hq
  have := List.all_eq_true.mp h q hq
  unfold holdsIntB at this
  split at this
  · next x hx => exact ⟨x, hx⟩
  · cases this

def intTaskB (R : List Path) (t : MTask) : Bool :=
  (itemsOf t).all (fun it => intSafeB it.expr && decide (it.target ∈ R) && !it.target.isEmpty &&
    (leafRefs it.expr).all (fun r => decide (r ∈ R))) &&
  (leafTargets t).all (fun a => decide (a ∈ R))

theorem intTaskB_sound {R : List Path} {t : MTask} (h : intTaskB R t = true) : IntTask R t := by
  simp only [intTaskB, Bool.and_eq_true, List.all_eq_true, decide_eq_true_eq, Bool.not_eq_eq_eq_not, Bool.not_true] at h
  refine ⟨fun it hit => ?_, h.2⟩
  obtain ⟨⟨⟨h1, h2⟩, h3⟩, h4⟩ := h.1 it hit
  refine ⟨h1, h2, ?_, h4⟩
  intro e
  rw [e] at h3
  simp at h3

/-- `MixedStatic` as a Boolean test (sound; not run by the driver) -/
def mixedStaticB (sched : Sched) (R : List Path) (s : MState) (p : Path) : Bool :=
  (lookDef s.defs p).isNone && mixedScopeB s p &&
  validSchedule s.idx (chainR p) (sched (findTaskids s.idx (chainR p))) && decide (p ∈ R) &&
  s.defs.all (fun t => !(decide (t.id ∈ sched (findTaskids s.idx (chainR p)))) || intTaskB R t)

theorem mixedStaticB_sound {sched : Sched} {R : List Path} {s : MState} {p : Path}
    (h : mixedStaticB sched R s p = true) : MixedStatic sched R s p := by
  simp only [mixedStaticB, Bool.and_eq_true, decide_eq_true_eq, List.all_eq_true, Bool.or_eq_true,
    Bool.not_eq_eq_eq_not, Bool.not_true, decide_eq_false_iff_not] at h
  obtain ⟨⟨⟨⟨h1, h2⟩, h3⟩, h4⟩, h5⟩ := h
  refine ⟨isNone_eq _ h1, mixedScopeB_sound s p h2, validSchedule_sound _ _ _ h3 (mixedScopeB_acyclic s p h2), h4, ?_⟩
  intro t ht hin
  rcases h5 t ht with h | h
  · exact absurd hin h
  · exact intTaskB_sound h

/-- **C01 with knobs, total form, every hypothesis decided**: the static tests once per assigned location, the state
    tests once at the start; then any series of integer assignments to those locations completes and ends consistent. -/
theorem C01M_total_decided (sched : Sched) (B : Path → List Int) (R : List Path) (s : MState) (hi : MInv s)
    (hR : R.all canonPathB = true) (hc : consistentMB B s = true) (hw : intWorldB R s.store = true)
    (as : List (Path × Int)) (hst : ∀ a ∈ as, mixedStaticB sched R s a.1 = true) :
    MixedRun sched s as ∧ ConsistentM B (mixedAssignAll sched s as) :=
  have h := mixedAssignAll_total sched B R (fun q hq => canonPathB_sound (List.all_eq_true.mp hR q hq)) as s hi
    (consistentMB_sound hc) (intWorldB_sound hw) (fun a ha => mixedStaticB_sound (hst a ha))
  ⟨h.1, h.2.1⟩

/-! ### a concrete run: knob `k` (source `d.x`, weights `[2, -1]`, targets `d.a`, `d.b`), `d.c := d.a + d.b`, `d.x := 5` -/

namespace MixedExample

/-- locations of the container `d` -/
def d (a : String) : Path := [.item (.str "d"), .item (.str a)]

/-- `d = {x: 1, a: 10, b: 20, c: None}` -/
def store0 : Val :=
  .dict [(.str "d", .dict [(.str "x", .int 1), (.str "a", .int 10), (.str "b", .int 20), (.str "c", .none)])]

/-- `#K: a += 2*Δx, b += -1*Δx` -/
def K : MTask := ⟨[.item (.str "#K")], .knob (d "x") [2, -1] [d "a", d "b"], [d "x"], [d "a", d "b"]⟩

def s0 : MState := { MState.init with store := store0 }
/-- the knob registered at `x = 1`: bases `10 - 2*1 = 8`, `20 + 1*1 = 21` -/
def s1 : MState := (register s0 K).1
/-- then `d.c := d.a + d.b` (an expression that READS both knob targets) -/
def s2 : MState := (setExpr id s1 (d "c") (.bin "Add" (.ref (d "a")) (.ref (d "b")))).1
/-- then `d.x := 5` -/
def s3 : MState := (setValue id s2 (d "x") (.int 5)).1

def bases : Path → List Int := fun _ => [8, 21]

theorem s0_inv : MInv s0 := MInv_of_sameGraph (s := MState.init) ⟨rfl, rfl, rfl⟩ MInv.init
theorem s1_inv : MInv s1 := register_MInv s0 K s0_inv rfl rfl (by decide) (by decide)
theorem s2_inv : MInv s2 := setExpr_MInv id s1 _ _ s1_inv

-- the state before the assignment: c = a + b = 30, the knob settled at x = 1
example : get s2.store (d "c") = .ok (.int 30) := rfl
example : lookPrev s2.prev K.id = .int 1 := rfl
-- the assignment triggers the knob AND the expression; the declared graph has the edge `#K → d.c`, so the model's own
-- order (and every legal one) runs the knob first
example : findTaskids s2.idx (chainR (d "x")) = [K.id, d "c"] := by decide
example : gOf s2.idx K.id = [d "c"] := by decide

-- the hypotheses of the theorems hold on this state
theorem scope_s2 : mixedScopeB s2 (d "x") = true := by decide
theorem consistent_s2 : consistentMB bases s2 = true := by decide
theorem sched_s2 : validSchedule s2.idx (chainR (d "x")) (id (findTaskids s2.idx (chainR (d "x")))) = true := by decide

-- the run completes; the final store: x = 5, a = 8 + 2*5, b = 21 - 5, c = a + b
example : (setValue id s2 (d "x") (.int 5)).2 = none := rfl
example : get s3.store (d "x") = .ok (.int 5) := rfl
example : get s3.store (d "a") = .ok (.int 18) := rfl
example : get s3.store (d "b") = .ok (.int 16) := rfl
example : get s3.store (d "c") = .ok (.int 34) := rfl
example : lookPrev s3.prev K.id = .int 5 := rfl

/-- the one-step theorem instantiated on the example -/
theorem post_s3 : MixedPost bases [K.id, d "c"] (d "x") 5 s2 s3 :=
  setValue_mixed id bases s2 (d "x") 5 s2_inv rfl (mixedScopeB_sound _ _ scope_s2)
    (validSchedule_sound _ _ _ sched_s2 (mixedScopeB_acyclic _ _ scope_s2))
    (fun t ht _ => (consistentMB_sound consistent_s2).1 t ht) (consistentMB_sound consistent_s2).ready s3 rfl

/-- … it says: the knob is settled at 5 with the bases it was registered with, and `c = a + b` holds -/
example : KnobAt K [8, 21] 5 s3 := post_s3.onP K (List.Mem.head _) [2, -1] [d "a", d "b"] rfl

/-- a series of assignments, everything decided -/
theorem series_ok : mixedRunB id s2 [(d "x", 5), (d "x", 0), (d "x", -3)] = true := by decide

theorem series_consistent : ConsistentM bases (mixedAssignAll id s2 [(d "x", 5), (d "x", 0), (d "x", -3)]) :=
  C01M_decided id bases _ s2 s2_inv consistent_s2 series_ok

example : get (mixedAssignAll id s2 [(d "x", 5), (d "x", 0), (d "x", -3)]).store (d "a") = .ok (.int 2) := rfl
example : get (mixedAssignAll id s2 [(d "x", 5), (d "x", 0), (d "x", -3)]).store (d "b") = .ok (.int 24) := rfl
example : get (mixedAssignAll id s2 [(d "x", 5), (d "x", 0), (d "x", -3)]).store (d "c") = .ok (.int 26) := rfl

/-- THE ORDER MATTERS, and `ValidSched` is the hypothesis that excludes the wrong one: with the reversed schedule the
    expression runs before the knob, reads the old targets and leaves `c = 30` although `a + b = 34`; `validSchedule`
    rejects that schedule. -/
example : get (setValue List.reverse s2 (d "x") (.int 5)).1.store (d "c") = .ok (.int 30) ∧
    get (setValue List.reverse s2 (d "x") (.int 5)).1.store (d "a") = .ok (.int 18) ∧
    get (setValue List.reverse s2 (d "x") (.int 5)).1.store (d "b") = .ok (.int 16) ∧
    validSchedule s2.idx (chainR (d "x")) (List.reverse (findTaskids s2.idx (chainR (d "x")))) = false :=
  ⟨rfl, rfl, rfl, by decide⟩

/-- WHAT THE MODEL DOES with a knob whose declared dependencies do not list its source (`KnobDecl` violated): the knob
    is not triggered by an assignment to its source, its targets keep their old values, and it is no longer settled. -/
def K' : MTask := { K with deps := [] }
def s1' : MState := (register s0 K').1
example : findTaskids s1'.idx (chainR (d "x")) = [] := by decide
example : get (setValue id s1' (d "x") (.int 5)).1.store (d "a") = .ok (.int 10) ∧
    lookPrev (setValue id s1' (d "x") (.int 5)).1.prev K'.id = .int 1 ∧
    knobDeclB K' = false ∧ knobSettledB K' [8, 21] (setValue id s1' (d "x") (.int 5)).1 = false :=
  ⟨rfl, rfl, by decide, by decide⟩

/-- the integer world of the example, and the static test for assignments to `d.x` -/
def R : List Path := [d "x", d "a", d "b", d "c"]
theorem static_s2 : mixedStaticB id R s2 (d "x") = true := by decide
example : R.all canonPathB = true ∧ intWorldB R s2.store = true := by decide

/-- the series `d.x := w` for `w` in `vs`, then `d.x := v` -/
def xs (vs : List Int) (v : Int) : List (Path × Int) := vs.map (fun w => (d "x", w)) ++ [(d "x", v)]

/-- WHATEVER integers are assigned to `d.x` and however many times: every call completes, and afterwards
    `a = 8 + 2*x`, `b = 21 - x` and `c = a + b` -/
theorem example_any_history (vs : List Int) (v : Int) :
    MixedRun id s2 (xs vs v) ∧
    get (mixedAssignAll id s2 (xs vs v)).store (d "x") = .ok (.int v) ∧
    get (mixedAssignAll id s2 (xs vs v)).store (d "a") = .ok (.int (8 + 2 * v)) ∧
    get (mixedAssignAll id s2 (xs vs v)).store (d "b") = .ok (.int (21 + -1 * v)) ∧
    get (mixedAssignAll id s2 (xs vs v)).store (d "c") = .ok (.int ((8 + 2 * v) + (21 + -1 * v))) := by
  unfold xs
  have hR : ∀ q ∈ R, canonPath q :=
    fun q hq => canonPathB_sound (List.all_eq_true.mp (by decide : R.all canonPathB = true) q hq)
  have hst : ∀ a ∈ vs.map (fun w => (d "x", w)) ++ [(d "x", v)], MixedStatic id R s2 a.1 := by
    intro a ha
    have : a.1 = d "x" := by
      rcases List.mem_append.mp ha with h | h
      · obtain ⟨w, _, rfl⟩ := List.mem_map.mp h; rfl
      · rw [List.mem_singleton.mp h]
    rw [this]
    exact mixedStaticB_sound static_s2
  obtain ⟨hrun, hcons, hx, hat⟩ := mixedAssignAll_total_last id bases R hR (vs.map (fun w => (d "x", w))) (d "x") v s2
    s2_inv (consistentMB_sound consistent_s2) (intWorldB_sound (by decide)) hst
  have hk := (hat K (List.Mem.head _) [2, -1] [d "a", d "b"] rfl).index
    (src := d "x") (ws := [2, -1]) (tars := [d "a", d "b"]) rfl
  have ha := hk.2.2 0 (by decide) (by decide) (by decide)
  have hb := hk.2.2 1 (by decide) (by decide) (by decide)
  refine ⟨hrun, hx, ha, hb, ?_⟩
  -- `c = a + b` from the consistency of the final state: the definition of `d.c` is still in the task table
  obtain ⟨_, _, _, hg⟩ := mixedAssignAll_total id bases R hR _ s2 s2_inv (consistentMB_sound consistent_s2)
    (intWorldB_sound (by decide)) hst
  obtain ⟨w, hev, hget⟩ := hcons.1 (mkExprTask (d "c") (.bin "Add" (.ref (d "a")) (.ref (d "b"))))
    (by rw [hg.2.1]; exact List.Mem.tail _ (List.Mem.head _))
    ⟨d "c", .bin "Add" (.ref (d "a")) (.ref (d "b"))⟩ (List.Mem.head _)
  simp only [eval, bind, Except.bind] at hev
  simp only [List.getElem_cons_zero, List.getElem_cons_succ] at ha hb
  rw [ha, hb] at hev
  rw [hget, ← hev]
  rfl

/-- the total one-step theorem instantiated: WHATEVER integer is assigned to `d.x` in `s2`, the call completes and
    `MixedPost` holds -/
theorem total_s2 (v : Int) : ∃ s', setValue id s2 (d "x") (.int v) = (s', none) ∧
    MixedPost bases [K.id, d "c"] (d "x") v s2 s' ∧ IntWorld R s'.store :=
  have st := mixedStaticB_sound static_s2
  setValue_mixed_total id bases R
    (fun q hq => canonPathB_sound (List.all_eq_true.mp (by decide : R.all canonPathB = true) q hq)) s2 (d "x") v s2_inv
    st.nodef st.scope st.legal (fun t ht _ => (consistentMB_sound consistent_s2).1 t ht)
    (consistentMB_sound consistent_s2).ready st.pR (intWorldB_sound (by decide)) st.ints

/-! WHAT THE MODEL DOES with a knob on ANOTHER source that is triggered all the same: `#K2` (source `d.y`, weight `[3]`,
    target `d.e`) over-declares a dependency on `d.a`, so it is a declared successor of `#K` and `d.x := 5` triggers it.
    It runs with `Δ = 0`: target and remembered value unchanged, still settled at `y = 7` (`MixedPost.trig`). -/
def storeY : Val :=
  .dict [(.str "d", .dict [(.str "x", .int 1), (.str "a", .int 10), (.str "b", .int 20), (.str "c", .none),
    (.str "y", .int 7), (.str "e", .int 100)])]
def K2 : MTask := ⟨[.item (.str "#K2")], .knob (d "y") [3] [d "e"], [d "y", d "a"], [d "e"]⟩
def t2 : MState :=
  (setExpr id (register (register { MState.init with store := storeY } K).1 K2).1 (d "c")
    (.bin "Add" (.ref (d "a")) (.ref (d "b")))).1
def basesY : Path → List Int := fun id => if id = K2.id then [79] else [8, 21]

example : findTaskids t2.idx (chainR (d "x")) = [K.id, d "c", K2.id] := by decide
example : mixedScopeB t2 (d "x") = true ∧ consistentMB basesY t2 = true ∧
    mixedRunB id t2 [(d "x", 5)] = true := by decide
example : get (setValue id t2 (d "x") (.int 5)).1.store (d "e") = .ok (.int 100) ∧
    lookPrev (setValue id t2 (d "x") (.int 5)).1.prev K2.id = .int 7 ∧
    get (setValue id t2 (d "x") (.int 5)).1.store (d "c") = .ok (.int 34) ∧
    knobSettledB K2 [79] (setValue id t2 (d "x") (.int 5)).1 = true :=
  ⟨rfl, rfl, rfl, by decide⟩

end MixedExample

#print axioms runAll2_Q
#print axioms edge_of_write_read
#print axioms writeAndRun_mixed
#print axioms setValue_mixed
#print axioms mixedRun_consistent
#print axioms mixedRun_last
#print axioms writeAndRun_mixed_total
#print axioms setValue_mixed_total
#print axioms mixedAssignAll_total
#print axioms mixedAssignAll_total_last
#print axioms mixedScopeB_sound
#print axioms C01M_decided
#print axioms C01M_total_decided
#print axioms MixedExample.post_s3
#print axioms MixedExample.series_consistent
#print axioms MixedExample.total_s2
#print axioms MixedExample.example_any_history

end Manager
