import XModel.Index
/-! Prototype: count algebra of bulk append / remove on a defaultdict(RefCount). -/
namespace Index

variable {κ ρ : Type} [DecidableEq κ] [DecidableEq ρ]

def DD.cnt2 (d : DD ρ κ) (a : ρ) (b : κ) : Nat := RC.cnt (DD.get d a) b

def DD.WF (d : DD ρ κ) : Prop := ∀ a, RC.WF (DD.get d a)

theorem RC.mem_keys_append (m : RC κ) (k j : κ) : j ∈ RC.keys (RC.append m k) ↔ j = k ∨ j ∈ RC.keys m := by
  induction m with
  | nil => simp [RC.append, RC.keys]
  | cons p r ih =>
    obtain ⟨k', n⟩ := p
    simp only [RC.append]
    by_cases h : k' = k
    · subst h; simp [RC.keys]
    · simp only [h, if_false]
      simp only [RC.keys, List.map_cons, List.mem_cons] at ih ⊢
      rw [ih]
      constructor
      · rintro (h1 | h1 | h1)
        · exact Or.inr (Or.inl h1)
        · exact Or.inl h1
        · exact Or.inr (Or.inr h1)
      · rintro (h1 | h1 | h1)
        · exact Or.inr (Or.inl h1)
        · exact Or.inl h1
        · exact Or.inr (Or.inr h1)

theorem RC.WF_append (m : RC κ) (h : RC.WF m) (k : κ) : RC.WF (RC.append m k) := by
  induction m with
  | nil => simp [RC.append, RC.WF, RC.keys]
  | cons p r ih =>
    obtain ⟨k', n⟩ := p
    have hnd : k' ∉ RC.keys r ∧ (RC.keys r).Nodup := by simpa [RC.keys] using h.1
    have hwf' : RC.WF r := ⟨hnd.2, fun p hp => h.2 p (List.mem_cons_of_mem _ hp)⟩
    simp only [RC.append]
    by_cases hk : k' = k
    · subst hk
      simp only [if_true]
      refine ⟨by simpa [RC.keys] using h.1, ?_⟩
      intro p hp
      rcases List.mem_cons.mp hp with rfl | hp
      · simp
      · exact h.2 p (List.mem_cons_of_mem _ hp)
    · simp only [hk, if_false]
      have ih' := ih hwf'
      refine ⟨?_, ?_⟩
      · show (RC.keys ((k', n) :: RC.append r k)).Nodup
        simp only [RC.keys, List.map_cons, List.nodup_cons]
        refine ⟨?_, ih'.1⟩
        intro hmem
        have := (RC.mem_keys_append r k k').mp hmem
        rcases this with h1 | h1
        · exact hk h1
        · exact hnd.1 h1
      · intro p hp
        rcases List.mem_cons.mp hp with rfl | hp
        · exact h.2 _ (List.mem_cons_self ..)
        · exact ih'.2 p hp

theorem RC.mem_keys_remove (m : RC κ) (k j : κ) (h : j ∈ RC.keys (RC.remove m k)) : j ∈ RC.keys m := by
  induction m with
  | nil => simp [RC.remove, RC.keys] at h
  | cons p r ih =>
    obtain ⟨k', n⟩ := p
    simp only [RC.remove] at h
    by_cases hk : k' = k
    · subst hk
      simp only [if_true] at h
      by_cases hn : n > 1
      · simp only [hn, if_true] at h
        simpa [RC.keys] using h
      · simp only [hn, if_false] at h
        simp only [RC.keys, List.map_cons, List.mem_cons]
        exact Or.inr h
    · simp only [hk, if_false] at h
      simp only [RC.keys, List.map_cons, List.mem_cons] at h ⊢
      rcases h with h | h
      · exact Or.inl h
      · exact Or.inr (ih h)

theorem RC.WF_remove (m : RC κ) (h : RC.WF m) (k : κ) : RC.WF (RC.remove m k) := by
  induction m with
  | nil => simp [RC.remove, RC.WF, RC.keys]
  | cons p r ih =>
    obtain ⟨k', n⟩ := p
    have hnd : k' ∉ RC.keys r ∧ (RC.keys r).Nodup := by simpa [RC.keys] using h.1
    have hwf' : RC.WF r := ⟨hnd.2, fun p hp => h.2 p (List.mem_cons_of_mem _ hp)⟩
    simp only [RC.remove]
    by_cases hk : k' = k
    · subst hk
      simp only [if_true]
      by_cases hn : n > 1
      · simp only [hn, if_true]
        refine ⟨by simpa [RC.keys] using h.1, ?_⟩
        intro p hp
        rcases List.mem_cons.mp hp with rfl | hp
        · show n - 1 ≥ 1; omega
        · exact h.2 p (List.mem_cons_of_mem _ hp)
      · simp only [hn, if_false]; exact hwf'
    · simp only [hk, if_false]
      have ih' := ih hwf'
      refine ⟨?_, ?_⟩
      · show (RC.keys ((k', n) :: RC.remove r k)).Nodup
        simp only [RC.keys, List.map_cons, List.nodup_cons]
        exact ⟨fun hmem => hnd.1 (RC.mem_keys_remove r k k' hmem), ih'.1⟩
      · intro p hp
        rcases List.mem_cons.mp hp with rfl | hp
        · exact h.2 _ (List.mem_cons_self ..)
        · exact ih'.2 p hp

theorem RC.mem_keys_iff (m : RC κ) (h : RC.WF m) (k : κ) : k ∈ RC.keys m ↔ RC.cnt m k ≥ 1 := by
  induction m with
  | nil => simp [RC.keys, RC.cnt]
  | cons p r ih =>
    obtain ⟨k', n⟩ := p
    have hnd : k' ∉ RC.keys r ∧ (RC.keys r).Nodup := by simpa [RC.keys] using h.1
    have hwf' : RC.WF r := ⟨hnd.2, fun p hp => h.2 p (List.mem_cons_of_mem _ hp)⟩
    have hn : n ≥ 1 := h.2 (k', n) (List.mem_cons_self ..)
    simp only [RC.keys, List.map_cons, List.mem_cons, RC.cnt]
    by_cases hk : k' = k
    · subst hk; simp [hn]
    · have : k ≠ k' := fun e => hk e.symm
      simp only [this, false_or, hk, if_false]
      exact ih hwf'

/-- guarded removal as used by `unregister` (`if x in d: d.remove(x)`) -/
theorem rmIf_cnt (m : RC κ) (h : RC.WF m) (k j : κ) :
    RC.cnt (rmIf m k) j = RC.cnt m j - (if k = j then 1 else 0) := by
  unfold rmIf
  split
  · exact RC.cnt_remove m h k j
  · next hk =>
    by_cases hkj : k = j
    · subst hkj
      have := RC.cnt_eq_zero_of_not_mem m k hk
      simp [this]
    · simp [hkj]

theorem rmIf_WF (m : RC κ) (h : RC.WF m) (k : κ) : RC.WF (rmIf m k) := by
  unfold rmIf; split
  · exact RC.WF_remove m h k
  · exact h

/-- bulk append of (row, key) pairs: every Python double loop of `register` is one of these -/
def appAll (d : DD ρ κ) (xs : List (ρ × κ)) : DD ρ κ :=
  xs.foldl (fun d p => DD.modify d p.1 (RC.append · p.2)) d

def rmAll (d : DD ρ κ) (xs : List (ρ × κ)) : DD ρ κ :=
  xs.foldl (fun d p => DD.modify d p.1 (rmIf · p.2)) d

theorem appAll_cnt (d : DD ρ κ) (xs : List (ρ × κ)) (a : ρ) (b : κ) :
    DD.cnt2 (appAll d xs) a b = DD.cnt2 d a b + xs.count (a, b) := by
  induction xs generalizing d with
  | nil => simp [appAll]
  | cons p xs ih =>
    obtain ⟨a', b'⟩ := p
    simp only [appAll, List.foldl_cons] at ih ⊢
    rw [ih]
    simp only [DD.cnt2, DD.get_modify]
    by_cases ha : a' = a
    · subst ha
      simp only [if_true, RC.cnt_append]
      by_cases hb : b' = b
      · subst hb; simp [List.count_cons_self]; omega
      · have : (a', b') ≠ (a', b) := fun e => hb (by cases e; rfl)
        simp [hb, List.count_cons_of_ne this]
    · have : (a', b') ≠ (a, b) := fun e => ha (by cases e; rfl)
      simp [ha, List.count_cons_of_ne this]

theorem appAll_WF (d : DD ρ κ) (h : DD.WF d) (xs : List (ρ × κ)) : DD.WF (appAll d xs) := by
  induction xs generalizing d with
  | nil => simpa [appAll] using h
  | cons p xs ih =>
    simp only [appAll, List.foldl_cons]
    apply ih
    intro a
    rw [DD.get_modify]
    split
    · exact RC.WF_append _ (h _) _
    · exact h a

theorem rmAll_cnt (d : DD ρ κ) (h : DD.WF d) (xs : List (ρ × κ)) (a : ρ) (b : κ) :
    DD.cnt2 (rmAll d xs) a b = DD.cnt2 d a b - xs.count (a, b) := by
  induction xs generalizing d with
  | nil => simp [rmAll]
  | cons p xs ih =>
    obtain ⟨a', b'⟩ := p
    simp only [rmAll, List.foldl_cons] at ih ⊢
    have hwf' : DD.WF (DD.modify d a' (rmIf · b')) := by
      intro x
      rw [DD.get_modify]
      split
      · exact rmIf_WF _ (h _) _
      · exact h x
    rw [ih _ hwf']
    simp only [DD.cnt2, DD.get_modify]
    by_cases ha : a' = a
    · subst ha
      simp only [if_true, rmIf_cnt _ (h _)]
      by_cases hb : b' = b
      · subst hb; simp [List.count_cons_self]; omega
      · have : (a', b') ≠ (a', b) := fun e => hb (by cases e; rfl)
        simp [hb, List.count_cons_of_ne this]
    · have : (a', b') ≠ (a, b) := fun e => ha (by cases e; rfl)
      simp [ha, List.count_cons_of_ne this]

#print axioms rmAll_cnt
end Index
