import XModel.TableSpan
/-!
# Row labels written as strings: `'name'`, `'name::count'`, `'name<<k'`, `'name>>k'`, `'name::count<<k'`, …

`TableThms.lean` / `TableSpan.lean` prove that a look-up is "parse the selector string, then scan the index column"
(`getRowIndex_name_scan`), but say nothing about what the parse gives.  This file characterises the parse
independently and derives the statements a user reads off the documentation:

* `SepFree t` — no name of the index column contains a separator string (decidable: `sepFreeB`, through the
  model's own `splitOnce`; `splitOnce_eq_none_iff` says this is "is not an infix");
* `SepStrict t` — `SepFree` and, in addition, no name ENDS with a character that occurs in a separator.
  `SepFree` alone is NOT enough for counted labels: with the default separators the name `a:` is separator-free,
  yet `'a:' + '::' + '0' = 'a:::0'` splits at the FIRST `::` into `('a', ':0')` and `int(':0')` is a `ValueError`
  (examples at the end);
* `SepsOK t` — a condition on the three separator strings alone (non-empty, no digit or `-`, `sepPrev`/`sepNext`
  not inside `sepCount`, `sepPrev` not inside `sepNext`); the default separators satisfy it;
* `split_label` — the parse of every written form of a label over a clean name;
* `getRowIndex_label` — string look-up = `scanLookup`;
* `resolveCellRow_name` — `t[col, 'row']` resolves the row like `rows.get_index('row')` (needs only `SepFree`);
* `uniqueLabels_resolve`, `uniqueLabels_nodup` — the labels of `cols.get_index_unique()` resolve to their own row;
* `history_labels` — all of this after any history of API calls that writes only clean names into the index column.
-/
namespace TableM
open Cache

/-! ## A. occurrences of a separator in a list of characters -/

theorem isPrefixC_iff (p s : List Char) : isPrefixC p s = true ↔ p <+: s := by
  induction p generalizing s with
  | nil => simp [isPrefixC]
  | cons a p ih =>
    cases s with
    | nil => simp [isPrefixC]
    | cons b q => simp [isPrefixC, ih, List.cons_prefix_cons]

/-- `sep` occurs in `s` starting at some character of `s` (this is what `splitOnceC` looks for) -/
def occursC (sep : List Char) : List Char → Bool
  | [] => false
  | c :: r => isPrefixC sep (c :: r) || occursC sep r

theorem occursC_iff_infix (sep s : List Char) (hne : sep ≠ []) : occursC sep s = true ↔ sep <:+: s := by
  induction s with
  | nil => simp [occursC, hne]
  | cons c r ih =>
    simp only [occursC, Bool.or_eq_true, isPrefixC_iff, ih, List.infix_cons_iff]

theorem splitOnceC_eq_none_iff (sep : List Char) : ∀ (s acc : List Char),
    splitOnceC sep s acc = none ↔ occursC sep s = false
  | [], acc => by simp [splitOnceC, occursC]
  | c :: r, acc => by
    simp only [splitOnceC, occursC]
    by_cases h : isPrefixC sep (c :: r) = true
    · simp [h]
    · simp only [h, Bool.false_eq_true, if_false, Bool.false_or]
      exact splitOnceC_eq_none_iff sep r (c :: acc)

/-- no occurrence of `sep` in `a ++ rest` starts inside `a` -/
def Skip (sep : List Char) : List Char → List Char → Prop
  | [], _ => True
  | x :: a, rest => isPrefixC sep (x :: a ++ rest) = false ∧ Skip sep a rest

theorem splitOnceC_skip (sep : List Char) : ∀ (a rest acc : List Char), Skip sep a rest →
    splitOnceC sep (a ++ rest) acc = splitOnceC sep rest (a.reverse ++ acc)
  | [], rest, acc, _ => by simp
  | x :: a, rest, acc, h => by
    obtain ⟨h1, h2⟩ := h
    have h1' : isPrefixC sep (x :: (a ++ rest)) = false := h1
    simp only [List.cons_append, splitOnceC, h1', Bool.false_eq_true, if_false]
    rw [splitOnceC_skip sep a rest (x :: acc) h2]
    simp

theorem isPrefixC_self_append (sep rest : List Char) : isPrefixC sep (sep ++ rest) = true := by
  rw [isPrefixC_iff]; exact List.prefix_append _ _

theorem splitOnceC_hit (sep rest acc : List Char) (hne : sep ≠ []) :
    splitOnceC sep (sep ++ rest) acc = some (acc.reverse, rest) := by
  cases sep with
  | nil => exact absurd rfl hne
  | cons c r =>
    have h := isPrefixC_self_append (c :: r) rest
    simp only [List.cons_append] at h ⊢
    simp only [splitOnceC, h, if_true]
    simp

/-- the first occurrence of `sep` in `a ++ sep ++ rest` is the one written, when none starts inside `a` -/
theorem splitOnceC_at (sep a rest : List Char) (hne : sep ≠ []) (h : Skip sep a (sep ++ rest)) :
    splitOnceC sep (a ++ (sep ++ rest)) [] = some (a, rest) := by
  rw [splitOnceC_skip sep a _ [] h, splitOnceC_hit sep rest _ hne]
  simp

theorem splitOnceC_none_of_skip (sep a : List Char) (h : Skip sep a []) : splitOnceC sep a [] = none := by
  have := splitOnceC_skip sep a [] [] h
  simp only [List.append_nil] at this
  rw [this]; rfl

theorem Skip.append (sep : List Char) : ∀ (a b rest : List Char), Skip sep a (b ++ rest) → Skip sep b rest →
    Skip sep (a ++ b) rest
  | [], b, rest, _, h2 => by simpa using h2
  | x :: a, b, rest, h1, h2 => by
    obtain ⟨h11, h12⟩ := h1
    refine ⟨?_, Skip.append sep a b rest h12 h2⟩
    simpa [List.append_assoc] using h11

/-! ### where the three kinds of `Skip` come from -/

/-- a prefix match that runs over the end of `w` has swallowed all of `w` -/
theorem isPrefixC_append_cases : ∀ (sep w rest : List Char), isPrefixC sep (w ++ rest) = true →
    isPrefixC sep w = true ∨ (∀ c ∈ w, c ∈ sep)
  | [], _, _, _ => Or.inl (by simp [isPrefixC])
  | _ :: _, [], _, _ => Or.inr (by simp)
  | a :: p, b :: q, rest, h => by
    simp only [List.cons_append, isPrefixC, Bool.and_eq_true, beq_iff_eq] at h
    obtain ⟨hab, hp⟩ := h
    subst hab
    rcases isPrefixC_append_cases p q rest hp with h1 | h1
    · left; simp [isPrefixC, h1]
    · right
      intro c hc
      rcases List.mem_cons.mp hc with rfl | hc
      · exact List.mem_cons_self
      · exact List.mem_cons_of_mem _ (h1 c hc)

/-- a prefix match cannot run over a character that is not in `sep` -/
theorem isPrefixC_append_stop : ∀ (sep w : List Char) (d : Char) (rest : List Char), d ∉ sep →
    isPrefixC sep (w ++ d :: rest) = true → isPrefixC sep w = true
  | [], _, _, _, _, _ => by simp [isPrefixC]
  | a :: p, [], d, rest, hd, h => by
    simp only [List.nil_append, isPrefixC, Bool.and_eq_true, beq_iff_eq] at h
    exact absurd (h.1 ▸ List.mem_cons_self) hd
  | a :: p, b :: q, d, rest, hd, h => by
    simp only [List.cons_append, isPrefixC, Bool.and_eq_true, beq_iff_eq] at h
    obtain ⟨hab, hp⟩ := h
    have := isPrefixC_append_stop p q d rest (fun hm => hd (List.mem_cons_of_mem _ hm)) hp
    simp [isPrefixC, hab, this]

/-- **names**: `sep` does not occur in `a` and the last character of `a` is not one of `sep` -/
theorem skip_of_clean (sep : List Char) : ∀ (a rest : List Char), occursC sep a = false →
    (∀ c, a.getLast? = some c → c ∉ sep) → Skip sep a rest
  | [], _, _, _ => trivial
  | x :: a, rest, ho, hl => by
    simp only [occursC, Bool.or_eq_false_iff] at ho
    refine ⟨?_, skip_of_clean sep a rest ho.2 ?_⟩
    · cases hp : isPrefixC sep (x :: a ++ rest) with
      | false => rfl
      | true =>
        rcases isPrefixC_append_cases sep (x :: a) rest hp with h1 | h1
        · rw [ho.1] at h1; exact absurd h1 (by simp)
        · exfalso
          have hne : (x :: a) ≠ [] := by simp
          have hlast := List.getLast?_eq_some_getLast hne
          exact hl _ hlast (h1 _ (List.getLast_mem hne))
    · intro c hc
      apply hl c
      cases a with
      | nil => simp at hc
      | cons y a' => rw [List.getLast?_cons_cons]; exact hc

/-- **numbers**: no character of `ds` is in `sep` -/
theorem skip_of_disjoint (sep : List Char) (hne : sep ≠ []) : ∀ (ds rest : List Char), (∀ c ∈ ds, c ∉ sep) →
    Skip sep ds rest
  | [], _, _ => trivial
  | d :: ds, rest, h => by
    refine ⟨?_, skip_of_disjoint sep hne ds rest (fun c hc => h c (List.mem_cons_of_mem _ hc))⟩
    cases sep with
    | nil => exact absurd rfl hne
    | cons s0 p =>
      simp only [List.cons_append, isPrefixC, Bool.and_eq_false_iff]
      left
      have : d ∉ s0 :: p := h d List.mem_cons_self
      simp only [beq_eq_false_iff_ne, ne_eq]
      intro e; exact this (e ▸ List.mem_cons_self)

/-- **another separator followed by a number**: `sep` does not occur in `u`, the next character is not in `sep` -/
theorem skip_of_stop (sep : List Char) (d : Char) (rest : List Char) (hd : d ∉ sep) : ∀ (u : List Char),
    occursC sep u = false → Skip sep u (d :: rest)
  | [], _ => trivial
  | x :: u, ho => by
    simp only [occursC, Bool.or_eq_false_iff] at ho
    refine ⟨?_, skip_of_stop sep d rest hd u ho.2⟩
    cases hp : isPrefixC sep (x :: u ++ d :: rest) with
    | false => rfl
    | true =>
      have := isPrefixC_append_stop sep (x :: u) d rest hd hp
      rw [ho.1] at this; exact absurd this (by simp)

/-! ## B. `splitOnce` on strings; numbers -/

theorem splitOnce_eq (s sep : String) (hne : sep ≠ "") :
    splitOnce s sep = (splitOnceC sep.toList s.toList []).map (fun p => (String.ofList p.1, String.ofList p.2)) := by
  have h1 : sep.isEmpty = false := by rw [String.isEmpty_eq_false_iff]; exact hne
  have hl : sep.toList ≠ [] := by rw [ne_eq, String.toList_eq_nil_iff]; exact hne
  have h2 : (isPrefixC sep.toList s.toList && s.isEmpty) = false := by
    cases he : s.isEmpty with
    | false => simp
    | true =>
      rw [String.isEmpty_iff] at he
      subst he
      cases hs : sep.toList with
      | nil => exact absurd hs hl
      | cons c r => simp [isPrefixC]
  unfold splitOnce
  simp only [h1, h2, Bool.false_eq_true, if_false]
  cases splitOnceC sep.toList s.toList [] with
  | none => rfl
  | some p => rfl

/-- **`splitOnce … = none` is "the separator is not a substring"** -/
theorem splitOnce_eq_none_iff (s sep : String) (hne : sep ≠ "") :
    splitOnce s sep = none ↔ ¬ sep.toList <:+: s.toList := by
  have hl : sep.toList ≠ [] := by rw [ne_eq, String.toList_eq_nil_iff]; exact hne
  rw [splitOnce_eq s sep hne, Option.map_eq_none_iff, splitOnceC_eq_none_iff, ← occursC_iff_infix _ _ hl]
  simp

theorem splitOnce_none_occurs (s sep : String) (hne : sep ≠ "") :
    splitOnce s sep = none ↔ occursC sep.toList s.toList = false := by
  rw [splitOnce_eq s sep hne, Option.map_eq_none_iff, splitOnceC_eq_none_iff]

theorem splitOnce_none_of_skip (s sep : String) (hne : sep ≠ "") (h : Skip sep.toList s.toList []) :
    splitOnce s sep = none := by
  rw [splitOnce_eq s sep hne, splitOnceC_none_of_skip _ _ h]; rfl

theorem splitOnce_at (s sep a b : String) (hne : sep ≠ "") (hs : s = a ++ sep ++ b)
    (h : Skip sep.toList a.toList (sep.toList ++ b.toList)) : splitOnce s sep = some (a, b) := by
  have hl : sep.toList ≠ [] := by rw [ne_eq, String.toList_eq_nil_iff]; exact hne
  have : s.toList = a.toList ++ (sep.toList ++ b.toList) := by
    rw [hs]; simp [String.toList_append, List.append_assoc]
  rw [splitOnce_eq s sep hne, this, splitOnceC_at _ _ _ hl h]
  simp [String.ofList_toList]

/-- the characters `toString (k : Int)` is made of -/
def numChar (c : Char) : Bool := c.isDigit || c == '-'

theorem nat_repr_chars (n : Nat) : (toString n).toList ≠ [] ∧ ∀ c ∈ (toString n).toList, c.isDigit = true := by
  rw [Nat.toString_eq_repr, Nat.toList_repr]
  exact ⟨Nat.toDigits_ne_nil, fun c hc => Nat.isDigit_of_mem_toDigits (by decide) (by decide) hc⟩

theorem int_repr_toList (k : Int) : (toString k).toList =
    if 0 ≤ k then Nat.toDigits 10 k.toNat else '-' :: Nat.toDigits 10 (-k).toNat := by
  rw [Int.toString_eq_repr, Int.repr_eq_if]
  split
  · simp
  · simp [String.toList_append]

theorem int_repr_chars (k : Int) : (toString k).toList ≠ [] ∧ ∀ c ∈ (toString k).toList, numChar c = true := by
  rw [int_repr_toList]
  split
  · refine ⟨Nat.toDigits_ne_nil, fun c hc => ?_⟩
    simp [numChar, Nat.isDigit_of_mem_toDigits (by decide) (by decide) hc]
  · refine ⟨by simp, fun c hc => ?_⟩
    rcases List.mem_cons.mp hc with rfl | hc
    · decide
    · simp [numChar, Nat.isDigit_of_mem_toDigits (by decide) (by decide) hc]

theorem foldl_digits (ds : List Char) :
    ds.foldl (fun a c => a * 10 + (c.toNat - '0'.toNat)) 0 = Nat.ofDigitChars 10 ds 0 := by
  rw [Nat.ofDigitChars_eq_foldl]
  congr 1
  funext a c
  rw [Nat.mul_comm]

theorem parseInt_digits (ds : List Char) (hne : ds ≠ []) (hd : ∀ c ∈ ds, c.isDigit = true) :
    parseInt (String.ofList ds) = some ((Nat.ofDigitChars 10 ds 0 : Nat) : Int) := by
  cases ds with
  | nil => exact absurd rfl hne
  | cons d r =>
    have hd0 : d.isDigit = true := hd d List.mem_cons_self
    have hall : (d :: r).all Char.isDigit = true := List.all_eq_true.mpr hd
    unfold parseInt
    simp only [String.toList_ofList]
    split
    · rename_i r' heq
      injection heq with h1 h2
      subst h1
      exact absurd hd0 (by decide)
    · rename_i r' heq
      injection heq with h1 h2
      subst h1
      exact absurd hd0 (by decide)
    · have hne' : (d :: r).isEmpty = false := rfl
      simp only [hne', hall, Bool.not_true, Bool.or_self, Bool.false_eq_true, if_false, foldl_digits]

theorem parseInt_toString (k : Int) : parseInt (toString k) = some k := by
  have hl := int_repr_toList k
  by_cases hk : 0 ≤ k
  · simp only [hk, if_true] at hl
    have : toString k = String.ofList (Nat.toDigits 10 k.toNat) := by
      rw [← String.toList_inj, hl, String.toList_ofList]
    rw [this, parseInt_digits _ Nat.toDigits_ne_nil
      (fun c hc => Nat.isDigit_of_mem_toDigits (by decide) (by decide) hc), Nat.ofDigitChars_ten_toDigits]
    congr 1
    omega
  · simp only [hk, if_false] at hl
    have hds : ∀ c ∈ Nat.toDigits 10 (-k).toNat, c.isDigit = true :=
      fun c hc => Nat.isDigit_of_mem_toDigits (by decide) (by decide) hc
    have hall : (Nat.toDigits 10 (-k).toNat).all Char.isDigit = true := List.all_eq_true.mpr hds
    have hne : (Nat.toDigits 10 (-k).toNat).isEmpty = false := by
      cases h : Nat.toDigits 10 (-k).toNat with
      | nil => exact absurd h Nat.toDigits_ne_nil
      | cons _ _ => rfl
    unfold parseInt
    simp only [hl]
    simp only [hall, hne, foldl_digits, Nat.ofDigitChars_ten_toDigits]
    simp
    omega

/-! ## C. separator-free names, well-formed separators -/

/-- none of the three separators occurs in `n` (tested with the model's own `splitOnce`) -/
def sepFreeName (t : Tbl) (n : String) : Bool :=
  (splitOnce n t.sepCount).isNone && (splitOnce n t.sepPrev).isNone && (splitOnce n t.sepNext).isNone

/-- the last character of `n`, if any, occurs in no separator -/
def endFreeName (t : Tbl) (n : String) : Bool :=
  match n.toList.getLast? with
  | none => true
  | some c => !(t.sepCount.toList.contains c) && !(t.sepPrev.toList.contains c) && !(t.sepNext.toList.contains c)

def strictName (t : Tbl) (n : String) : Bool := sepFreeName t n && endFreeName t n

/-- **`SepFree`**: no name of the index column contains a separator string -/
def SepFree (t : Tbl) : Prop :=
  ∀ n ∈ t.indexCol, splitOnce n t.sepCount = none ∧ splitOnce n t.sepPrev = none ∧ splitOnce n t.sepNext = none

def sepFreeB (t : Tbl) : Bool := t.indexCol.all (sepFreeName t)

theorem sepFreeName_iff (t : Tbl) (n : String) : sepFreeName t n = true ↔
    splitOnce n t.sepCount = none ∧ splitOnce n t.sepPrev = none ∧ splitOnce n t.sepNext = none := by
  simp [sepFreeName, Option.isNone_iff_eq_none, and_assoc]

theorem sepFreeB_iff (t : Tbl) : sepFreeB t = true ↔ SepFree t := by
  simp only [sepFreeB, List.all_eq_true, sepFreeName_iff]; rfl

/-- `SepFree`, said without the model's functions: no separator (empty separators never split) is an infix of a name -/
theorem sepFree_iff_infix (t : Tbl) (hC : t.sepCount ≠ "") (hP : t.sepPrev ≠ "") (hN : t.sepNext ≠ "") :
    SepFree t ↔ ∀ n ∈ t.indexCol, ¬ t.sepCount.toList <:+: n.toList ∧ ¬ t.sepPrev.toList <:+: n.toList ∧
      ¬ t.sepNext.toList <:+: n.toList := by
  unfold SepFree
  constructor
  · intro h n hn
    have := h n hn
    rwa [splitOnce_eq_none_iff _ _ hC, splitOnce_eq_none_iff _ _ hP, splitOnce_eq_none_iff _ _ hN] at this
  · intro h n hn
    have := h n hn
    rwa [splitOnce_eq_none_iff _ _ hC, splitOnce_eq_none_iff _ _ hP, splitOnce_eq_none_iff _ _ hN]

/-- **`SepStrict`**: `SepFree`, and no name ends with a character that occurs in a separator -/
def SepStrict (t : Tbl) : Prop := ∀ n ∈ t.indexCol, strictName t n = true

def sepStrictB (t : Tbl) : Bool := t.indexCol.all (strictName t)

theorem sepStrictB_iff (t : Tbl) : sepStrictB t = true ↔ SepStrict t := by
  simp only [sepStrictB, List.all_eq_true]; rfl

theorem SepStrict.sepFree {t : Tbl} (h : SepStrict t) : SepFree t := by
  intro n hn
  have := h n hn
  simp only [strictName, Bool.and_eq_true] at this
  exact (sepFreeName_iff t n).mp this.1

/-- **`SepsOK`**: what the three separator strings must satisfy for written labels to parse back -/
structure SepsOK (t : Tbl) : Prop where
  neC : t.sepCount ≠ ""
  neP : t.sepPrev ≠ ""
  neN : t.sepNext ≠ ""
  numP : ∀ c ∈ t.sepPrev.toList, numChar c = false
  numN : ∀ c ∈ t.sepNext.toList, numChar c = false
  prevCount : ¬ t.sepPrev.toList <:+: t.sepCount.toList
  nextCount : ¬ t.sepNext.toList <:+: t.sepCount.toList
  prevNext : ¬ t.sepPrev.toList <:+: t.sepNext.toList

def sepsOKB (t : Tbl) : Bool :=
  !t.sepCount.isEmpty && !t.sepPrev.isEmpty && !t.sepNext.isEmpty &&
  t.sepPrev.toList.all (fun c => !numChar c) && t.sepNext.toList.all (fun c => !numChar c) &&
  !occursC t.sepPrev.toList t.sepCount.toList && !occursC t.sepNext.toList t.sepCount.toList &&
  !occursC t.sepPrev.toList t.sepNext.toList

theorem toList_ne_nil {s : String} (h : s ≠ "") : s.toList ≠ [] := by
  rw [ne_eq, String.toList_eq_nil_iff]; exact h

theorem sepsOKB_sound (t : Tbl) (h : sepsOKB t = true) : SepsOK t := by
  simp only [sepsOKB, Bool.and_eq_true, Bool.not_eq_true', List.all_eq_true, String.isEmpty_eq_false_iff] at h
  obtain ⟨⟨⟨⟨⟨⟨⟨h1, h2⟩, h3⟩, h4⟩, h5⟩, h6⟩, h7⟩, h8⟩ := h
  refine ⟨h1, h2, h3, h4, h5, ?_, ?_, ?_⟩
  · rw [← occursC_iff_infix _ _ (toList_ne_nil h2), h6]; simp
  · rw [← occursC_iff_infix _ _ (toList_ne_nil h3), h7]; simp
  · rw [← occursC_iff_infix _ _ (toList_ne_nil h2), h8]; simp

theorem sepsOKB_iff (t : Tbl) : sepsOKB t = true ↔ SepsOK t := by
  refine ⟨sepsOKB_sound t, fun h => ?_⟩
  have h6 := h.prevCount
  have h7 := h.nextCount
  have h8 := h.prevNext
  rw [← occursC_iff_infix _ _ (toList_ne_nil h.neP), Bool.not_eq_true] at h6 h8
  rw [← occursC_iff_infix _ _ (toList_ne_nil h.neN), Bool.not_eq_true] at h7
  simp only [sepsOKB, Bool.and_eq_true, Bool.not_eq_true', List.all_eq_true, String.isEmpty_eq_false_iff]
  exact ⟨⟨⟨⟨⟨⟨⟨h.neC, h.neP⟩, h.neN⟩, h.numP⟩, h.numN⟩, h6⟩, h7⟩, h8⟩

/-- what a strict name gives for each (non-empty) separator `σ` of the table -/
def CleanFor (σ n : List Char) : Prop := occursC σ n = false ∧ ∀ c, n.getLast? = some c → c ∉ σ

theorem strictName_clean (t : Tbl) (hs : SepsOK t) (n : String) (h : strictName t n = true) :
    CleanFor t.sepCount.toList n.toList ∧ CleanFor t.sepPrev.toList n.toList ∧ CleanFor t.sepNext.toList n.toList := by
  simp only [strictName, Bool.and_eq_true] at h
  obtain ⟨hf, he⟩ := h
  obtain ⟨h1, h2, h3⟩ := (sepFreeName_iff t n).mp hf
  rw [splitOnce_none_occurs _ _ hs.neC] at h1
  rw [splitOnce_none_occurs _ _ hs.neP] at h2
  rw [splitOnce_none_occurs _ _ hs.neN] at h3
  have hend : ∀ c, n.toList.getLast? = some c →
      c ∉ t.sepCount.toList ∧ c ∉ t.sepPrev.toList ∧ c ∉ t.sepNext.toList := by
    intro c hc
    simp only [endFreeName, hc, Bool.and_eq_true, Bool.not_eq_true', List.contains_eq_mem,
      decide_eq_false_iff_not] at he
    exact ⟨he.1.1, he.1.2, he.2⟩
  exact ⟨⟨h1, fun c hc => (hend c hc).1⟩, ⟨h2, fun c hc => (hend c hc).2.1⟩, ⟨h3, fun c hc => (hend c hc).2.2⟩⟩

/-! ## D. the parse of every written form -/

theorem skip_clean {σ n : List Char} (h : CleanFor σ n) (rest : List Char) : Skip σ n rest :=
  skip_of_clean σ n rest h.1 h.2

/-- over another separator `u` (in which `σ` does not occur) followed by a number -/
theorem skip_sep_num (σ u ds rest : List Char) (hne : σ ≠ []) (hnum : ∀ c ∈ σ, numChar c = false)
    (hu : ¬ σ <:+: u) (hds : ds ≠ [] ∧ ∀ c ∈ ds, numChar c = true) : Skip σ (u ++ ds) rest := by
  have hdis : ∀ c ∈ ds, c ∉ σ := by
    intro c hc hm
    have h1 := hds.2 c hc
    rw [hnum c hm] at h1
    exact absurd h1 (by simp)
  have hocc : occursC σ u = false := by
    rw [← Bool.not_eq_true, occursC_iff_infix _ _ hne]; exact hu
  apply Skip.append
  · cases ds with
    | nil => exact absurd rfl hds.1
    | cons d ds' =>
      exact skip_of_stop σ d (ds' ++ rest) (hdis d List.mem_cons_self) u hocc
  · exact skip_of_disjoint σ hne ds rest hdis

theorem splitOnce_congr_none {s : String} {sep : String} (hne : sep ≠ "") {l : List Char} (hl : s.toList = l)
    (h : Skip sep.toList l []) : splitOnce s sep = none :=
  splitOnce_none_of_skip s sep hne (hl ▸ h)

/-- the plain name: no count, no offset (needs `SepFree` of the name only) -/
theorem split_plain (t : Tbl) (name : String)
    (h : splitOnce name t.sepCount = none ∧ splitOnce name t.sepPrev = none ∧ splitOnce name t.sepNext = none) :
    splitNameCountOffset t name = .ok (name, none, 0) := by
  simp only [splitNameCountOffset, h.1, h.2.1, h.2.2]

/-- `'name::count'` -/
theorem split_count (t : Tbl) (hs : SepsOK t) (name : String) (hn : strictName t name = true) (count : Int) :
    splitNameCountOffset t (name ++ t.sepCount ++ toString count) = .ok (name, some count, 0) := by
  obtain ⟨hC, hP, hN⟩ := strictName_clean t hs name hn
  have hnum := int_repr_chars count
  have hl : (name ++ t.sepCount ++ toString count).toList
      = name.toList ++ (t.sepCount.toList ++ (toString count).toList) := by
    simp [String.toList_append, List.append_assoc]
  have h1 : splitOnce (name ++ t.sepCount ++ toString count) t.sepPrev = none :=
    splitOnce_congr_none hs.neP hl (Skip.append _ _ _ _ (skip_clean hP _)
      (skip_sep_num _ _ _ _ (toList_ne_nil hs.neP) hs.numP hs.prevCount hnum))
  have h2 : splitOnce (name ++ t.sepCount ++ toString count) t.sepNext = none :=
    splitOnce_congr_none hs.neN hl (Skip.append _ _ _ _ (skip_clean hN _)
      (skip_sep_num _ _ _ _ (toList_ne_nil hs.neN) hs.numN hs.nextCount hnum))
  have h3 : splitOnce (name ++ t.sepCount ++ toString count) t.sepCount = some (name, toString count) :=
    splitOnce_at _ _ _ _ hs.neC rfl (skip_clean hC _)
  simp only [splitNameCountOffset, h1, h2, h3, parseInt_toString]

/-- `'name<<k'` -/
theorem split_prev (t : Tbl) (hs : SepsOK t) (name : String) (hn : strictName t name = true) (k : Int) :
    splitNameCountOffset t (name ++ t.sepPrev ++ toString k) = .ok (name, none, -k) := by
  obtain ⟨hC, hP, hN⟩ := strictName_clean t hs name hn
  have h1 : splitOnce (name ++ t.sepPrev ++ toString k) t.sepPrev = some (name, toString k) :=
    splitOnce_at _ _ _ _ hs.neP rfl (skip_clean hP _)
  have h3 : splitOnce name t.sepCount = none := (splitOnce_none_occurs _ _ hs.neC).mpr hC.1
  simp only [splitNameCountOffset, h1, h3, parseInt_toString]

/-- `'name>>k'` -/
theorem split_next (t : Tbl) (hs : SepsOK t) (name : String) (hn : strictName t name = true) (k : Int) :
    splitNameCountOffset t (name ++ t.sepNext ++ toString k) = .ok (name, none, k) := by
  obtain ⟨hC, hP, hN⟩ := strictName_clean t hs name hn
  have hnum := int_repr_chars k
  have hl : (name ++ t.sepNext ++ toString k).toList
      = name.toList ++ (t.sepNext.toList ++ (toString k).toList) := by
    simp [String.toList_append, List.append_assoc]
  have h1 : splitOnce (name ++ t.sepNext ++ toString k) t.sepPrev = none :=
    splitOnce_congr_none hs.neP hl (Skip.append _ _ _ _ (skip_clean hP _)
      (skip_sep_num _ _ _ _ (toList_ne_nil hs.neP) hs.numP hs.prevNext hnum))
  have h2 : splitOnce (name ++ t.sepNext ++ toString k) t.sepNext = some (name, toString k) :=
    splitOnce_at _ _ _ _ hs.neN rfl (skip_clean hN _)
  have h3 : splitOnce name t.sepCount = none := (splitOnce_none_occurs _ _ hs.neC).mpr hC.1
  simp only [splitNameCountOffset, h1, h2, h3, parseInt_toString]

/-- `'name::count<<k'` -/
theorem split_count_prev (t : Tbl) (hs : SepsOK t) (name : String) (hn : strictName t name = true) (count k : Int) :
    splitNameCountOffset t (name ++ t.sepCount ++ toString count ++ t.sepPrev ++ toString k)
      = .ok (name, some count, -k) := by
  obtain ⟨hC, hP, hN⟩ := strictName_clean t hs name hn
  have hnum := int_repr_chars count
  have h1 : splitOnce (name ++ t.sepCount ++ toString count ++ t.sepPrev ++ toString k) t.sepPrev
      = some (name ++ t.sepCount ++ toString count, toString k) := by
    refine splitOnce_at _ _ _ _ hs.neP rfl ?_
    have hl : (name ++ t.sepCount ++ toString count).toList
        = name.toList ++ (t.sepCount.toList ++ (toString count).toList) := by
      simp [String.toList_append, List.append_assoc]
    rw [hl]
    exact Skip.append _ _ _ _ (skip_clean hP _)
      (skip_sep_num _ _ _ _ (toList_ne_nil hs.neP) hs.numP hs.prevCount hnum)
  have h3 : splitOnce (name ++ t.sepCount ++ toString count) t.sepCount = some (name, toString count) :=
    splitOnce_at _ _ _ _ hs.neC rfl (skip_clean hC _)
  simp only [splitNameCountOffset, h1, h3, parseInt_toString]

/-- `'name::count>>k'` -/
theorem split_count_next (t : Tbl) (hs : SepsOK t) (name : String) (hn : strictName t name = true) (count k : Int) :
    splitNameCountOffset t (name ++ t.sepCount ++ toString count ++ t.sepNext ++ toString k)
      = .ok (name, some count, k) := by
  obtain ⟨hC, hP, hN⟩ := strictName_clean t hs name hn
  have hnum := int_repr_chars count
  have hnumk := int_repr_chars k
  have hl0 : (name ++ t.sepCount ++ toString count).toList
      = name.toList ++ (t.sepCount.toList ++ (toString count).toList) := by
    simp [String.toList_append, List.append_assoc]
  have hl : (name ++ t.sepCount ++ toString count ++ t.sepNext ++ toString k).toList
      = (name.toList ++ (t.sepCount.toList ++ (toString count).toList)) ++ (t.sepNext.toList ++ (toString k).toList) := by
    simp [String.toList_append, List.append_assoc]
  have h1 : splitOnce (name ++ t.sepCount ++ toString count ++ t.sepNext ++ toString k) t.sepPrev = none := by
    refine splitOnce_congr_none hs.neP hl (Skip.append _ _ _ _ (Skip.append _ _ _ _ (skip_clean hP _)
      (skip_sep_num _ _ _ _ (toList_ne_nil hs.neP) hs.numP hs.prevCount hnum))
      (skip_sep_num _ _ _ _ (toList_ne_nil hs.neP) hs.numP hs.prevNext hnumk))
  have h2 : splitOnce (name ++ t.sepCount ++ toString count ++ t.sepNext ++ toString k) t.sepNext
      = some (name ++ t.sepCount ++ toString count, toString k) := by
    refine splitOnce_at _ _ _ _ hs.neN rfl ?_
    rw [hl0]
    exact Skip.append _ _ _ _ (skip_clean hN _)
      (skip_sep_num _ _ _ _ (toList_ne_nil hs.neN) hs.numN hs.nextCount hnum)
  have h3 : splitOnce (name ++ t.sepCount ++ toString count) t.sepCount = some (name, toString count) :=
    splitOnce_at _ _ _ _ hs.neC rfl (skip_clean hC _)
  simp only [splitNameCountOffset, h1, h2, h3, parseInt_toString]

/-- the offset part of a label -/
inductive LOff where
  | none
  | prev (k : Int)        -- `<<k`
  | next (k : Int)        -- `>>k`

/-- the offset it denotes -/
def LOff.val : LOff → Int
  | .none => 0
  | .prev k => -k
  | .next k => k

/-- the label as written: `name`, then `::count` if a count is given, then `<<k` / `>>k` if an offset is given -/
def mkLabel (t : Tbl) (name : String) : Option Int → LOff → String
  | none, .none => name
  | some c, .none => name ++ t.sepCount ++ toString c
  | none, .prev k => name ++ t.sepPrev ++ toString k
  | none, .next k => name ++ t.sepNext ++ toString k
  | some c, .prev k => name ++ t.sepCount ++ toString c ++ t.sepPrev ++ toString k
  | some c, .next k => name ++ t.sepCount ++ toString c ++ t.sepNext ++ toString k

/-- **the parse of a written label**, all six forms -/
theorem split_label (t : Tbl) (hs : SepsOK t) (name : String) (hn : strictName t name = true)
    (count : Option Int) (o : LOff) :
    splitNameCountOffset t (mkLabel t name count o) = .ok (name, count, o.val) := by
  cases count <;> cases o <;> simp only [mkLabel, LOff.val]
  · refine split_plain t name ((sepFreeName_iff t name).mp ?_)
    simp only [strictName, Bool.and_eq_true] at hn; exact hn.1
  · exact split_prev t hs name hn _
  · exact split_next t hs name hn _
  · exact split_count t hs name hn _
  · exact split_count_prev t hs name hn _ _
  · exact split_count_next t hs name hn _ _

/-! ## E. look-ups by string -/

/-- "no such occurrence" is a `KeyError` -/
def orKeyError : Option Int → Except TErr Int
  | some i => .ok i
  | none => .error .keyError

theorem nameLookup_of_split (t : Tbl) (s n : String) (c : Option Int) (o : Int)
    (h : splitNameCountOffset t s = .ok (n, c, o)) :
    nameLookup t s = orKeyError (scanLookup t.indexCol n (c.getD 0) o) := by
  unfold nameLookup
  simp only [h]
  cases scanLookup t.indexCol n (c.getD 0) o <;> rfl

/-- **(2) `rows.get_index('name::count<<k')` is parse-then-scan, with the parse spelled out**: on a coherent table
    with well-formed separators, the look-up of the written label of a strict name (in the table or not) is the scan
    of the current index column for the `count`-th occurrence (the first when no count is written), shifted -/
theorem getRowIndex_label (t : Tbl) (hc : Coherent t) (hs : SepsOK t) (name : String)
    (hn : strictName t name = true) (count : Option Int) (o : LOff) :
    (getRowIndex t (.name (mkLabel t name count o))).2
      = orKeyError (scanLookup t.indexCol name (count.getD 0) o.val) := by
  rw [getRowIndex_name_scan t hc, nameLookup_of_split t _ _ _ _ (split_label t hs name hn count o)]

/-- … and so the same as the tuple look-up of `getRowIndex_scan` -/
theorem getRowIndex_label_tuple (t : Tbl) (hc : Coherent t) (hs : SepsOK t) (name : String)
    (hn : strictName t name = true) (count : Option Int) (o : LOff) :
    (getRowIndex t (.name (mkLabel t name count o))).2
      = (getRowIndex t (.tup name (count.getD 0) (some o.val))).2 := by
  rw [getRowIndex_label t hc hs name hn, getRowIndex_scan t hc]
  simp only [Option.getD_some]
  cases scanLookup t.indexCol name (count.getD 0) o.val <;> rfl

/-- the plain name needs `SepFree` of that name only (no condition on the separators) -/
theorem getRowIndex_plain (t : Tbl) (hc : Coherent t) (name : String)
    (h : splitOnce name t.sepCount = none ∧ splitOnce name t.sepPrev = none ∧ splitOnce name t.sepNext = none) :
    (getRowIndex t (.name name)).2 = orKeyError (scanLookup t.indexCol name 0 0) := by
  rw [getRowIndex_name_scan t hc, nameLookup_of_split t _ _ _ _ (split_plain t name h)]
  rfl

theorem nthOcc_some_mem : ∀ (col : List String) (name : String) (c i : Nat), nthOcc col name c = some i → name ∈ col
  | [], _, _, _, h => by simp [nthOcc] at h
  | x :: xs, name, c, i, h => by
    by_cases hx : x = name
    · subst hx; exact List.mem_cons_self
    · simp only [nthOcc, hx, if_false] at h
      cases hr : nthOcc xs name c with
      | none => rw [hr] at h; simp at h
      | some j => exact List.mem_cons_of_mem _ (nthOcc_some_mem xs name c j hr)

/-- **(3) `t[col, 'row']` resolves the row exactly like `rows.get_index('row')`** when no name of the index column
    contains a separator: the literal-label fast path can then only hit a plain name, for which both agree -/
theorem resolveCellRow_name (t : Tbl) (hc : Coherent t) (hf : SepFree t) (s : String) :
    (resolveCellRow t (.name s)).2 = (getRowIndex t (.name s)).2 := by
  have hk := getCache_keeps t hc
  obtain ⟨hc2, _, _, _, _⟩ := getCache_spec t hc
  simp only [resolveCellRow]
  generalize getCache t = g at hk hc2
  obtain ⟨t1, cache, cnt⟩ := g
  simp only at hk hc2 ⊢
  have hcache : cache = (makeCache t.indexCol).1 := by rw [← hc2]
  cases hl : lookupA cache (s, 0) with
  | some idx =>
    simp only
    rw [hcache, makeCache_spec] at hl
    have hmem := nthOcc_some_mem _ _ _ _ hl
    rw [getRowIndex_plain t hc s (hf s hmem)]
    simp [scanLookup, hl, orKeyError]
  | none =>
    simp only
    show (getRowIndex t1 (.name s)).2 = _
    rw [getRowIndex_name_scan t1 hk.1, getRowIndex_name_scan t hc, nameLookup_keeps hk]

/-- `t[col, 'row']` reads the cell of the row `rows.get_index('row')` gives … -/
theorem getCell_name_ok (t : Tbl) (hc : Coherent t) (hf : SepFree t) (col s : String) (i : Int)
    (h : (getRowIndex t (.name s)).2 = .ok i) :
    (getCell t col (.name s)).2 = (getCell t col (.pos i)).2 := by
  rw [← resolveCellRow_name t hc hf] at h
  unfold getCell
  cases t.col col with
  | none => rfl
  | some c =>
    simp only
    generalize resolveCellRow t (.name s) = r at h
    obtain ⟨t1, x⟩ := r
    simp only at h
    subst h
    simp only [resolveCellRow]
    cases normPos c.length i <;> rfl

/-- … and fails like it (when the column exists) -/
theorem getCell_name_error (t : Tbl) (hc : Coherent t) (hf : SepFree t) (col s : String) (e : TErr) (c : List Cell)
    (hcol : t.col col = some c) (h : (getRowIndex t (.name s)).2 = .error e) :
    (getCell t col (.name s)).2 = .error e := by
  rw [← resolveCellRow_name t hc hf] at h
  unfold getCell
  simp only [hcol]
  generalize resolveCellRow t (.name s) = r at h
  obtain ⟨t1, x⟩ := r
  simp only at h
  subst h
  rfl

/-- `t[col, 'row'] = v` writes the cell of the row `rows.get_index('row')` gives: same outcome and same columns as
    the assignment by position (the two tables differ at most in the cache, which the look-up builds) -/
theorem setCell_name_ok (t : Tbl) (hc : Coherent t) (hf : SepFree t) (col s : String) (v : Cell) (i : Int)
    (h : (getRowIndex t (.name s)).2 = .ok i) :
    (setCell t col (.name s) v).2 = (setCell t col (.pos i) v).2 ∧
    (setCell t col (.name s) v).1.data = (setCell t col (.pos i) v).1.data := by
  have hk := resolveCellRow_keeps t hc (.name s)
  rw [← resolveCellRow_name t hc hf] at h
  unfold setCell
  cases t.col col with
  | none => exact ⟨rfl, rfl⟩
  | some c =>
    simp only
    generalize resolveCellRow t (.name s) = r at h hk
    obtain ⟨t1, x⟩ := r
    simp only at h hk
    subst h
    simp only [resolveCellRow]
    cases normPos c.length i with
    | none => exact ⟨rfl, hk.2.1⟩
    | some k =>
      refine ⟨rfl, ?_⟩
      by_cases hci : col = t.index
      · simp only [hci, if_true]; rw [hk.2.1]
      · simp only [hci, if_false]; rw [hk.2.1]

theorem setCell_name_error (t : Tbl) (hc : Coherent t) (hf : SepFree t) (col s : String) (v : Cell) (e : TErr)
    (c : List Cell) (hcol : t.col col = some c) (h : (getRowIndex t (.name s)).2 = .error e) :
    (setCell t col (.name s) v).2 = .error e ∧ (setCell t col (.name s) v).1.data = t.data := by
  have hk := resolveCellRow_keeps t hc (.name s)
  rw [← resolveCellRow_name t hc hf] at h
  unfold setCell
  simp only [hcol]
  generalize resolveCellRow t (.name s) = r at h hk
  obtain ⟨t1, x⟩ := r
  simp only at h hk
  subst h
  exact ⟨rfl, hk.2.1⟩

/-- **`t[col, 'name::count<<k']` addresses the scan-defined row** -/
theorem getCell_label (t : Tbl) (hc : Coherent t) (hs : SepsOK t) (hf : SepFree t) (col name : String)
    (hn : strictName t name = true) (count : Option Int) (o : LOff) (i : Int)
    (hi : scanLookup t.indexCol name (count.getD 0) o.val = some i) :
    (getCell t col (.name (mkLabel t name count o))).2 = (getCell t col (.pos i)).2 := by
  apply getCell_name_ok t hc hf
  rw [getRowIndex_label t hc hs name hn, hi]; rfl

theorem setCell_label (t : Tbl) (hc : Coherent t) (hs : SepsOK t) (hf : SepFree t) (col name : String)
    (hn : strictName t name = true) (count : Option Int) (o : LOff) (v : Cell) (i : Int)
    (hi : scanLookup t.indexCol name (count.getD 0) o.val = some i) :
    (setCell t col (.name (mkLabel t name count o)) v).2 = (setCell t col (.pos i) v).2 ∧
    (setCell t col (.name (mkLabel t name count o)) v).1.data = (setCell t col (.pos i) v).1.data := by
  apply setCell_name_ok t hc hf
  rw [getRowIndex_label t hc hs name hn, hi]; rfl

/-! ## F. the labels of `cols.get_index_unique()` -/

/-- the label of one row: the name itself when it occurs once in `col`, else `name::k`, `k` the number of EARLIER
    occurrences -/
def labelOf (t : Tbl) (col : List String) (nn : String) (k : Nat) : String :=
  if occ col nn = 1 then nn else nn ++ t.sepCount ++ toString k

/-- what the running dictionary of `uniqueLabels.go` says about the names already seen -/
def SeenInv (pre : List String) (seen : List (String × Nat)) : Prop :=
  ∀ name, lookupA seen name = if occ pre name = 0 then none else some (occ pre name - 1)

theorem seenInv_step (pre : List String) (seen : List (String × Nat)) (h : SeenInv pre seen) (nn : String) :
    SeenInv (pre ++ [nn]) (insertA seen nn (occ pre nn)) := by
  intro name
  simp only [lookup_insert]
  by_cases hk : nn = name
  · subst hk
    have : occ (pre ++ [nn]) nn = occ pre nn + 1 := by simp [occ]
    simp [this]
  · have : occ (pre ++ [nn]) name = occ pre name := by simp [occ, hk]
    simp [hk, this, h name]

theorem uniqueLabels_go (t : Tbl) (col : List String) :
    ∀ (rest pre : List String) (seen : List (String × Nat)), SeenInv pre seen → (∀ nn ∈ rest, nn ∈ col) →
    ∀ j : Nat, (uniqueLabels.go t (makeCache col).2 rest seen)[j]?
      = (rest[j]?).map (fun nn => labelOf t col nn (occ (pre ++ rest.take j) nn))
  | [], _, _, _, _, j => by simp [uniqueLabels.go]
  | nn :: rest, pre, seen, hinv, hmem, j => by
    have htot : (lookupA (makeCache col).2 nn).getD 0 = occ col nn := by
      rw [makeCache_cnt]
      by_cases hz : occ col nn = 0
      · simp [hz]
      · simp [hz]
    have main : ∀ K : Nat, K = occ pre nn →
        ((if occ col nn = 1 then nn else nn ++ t.sepCount ++ toString K) ::
          uniqueLabels.go t (makeCache col).2 rest (insertA seen nn K))[j]?
        = ((nn :: rest)[j]?).map (fun x => labelOf t col x (occ (pre ++ (nn :: rest).take j) x)) := by
      intro K hK
      subst hK
      cases j with
      | zero => simp [labelOf]
      | succ j =>
        simp only [List.getElem?_cons_succ, List.take_succ_cons]
        rw [uniqueLabels_go t col rest (pre ++ [nn]) _ (seenInv_step pre seen hinv nn)
          (fun x hx => hmem x (List.mem_cons_of_mem _ hx)) j]
        simp [List.append_assoc]
    have hn := hinv nn
    cases hl : lookupA seen nn with
    | none =>
      simp only [uniqueLabels.go, hl, htot]
      refine main 0 ?_
      rw [hl] at hn
      by_cases h0 : occ pre nn = 0
      · exact h0.symm
      · simp [h0] at hn
    | some c =>
      simp only [uniqueLabels.go, hl, htot]
      refine main (c + 1) ?_
      rw [hl] at hn
      by_cases h0 : occ pre nn = 0
      · simp [h0] at hn
      · simp only [h0, if_false, Option.some.injEq] at hn
        omega

theorem uniqueLabels_getElem? (t : Tbl) (j : Nat) :
    (uniqueLabels t)[j]? = (t.indexCol[j]?).map (fun nn => labelOf t t.indexCol nn (occ (t.indexCol.take j) nn)) := by
  have hinv : SeenInv [] [] := by intro n; simp [lookupA, occ]
  have := uniqueLabels_go t t.indexCol t.indexCol [] [] hinv (fun _ h => h) j
  simpa [uniqueLabels] using this

theorem uniqueLabels_length (t : Tbl) : (uniqueLabels t).length = t.indexCol.length := by
  by_cases h : (uniqueLabels t).length ≤ t.indexCol.length
  · by_cases h' : t.indexCol.length ≤ (uniqueLabels t).length
    · omega
    · exfalso
      have h1 := uniqueLabels_getElem? t (uniqueLabels t).length
      rw [List.getElem?_eq_none (Nat.le_refl _), List.getElem?_eq_getElem (by omega)] at h1
      simp at h1
  · exfalso
    have h1 := uniqueLabels_getElem? t t.indexCol.length
    rw [List.getElem?_eq_none (l := t.indexCol) (Nat.le_refl _), List.getElem?_eq_getElem (by omega)] at h1
    simp at h1

theorem uniqueLabels_getElem (t : Tbl) (i : Nat) (hi : i < t.indexCol.length) :
    (uniqueLabels t)[i]'(by rw [uniqueLabels_length]; exact hi)
      = labelOf t t.indexCol t.indexCol[i] (occ (t.indexCol.take i) t.indexCol[i]) := by
  have h1 := uniqueLabels_getElem? t i
  rw [List.getElem?_eq_getElem (by rw [uniqueLabels_length]; exact hi), List.getElem?_eq_getElem hi] at h1
  simpa using h1

/-- the occurrence at position `i` is the `k`-th, `k` the number of earlier occurrences -/
theorem nthOcc_take : ∀ (col : List String) (i : Nat) (h : i < col.length),
    nthOcc col col[i] (occ (col.take i) col[i]) = some i
  | [], i, h => by simp at h
  | x :: xs, 0, _ => by simp [nthOcc, occ]
  | x :: xs, i + 1, h => by
    have h' : i < xs.length := by simpa using h
    have ih := nthOcc_take xs i h'
    simp only [List.getElem_cons_succ, List.take_succ_cons]
    by_cases hx : x = xs[i]
    · rw [← hx] at ih ⊢
      rw [occ_cons_eq]
      simp [nthOcc, ih]
    · rw [occ_cons_ne _ _ _ hx]
      simp [nthOcc, hx, ih]

theorem occ_take_of_unique (col : List String) (i : Nat) (h : i < col.length) (h1 : occ col col[i] = 1) :
    occ (col.take i) col[i] = 0 := by
  have hsplit : col = col.take i ++ col[i] :: col.drop (i + 1) := by
    rw [List.getElem_cons_drop, List.take_append_drop]
  have key : ∀ (a b : List String) (x : String), occ (a ++ x :: b) x = occ a x + 1 + occ b x := by
    intro a b x; simp [occ]; omega
  have := key (col.take i) (col.drop (i + 1)) col[i]
  rw [← hsplit] at this
  omega

/-- **(4) every label of `cols.get_index_unique()` resolves back to its own row** -/
theorem uniqueLabels_resolve (t : Tbl) (hc : Coherent t) (hs : SepsOK t) (hn : SepStrict t)
    (i : Nat) (hi : i < t.indexCol.length) :
    (getRowIndex t (.name ((uniqueLabels t)[i]'(by rw [uniqueLabels_length]; exact hi)))).2 = .ok (i : Int) := by
  have hmem : t.indexCol[i] ∈ t.indexCol := List.getElem_mem hi
  have hstrict := hn _ hmem
  have hnth := nthOcc_take t.indexCol i hi
  rw [uniqueLabels_getElem t i hi]
  unfold labelOf
  by_cases h1 : occ t.indexCol t.indexCol[i] = 1
  · simp only [h1, if_true]
    have := getRowIndex_label t hc hs _ hstrict none .none
    simp only [mkLabel, LOff.val, Option.getD_none] at this
    rw [this]
    rw [occ_take_of_unique _ _ hi h1] at hnth
    simp [scanLookup, hnth, orKeyError]
  · simp only [h1, if_false]
    have := getRowIndex_label t hc hs _ hstrict (some ((occ (t.indexCol.take i) t.indexCol[i] : Nat) : Int)) .none
    simp only [mkLabel, LOff.val, Option.getD_some] at this
    have hts : toString (occ (t.indexCol.take i) t.indexCol[i]) =
        toString ((occ (t.indexCol.take i) t.indexCol[i] : Nat) : Int) := by
      rw [Int.toString_eq_repr, Int.repr_eq_if]; simp
    rw [hts, this]
    have hnn : ¬ ((occ (t.indexCol.take i) t.indexCol[i] : Nat) : Int) < 0 := by omega
    simp [scanLookup, hnn, hnth, orKeyError]

theorem uniqueLabels_go_congr (t t' : Tbl) (h : t'.sepCount = t.sepCount) (cnt : Cnt) :
    ∀ (l : List String) (seen : List (String × Nat)), uniqueLabels.go t' cnt l seen = uniqueLabels.go t cnt l seen
  | [], _ => rfl
  | nn :: rest, seen => by
    simp only [uniqueLabels.go, h, uniqueLabels_go_congr t t' h cnt rest]

/-- the labels do not depend on the cache -/
theorem uniqueLabels_dropCache (t : Tbl) : uniqueLabels { t with cache := none } = uniqueLabels t := by
  have hcol : ({ t with cache := none } : Tbl).indexCol = t.indexCol := rfl
  simp only [uniqueLabels, hcol]
  exact uniqueLabels_go_congr t { t with cache := none } rfl _ _ _

/-- **(4) … and they are pairwise different** (no cache involved) -/
theorem uniqueLabels_nodup (t : Tbl) (hs : SepsOK t) (hn : SepStrict t) : (uniqueLabels t).Nodup := by
  have hc : Coherent { t with cache := none } := Or.inl rfl
  have hs' : SepsOK { t with cache := none } := ⟨hs.neC, hs.neP, hs.neN, hs.numP, hs.numN, hs.prevCount, hs.nextCount, hs.prevNext⟩
  have hn' : SepStrict { t with cache := none } := hn
  have hcol : ({ t with cache := none } : Tbl).indexCol = t.indexCol := rfl
  rw [List.Nodup, List.pairwise_iff_getElem]
  intro i j hi hj hij heq
  have hlen := uniqueLabels_length t
  have h1 := uniqueLabels_resolve _ hc hs' hn' i (by rw [hcol, ← hlen]; exact hi)
  have h2 := uniqueLabels_resolve _ hc hs' hn' j (by rw [hcol, ← hlen]; exact hj)
  simp only [uniqueLabels_dropCache] at h1 h2
  rw [heq, h2] at h1
  injection h1 with h1
  omega

/-- the same, for a rectangular table, by row number -/
theorem uniqueLabels_resolve_rect (t : Tbl) (hc : Coherent t) (hr : Rect t) (hs : SepsOK t) (hn : SepStrict t)
    (i : Nat) (hi : i < t.nrows) :
    ∃ h : i < (uniqueLabels t).length, (getRowIndex t (.name (uniqueLabels t)[i])).2 = .ok (i : Int) := by
  have hi' : i < t.indexCol.length := by rw [hr.indexCol_length]; exact hi
  exact ⟨by rw [uniqueLabels_length]; exact hi', uniqueLabels_resolve t hc hs hn i hi'⟩

/-! ## G. histories: what can get into the index column -/

/-- the names an API call writes into the index column `idx` -/
def TOp.writes (idx : String) : TOp → List String
  | .setCol n vals => if n = idx then vals.map cellStr else []
  | .setCell c _ v => if c = idx then [cellStr v] else []
  | _ => []

def SameSeps (t t' : Tbl) : Prop :=
  t'.sepCount = t.sepCount ∧ t'.sepPrev = t.sepPrev ∧ t'.sepNext = t.sepNext

theorem Keeps.sameSeps {t t' : Tbl} (h : Keeps t t') : SameSeps t t' := h.2.2.2.2

theorem mem_setNth {α : Type} (v x : α) : ∀ (l : List α) (k : Nat), x ∈ setNth l k v → x ∈ l ∨ x = v
  | [], _, h => by simp [setNth] at h
  | a :: r, 0, h => by
    simp only [setNth, List.mem_cons] at h
    rcases h with h | h
    · exact Or.inr h
    · exact Or.inl (List.mem_cons_of_mem _ h)
  | a :: r, k + 1, h => by
    simp only [setNth, List.mem_cons] at h
    rcases h with h | h
    · exact Or.inl (h ▸ List.mem_cons_self)
    · rcases mem_setNth v x r k h with h | h
      · exact Or.inl (List.mem_cons_of_mem _ h)
      · exact Or.inr h

theorem lookupA_filter_ne_L {ν : Type} (name k : String) (hk : name ≠ k) : ∀ d : List (String × ν),
    lookupA (d.filter (fun p => p.1 ≠ name)) k = lookupA d k
  | [] => rfl
  | p :: r => by
    simp only [List.filter_cons]
    by_cases hp : p.1 = name
    · have : p.1 ≠ k := fun e => hk (hp ▸ e)
      simp only [hp, ne_eq, not_true_eq_false, decide_false, Bool.false_eq_true, if_false]
      rw [lookupA_filter_ne_L name k hk r]
      simp only [lookupA]
      rw [if_neg this]
    · simp only [ne_eq, hp, not_false_eq_true, decide_true, if_true, lookupA]
      split
      · rfl
      · exact lookupA_filter_ne_L name k hk r

/-- the index column after a change of `data` that is either none or one `insertA` -/
theorem mem_indexCol_of (t t' : Tbl) (name : String) (nv : List Cell) (hi : t'.index = t.index)
    (hd : t'.data = t.data ∨ t'.data = insertA t.data name nv) :
    ∀ n ∈ t'.indexCol, n ∈ t.indexCol ∨ (name = t.index ∧ n ∈ nv.map cellStr) := by
  intro n hn
  rcases hd with hd | hd
  · left; rwa [indexCol_of_data hd hi] at hn
  · by_cases hc : name = t.index
    · right
      refine ⟨hc, ?_⟩
      unfold Tbl.indexCol Tbl.col at hn
      rw [hd, hi, lookup_insert, if_pos hc] at hn
      exact hn
    · left
      rwa [indexCol_insert_other t t' name nv hd hi hc] at hn

theorem setCol_frame_aux (t t' : Tbl) (name : String) (vals nv : List Cell) (hi : t'.index = t.index)
    (hs : SameSeps t t') (hd : t'.data = t.data ∨ t'.data = insertA t.data name nv) (hsub : ∀ x ∈ nv, x ∈ vals) :
    t'.index = t.index ∧ SameSeps t t' ∧
      ∀ n ∈ t'.indexCol, n ∈ t.indexCol ∨ n ∈ (TOp.setCol name vals).writes t.index := by
  refine ⟨hi, hs, fun n hn => ?_⟩
  rcases mem_indexCol_of t t' name nv hi hd n hn with h | ⟨hc, h⟩
  · exact Or.inl h
  · right
    simp only [TOp.writes, hc, if_true]
    obtain ⟨x, hx, rfl⟩ := List.mem_map.mp h
    exact List.mem_map.mpr ⟨x, hsub x hx, rfl⟩

theorem setCol_frame (t : Tbl) (name : String) (vals : List Cell) :
    (setCol t name vals).1.index = t.index ∧ SameSeps t (setCol t name vals).1 ∧
    ∀ n ∈ (setCol t name vals).1.indexCol, n ∈ t.indexCol ∨ n ∈ (TOp.setCol name vals).writes t.index := by
  have bro : ∀ (c : List Cell), vals.length = 1 → ∀ x ∈ c.map (fun _ => vals.headD (.int 0)), x ∈ vals := by
    intro c h1 x hx
    obtain ⟨_, _, rfl⟩ := List.mem_map.mp hx
    cases vals with
    | nil => simp at h1
    | cons a r => simp
  unfold setCol
  by_cases hn : name = t.index
  · simp only [hn, if_true]
    split
    · split
      · refine setCol_frame_aux t _ t.index vals [] ?_ ?_ ?_ (by simp) <;>
              first | rfl | exact ⟨rfl, rfl, rfl⟩ | exact Or.inl rfl | exact Or.inr rfl
      · split
        · refine setCol_frame_aux t _ t.index vals vals ?_ ?_ ?_ (fun _ h => h) <;>
              first | rfl | exact ⟨rfl, rfl, rfl⟩ | exact Or.inl rfl | exact Or.inr rfl
        · split
          · rename_i c _ _ h1
            refine setCol_frame_aux t _ t.index vals _ ?_ ?_ ?_ (bro c h1) <;>
              first | rfl | exact ⟨rfl, rfl, rfl⟩ | exact Or.inl rfl | exact Or.inr rfl
          · refine setCol_frame_aux t _ t.index vals [] ?_ ?_ ?_ (by simp) <;>
              first | rfl | exact ⟨rfl, rfl, rfl⟩ | exact Or.inl rfl | exact Or.inr rfl
    · simp only
      split
      · refine setCol_frame_aux t _ t.index vals vals ?_ ?_ ?_ (fun _ h => h) <;>
              first | rfl | exact ⟨rfl, rfl, rfl⟩ | exact Or.inl rfl | exact Or.inr rfl
      · refine setCol_frame_aux t _ t.index vals vals ?_ ?_ ?_ (fun _ h => h) <;>
              first | rfl | exact ⟨rfl, rfl, rfl⟩ | exact Or.inl rfl | exact Or.inr rfl
  · simp only [hn, if_false]
    split
    · split
      · refine setCol_frame_aux t _ name vals [] ?_ ?_ ?_ (by simp) <;>
              first | rfl | exact ⟨rfl, rfl, rfl⟩ | exact Or.inl rfl | exact Or.inr rfl
      · split
        · refine setCol_frame_aux t _ name vals vals ?_ ?_ ?_ (fun _ h => h) <;>
              first | rfl | exact ⟨rfl, rfl, rfl⟩ | exact Or.inl rfl | exact Or.inr rfl
        · split
          · rename_i c _ _ h1
            refine setCol_frame_aux t _ name vals _ ?_ ?_ ?_ (bro c h1) <;>
              first | rfl | exact ⟨rfl, rfl, rfl⟩ | exact Or.inl rfl | exact Or.inr rfl
          · refine setCol_frame_aux t _ name vals [] ?_ ?_ ?_ (by simp) <;>
              first | rfl | exact ⟨rfl, rfl, rfl⟩ | exact Or.inl rfl | exact Or.inr rfl
    · simp only
      split
      · refine setCol_frame_aux t _ name vals vals ?_ ?_ ?_ (fun _ h => h) <;>
              first | rfl | exact ⟨rfl, rfl, rfl⟩ | exact Or.inl rfl | exact Or.inr rfl
      · refine setCol_frame_aux t _ name vals vals ?_ ?_ ?_ (fun _ h => h) <;>
              first | rfl | exact ⟨rfl, rfl, rfl⟩ | exact Or.inl rfl | exact Or.inr rfl

theorem indexCol_of_col (t : Tbl) (c : List Cell) (h : t.col t.index = some c) : t.indexCol = c.map cellStr := by
  unfold Tbl.indexCol; rw [h]

theorem setCell_frame (t : Tbl) (hc : Coherent t) (col : String) (row : Row) (v : Cell) :
    (setCell t col row v).1.index = t.index ∧ SameSeps t (setCell t col row v).1 ∧
    ∀ n ∈ (setCell t col row v).1.indexCol, n ∈ t.indexCol ∨ n ∈ (TOp.setCell col row v).writes t.index := by
  have hk := resolveCellRow_keeps t hc row
  unfold setCell
  cases hcol : t.col col with
  | none => exact ⟨rfl, ⟨rfl, rfl, rfl⟩, fun n hn => Or.inl hn⟩
  | some c =>
    simp only
    generalize resolveCellRow t row = r at hk
    obtain ⟨t1, x⟩ := r
    simp only at hk
    have keep : t1.index = t.index ∧ SameSeps t t1 ∧
        ∀ n ∈ t1.indexCol, n ∈ t.indexCol ∨ n ∈ (TOp.setCell col row v).writes t.index :=
      ⟨hk.2.2.1, hk.sameSeps, fun n hn => Or.inl (hk.indexCol ▸ hn)⟩
    cases x with
    | error e => exact keep
    | ok i =>
      simp only
      cases normPos c.length i with
      | none => exact keep
      | some k =>
        have main : ∀ t' : Tbl, t'.index = t.index → SameSeps t t' →
            t'.data = insertA t.data col (setNth c k v) →
            t'.index = t.index ∧ SameSeps t t' ∧
            ∀ n ∈ t'.indexCol, n ∈ t.indexCol ∨ n ∈ (TOp.setCell col row v).writes t.index := by
          intro t' hi hs hd
          refine ⟨hi, hs, fun n hn => ?_⟩
          rcases mem_indexCol_of t t' col _ hi (Or.inr hd) n hn with h | ⟨hci, h⟩
          · exact Or.inl h
          · obtain ⟨x, hx, rfl⟩ := List.mem_map.mp h
            rcases mem_setNth v x c k hx with hx | hx
            · left
              rw [hci] at hcol
              rw [indexCol_of_col t c hcol]
              exact List.mem_map.mpr ⟨x, hx, rfl⟩
            · right
              simp [TOp.writes, hci, hx]
        by_cases hci : col = t.index
        · simp only [if_pos hci]
          exact main { t1 with data := insertA t1.data col (setNth c k v), cache := none }
            hk.2.2.1 hk.sameSeps (by show insertA t1.data col _ = _; rw [hk.2.1])
        · simp only [if_neg hci]
          exact main { t1 with data := insertA t1.data col (setNth c k v) }
            hk.2.2.1 hk.sameSeps (by show insertA t1.data col _ = _; rw [hk.2.1])

theorem delCol_frame (t : Tbl) (name : String) (hn : name ≠ t.index) :
    (delCol t name).1.index = t.index ∧ SameSeps t (delCol t name).1 ∧
    (delCol t name).1.indexCol = t.indexCol := by
  unfold delCol
  split
  · exact ⟨rfl, ⟨rfl, rfl, rfl⟩, rfl⟩
  · refine ⟨rfl, ⟨rfl, rfl, rfl⟩, ?_⟩
    unfold Tbl.indexCol Tbl.col
    simp only
    rw [lookupA_filter_ne_L name t.index hn]

theorem getCell_keeps (t : Tbl) (h : Coherent t) (c : String) (r : Row) : Keeps t (getCell t c r).1 := by
  have hk := resolveCellRow_keeps t h r
  simp only [getCell]
  split
  · exact Keeps.refl h
  · generalize resolveCellRow t r = x at hk
    obtain ⟨t1, y⟩ := x
    cases y with
    | error e => exact hk
    | ok i => simp only; split <;> exact hk

/-- **one API call**: the index column's name and the separators stay, and every name of the new index column was
    there before or is one the call wrote -/
theorem applyTOp_frame (t : Tbl) (op : TOp) (h : Coherent t) (hdel : ∀ n, op = .delCol n → n ≠ t.index) :
    (applyTOp t op).index = t.index ∧ SameSeps t (applyTOp t op) ∧
    ∀ n ∈ (applyTOp t op).indexCol, n ∈ t.indexCol ∨ n ∈ op.writes t.index := by
  cases op with
  | setCol n v => exact setCol_frame t n v
  | setCell c r v => exact setCell_frame t h c r v
  | delCol n =>
    obtain ⟨h1, h2, h3⟩ := delCol_frame t n (hdel n rfl)
    exact ⟨h1, h2, fun x hx => Or.inl (h3 ▸ hx)⟩
  | getIndex r =>
    have hk := getRowIndex_keeps t h r
    exact ⟨hk.2.2.1, hk.sameSeps, fun x hx => Or.inl (hk.indexCol ▸ hx)⟩
  | getCell c r =>
    have hk := getCell_keeps t h c r
    exact ⟨hk.2.2.1, hk.sameSeps, fun x hx => Or.inl (hk.indexCol ▸ hx)⟩

/-- **histories**: after any sequence of API calls (the index column itself is never deleted) the cache is coherent,
    the separators are the original ones, and every name of the index column is an original one or one that some
    call of the history wrote into the index column -/
theorem history_frame : ∀ (ops : List TOp) (t : Tbl), Coherent t →
    (∀ n, TOp.delCol n ∈ ops → n ≠ t.index) →
    Coherent (ops.foldl applyTOp t) ∧ (ops.foldl applyTOp t).index = t.index ∧ SameSeps t (ops.foldl applyTOp t) ∧
    ∀ n ∈ (ops.foldl applyTOp t).indexCol, n ∈ t.indexCol ∨ ∃ op ∈ ops, n ∈ op.writes t.index
  | [], t, h, _ => ⟨h, rfl, ⟨rfl, rfl, rfl⟩, fun n hn => Or.inl hn⟩
  | op :: ops, t, h, hdel => by
    have hd1 : ∀ n, op = .delCol n → n ≠ t.index := fun n e => hdel n (e ▸ List.mem_cons_self ..)
    have h1 := applyTOp_coherent t op h hd1
    obtain ⟨hi, hs, hm⟩ := applyTOp_frame t op h hd1
    obtain ⟨r1, r2, r3, r4⟩ := history_frame ops (applyTOp t op) h1 (by
      intro n hn
      rw [hi]
      exact hdel n (List.mem_cons_of_mem _ hn))
    refine ⟨r1, r2.trans hi, ⟨r3.1.trans hs.1, r3.2.1.trans hs.2.1, r3.2.2.trans hs.2.2⟩, ?_⟩
    intro n hn
    rcases r4 n hn with h' | ⟨op', hop', h'⟩
    · rcases hm n h' with h'' | h''
      · exact Or.inl h''
      · exact Or.inr ⟨op, List.mem_cons_self, h''⟩
    · rw [hi] at h'
      exact Or.inr ⟨op', List.mem_cons_of_mem _ hop', h'⟩

theorem sepFreeName_congr {t t' : Tbl} (h : SameSeps t t') (n : String) : sepFreeName t' n = sepFreeName t n := by
  unfold sepFreeName; rw [h.1, h.2.1, h.2.2]

theorem strictName_congr {t t' : Tbl} (h : SameSeps t t') (n : String) : strictName t' n = strictName t n := by
  unfold strictName endFreeName; rw [sepFreeName_congr h, h.1, h.2.1, h.2.2]

theorem SepsOK.congr {t t' : Tbl} (h : SameSeps t t') (hs : SepsOK t) : SepsOK t' := by
  obtain ⟨h1, h2, h3⟩ := h
  exact ⟨h1 ▸ hs.neC, h2 ▸ hs.neP, h3 ▸ hs.neN, h2 ▸ hs.numP, h3 ▸ hs.numN,
    by rw [h1, h2]; exact hs.prevCount, by rw [h1, h3]; exact hs.nextCount, by rw [h2, h3]; exact hs.prevNext⟩

/-- **(6) `SepFree` over histories**: it survives every history that writes only separator-free names into the
    index column (writes into other columns, look-ups, deletions of other columns are unrestricted) -/
theorem history_sepFree (ops : List TOp) (t : Tbl) (hc : Coherent t) (hf : SepFree t)
    (hdel : ∀ n, TOp.delCol n ∈ ops → n ≠ t.index)
    (hw : ∀ op ∈ ops, ∀ n ∈ op.writes t.index, sepFreeName t n = true) :
    Coherent (ops.foldl applyTOp t) ∧ SepFree (ops.foldl applyTOp t) := by
  obtain ⟨r1, _, r3, r4⟩ := history_frame ops t hc hdel
  refine ⟨r1, fun n hn => ?_⟩
  rw [← sepFreeName_iff, sepFreeName_congr r3]
  rcases r4 n hn with h | ⟨op, hop, h⟩
  · exact (sepFreeName_iff t n).mpr (hf n h)
  · exact hw op hop n h

/-- **(6) `SepStrict` and `SepsOK` over histories** -/
theorem history_labels (ops : List TOp) (t : Tbl) (hc : Coherent t) (hs : SepsOK t) (hn : SepStrict t)
    (hdel : ∀ n, TOp.delCol n ∈ ops → n ≠ t.index)
    (hw : ∀ op ∈ ops, ∀ n ∈ op.writes t.index, strictName t n = true) :
    Coherent (ops.foldl applyTOp t) ∧ SepsOK (ops.foldl applyTOp t) ∧ SepStrict (ops.foldl applyTOp t) := by
  obtain ⟨r1, _, r3, r4⟩ := history_frame ops t hc hdel
  refine ⟨r1, hs.congr r3, fun n hm => ?_⟩
  rw [strictName_congr r3]
  rcases r4 n hm with h | ⟨op, hop, h⟩
  · exact hn n h
  · exact hw op hop n h

/-- (2) after a history -/
theorem history_getRowIndex_label (ops : List TOp) (t : Tbl) (hc : Coherent t) (hs : SepsOK t)
    (hdel : ∀ n, TOp.delCol n ∈ ops → n ≠ t.index)
    (name : String) (hname : strictName t name = true) (count : Option Int) (o : LOff) :
    (getRowIndex (ops.foldl applyTOp t) (.name (mkLabel (ops.foldl applyTOp t) name count o))).2
      = orKeyError (scanLookup (ops.foldl applyTOp t).indexCol name (count.getD 0) o.val) := by
  obtain ⟨r1, _, r3, _⟩ := history_frame ops t hc hdel
  exact getRowIndex_label _ r1 (hs.congr r3) name (by rw [strictName_congr r3]; exact hname) count o

/-- (3) after a history -/
theorem history_resolveCellRow_name (ops : List TOp) (t : Tbl) (hc : Coherent t) (hf : SepFree t)
    (hdel : ∀ n, TOp.delCol n ∈ ops → n ≠ t.index)
    (hw : ∀ op ∈ ops, ∀ n ∈ op.writes t.index, sepFreeName t n = true) (s : String) :
    (resolveCellRow (ops.foldl applyTOp t) (.name s)).2 = (getRowIndex (ops.foldl applyTOp t) (.name s)).2 := by
  obtain ⟨r1, r2⟩ := history_sepFree ops t hc hf hdel hw
  exact resolveCellRow_name _ r1 r2 s

/-- (4) after a history -/
theorem history_uniqueLabels (ops : List TOp) (t : Tbl) (hc : Coherent t) (hs : SepsOK t) (hn : SepStrict t)
    (hdel : ∀ n, TOp.delCol n ∈ ops → n ≠ t.index)
    (hw : ∀ op ∈ ops, ∀ n ∈ op.writes t.index, strictName t n = true) :
    (uniqueLabels (ops.foldl applyTOp t)).Nodup ∧
    ∀ (i : Nat) (hi : i < (ops.foldl applyTOp t).indexCol.length),
      (getRowIndex (ops.foldl applyTOp t)
        (.name ((uniqueLabels (ops.foldl applyTOp t))[i]'(by rw [uniqueLabels_length]; exact hi)))).2 = .ok (i : Int) := by
  obtain ⟨r1, r2, r3⟩ := history_labels ops t hc hs hn hdel hw
  exact ⟨uniqueLabels_nodup _ r2 r3, fun i hi => uniqueLabels_resolve _ r1 r2 r3 i hi⟩

/-! ## H. examples: the hypotheses are satisfiable; each of them is needed -/

/-- names `a, b, a, c`, default separators -/
def lblExample : Tbl :=
  { index := "name", colNames := ["name", "k"],
    data := [("name", [.str "a", .str "b", .str "a", .str "c"]), ("k", [.int 10, .int 11, .int 12, .int 13])],
    cache := none }

theorem lblExample_coherent : Coherent lblExample := Or.inl rfl
theorem lblExample_sepsOK : SepsOK lblExample := sepsOKB_sound _ (by rfl)
theorem lblExample_strict : SepStrict lblExample := (sepStrictB_iff _).mp (by rfl)
theorem lblExample_sepFree : SepFree lblExample := lblExample_strict.sepFree

/-- the default separators are well-formed, whatever the table -/
theorem sepsOK_default (t : Tbl) (h1 : t.sepCount = "::") (h2 : t.sepPrev = "<<") (h3 : t.sepNext = ">>") : SepsOK t := by
  apply sepsOKB_sound
  unfold sepsOKB
  rw [h1, h2, h3]
  rfl

example : mkLabel lblExample "a" (some 1) .none = "a::1" := by rfl
example : mkLabel lblExample "a" (some (-1)) (.prev 2) = "a::-1<<2" := by rfl
example : mkLabel lblExample "c" none (.next 1) = "c>>1" := by rfl
example : splitNameCountOffset lblExample "a::-1<<2" = .ok ("a", some (-1), -2) := by
  have h := split_label lblExample lblExample_sepsOK "a" (by rfl) (some (-1)) (.prev 2)
  rw [show mkLabel lblExample "a" (some (-1)) (.prev 2) = "a::-1<<2" from by rfl] at h
  exact h
/-- (2) on the example: `'a::1'` is the second `a` (row 2), `'a::-1<<2'` the last `a` moved up two rows -/
example : (getRowIndex lblExample (.name "a::1")).2 = .ok 2 := by rfl
example : (getRowIndex lblExample (.name "a::1")).2 = orKeyError (scanLookup lblExample.indexCol "a" 1 0) :=
  getRowIndex_label lblExample lblExample_coherent lblExample_sepsOK "a" (by rfl) (some 1) .none
example : (getRowIndex lblExample (.name "a::-1<<2")).2 = orKeyError (scanLookup lblExample.indexCol "a" (-1) (-2)) := by
  have h := getRowIndex_label lblExample lblExample_coherent lblExample_sepsOK "a" (by rfl) (some (-1)) (.prev 2)
  rw [show mkLabel lblExample "a" (some (-1)) (.prev 2) = "a::-1<<2" from by rfl] at h
  exact h
example : scanLookup lblExample.indexCol "a" (-1) (-2) = some 0 := by rfl
/-- (3) on the example -/
example : (resolveCellRow lblExample (.name "a::1")).2 = (getRowIndex lblExample (.name "a::1")).2 :=
  resolveCellRow_name lblExample lblExample_coherent lblExample_sepFree "a::1"
example : (getCell lblExample "k" (.name "a::1")).2 = .ok (.int 12) := by rfl
example : (getCell lblExample "k" (.name "a::1")).2 = (getCell lblExample "k" (.pos 2)).2 :=
  getCell_label lblExample lblExample_coherent lblExample_sepsOK lblExample_sepFree "k" "a" (by rfl) (some 1) .none 2 (by rfl)
example : (setCell lblExample "k" (.name "a::1") (.int 99)).2 = (setCell lblExample "k" (.pos 2) (.int 99)).2 ∧
    (setCell lblExample "k" (.name "a::1") (.int 99)).1.data = (setCell lblExample "k" (.pos 2) (.int 99)).1.data :=
  setCell_label lblExample lblExample_coherent lblExample_sepsOK lblExample_sepFree "k" "a" (by rfl) (some 1) .none
    (.int 99) 2 (by rfl)
example : (setCell lblExample "k" (.name "a::1") (.int 99)).1.col "k" = some [.int 10, .int 11, .int 99, .int 13] := by rfl
example : (getRowIndex lblExample (.name "a::1")).2 = (getRowIndex lblExample (.tup "a" 1 (some 0))).2 :=
  getRowIndex_label_tuple lblExample lblExample_coherent lblExample_sepsOK "a" (by rfl) (some 1) .none
/-- (4) on the example -/
example : uniqueLabels lblExample = ["a::0", "b", "a::1", "c"] := by rfl
example : (getRowIndex lblExample (.name "a::1")).2 = .ok ((2 : Nat) : Int) :=
  uniqueLabels_resolve lblExample lblExample_coherent lblExample_sepsOK lblExample_strict 2 (by decide)
example : (uniqueLabels lblExample).Nodup := uniqueLabels_nodup lblExample lblExample_sepsOK lblExample_strict
theorem lblExample_rect : Rect lblExample := by
  refine ⟨by decide, ?_⟩
  intro c hc
  have hc' : c = "name" ∨ c = "k" := by simpa [lblExample] using hc
  rcases hc' with rfl | rfl
  · exact ⟨_, rfl, rfl⟩
  · exact ⟨_, rfl, rfl⟩
example : ∃ h : 3 < (uniqueLabels lblExample).length, (getRowIndex lblExample (.name (uniqueLabels lblExample)[3])).2 = .ok ((3 : Nat) : Int) :=
  uniqueLabels_resolve_rect lblExample lblExample_coherent lblExample_rect lblExample_sepsOK lblExample_strict 3 (by decide)

/-- (6) on the example: rename row 1 to `a` (a clean name), look something up, overwrite another column, drop it -/
def lblHistory : List TOp :=
  [.setCell "name" (.pos 1) (.str "a"), .getIndex (.name "a::2"), .setCol "k" [.int 0], .delCol "k"]

example : (lblHistory.foldl applyTOp lblExample).indexCol = ["a", "a", "a", "c"] := by rfl
example : uniqueLabels (lblHistory.foldl applyTOp lblExample) = ["a::0", "a::1", "a::2", "c"] := by rfl
theorem lblHistory_del : ∀ n, TOp.delCol n ∈ lblHistory → n ≠ lblExample.index := by
  intro n hn
  simp [lblHistory] at hn
  subst hn
  decide

theorem lblHistory_writes : ∀ op ∈ lblHistory, ∀ n ∈ op.writes lblExample.index, strictName lblExample n = true := by
  intro op hop n hn
  simp only [lblHistory, List.mem_cons, List.not_mem_nil, or_false] at hop
  rcases hop with rfl | rfl | rfl | rfl
  · have : n = "a" := by simpa [TOp.writes, lblExample, cellStr] using hn
    subst this; rfl
  · simp [TOp.writes] at hn
  · have hne : ¬ ("k" = lblExample.index) := by decide
    simp [TOp.writes, hne] at hn
  · simp [TOp.writes] at hn

theorem lblHistory_writes_free : ∀ op ∈ lblHistory, ∀ n ∈ op.writes lblExample.index, sepFreeName lblExample n = true := by
  intro op hop n hn
  have := lblHistory_writes op hop n hn
  simp only [strictName, Bool.and_eq_true] at this
  exact this.1

example : Coherent (lblHistory.foldl applyTOp lblExample) ∧ SepsOK (lblHistory.foldl applyTOp lblExample) ∧
    SepStrict (lblHistory.foldl applyTOp lblExample) :=
  history_labels lblHistory lblExample lblExample_coherent lblExample_sepsOK lblExample_strict
    lblHistory_del lblHistory_writes
example : Coherent (lblHistory.foldl applyTOp lblExample) ∧ SepFree (lblHistory.foldl applyTOp lblExample) :=
  history_sepFree lblHistory lblExample lblExample_coherent lblExample_sepFree lblHistory_del lblHistory_writes_free
example : (uniqueLabels (lblHistory.foldl applyTOp lblExample)).Nodup :=
  (history_uniqueLabels lblHistory lblExample lblExample_coherent lblExample_sepsOK lblExample_strict
    lblHistory_del lblHistory_writes).1
example : (getRowIndex (lblHistory.foldl applyTOp lblExample)
      (.name (mkLabel (lblHistory.foldl applyTOp lblExample) "a" (some 2) .none))).2
    = orKeyError (scanLookup (lblHistory.foldl applyTOp lblExample).indexCol "a" 2 0) :=
  history_getRowIndex_label lblHistory lblExample lblExample_coherent lblExample_sepsOK lblHistory_del
    "a" (by rfl) (some 2) .none
example : (getRowIndex (lblHistory.foldl applyTOp lblExample) (.name "a::2")).2 = .ok 2 := by rfl
example : (resolveCellRow (lblHistory.foldl applyTOp lblExample) (.name "a::2")).2
    = (getRowIndex (lblHistory.foldl applyTOp lblExample) (.name "a::2")).2 :=
  history_resolveCellRow_name lblHistory lblExample lblExample_coherent lblExample_sepFree lblHistory_del
    lblHistory_writes_free "a::2"

/-! ### (5) `SepFree` is needed: the reviewer's table, names `a, a::1, a` -/

def lblBad : Tbl :=
  { index := "name", colNames := ["name", "k"],
    data := [("name", [.str "a", .str "a::1", .str "a"]), ("k", [.int 10, .int 11, .int 12])],
    cache := none }

example : Coherent lblBad := Or.inl rfl
example : sepFreeB lblBad = false := by rfl
/-- `rows.get_index('a::1')` parses the string: the second `a`, row 2 … -/
example : (getRowIndex lblBad (.name "a::1")).2 = .ok 2 := by rfl
/-- … but `t[col, 'a::1']` takes the literal label first: row 1 — so (3) fails without `SepFree` -/
example : (resolveCellRow lblBad (.name "a::1")).2 = .ok 1 := by rfl
example : (getCell lblBad "k" (.name "a::1")).2 = .ok (.int 11) := by rfl
/-- the "unique" labels are not unique and resolve to rows 0, 2, 2 — so (4) fails without `SepFree` -/
example : uniqueLabels lblBad = ["a::0", "a::1", "a::1"] := by rfl
example : (uniqueLabels lblBad).map (fun s => (getRowIndex lblBad (.name s)).2) = [.ok 0, .ok 2, .ok 2] := by rfl

/-! ### `SepFree` is not enough for counted labels: names `a:, a:` contain no separator -/

def lblColon : Tbl :=
  { index := "name", colNames := ["name"], data := [("name", [.str "a:", .str "a:"])], cache := none }

example : sepFreeB lblColon = true := by rfl
example : sepStrictB lblColon = false := by rfl
example : uniqueLabels lblColon = ["a:::0", "a:::1"] := by rfl
/-- `'a:::0'.split('::', 1)` is `('a', ':0')`, and `int(':0')` raises -/
example : splitNameCountOffset lblColon "a:::0" = .error .valueError := by rfl
example : (uniqueLabels lblColon).map (fun s => (getRowIndex lblColon (.name s)).2)
    = [.error .valueError, .error .valueError] := by rfl
/-- (3) needs `SepFree` only, so it does hold here -/
example : (resolveCellRow lblColon (.name "a:::0")).2 = (getRowIndex lblColon (.name "a:::0")).2 :=
  resolveCellRow_name lblColon (Or.inl rfl) ((sepFreeB_iff _).mp (by rfl)) "a:::0"

/-! ### `SepStrict` is sufficient, not necessary: names `a<, a<` -/

def lblAngle : Tbl :=
  { index := "name", colNames := ["name"], data := [("name", [.str "a<", .str "a<"])], cache := none }

example : sepStrictB lblAngle = false := by rfl
/-- the counted labels still resolve (`<` is no part of `::`) … -/
example : (uniqueLabels lblAngle).map (fun s => (getRowIndex lblAngle (.name s)).2) = [.ok 0, .ok 1] := by rfl
/-- … but the offset form does not: `'a<' + '<<' + '1'` splits into `('a', '<1')` -/
example : mkLabel lblAngle "a<" none (.prev 1) = "a<<<1" := by rfl
example : (getRowIndex lblAngle (.name "a<<<1")).2 = .error .valueError := by rfl

/-! ### `SepsOK` is needed: with `sepPrev = ":"` (inside `sepCount = "::"`) no counted label parses -/

def lblSeps : Tbl :=
  { index := "name", colNames := ["name"], data := [("name", [.str "a", .str "a"])], cache := none, sepPrev := ":" }

example : sepStrictB lblSeps = true := by rfl
example : sepsOKB lblSeps = false := by rfl
example : (uniqueLabels lblSeps).map (fun s => (getRowIndex lblSeps (.name s)).2)
    = [.error .valueError, .error .valueError] := by rfl

/-! ### surprising but faithful: an EMPTY separator never splits (the code would raise `ValueError: empty separator`) -/
example : splitOnce "abc" "" = none := by rfl

#print axioms split_label
#print axioms getRowIndex_label
#print axioms getRowIndex_label_tuple
#print axioms resolveCellRow_name
#print axioms getCell_label
#print axioms setCell_label
#print axioms uniqueLabels_resolve
#print axioms uniqueLabels_nodup
#print axioms sepFreeB_iff
#print axioms sepFree_iff_infix
#print axioms sepsOKB_iff
#print axioms history_frame
#print axioms history_sepFree
#print axioms history_labels
#print axioms history_getRowIndex_label
#print axioms history_resolveCellRow_name
#print axioms history_uniqueLabels

end TableM
