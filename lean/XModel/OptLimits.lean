import XModel.OptFix
/-!
# C10, first clause: every accepted knob vector lies within the limits

On the control skeleton of `Optimize.step` (`Opt.optStep`): every row appended to the log during the call
— whatever the outcome of the call — and, on normal return, the knobs left in the container, are within the
closed limits of every active knob; the active mask itself is constant during the call.  Together with
`optStep_disabled_fixed` (an inactive knob keeps its value) this gives: starting inside the limits, every logged
row and the final container are inside the limits for all knobs.

What the model does (and what the proofs therefore rest on):

* `writeKnobs c true x` tests `c.inLimits i (c.mulW i (x i))` *before* writing that value, knob by knob; a `.limit`
  exception in the middle leaves the earlier knobs written (all tested) and the later ones untouched
  (`writeKnobs_checked_frame`: every knob is unchanged or within its limits — so a checked merit call started within
  the limits stays within them whatever its outcome, `merit_checked_keeps`);
* `writeKnobs c false x` (Jacobian probes) writes untested values: the container may be outside the limits while the
  probes run, and stays there if the next operation raises (`example`s at the end).  The container claim is therefore
  for the normal return only;
* `addPoint` logs the knobs it *read* (before its own checked evaluation), not the values it wrote: the logged row
  is `k`, the tested vector is `mulW (divW k)`.  For the start row of `step()` one therefore needs either "the start
  knobs are within the limits" or a weight round trip; both are instances of the hypothesis `AddPre` below.  No
  round-trip assumption is needed anywhere else: every other logged row is a copy of a container whose active knobs
  were all written by a successful checked evaluation (or rewritten with the same tested values by
  `setKnobsFromX`), or of a row logged earlier during the call.
-/
namespace Opt

variable {R : Type}

/-- the knobs of `k` that are active in `va` (and are knobs of the optimizer: index `< c.n`) are within their limits -/
def KnobsOK (c : Cfg R) (va : Nat → Bool) (k : Nat → R) : Prop :=
  ∀ j, j < c.n → va j = true → c.inLimits j (k j) = true

/-- the solver point `x` passes the limit test of a checked merit call -/
def XOK (c : Cfg R) (va : Nat → Bool) (x : Nat → R) : Prop :=
  ∀ j, j < c.n → va j = true → c.inLimits j (c.mulW j (x j)) = true

/-- what `addPoint` needs of the knobs it reads: if the re-evaluated value `mulW (divW k)` passes the test then `k`
    itself is within the limits (true when `k` is within the limits, and true under a weight round trip) -/
def AddPre (c : Cfg R) (va : Nat → Bool) (s : St R) : Prop :=
  ∀ j, j < c.n → va j = true → c.inLimits j (c.mulW j (c.divW j (s.knobs j))) = true →
    c.inLimits j (s.knobs j) = true

/-- the invariant, relative to the log length `n` and the active mask `va` at the start of the call: the mask is
    still `va`, and every row logged since has mask `va` and its active knobs within the limits.
    It says nothing about the container: that is the business of the pre/postconditions of `LP`. -/
structure LimInv (c : Cfg R) (va : Nat → Bool) (n : Nat) (s : St R) : Prop where
  vact : s.vAct = va
  rows : ∀ i row, n ≤ i → s.log[i]? = some row → row.vAct = va ∧ KnobsOK c va row.knobs

/-- an operation keeps the invariant whatever its outcome and, started in `P`, establishes `Q` when it returns
    normally -/
def LP (c : Cfg R) (va : Nat → Bool) (n : Nat) (P Q : St R → Prop) {α : Type} (m : M R α) : Prop :=
  ∀ s r s', LimInv c va n s → P s → m s = (r, s') → LimInv c va n s' ∧ (∀ a, r = .ok a → Q s')

section
variable {c : Cfg R} {va : Nat → Bool} {n : Nat}

theorem LimInv.of_eq {s s' : St R} (hi : LimInv c va n s) (hv : s'.vAct = s.vAct) (hl : s'.log = s.log) :
    LimInv c va n s' :=
  ⟨hv.trans hi.vact, by rw [hl]; exact hi.rows⟩

theorem LP.bind {P Q Q' : St R → Prop} {α β : Type} {m : M R α} {f : α → M R β}
    (hm : LP c va n P Q m) (hf : ∀ a, LP c va n Q Q' (f a)) : LP c va n P Q' (bind' m f) := by
  intro s r s' hi hp h
  simp only [bind'] at h
  cases hms : m s with
  | mk r1 s1 =>
    rw [hms] at h
    obtain ⟨i1, q1⟩ := hm s r1 s1 hi hp hms
    cases r1 with
    | error e => simp only at h; cases h; exact ⟨i1, by intro a ha; cases ha⟩
    | ok a => simp only at h; exact hf a s1 r s' i1 (q1 a rfl) h

theorem LP.mono {P P' Q Q' : St R → Prop} {α : Type} {m : M R α} (h : LP c va n P Q m)
    (hp : ∀ s, P' s → P s) (hq : ∀ s, Q s → Q' s) : LP c va n P' Q' m := by
  intro s r s' hi hp' hm
  obtain ⟨a, b⟩ := h s r s' hi (hp s hp') hm
  exact ⟨a, fun x hx => hq s' (b x hx)⟩

theorem LP_pure (P : St R → Prop) {α : Type} (a : α) : LP c va n P P (pure' a : M R α) := by
  intro s r s' hi hp h
  simp only [pure'] at h; cases h; exact ⟨hi, fun _ _ => hp⟩

theorem LP_raise (P Q : St R → Prop) {α : Type} (e : Err) : LP c va n P Q (raise e : M R α) := by
  intro s r s' hi hp h
  simp only [raise] at h; cases h; exact ⟨hi, by intro a ha; cases ha⟩

/-- appending a row whose mask is `va` and whose active knobs are within the limits -/
theorem LimInv_append {s : St R} (hi : LimInv c va n s) (kn : Nat → R) (vr ta : Nat → Bool)
    (hv : vr = va) (hk : KnobsOK c va kn) :
    LimInv c va n { s with log := s.log ++ [⟨kn, vr, ta⟩] } := by
  refine ⟨hi.vact, ?_⟩
  intro i row hn hrow
  simp only at hrow
  by_cases hlt : i < s.log.length
  · rw [List.getElem?_append_left hlt] at hrow
    exact hi.rows i row hn hrow
  · have hge : s.log.length ≤ i := Nat.le_of_not_lt hlt
    rw [List.getElem?_append_right hge] at hrow
    cases hd : i - s.log.length with
    | zero =>
      rw [hd] at hrow
      simp only [List.getElem?_cons_zero, Option.some.injEq] at hrow
      subst hrow
      exact ⟨hv, hk⟩
    | succ d =>
      rw [hd] at hrow
      simp at hrow

end

/-! ### the knob-writing loop with the limit check on -/

/-- a checked knob-writing loop that completes has tested every active knob it wrote -/
theorem writeKnobs_checked_ok (c : Cfg R) (x : Nat → R) (k : Nat) (s s' : St R)
    (h : writeKnobs c true x k s = (.ok (), s')) :
    ∀ i, i < k → s.vAct i = true → c.inLimits i (c.mulW i (x i)) = true := by
  induction k generalizing s' with
  | zero => intro i hi; omega
  | succ k ih =>
    simp only [writeKnobs, bind'] at h
    cases hk : writeKnobs c true x k s with
    | mk r s1 =>
      rw [hk] at h
      cases r with
      | error e => simp at h
      | ok u =>
        have hv := (writeKnobs_spec c true x k s s1 hk).1
        simp only at h
        intro i hi hact
        by_cases hik : i = k
        · subst hik
          rw [← hv] at hact
          simp only [hact, if_true, Bool.true_and] at h
          cases hl : c.inLimits i (c.mulW i (x i)) with
          | true => rfl
          | false => simp [hl] at h
        · exact ih s1 hk i (by omega) hact

/-- **the state when `.limit` is raised in the middle** (and for every other outcome): each knob is either untouched
    or holds a value that passed the limit test -/
theorem writeKnobs_checked_frame (c : Cfg R) (x : Nat → R) (k : Nat) (s : St R) (r : Except Err Unit) (s' : St R)
    (h : writeKnobs c true x k s = (r, s')) :
    ∀ i, s'.knobs i = s.knobs i ∨ c.inLimits i (s'.knobs i) = true := by
  induction k generalizing r s' with
  | zero => simp only [writeKnobs, pure'] at h; cases h; exact fun _ => Or.inl rfl
  | succ k ih =>
    simp only [writeKnobs, bind'] at h
    cases hk : writeKnobs c true x k s with
    | mk r1 s1 =>
      rw [hk] at h
      have a := ih r1 s1 hk
      cases r1 with
      | error e => simp only at h; cases h; exact a
      | ok u =>
        simp only at h
        by_cases ha : s1.vAct k = true
        · simp only [ha, if_true, Bool.true_and] at h
          cases hl : c.inLimits k (c.mulW k (x k)) with
          | false => simp only [hl, Bool.not_false, if_true] at h; cases h; exact a
          | true =>
            simp only [hl, Bool.not_true, Bool.false_eq_true, if_false] at h
            cases h
            intro i
            by_cases hik : i = k
            · subst hik; right; simp [hl]
            · simp only [hik, if_false]; exact a i
        · simp only [ha] at h; cases h; exact a

theorem merit_checked_frame (c : Cfg R) (x : Nat → R) (s : St R) (r : Except Err Unit) (s' : St R)
    (h : merit c true x s = (r, s')) :
    ∀ i, s'.knobs i = s.knobs i ∨ c.inLimits i (s'.knobs i) = true := by
  simp only [merit, bind'] at h
  cases hw : writeKnobs c true x c.n s with
  | mk r1 s1 =>
    rw [hw] at h
    have a := writeKnobs_checked_frame c x c.n s r1 s1 hw
    cases r1 with
    | error e => simp only at h; cases h; exact a
    | ok u =>
      simp only at h
      cases hf : c.f s1.knobs with
      | none => simp only [hf] at h; cases h; exact a
      | some res => simp only [hf] at h; cases h; exact a

/-- a checked merit call started within the limits leaves the container within the limits **whatever its outcome**
    (`.limit` in the middle of the loop, `.user` from the function, or normal return); for any mask -/
theorem merit_checked_keeps (c : Cfg R) (va : Nat → Bool) (x : Nat → R) (s : St R) (r : Except Err Unit) (s' : St R)
    (h0 : KnobsOK c va s.knobs) (h : merit c true x s = (r, s')) : KnobsOK c va s'.knobs := by
  intro j hj ha
  rcases merit_checked_frame c x s r s' h j with e | e
  · rw [e]; exact h0 j hj ha
  · exact e

/-- a checked merit call that returns normally has tested its point -/
theorem merit_checked_xok (c : Cfg R) (x : Nat → R) (s s' : St R) (h : merit c true x s = (.ok (), s')) :
    XOK c s.vAct x := by
  simp only [merit, bind'] at h
  cases hw : writeKnobs c true x c.n s with
  | mk r s1 =>
    rw [hw] at h
    cases r with
    | error e => simp at h
    | ok u => exact fun j hj ha => writeKnobs_checked_ok c x c.n s s1 hw j hj ha

/-! ### one lemma per operation -/

section
variable (c : Cfg R) (va : Nat → Bool) (n : Nat)

/-- any merit call (checked or not) keeps the invariant: it touches neither the masks nor the log -/
theorem LP_merit (check : Bool) (x : Nat → R) :
    LP c va n (fun _ => True) (fun _ => True) (merit c check x) := by
  intro s r s' hi _ h
  obtain ⟨a1, _, a3, _⟩ := merit_frame c check x s r s' h
  exact ⟨hi.of_eq a1 a3, fun _ _ => trivial⟩

/-- a Jacobian probe: nothing is promised about the container -/
theorem LP_merit_unchecked (x : Nat → R) :
    LP c va n (fun _ => True) (fun _ => True) (merit c false x) := LP_merit c va n false x

/-- a checked merit call that returns normally leaves the active knobs within the limits, and its point is tested -/
theorem LP_merit_checked (x : Nat → R) :
    LP c va n (fun _ => True) (fun s => KnobsOK c va s.knobs ∧ XOK c va x ∧ XOK c va s.evalX) (merit c true x) := by
  intro s r s' hi _ h
  refine ⟨(LP_merit c va n true x s r s' hi trivial h).1, ?_⟩
  intro a ha
  subst ha
  have hx := merit_checked_xok c x s s' h
  obtain ⟨coh, ex, hv, _⟩ := merit_coh c true x s s' h
  rw [hi.vact] at hx
  refine ⟨?_, hx, by rw [ex]; exact hx⟩
  intro j hj ha
  rw [coh.img j hj (by rw [hv, hi.vact]; exact ha), ex]
  exact hx j hj ha

theorem LP_meritAll (check : Bool) : ∀ xs : List (Nat → R),
    LP c va n (fun _ => True) (fun _ => True) (meritAll c check xs)
  | [] => LP_pure _ ()
  | x :: xs => LP.bind (LP_merit c va n check x) (fun _ => LP_meritAll check xs)

/-- `add_point_to_log`: the row is the container that was *read*; the container that is left was written by the
    checked evaluation -/
theorem LP_addPoint : LP c va n (AddPre c va) (fun s => KnobsOK c va s.knobs) (addPoint c) := by
  intro s r s' hi hp h
  simp only [addPoint] at h
  cases hm : merit c true (extractX c s) s with
  | mk r1 s1 =>
    rw [hm] at h
    obtain ⟨i1, q1⟩ := LP_merit_checked c va n _ s r1 s1 hi trivial hm
    cases r1 with
    | error e => simp only at h; cases h; exact ⟨i1, by intro a ha; cases ha⟩
    | ok u =>
      simp only at h
      cases h
      obtain ⟨k1, x1, _⟩ := q1 u rfl
      refine ⟨LimInv_append i1 s.knobs s.vAct s.tAct hi.vact ?_, fun _ _ => k1⟩
      intro j hj ha
      exact hp j hj ha (x1 j hj ha)

/-- `reload(i)` of a row logged since the start of the call: no precondition on the container -/
theorem LP_reload (i : Nat) (hn : n ≤ i) :
    LP c va n (fun _ => True) (fun s => KnobsOK c va s.knobs) (reload c i) := by
  intro s r s' hi _ h
  simp only [reload] at h
  cases hl : s.log[i]? with
  | none => simp only [hl] at h; cases h; exact ⟨hi, by intro a ha; cases ha⟩
  | some row =>
    simp only [hl] at h
    obtain ⟨rv, rk⟩ := hi.rows i row hn hl
    exact LP_addPoint c va n { s with knobs := row.knobs, vAct := row.vAct, tAct := row.tAct } r s'
      ⟨rv, hi.rows⟩ (fun j hj ha _ => rk j hj ha) h

/-- `set_knobs_from_x(solver.x)` with a tested `solver.x` -/
theorem LP_setKnobs :
    LP c va n (fun s => XOK c va s.solverX) (fun s => KnobsOK c va s.knobs) (setKnobsFromX c) := by
  intro s r s' hi hp h
  simp only [setKnobsFromX] at h
  cases h
  refine ⟨hi.of_eq rfl rfl, fun _ _ => ?_⟩
  intro j hj ha
  have hact : s.vAct j = true := by rw [hi.vact]; exact ha
  simp only [hj, hact, and_self, if_true]
  exact hp j hj ha

/-- the Jacobian step: on normal return `solver.x` is the last trial point, which passed the limit test.  In between
    (the probes `jac`, evaluated with `check = false`) nothing is known about the container. -/
theorem LP_solverStep (jac trials : List (Nat → R)) (last : Nat → R) (pe : Bool) :
    LP c va n (fun _ => True) (fun s => XOK c va s.solverX) (solverStep c jac trials last pe) := by
  intro s r s' hi hp h
  simp only [solverStep] at h
  refine (LP.bind (Q' := fun s => XOK c va s.solverX) (LP_merit c va n true s.solverX) (fun _ =>
    LP.bind (Q' := fun s => XOK c va s.solverX) (LP_meritAll c va n false jac) (fun _ =>
    LP.bind (Q' := fun s => XOK c va s.solverX) (LP_meritAll c va n true trials) (fun _ =>
    LP.bind (Q' := fun s => XOK c va s.solverX) (LP_merit_checked c va n last) (fun _ => ?_))))) s r s' hi hp h
  by_cases hpe : pe = true
  · simp only [hpe, if_true]
    exact LP.bind ((LP_merit c va n true s.solverX).mono (fun _ _ => trivial) (fun _ h => h))
      (fun _ => LP_raise _ _ .penalty)
  · simp only [hpe, Bool.false_eq_true, if_false]
    intro s1 r1 s1' hi1 hq h1
    cases h1
    exact ⟨hi1.of_eq rfl rfl, fun _ _ => hq.2.1⟩

/-- the early-return variant: one checked evaluation at `solver.x` -/
theorem LP_solverStepEarly :
    LP c va n (fun _ => True) (fun s => XOK c va s.solverX) (solverStepEarly c) := by
  intro s r s' hi hp h
  simp only [solverStepEarly] at h
  obtain ⟨i1, q1⟩ := LP_merit_checked c va n s.solverX s r s' hi trivial h
  refine ⟨i1, ?_⟩
  intro a ha
  subst ha
  have hsx := (merit_coh c true s.solverX s s' h).2.2.2.2.1
  show XOK c va s'.solverX
  rw [hsx]
  exact (q1 () rfl).2.1

theorem LP_optIter (resync early : Bool) (jac trials : List (Nat → R)) (last : Nat → R) (pe : Bool) :
    LP c va n (fun _ => True) (fun s => KnobsOK c va s.knobs) (optIter c resync early jac trials last pe) := by
  unfold optIter
  refine LP.bind (Q := fun _ => True) ?_ (fun _ =>
    LP.bind (Q := fun s => XOK c va s.solverX) ?_ (fun _ =>
    LP.bind (LP_setKnobs c va n) (fun _ => ?_)))
  · intro s r s' hi _ h
    cases h
    refine ⟨?_, fun _ _ => trivial⟩
    by_cases hr : resync = true
    · simp only [hr, if_true]; exact hi.of_eq rfl rfl
    · simp only [hr, Bool.false_eq_true, if_false]; exact hi
  · by_cases he : early = true
    · simp only [he, if_true]
      exact LP_solverStepEarly c va n
    · simp only [he, Bool.false_eq_true, if_false]
      exact LP_solverStep c va n jac trials last pe
  · intro s r s' hi hq h
    cases h
    exact ⟨LimInv_append hi s.knobs s.vAct s.tAct hi.vact hq, fun _ _ => hq⟩

theorem LP_optLoop : ∀ its : List (Iter R),
    LP c va n (fun s => KnobsOK c va s.knobs) (fun s => KnobsOK c va s.knobs) (optLoop c its)
  | [] => LP_pure _ ()
  | it :: rest => by
    simp only [optLoop]
    refine LP.bind ((LP_optIter c va n it.resync it.early it.jac it.trials it.last it.pe).mono
      (fun _ _ => trivial) (fun _ h => h)) (fun _ => ?_)
    intro s r s' hi hq h
    by_cases hw : s.lastWithin = true
    · simp only [hw, if_true] at h; cases h; exact ⟨hi, fun _ _ => hq⟩
    · simp only [hw] at h
      exact LP_optLoop rest s r s' hi hq h

/-- `Optimize.step` with `take_best` pointing at a row logged during the call -/
theorem LP_optStep (its : List (Iter R)) (tb : Option Nat) (htb : ∀ i, tb = some i → n ≤ i) :
    LP c va n (AddPre c va) (fun s => KnobsOK c va s.knobs) (optStep c its tb) := by
  unfold optStep
  refine LP.bind (LP_addPoint c va n) (fun _ => LP.bind (LP_optLoop c va n its) (fun _ => ?_))
  intro s1 r1 s1' hi1 hq h1
  cases tb with
  | none => simp only at h1; cases h1; exact ⟨hi1, fun _ _ => hq⟩
  | some i =>
    simp only at h1
    by_cases hw : s1.lastWithin = true
    · simp only [hw, if_true] at h1; cases h1; exact ⟨hi1, fun _ _ => hq⟩
    · simp only [hw] at h1
      exact LP_reload c va n i (htb i rfl) s1 r1 s1' hi1 trivial h1

end

/-! ### the theorems -/

/-- the general form, with the weakest start hypothesis the model needs (`AddPre`: for the start row, which records
    the knobs *read* by `addPoint` while the limit test is made on `mulW (divW k)`) -/
theorem optStep_rows_within_limits_gen (c : Cfg R) (its : List (Iter R)) (tb : Option Nat) (s s' : St R)
    (r : Except Err Unit) (hstart : AddPre c s.vAct s)
    (htb : ∀ i, tb = some i → s.log.length ≤ i)
    (h : optStep c its tb s = (r, s')) :
    s'.vAct = s.vAct ∧
    (∀ i row, s.log.length ≤ i → s'.log[i]? = some row →
      row.vAct = s.vAct ∧ ∀ j, j < c.n → row.vAct j = true → c.inLimits j (row.knobs j) = true) ∧
    (r = .ok () → ∀ j, j < c.n → s'.vAct j = true → c.inLimits j (s'.knobs j) = true) := by
  have hi : LimInv c s.vAct s.log.length s := ⟨rfl, by
    intro i row hn hrow
    have : s.log[i]? = none := List.getElem?_eq_none hn
    rw [this] at hrow; cases hrow⟩
  obtain ⟨i1, q1⟩ := LP_optStep c s.vAct s.log.length its tb htb s r s' hi hstart h
  refine ⟨i1.vact, ?_, ?_⟩
  · intro i row hn hrow
    obtain ⟨rv, rk⟩ := i1.rows i row hn hrow
    exact ⟨rv, fun j hj ha => rk j hj (by rw [← rv]; exact ha)⟩
  · intro hr j hj ha
    exact q1 () hr j hj (by rw [← i1.vact]; exact ha)

/-- **C10, first clause, active knobs.**  If the active knobs are within their limits when `step()` starts and
    `take_best` picks a row logged during the call, then — whatever the numerics evaluate — the active mask never
    changes, every row appended to the log (**whatever the outcome**: normal return or any exception) has that mask
    and its active knobs within the limits, and on **normal return** the active knobs left in the container are
    within the limits.  No assumption on the weights (`mulW`/`divW`). -/
theorem optStep_rows_within_limits (c : Cfg R) (its : List (Iter R)) (tb : Option Nat) (s s' : St R)
    (r : Except Err Unit)
    (hstart : ∀ j, j < c.n → s.vAct j = true → c.inLimits j (s.knobs j) = true)
    (htb : ∀ i, tb = some i → s.log.length ≤ i)
    (h : optStep c its tb s = (r, s')) :
    s'.vAct = s.vAct ∧
    (∀ i row, s.log.length ≤ i → s'.log[i]? = some row →
      row.vAct = s.vAct ∧ ∀ j, j < c.n → row.vAct j = true → c.inLimits j (row.knobs j) = true) ∧
    (r = .ok () → ∀ j, j < c.n → s'.vAct j = true → c.inLimits j (s'.knobs j) = true) :=
  optStep_rows_within_limits_gen c its tb s s' r (fun j hj ha _ => hstart j hj ha) htb h

/-- the same with a weight round trip on the start knobs *instead of* the start hypothesis: a start point outside the
    limits is then refused by the first evaluation (`.limit`), and nothing is logged -/
theorem optStep_rows_within_limits_of_roundtrip (c : Cfg R) (its : List (Iter R)) (tb : Option Nat) (s s' : St R)
    (r : Except Err Unit)
    (hrt : ∀ j, j < c.n → s.vAct j = true → c.mulW j (c.divW j (s.knobs j)) = s.knobs j)
    (htb : ∀ i, tb = some i → s.log.length ≤ i)
    (h : optStep c its tb s = (r, s')) :
    s'.vAct = s.vAct ∧
    (∀ i row, s.log.length ≤ i → s'.log[i]? = some row →
      row.vAct = s.vAct ∧ ∀ j, j < c.n → row.vAct j = true → c.inLimits j (row.knobs j) = true) ∧
    (r = .ok () → ∀ j, j < c.n → s'.vAct j = true → c.inLimits j (s'.knobs j) = true) :=
  optStep_rows_within_limits_gen c its tb s s' r
    (fun j hj ha ht => by rw [hrt j hj ha] at ht; exact ht) htb h

/-- **C10, first clause, all knobs.**  Starting with every knob within its limits: every row appended to the log
    (whatever the outcome) and, on normal return, the container are within the limits for every knob — the active
    ones by `optStep_rows_within_limits`, the inactive ones because they keep their start value
    (`optStep_disabled_fixed`). -/
theorem optStep_all_within_limits (c : Cfg R) (its : List (Iter R)) (tb : Option Nat) (s s' : St R)
    (r : Except Err Unit)
    (hall : ∀ j, j < c.n → c.inLimits j (s.knobs j) = true)
    (htb : ∀ i, tb = some i → s.log.length ≤ i)
    (h : optStep c its tb s = (r, s')) :
    (∀ i row, s.log.length ≤ i → s'.log[i]? = some row →
      ∀ j, j < c.n → c.inLimits j (row.knobs j) = true ∧ (s.vAct j = false → row.knobs j = s.knobs j)) ∧
    (r = .ok () → ∀ j, j < c.n → c.inLimits j (s'.knobs j) = true) ∧
    (∀ j, s.vAct j = false → s'.knobs j = s.knobs j) := by
  obtain ⟨hv, hrows, hcont⟩ :=
    optStep_rows_within_limits c its tb s s' r (fun j hj _ => hall j hj) htb h
  refine ⟨?_, ?_, ?_⟩
  · intro i row hn hrow j hj
    obtain ⟨rv, rk⟩ := hrows i row hn hrow
    cases ha : s.vAct j with
    | true => exact ⟨rk j hj (by rw [rv]; exact ha), fun hf => by cases hf⟩
    | false =>
      have hfix := ((optStep_disabled_fixed c its tb j s s' r ha htb h).2.2 i row hn hrow).1
      exact ⟨by rw [hfix]; exact hall j hj, fun _ => hfix⟩
  · intro hr j hj
    cases ha : s.vAct j with
    | true => exact hcont hr j hj (by rw [hv]; exact ha)
    | false =>
      rw [(optStep_disabled_fixed c its tb j s s' r ha htb h).1]
      exact hall j hj
  · intro j ha
    exact (optStep_disabled_fixed c its tb j s s' r ha htb h).1

/-- a failing `take_best` reload (of a row logged during the call) still leaves the container within the limits: the
    row's values are within the limits and the checked re-evaluation only overwrites them with tested values -/
theorem reload_keeps_limits (c : Cfg R) (va : Nat → Bool) (n i : Nat) (hn : n ≤ i) (s : St R)
    (r : Except Err Unit) (s' : St R) (hi : LimInv c va n s) (hlen : i < s.log.length)
    (h : reload c i s = (r, s')) : KnobsOK c va s'.knobs := by
  simp only [reload] at h
  cases hl : s.log[i]? with
  | none =>
    have := List.getElem?_eq_none_iff.mp hl
    omega
  | some row =>
    simp only [hl, addPoint] at h
    obtain ⟨_, rk⟩ := hi.rows i row hn hl
    generalize hs0 : ({ s with knobs := row.knobs, vAct := row.vAct, tAct := row.tAct } : St R) = s0 at h
    have hk0 : KnobsOK c va s0.knobs := by rw [← hs0]; exact rk
    cases hm : merit c true (extractX c s0) s0 with
    | mk r1 s1 =>
      rw [hm] at h
      have k1 := merit_checked_keeps c va _ s0 r1 s1 hk0 hm
      cases r1 with
      | error e => simp only at h; cases h; exact k1
      | ok u => simp only at h; cases h; exact k1

#print axioms optStep_rows_within_limits_gen
#print axioms optStep_rows_within_limits
#print axioms optStep_rows_within_limits_of_roundtrip
#print axioms optStep_all_within_limits
#print axioms merit_checked_keeps
#print axioms reload_keeps_limits

/-! ### concrete instances -/

namespace LimitsExample

/-- two knobs with limits `[-10, 10]`, unit weights; the user's function raises iff `bad` holds of the container -/
def cfg (bad : (Nat → Int) → Bool) (divW : Nat → Int → Int := fun _ k => k) : Cfg Int where
  n := 2
  mulW := fun _ x => x
  divW := divW
  inLimits := fun _ v => decide (-10 ≤ v ∧ v ≤ 10)
  f := fun k => if bad k then none else some (fun _ => 0)
  within := fun _ _ => false
  assertWithinTol := false
  restoreIfFail := false

def st0 (k0 k1 : Int) (va : Nat → Bool) (log : List (Row Int)) : St Int where
  knobs := fun j => if j = 0 then k0 else k1
  vAct := va
  tAct := fun _ => true
  solverX := fun _ => 0
  lastWithin := false
  log := log
  evalX := fun _ => 0
  evalKnobs := fun _ => 0
  evalTAct := fun _ => true

/-- one iteration: a Jacobian probe at 11 (outside the limits, evaluated without the check), a bisection trial at 5,
    the accepted point 3 -/
def it1 : Iter Int := ⟨true, false, [fun _ => 11], [fun _ => 5], fun _ => 3, false⟩

def isOk (r : Except Err Unit) : Bool := match r with | .ok _ => true | .error _ => false
def errOf (r : Except Err Unit) : Option Err := match r with | .ok _ => none | .error e => some e

def good : Cfg Int := cfg (fun _ => false)
def s0 : St Int := st0 1 (-2) (fun _ => true) []

/-- the run: normal return, two rows (the start point and the accepted point), container at the accepted point -/
example : isOk (optStep good [it1] none s0).1 = true ∧
    (optStep good [it1] none s0).2.log.map (fun row => (row.knobs 0, row.knobs 1)) = [(1, -2), (3, 3)] ∧
    ((optStep good [it1] none s0).2.knobs 0, (optStep good [it1] none s0).2.knobs 1) = (3, 3) := by
  decide +kernel

theorem pair_eta {α β : Type} (p : α × β) : p = (p.1, p.2) := by cases p; rfl

/-- the hypotheses of the theorem hold for it, so its conclusion applies -/
example : ∀ (i : Nat) (row : Row Int), (optStep good [it1] none s0).2.log[i]? = some row →
    ∀ j, j < 2 → good.inLimits j (row.knobs j) = true := by
  intro i row hrow j hj
  have hall : ∀ j, j < good.n → good.inLimits j (s0.knobs j) = true := by
    intro j hj
    have : j = 0 ∨ j = 1 := by simp only [good, cfg] at hj; omega
    rcases this with rfl | rfl <;> decide +kernel
  exact ((optStep_all_within_limits good [it1] none s0 (optStep good [it1] none s0).2 (optStep good [it1] none s0).1
    hall (by intro i hi; cases hi) (pair_eta _)).1 i row (Nat.zero_le _) hrow j hj).1

/-- **the container claim is for normal return only** (1): the user's function raises on the Jacobian probe, which
    has written 11 (outside the limits) without the check; `step()` raises `.user` and the container stays at 11.
    The log holds the start row only, which is within the limits. -/
def raisesOnProbe : Cfg Int := cfg (fun k => decide (k 0 > 10))

example : errOf (optStep raisesOnProbe [it1] none s0).1 = some .user ∧
    (optStep raisesOnProbe [it1] none s0).2.knobs 0 = 11 ∧
    raisesOnProbe.inLimits 0 ((optStep raisesOnProbe [it1] none s0).2.knobs 0) = false ∧
    (optStep raisesOnProbe [it1] none s0).2.log.map (fun row => (row.knobs 0, row.knobs 1)) = [(1, -2)] := by
  decide +kernel

/-- (2): the probe writes 11 in both knobs; the next *checked* trial (5, 12) writes knob 0 (tested) and raises `.limit`
    on knob 1, which keeps the probe's value 11 -/
def it2 : Iter Int := ⟨true, false, [fun _ => 11], [fun j => if j = 0 then 5 else 12], fun _ => 3, false⟩

example : errOf (optStep good [it2] none s0).1 = some .limit ∧
    ((optStep good [it2] none s0).2.knobs 0, (optStep good [it2] none s0).2.knobs 1) = (5, 11) ∧
    good.inLimits 1 ((optStep good [it2] none s0).2.knobs 1) = false := by
  decide +kernel

/-- **the start hypothesis is needed** when the weights do not round-trip: with `divW = 0` the start row records the
    knob that was read (50, outside the limits) although the checked evaluation (at `mulW (divW 50) = 0`) succeeded -/
def noRoundTrip : Cfg Int := cfg (fun _ => false) (fun _ _ => 0)

example : isOk (optStep noRoundTrip [] none (st0 50 0 (fun _ => true) [])).1 = true ∧
    (optStep noRoundTrip [] none (st0 50 0 (fun _ => true) [])).2.log.map (fun row => row.knobs 0) = [50] ∧
    noRoundTrip.inLimits 0 50 = false := by
  decide +kernel

/-- **`take_best` must point at a row logged during the call** for the all-knobs statement (and for the mask to stay
    constant): an older row with knob 1 disabled at 100 is reloaded — all its knobs are written into the container —
    and copied to the log, on a normal return -/
def oldRow : Row Int := ⟨fun _ => 100, fun _ => false, fun _ => true⟩
def s1 : St Int := st0 1 2 (fun j => decide (j = 0)) [oldRow]

example : isOk (optStep good [] (some 0) s1).1 = true ∧
    (optStep good [] (some 0) s1).2.knobs 1 = 100 ∧
    (optStep good [] (some 0) s1).2.log.map (fun row => row.knobs 1) = [100, 2, 100] ∧
    (optStep good [] (some 0) s1).2.vAct 0 = false := by
  decide +kernel

end LimitsExample

end Opt
